#!/usr/bin/env python3
"""Regenerate /verif/MANIFEST.json from lib/props.py (claimed checks) + NOT_APPLICABLE."""
import json, os, sys
sys.path.insert(0, os.path.dirname(os.path.abspath(__file__)))
import props
V = os.path.dirname(os.path.dirname(os.path.abspath(__file__)))
ids = [json.loads(l)["id"] for l in open(os.path.join(V, "properties.jsonl"))]
claimed = set(open(os.path.join(V, "lib", "claimed.txt")).read().split())
checks = []
for pid in ids:
    if pid not in props.PROPS or pid not in claimed:
        continue
    s = props.PROPS[pid]
    checks.append({
        "property_id": pid,
        "quick_cmd": "bin/check %s --tier quick" % pid,
        "thorough_cmd": "bin/check %s --tier thorough" % pid,
        "evidence_file": "evidence/%s.json" % pid,
        "replay_cmd_template": "bin/check %s --replay {path}" % pid,
        "engine": "mc-explorer",
        "level_claimed": {"category": s["level"], "text": s["claim"], "design_ref": "DESIGN.md section 3, " + pid},
        "level_note": s["note"],
        "technique": s["technique"],
    })
na = [{"property_id": p, "reason": props.NOT_APPLICABLE.get(p, "check not built yet in this revision; see DESIGN.md section 3 for the planned exploration")}
      for p in ids if p not in props.PROPS or p not in claimed]
m = {
    "version": 1,
    "setup_cmd": "bin/check --setup",
    "hooks": {
        "guard": "TINS_VERIF",
        "enable": "no source hooks: checks compile /repo's working tree themselves with sanitizer / sancov flags and read private state through -fno-access-control in harness TUs only",
        "baseline_off_cmd": "cmake --build /repo/_build && cmake --build /repo/_build --target tests && ctest --test-dir /repo/_build -j8 --timeout 900",
        "source_commits": [],
        "add_only": True,
    },
    "engines": [{"name": "mc-explorer", "path": "mc/", "serves_properties": [c["property_id"] for c in checks],
                 "kind_free_text": "hand-written explicit-state BFS / deviation-bounded exhaustive enumerators / preemption-bounded scheduler running the real libtins code under ASan+UBSan, reference models in lock-step"}],
    "checks": checks,
    "not_applicable": na,
    "notes": "All checks rebuild libtins from /repo's working tree (cache keyed on a hash of src/ and include/). Known findings: known_findings.txt.",
}
json.dump(m, open(os.path.join(V, "MANIFEST.json"), "w"), indent=1)
print("MANIFEST.json: %d checks, %d not_applicable" % (len(checks), len(na)))
