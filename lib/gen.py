#!/usr/bin/env python3
"""Tables generated from the CURRENT libtins headers (DESIGN.md 2.2).

    generate(outdir, include_dirs) -> writes the tables into outdir.  Called by lib/verif.ensure_gen() (stage key "gen": True
                    of a spec) under that function's lock, once per tree hash; outdir = build/t_<treehash>/gen is put on the
                    harness include path by lib/verif.build_harness(gen_inc=...).
    ensure_gen() -> stand-alone use (python3 lib/gen.py): same directory, (re)generated when missing or when this script changed.

Generated today:
    tins_all_headers.inc   #include lines for every header below include/tins
    classes.inc   every class / class template of namespace Tins that derives from Tins::PDU, as X-macro rows
                  (see the header comment written into the file).  Used by C13 (and usable by C12).

How: one translation unit that #includes EVERY header below <repo>/include/tins (not only tins.h, so that a class
whose header was forgotten in tins.h is still seen) is dumped with clang's JSON AST dumper restricted to
namespace Tins; the class facts (bases, abstractness, constructors with their access, the pdu_flag member) are read
from the AST, nothing is pattern-matched on source text.  Run as a script it prints the table:
    python3 lib/gen.py [--print]
"""
import fcntl
import glob
import hashlib
import json
import os
import subprocess
import sys

sys.path.insert(0, os.path.dirname(os.path.abspath(__file__)))
import verif as V  # noqa: E402  (read-only use: REPO, CXX, tree_dir(), include_dir())

GEN_VERSION = "3"


def _self_hash():
    with open(os.path.abspath(__file__), "rb") as f:
        return hashlib.sha1(f.read() + GEN_VERSION.encode()).hexdigest()[:16]


# ------------------------------------------------------------------ AST extraction

def _all_headers_tu(path):
    inc = os.path.join(V.REPO, "include")
    hs = sorted(os.path.relpath(h, inc) for h in glob.glob(os.path.join(inc, "tins", "**", "*.h"), recursive=True))
    with open(path, "w") as f:
        for h in hs:
            f.write("#include <%s>\n" % h)
    return hs


def _ast_docs(tu, include_dirs):
    incs = [x for i in include_dirs for x in ("-I", i)]
    cmd = [V.CXX, "-std=c++11", "-fsyntax-only", "-DTINS_STATIC", "-Xclang", "-ast-dump=json", "-Xclang",
           "-ast-dump-filter=Tins"] + incs + [tu]
    p = subprocess.run(cmd, stdout=subprocess.PIPE, stderr=subprocess.PIPE)
    if p.returncode != 0:
        sys.stderr.write(p.stderr.decode("utf-8", "replace")[-4000:])
        raise SystemExit("BUILD-ERROR: gen: the all-headers translation unit does not compile against the current tree")
    s = p.stdout.decode("utf-8", "replace")
    dec = json.JSONDecoder()
    i, n, docs = 0, len(s), []
    while i < n:
        while i < n and s[i].isspace():
            i += 1
        if i >= n:
            break
        if s[i] != "{":                       # "Dumping Tins::x:" separator lines
            j = s.find("\n", i)
            i = j + 1 if j >= 0 else n
            continue
        o, i = dec.raw_decode(s, i)
        docs.append(o)
    return docs


def _norm(q):
    """qualType of a base specifier -> fully qualified class name inside Tins"""
    q = q.strip()
    for pre in ("class ", "struct "):
        if q.startswith(pre):
            q = q[len(pre):]
    return q


def _ctor_facts(rec, qual):
    """(default ctor public?, buffer ctor public?, any public non-copy/move ctor?, copy ctor usable?, other public ctor signatures)"""
    access = "private" if rec.get("tagUsed") == "class" else "public"
    dd = rec.get("definitionData", {})
    user_ctor = False
    defc = bufc = anypub = False
    copy_deleted = False
    others = []
    short = qual.split("::")[-1]
    for c in rec.get("inner", []):
        k = c.get("kind")
        if k == "AccessSpecDecl":
            access = c.get("access", access)
            continue
        is_tmpl = k == "FunctionTemplateDecl"
        if is_tmpl:
            cs = [x for x in c.get("inner", []) if x.get("kind") == "CXXConstructorDecl"]
            if not cs:
                continue
            c = cs[0]
            k = "CXXConstructorDecl"
        if k != "CXXConstructorDecl":
            continue
        params = [x for x in c.get("inner", []) if x.get("kind") == "ParmVarDecl"]
        ptypes = [x.get("type", {}).get("qualType", "") for x in params]
        dtypes = [x.get("type", {}).get("desugaredQualType", x.get("type", {}).get("qualType", "")) for x in params]
        is_copy_move = False
        if len(params) == 1:
            bare = ptypes[0].replace("const ", "").replace("Tins::", "").replace(" ", "")
            if bare.endswith("&"):
                is_copy_move = bare.rstrip("&") in (short, qual.replace("Tins::", ""))
        if c.get("isImplicit"):
            if is_copy_move and c.get("explicitlyDeleted"):
                copy_deleted = copy_deleted or "&&" not in ptypes[0]
            continue
        if is_copy_move:
            if "&&" not in ptypes[0] and (c.get("explicitlyDeleted") or access != "public"):
                copy_deleted = True
            continue
        user_ctor = True
        if c.get("explicitlyDeleted") or access != "public":
            continue
        anypub = True
        required = [x for x in params if "init" not in x]
        if not required:
            defc = True
        if not is_tmpl and len(params) >= 2 and len([x for x in params[2:] if "init" not in x]) == 0:
            a, b = dtypes[0].replace(" ", ""), dtypes[1].replace(" ", "")
            if a in ("constuint8_t*", "constunsignedchar*") or ptypes[0].replace(" ", "") == "constuint8_t*":
                if b in ("unsignedint", "uint32_t"):
                    bufc = True
                    continue
        if required:
            others.append(c.get("type", {}).get("qualType", "?"))
    if not user_ctor:
        ok = dd.get("defaultCtor", {}).get("exists", False) or dd.get("defaultCtor", {}).get("needsImplicit", False)
        if ok:
            defc = anypub = True
    if dd.get("copyCtor", {}).get("defaultedIsDeleted"):
        copy_deleted = True
    return defc, bufc, anypub, not copy_deleted, others


def _const_value(node):
    """value of an enumerator's initializer, if it has one"""
    for c in node.get("inner", []):
        if "value" in c and c.get("kind") in ("ConstantExpr", "IntegerLiteral"):
            try:
                return int(c["value"])
            except ValueError:
                return None
        v = _const_value(c)
        if v is not None:
            return v
    return None


_INT_BITS = {"bool": ("B", 1), "unsigned char": ("U", 8), "signed char": ("U", 8), "char": ("U", 8), "unsigned short": ("U", 16),
             "short": ("U", 16), "unsigned int": ("U", 32), "int": ("U", 32), "unsigned long": ("U", 64), "long": ("U", 64),
             "unsigned long long": ("U", 64), "long long": ("U", 64)}


def _setters(rec, enums):
    """public non-static `void name(A)` members whose A is a small value type that could steer how the object identifies
    itself: integers, bool, Tins::small_uint<N>, enums.  Names with more than one such overload (or a template of that name)
    are left out: the harness takes `&C::name` and lets the compiler pick the one-argument void overload."""
    access = "private" if rec.get("tagUsed") == "class" else "public"
    cands, names = [], {}
    for c in rec.get("inner", []):
        k = c.get("kind")
        if k == "AccessSpecDecl":
            access = c.get("access", access)
            continue
        if k == "FunctionTemplateDecl":
            names[c.get("name")] = names.get(c.get("name"), 0) + 2
            continue
        if k != "CXXMethodDecl" or c.get("isImplicit"):
            continue
        nm = c.get("name", "")
        qt = c.get("type", {}).get("qualType", "")
        params = [x for x in c.get("inner", []) if x.get("kind") == "ParmVarDecl"]
        if not qt.startswith("void (") or qt.rstrip().endswith("const") or len(params) != 1:
            continue
        names[nm] = names.get(nm, 0) + 1
        if access != "public" or c.get("storageClass") == "static" or c.get("explicitlyDeleted") or nm.startswith("operator"):
            continue
        t = params[0].get("type", {})
        d = t.get("desugaredQualType", t.get("qualType", "")).replace("const ", "").strip()
        if d.endswith("&") or d.endswith("*"):
            continue
        kind = None
        if d in _INT_BITS:
            kind = _INT_BITS[d]
        elif d.startswith("Tins::small_uint<") and d.endswith(">"):
            try:
                kind = ("S", int(d[len("Tins::small_uint<"):-1]))
            except ValueError:
                kind = None
        else:
            e = d[5:] if d.startswith("enum ") else d
            if e in enums and enums[e][0] >= 0:
                kind = ("E", max(1, enums[e][1].bit_length()))
        if kind:
            cands.append({"name": nm, "kind": kind[0], "bits": kind[1], "arg": d})
    return [c for c in cands if names.get(c["name"], 0) == 1]


_CONTAINER = ("std::vector<", "std::list<", "std::deque<", "std::map<", "std::basic_string<", "std::__cxx11::basic_string<")


def _bare(t):
    """parameter / return type without const and reference"""
    t = t.strip()
    while t.endswith("&"):
        t = t[:-1].strip()
    if t.startswith("const "):
        t = t[6:]
    return t.strip()


def _empties(rec, typedefs):
    """ways to put an object into an EMPTY state, read from the class declaration:
       ctors   public constructors that take a container / string / iterator pair / (pointer, length) -> can be given nothing
       setters public `void name(const Container&)`                                                      -> can be given an empty one
       clears  public non-const `Container& name()`                                                      -> .clear()"""
    access = "private" if rec.get("tagUsed") == "class" else "public"
    ctors, setters, clears = [], [], []

    def under(t):
        """underlying type of a (possibly typedef'd) written type"""
        t = _bare(t)
        for _ in range(8):
            if t in typedefs:
                t = _bare(typedefs[t])
            else:
                break
        return "std::basic_string<char>" if t == "std::string" else t

    def spellable(w):
        w = _bare(w)
        return "," not in w and (w.startswith("Tins::") or w == "std::string")

    for c in rec.get("inner", []):
        k = c.get("kind")
        if k == "AccessSpecDecl":
            access = c.get("access", access)
            continue
        if access != "public":
            continue
        if k == "FunctionTemplateDecl":
            tps = [x.get("name") for x in c.get("inner", []) if x.get("kind") == "TemplateTypeParmDecl"]
            for m in c.get("inner", []):
                if m.get("kind") == "CXXConstructorDecl":
                    ps = [x.get("type", {}).get("qualType", "") for x in m.get("inner", []) if x.get("kind") == "ParmVarDecl"]
                    if len(ps) == 2 and ps[0] == ps[1] and ps[0] in tps:
                        ctors.append(("IT", "int"))
            continue
        if c.get("isImplicit") or c.get("explicitlyDeleted"):
            continue
        params = [x for x in c.get("inner", []) if x.get("kind") == "ParmVarDecl"]
        req = [x for x in params if "init" not in x]
        if k == "CXXConstructorDecl":
            if len(params) >= 1 and len(req) <= 1:
                t = params[0].get("type", {})
                w = t.get("qualType", "")
                d = under(t.get("desugaredQualType", w))
                if not w.rstrip().endswith("&&") and d.startswith(_CONTAINER) and spellable(w):
                    ctors.append(("STR" if "basic_string" in d else "VEC", _bare(w)))
        elif k == "CXXMethodDecl" and c.get("storageClass") != "static" and not c.get("name", "").startswith("operator"):
            ft = c.get("type", {})
            qt, dqt = ft.get("qualType", ""), ft.get("desugaredQualType", ft.get("qualType", ""))
            if qt.startswith("void (") and not qt.rstrip().endswith("const") and len(params) == 1:
                t = params[0].get("type", {})
                w = t.get("qualType", "")
                d = under(t.get("desugaredQualType", w))
                if not w.rstrip().endswith("&&") and d.startswith(_CONTAINER) and spellable(w):
                    setters.append((c["name"], _bare(w)))
            elif not params and qt.rstrip().endswith("&()") and not qt.startswith("const "):
                ret = dqt[:dqt.rfind("(")].strip()
                if ret.endswith("&") and not ret.startswith("const ") and under(ret).startswith(_CONTAINER):
                    clears.append(c["name"])
    uniq = lambda l: [x for i, x in enumerate(l) if x not in l[:i]]  # noqa: E731
    return {"ctors": uniq(ctors), "setters": uniq(setters), "clears": uniq(clears)}


def extract(gd, include_dirs):
    """-> dict(classes=[...], templates=[...], flags=[...], headers=[...])"""
    os.makedirs(gd, exist_ok=True)
    tu = os.path.join(gd, "all_headers.cpp")
    headers = _all_headers_tu(tu)
    docs = _ast_docs(tu, include_dirs)

    recs = {}        # qualified name -> record node (complete definition)
    templates = {}   # qualified name -> templated record node
    flags = []
    order = []
    enums = {}       # qualified enum name -> (min, max) enumerator value
    typedefs = {}    # qualified member typedef -> underlying type

    def file_of(node, cur):
        loc = node.get("loc", {})
        for l in (loc, loc.get("expansionLoc", {}), loc.get("spellingLoc", {})):
            if "file" in l:
                return l["file"]
        return cur

    def walk(node, scope):
        k = node.get("kind")
        if k == "NamespaceDecl":
            nm = node.get("name")
            sc = scope + [nm] if nm else scope
            for c in node.get("inner", []):
                walk(c, sc)
        elif k == "CXXRecordDecl":
            if node.get("isImplicit") or not node.get("name"):
                return
            q = "::".join(scope + [node["name"]])
            if node.get("completeDefinition"):
                if q not in recs:
                    order.append(q)
                recs[q] = node
                for c in node.get("inner", []):
                    if c.get("kind") in ("CXXRecordDecl", "ClassTemplateDecl", "EnumDecl"):
                        walk(c, scope + [node["name"]])
                    elif c.get("kind") in ("TypedefDecl", "TypeAliasDecl") and c.get("name"):
                        tt = c.get("type", {})
                        typedefs[q + "::" + c["name"]] = tt.get("desugaredQualType", tt.get("qualType", ""))
        elif k == "ClassTemplateDecl":
            q = "::".join(scope + [node.get("name", "?")])
            for c in node.get("inner", []):
                if c.get("kind") == "CXXRecordDecl" and c.get("completeDefinition"):
                    templates[q] = c
        elif k == "EnumDecl":
            eq = "::".join(scope + [node.get("name", "")])
            lo = hi = prev = None
            for c in node.get("inner", []):
                if c.get("kind") != "EnumConstantDecl":
                    continue
                v = _const_value(c)
                if v is None:
                    v = 0 if prev is None else prev + 1
                prev = v
                lo = v if lo is None else min(lo, v)
                hi = v if hi is None else max(hi, v)
                if eq == "Tins::PDU::PDUType":
                    flags.append(c["name"])
            if node.get("name") and hi is not None:
                enums[eq] = (lo, hi)

    for d in docs:
        if d.get("kind") == "NamespaceDecl" and d.get("name") == "Tins":
            walk(d, [])

    def bases_of(node, q):
        out = []
        scope = q.split("::")[:-1]
        for b in node.get("bases", []):
            t = b.get("type", {})
            name = _norm(t.get("desugaredQualType", t.get("qualType", "")))
            cand = [name] + ["::".join(scope[:i] + [name]) for i in range(len(scope), 0, -1)]
            hit = next((c for c in cand if c in recs), None)
            out.append((hit or name, b.get("access", "public"), bool(b.get("isVirtual"))))
        return out

    ROOT = "Tins::PDU"
    memo = {}

    def derives(q):
        if q == ROOT:
            return True
        if q in memo:
            return memo[q]
        memo[q] = False
        node = recs.get(q)
        r = False
        if node is not None:
            r = any(derives(b) for b, _, _ in bases_of(node, q))
        memo[q] = r
        return r

    def own_flag(node):
        for c in node.get("inner", []):
            if c.get("kind") == "VarDecl" and c.get("name") == "pdu_flag":
                for e in c.get("inner", []):
                    rd = e.get("referencedDecl") or {}
                    if rd.get("kind") == "EnumConstantDecl":
                        return rd.get("name")
                    # look one level down (implicit casts)
                    for e2 in e.get("inner", []):
                        rd = e2.get("referencedDecl") or {}
                        if rd.get("kind") == "EnumConstantDecl":
                            return rd.get("name")
                return "?"
        return None

    def flag_of(q):
        node = recs.get(q)
        if node is None:
            return None
        f = own_flag(node)
        if f:
            return f
        for b, _, _ in bases_of(node, q):
            f = flag_of(b)
            if f:
                return f
        return None

    classes = []
    for q in order:
        if q == ROOT or not derives(q):
            continue
        node = recs[q]
        dd = node.get("definitionData", {})
        defc, bufc, anypub, copyable, others = _ctor_facts(node, q)
        abstract = bool(dd.get("isAbstract"))
        own = own_flag(node)
        flag = own or flag_of(q)
        bs = bases_of(node, q)
        classes.append({
            "name": q, "id": q.replace("Tins::", "").replace("::", "_"),
            "abstract": abstract, "defctor": defc, "bufctor": bufc, "public_ctor": anypub, "copyable": copyable,
            "other_ctors": others, "own_flag": own, "flag": flag,
            "bases": [b for b, acc, _ in bs if derives(b)],
            "nonpublic_pdu_base": any(acc != "public" for b, acc, _ in bs if derives(b)),
            "setters": _setters(node, enums),
            "empties": _empties(node, typedefs),
        })
    tmpls = []
    for q, node in sorted(templates.items()):
        bs = [_norm(b.get("type", {}).get("qualType", "")) for b in node.get("bases", [])]
        bs = [b if b.startswith("Tins::") else "Tins::" + b for b in bs]
        if any(b == ROOT or memo.get(b) or derives(b) for b in bs):
            tmpls.append({"name": q, "id": q.replace("Tins::", "").replace("::", "_")})
    return {"classes": classes, "templates": tmpls, "flags": flags, "headers": headers}


# ------------------------------------------------------------------ classes.inc

HEADER = """// GENERATED by /verif/lib/gen.py from the headers of the tree being checked -- do not edit, do not commit.
// Every class of namespace Tins deriving from Tins::PDU, read from clang's AST of a TU including all %d headers.
//
//   TINS_PDU_CLASS(Q, ID, ABSTRACT, PUBCTOR, DEFCTOR, BUFCTOR, FLAGGED)
//        Q        fully qualified class          ID       identifier-safe name
//        ABSTRACT 1 = has pure virtuals          PUBCTOR  1 = a public constructor other than copy/move exists
//        DEFCTOR  1 = public default constructor (possibly through default arguments)
//        BUFCTOR  1 = public K(const uint8_t*, uint32_t)
//        FLAGGED  1 = K::pdu_flag names something (declared by K or inherited): find_pdu<K>() compiles
//   TINS_PDU_CONCRETE(Q, ID, DEFCTOR, BUFCTOR)  the rows with ABSTRACT=0, PUBCTOR=1: what a user can instantiate
//   TINS_PDU_FLAGGED(Q, ID)                     the rows with FLAGGED=1: what a user can ask find_pdu/tins_cast for
//   TINS_PDU_CACHEABLE(Q, ID)                   concrete, flagged, public default + copy constructor: PDUCacher<Q> is usable
//   TINS_PDU_BASE(Q, ID, QB, IDB)               QB is a direct base class of Q (both derive from PDU or QB is PDU)
//   TINS_PDU_TEMPLATE(ID)                       a class TEMPLATE deriving from PDU (its instances are not listed above)
//   TINS_PDU_FLAGNAME(NAME)                     every enumerator of PDU::PDUType
//   TINS_PDU_SETTER(Q, ID, DQ, NAME, KIND, BITS) for every CONCRETE, default-constructible Q: a public `void DQ::NAME(A)` declared by Q or
//                                               one of its PDU bases DQ whose argument is a small value type: KIND U = integer of BITS bits,
//                                               B = bool, S = Tins::small_uint<BITS>, E = enum whose enumerators need BITS bits
//   TINS_PDU_SLICE(Q, ID, QB, IDB)              Q concrete, QB a (transitive) public PDU base of Q that is not abstract and has a usable copy
//                                               constructor: `QB x(q)` (slicing copy), `x = q`, ... are legal
//   TINS_PDU_EMPTY_CTOR(Q, ID, KIND, ARG)       Q concrete with a public constructor that can be handed NOTHING: KIND B0 = (const uint8_t*, uint32_t)
//                                               with length 0, STR = string, VEC = container of type ARG, IT = iterator pair (template)
//   TINS_PDU_EMPTY_SETTER(Q, ID, DQ, NAME, ARG) Q concrete; public `void DQ::NAME(const ARG&)`, ARG a container or string (DQ = Q or a PDU base)
//   TINS_PDU_CLEARABLE(Q, ID, DQ, NAME)         Q concrete; public non-const `Container& DQ::NAME()` (the caller can .clear() it)
// Undefined macros expand to nothing.
"""

MACROS = ["TINS_PDU_CLASS", "TINS_PDU_CONCRETE", "TINS_PDU_FLAGGED", "TINS_PDU_CACHEABLE", "TINS_PDU_BASE",
          "TINS_PDU_TEMPLATE", "TINS_PDU_FLAGNAME", "TINS_PDU_SETTER", "TINS_PDU_SLICE", "TINS_PDU_EMPTY_CTOR",
          "TINS_PDU_EMPTY_SETTER", "TINS_PDU_CLEARABLE"]


def render(t):
    o = [HEADER % len(t["headers"])]
    for m in MACROS:
        o.append("#ifndef %s\n#define %s(...)\n#define %s_DEFAULTED_\n#endif\n" % (m, m, m))
    b = lambda x: "1" if x else "0"  # noqa: E731
    ids = {c["name"]: c["id"] for c in t["classes"]}
    ids["Tins::PDU"] = "PDU"
    for c in t["classes"]:
        o.append("TINS_PDU_CLASS(%s, %s, %s, %s, %s, %s, %s)\n" % (c["name"], c["id"], b(c["abstract"]), b(c["public_ctor"]),
                                                                  b(c["defctor"]), b(c["bufctor"]), b(c["flag"])))
    for c in t["classes"]:
        if not c["abstract"] and c["public_ctor"]:
            o.append("TINS_PDU_CONCRETE(%s, %s, %s, %s)\n" % (c["name"], c["id"], b(c["defctor"]), b(c["bufctor"])))
    for c in t["classes"]:
        if c["flag"]:
            o.append("TINS_PDU_FLAGGED(%s, %s)\n" % (c["name"], c["id"]))
    for c in t["classes"]:
        if not c["abstract"] and c["public_ctor"] and c["defctor"] and c["copyable"] and c["flag"]:
            o.append("TINS_PDU_CACHEABLE(%s, %s)\n" % (c["name"], c["id"]))
    for c in t["classes"]:
        for bq in c["bases"]:
            o.append("TINS_PDU_BASE(%s, %s, %s, %s)\n" % (c["name"], c["id"], bq, ids.get(bq, bq.replace("Tins::", "").replace("::", "_"))))
    for tp in t["templates"]:
        o.append("TINS_PDU_TEMPLATE(%s)\n" % tp["id"])
    for f in t["flags"]:
        o.append("TINS_PDU_FLAGNAME(%s)\n" % f)
    byname = {c["name"]: c for c in t["classes"]}

    def lineage(q, seen):
        if q in seen or q not in byname:
            return []
        seen.add(q)
        out = [q]
        for bq in byname[q]["bases"]:
            out += lineage(bq, seen)
        return out

    for c in t["classes"]:
        if c["abstract"] or not c["public_ctor"] or not c["defctor"] or c["nonpublic_pdu_base"]:
            continue
        for dq in lineage(c["name"], set()):
            for st in byname[dq]["setters"]:
                o.append("TINS_PDU_SETTER(%s, %s, %s, %s, %s, %d)\n" % (c["name"], c["id"], dq, st["name"], st["kind"], st["bits"]))
    for c in t["classes"]:
        if c["abstract"] or not c["public_ctor"] or c["nonpublic_pdu_base"]:
            continue
        for bq in lineage(c["name"], set())[1:]:
            bc = byname[bq]
            if not bc["abstract"] and bc["copyable"] and not bc["nonpublic_pdu_base"]:
                o.append("TINS_PDU_SLICE(%s, %s, %s, %s)\n" % (c["name"], c["id"], bq, bc["id"]))
    for c in t["classes"]:
        if c["abstract"] or not c["public_ctor"] or c["nonpublic_pdu_base"]:
            continue
        if c["bufctor"]:
            o.append("TINS_PDU_EMPTY_CTOR(%s, %s, B0, int)\n" % (c["name"], c["id"]))
        for kind, arg in c["empties"]["ctors"]:
            o.append("TINS_PDU_EMPTY_CTOR(%s, %s, %s, %s)\n" % (c["name"], c["id"], kind, arg))
        for dq in lineage(c["name"], set()):
            for nm, arg in byname[dq]["empties"]["setters"]:
                o.append("TINS_PDU_EMPTY_SETTER(%s, %s, %s, %s, %s)\n" % (c["name"], c["id"], dq, nm, arg))
            for nm in byname[dq]["empties"]["clears"]:
                o.append("TINS_PDU_CLEARABLE(%s, %s, %s, %s)\n" % (c["name"], c["id"], dq, nm))
    for m in MACROS:
        o.append("#ifdef %s_DEFAULTED_\n#undef %s\n#undef %s_DEFAULTED_\n#endif\n" % (m, m, m))
    return "".join(o)


# ------------------------------------------------------------------ entry point

def generate(outdir, include_dirs=None):
    """Write classes.inc, tins_all_headers.inc, classes.json into outdir (no locking: the caller serializes)."""
    t = extract(outdir, include_dirs or V.include_dir())
    if not t["classes"] or not t["flags"]:
        raise SystemExit("BUILD-ERROR: gen: no class deriving from Tins::PDU / no PDUType enumerator found in the headers")
    hdrs = "// GENERATED by /verif/lib/gen.py: every header below include/tins of the tree being checked\n" + \
        "".join("#include <%s>\n" % h for h in t["headers"])
    for name, text in (("classes.inc", render(t)), ("tins_all_headers.inc", hdrs),
                       ("classes.json", json.dumps(t, indent=1, sort_keys=True)), (".classes_stamp", _self_hash())):
        tmp = os.path.join(outdir, name + ".tmp%d" % os.getpid())
        with open(tmp, "w") as f:
            f.write(text)
        os.rename(tmp, os.path.join(outdir, name))
    V.log("generated classes.inc: %d PDU classes (%d concrete), %d templates, %d flags" % (
        len(t["classes"]), sum(1 for c in t["classes"] if not c["abstract"] and c["public_ctor"]), len(t["templates"]), len(t["flags"])))
    return {"classes": len(t["classes"]), "templates": len(t["templates"]), "flags": len(t["flags"])}


def ensure_gen():
    """Stand-alone: make sure build/t_<treehash>/gen/classes.inc exists and was written by this version of the script."""
    gd = os.path.join(V.tree_dir(), "gen")
    os.makedirs(gd, exist_ok=True)

    def fresh():
        try:
            with open(os.path.join(gd, ".classes_stamp")) as f:
                return f.read().strip() == _self_hash() and os.path.exists(os.path.join(gd, "classes.inc"))
        except OSError:
            return False

    if not fresh():
        with open(os.path.join(gd, ".lock"), "w") as lk:
            fcntl.flock(lk, fcntl.LOCK_EX)          # same lock file as lib/verif.ensure_gen()
            if not fresh():
                generate(gd, V.include_dir())
    return gd


if __name__ == "__main__":
    d = ensure_gen()
    if "--print" in sys.argv:
        sys.stdout.write(open(os.path.join(d, "classes.inc")).read())
    else:
        print(d)
