"""check specification for C04 (loaded by lib/props.py)"""

SPEC = {
    "level": "model_checking",
    "stages": [{"name": "main", "harness": "C04_api_wire.cpp", "config": "san", "gen": True,
                "deadline": {"quick": 1200, "thorough": 3000}}],
    "technique": "explicit-state BFS per layer class over the generated setter alphabet with a shadow getter model and a wire round trip in every state",
    "rule": ("one BFS per concrete layer class (47 classes); alphabet = every generated (setter, argument sample) of the class and its bases "
             "(typed option encoders with every sample of their generated argument domain: each struct field at its boundaries, vectors of length "
             "0,1,2,3,9), plus raw add_option (3 types x lengths 0/3/9) and remove_option (first / second option) on the option-carrying classes; "
             "depth 2 quick / 3 thorough with the sample set narrowing with depth (all, 2, 1); states deduplicated on the full getter snapshot x shadow "
             "model. Further variants: IPv6 with add_header/search_header (data sizes 6, 7, 15, 22; also pre-loaded with three headers of different types), ICMP error messages carrying an RFC 4884 extension structure + quoted datagram + length octet, roots pre-loaded with raw options of which two consecutive ones exceed PDUOption's 8-byte inline buffer with different sizes, 300-byte blobs for the two formats with 16-bit option lengths (DHCPv6, PPPoE), an MLDv2 report pre-loaded with a record of 300 bytes of auxiliary data followed by a second record, and a BFS to fixpoint over RTP's CSRC / extension lists (add/remove with repeated identifiers, lists <= 3) against two plain lists. Before any edit: two default objects built over differently pre-filled memory have equal getters and equal serializations. On every transition: a rejected call leaves the object unchanged; getter after setter returns the argument (first matching option for "
             "additive setters); no unrelated getter moves; every earlier value is still returned; and in every state serialize() of the object parsed "
             "back by its own class gives the same getter snapshot except derived fields. distinct_nontrivial = states with a non-empty shadow model."),
    "claim": "Every setter of every class with every argument sample, and all ordered pairs (triples in thorough) of them, are executed against the shadow model and sent through the wire.",
    "note": "Trusted: generated argument domains (mc/domain.hpp), alias groups, derived-field table; application layers are re-parsed with the class that was built.",
    "assumptions": ["arguments outside the generated domains (e.g. vectors longer than 9 elements) are not reached",
                    "after a remove_option the first-match bookkeeping restarts; the wire round trip remains the oracle"],
}
