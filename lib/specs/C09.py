"""check specification for C09 (loaded by lib/props.py)"""

SPEC = {
    "level": "model_checking",
    "stages": [{"name": "main", "harness": "C09_wifi_decrypt.cpp", "config": "san",
                "deadline": {"quick": 900, "thorough": 3000}}],
    "technique": ("explicit-state BFS to fixpoint over four-way-handshake histories on the real WPA2Decrypter with a lock-step validity "
                  "model, plus exhaustive enumeration of frames encrypted by an independent implementation (own RC4/CRC-32/TKIP "
                  "mixing/Michael, OpenSSL CCM, own PBKDF2/PRF on HMAC) and of hostile protected-frame bodies"),
    "rule": ("(1) handshakes, jobs 32..: per configuration (CCMP | TKIP) x (passphrase+SSID only | +BSSID registered) x (EAPOL in Data | QoS Data "
             "frames) x (station/BSSID address order and ANonce/SNonce order, both ways) [thorough: x 2 alphabet shapes] a BFS TO FIXPOINT over the "
             "real WPA2Decrypter (copied per state, PBKDF2 done once) x model; events = messages 1-4 of station A, their retransmitted copies "
             "(replay counter bumped, MIC recomputed), messages 1-4 of a SECOND handshake generation of A (fresh ANonce/SNonce, hence another "
             "PTK: re-association / rekey), messages 1-4 of station B, the AP's beacon, a protected data frame of A under PTK1, under PTK2, of B "
             "(thorough shape 1: + B's retransmissions, a foreign AP's beacon, a beacon without SSID; shape 2: + a second generation and its "
             "data frame for B). Model per station: message 1 starts a run when there is none, the current one is complete or it belongs to the "
             "other generation (an unfinished handshake may be abandoned); inside a run numbers are non-decreasing without gaps, duplicates "
             "allowed; anything else, or a message >= 2 of the other generation, spoils the run; message 4 completing an unspoilt run while the "
             "AP is known makes THAT generation's PTK the required one (the most recently completed valid handshake); when a run is spoilt and a "
             "generation other than the required one is involved the requirement becomes undetermined until a later clean completion. After "
             "EVERY transition the probe frames (each station x generation x ToDS/FromDS under the reference PTK, plus one under a PTK from a "
             "wrong passphrase; outcomes computed once per distinct canonical implementation state) are judged: a frame reported decrypted "
             "must equal its plaintext and be unmarked, one not decrypted must stay marked, the foreign-key frame never decrypts, an "
             "unprotected event frame is never reported decrypted, and where a generation is required: its frames decrypt in both "
             "directions, get_keys() holds the station's pair with PTK = that generation's reference PRF-512 (KCK|KEK|TK[|MIC keys]) and the "
             "right cipher; frames under the other generation's PTK are not judged. "
             "(2) frames, jobs 0-31: cipher in {WEP-40, WEP-104, TKIP, CCMP} x ToDS/FromDS (4 forms, 4-address with addr4) x QoS "
             "(none, TID 0/5/15) x 2 address sets x EVERY plaintext length 0..48 (thorough 0..100, 255..257, 1500, 2304) x 3 (thorough 5) "
             "key/IV/PN/sequence/payload patterns: built as bytes in an exact-size heap buffer (freed before decrypt), Dot11::from_bytes, "
             "WEPDecrypter / WPA2Decrypter::decrypt with the key registered through add_password / add_decryption_keys; oracle: true, "
             "Protected bit cleared, inner SNAP header + children = plaintext (lengths < 8 are no LLC/SNAP payload: only 'not wrongly "
             "decrypted'); same frame with the peer station's own key also registered (ToDS/FromDS); negative space: one key bit wrong, only "
             "another station's key, EVERY single-octet corruption of the protected body (1 flip value quick, 2 thorough; octets no receiver "
             "can authenticate - key-id, WEPSeed, CCMP reserved - excluded), for CCMP every address octet of the AAD: never reported decrypted, "
             "still marked protected. Hostile bodies: every header variant x body length 0..64, 2399, 2400 (thorough ..130) x 4 fills (00, ff, "
             "pseudo-random, truncation of a valid frame) with the matching key registered, in a forked child per batch: no sanitizer report, "
             "no crash. (3) histories on ONE decrypter object, 8 jobs: BFS TO FIXPOINT over the operations of a single object x a last-write "
             "model of what is registered. WEPDecrypter (4 configurations: DS form of the decrypt events x BSSID order): add_password(bssid "
             "0/1, key of 5 / 13 / another 13 octets), remove_password(bssid 0/1), decrypt(frame for bssid b under key k); canon includes the "
             "private scratch key buffer. WPA2Decrypter (4 configurations: Data/QoS Data x station order): add_decryption_keys(pair 0/1, CCMP / "
             "TKIP / another CCMP key set, replacing), add_ap_data(psk, ssid) for network 0, add_ap_data(psk, ssid, bssid) for network 1, each "
             "network's beacon, each pair's complete four-way handshake (its keys replace the pair's keys when the network is known). After "
             "EVERY operation every frame of the family (bssid/pair x every key it could be protected with x ToDS/FromDS; for WEP on a copy "
             "of the object, one after the other) is presented: it decrypts to its plaintext IFF the key currently registered for its "
             "BSSID / pair is the one it was encrypted with, otherwise it is not reported decrypted and stays marked. (4) ordered "
             "pairs, last 4 jobs ({CCMP, TKIP} x {Data, QoS Data}): value relations inside one handshake. 37 (ANonce, SNonce) pairs = equal "
             "everywhere except at ONE octet position p in {0, 1, 15, 16, 17, 30, 31} with values 7f/80 (sign boundary) and 00/ff, in both "
             "orders; 8 pairs differing at two positions with contradicting orders ((0,31), (15,16), (16,31), (1,17): the first difference "
             "decides); the equal pair; x 25 (BSSID, station) address pairs = equal except at one octet q in 0..5, same values and both "
             "orders, and the equal pair; full cross product. Per case on a copy of a decrypter knowing passphrase + SSID: beacon of the case's "
             "BSSID, handshake generation 1, then generation 2 with the relation at the same position reversed; after each generation "
             "get_keys() must hold PTK = reference PRF-512 over min|max addresses and min|max nonces (own memcmp-ordered derivation) and a ToDS "
             "and a FromDS data frame encrypted by the reference side under that PTK must decrypt exactly. distinct_nontrivial = distinct product states holding keys or >= 2 handshake messages + distinct decrypted frames."),
    "claim": ("Every history over the event alphabet is covered per configuration (the product state space is finite and explored to fixpoint; "
              "depth of the deepest new state is reported as max_depth), so every valid ordering with duplicates and every interleaving with the "
              "other station, beacons and data frames is checked, and every invalid ordering is checked for wrong decryptions. The frame family "
              "is enumerated completely and the single-object operation histories of part 3 are explored to fixpoint; the ordered-pairs product is enumerated completely (exhaustive:true)."),
    "note": ("Trusted: sanitizers; OpenSSL's CCM, HMAC-SHA1/MD5 and AES; the reference encryptors, which are validated at start-up against the "
             "published vectors (802.11-2012 annex M TKIP mixing vectors 1-4, CCMP vector, Michael chain, PBKDF2 'password'/'IEEE', PRF-512, "
             "RC4, CRC-32). Bounds: two stations, one AP, one handshake instance per station (retransmissions keep their nonces), unicast "
             "only, order/retry/power-management/more-data bits 0, key id 0 for pairwise ciphers. Not judged: the Michael MIC (libtins checks "
             "the TKIP ICV only; evidence records tkip_frame_with_wrong_michael_mic_accepted), what a failed decryption leaves in the frame "
             "body, libtins exceptions for decrypted payloads shorter than a SNAP header. For the ToDS=FromDS forms 802.11 names no "
             "BSSID/AP, so the key is registered under every address (pair) a caller could mean."),
    "assumptions": ["handshake validity = per station and handshake run non-decreasing message numbers, each at least once, duplicates allowed (DESIGN appendix C); a run starts at a message 1 and may be abandoned for a new one",
                    "the keys in force are those of the most recently completed valid handshake; nothing positive is required while messages of two generations are mixed invalidly",
                    "keys are expected only when the AP is known (beacon seen or BSSID registered) at the moment message 4 completes the handshake",
                    "matching key for ToDS / FromDS frames = the (station, BSSID) pair; retry, power-management, more-data and order bits are 0",
                    "plaintext payloads start with an LLC/SNAP header whose ethertype libtins has no parser for, or carry a well-formed IPv4/UDP datagram",
                    "sanitizers: ASan+UBSan (alignment and null checks off)"],
}
