"""check specification for C19 (loaded by lib/props.py)"""

SPEC = {
    "level": "model_checking",
    "stages": [{"name": "main", "harness": "C19_acktracker.cpp", "config": "san",
                "deadline": {"quick": 300, "thorough": 2400}}],
    "technique": "explicit-state BFS to fixpoint over the implementation with lock-step reference model",
    "rule": ("BFS to fixpoint over (conforming receiver model) x (real AckTracker, standalone fed with parsed IP/TCP packets and "
             "inside Flow with ACK tracking); events: segment i of N 3-byte segments arrives at the receiver, which emits an ACK "
             "with its cumulative ACK and ANY subset (<= 3 quick / 4 thorough) of its out-of-order blocks as SACK option, delivered "
             "or lost; one BFS per ISN, wrap point at every byte offset of the stream; in every state: ack_number = model, "
             "acked_intervals as byte set = model SACKed bytes above the ACK, and is_segment_acked = model for EVERY query "
             "(seq in [ISN-3, ISN+3N+3], len 0..3N+4). Besides the 3-byte-segment configurations: one-byte segments (a hole of exactly one byte at "
             "the cumulative ACK) and a WIDE configuration (N = 8 quick / 9 thorough one-byte segments, 4 blocks per ACK allowed, two ISNs) - four "
             "disjoint out-of-order blocks only exist from N = 8 on, so only there an ACK carries a full 4-block SACK option. On every delivered packet, for every segment: the same is_segment_acked query asked "
             "immediately before and after the packet on a copy of the tracker (an answer remembered inside the tracker must not survive the packet). distinct_nontrivial = product states with >= 1 SACKed byte."),
    "claim": ("All reachable product states of receiver x tracker for N segments are visited (finite, fixpoint), every ACK/SACK "
              "choice a conforming receiver could make is a branch, and the full query grid is compared in each state."),
    "note": "Trusted: sanitizers, the reference model (bitmask of SACKed bytes); bound: N segments, ISN set, no ACK reordering (property premise).",
    "assumptions": ["receiver is conforming: cumulative ACK monotone, SACK blocks truthful and strictly above it",
                    "ACK packets may be lost but are not reordered",
                    "sanitizers: ASan+UBSan (alignment check off)"],
}
