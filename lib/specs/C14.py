"""check specification for C14 (loaded by lib/props.py)"""

SPEC = {
    "level": "exploration",
    "stages": [{"name": "main", "harness": "C14_matches.cpp", "config": "san", "gen": True,
                "deadline": {"quick": 600, "thorough": 2700}}],
    "technique": "deviation-bounded exhaustive input enumeration on the real matchers under ASan+UBSan, independently built mirror as oracle",
    "rule": ("FUNCTIONAL: requests over 30 stacks = {EthernetII, EthernetII/Dot1Q, bare} x {IPv4: TCP, UDP+payload, ICMP echo, ICMP timestamp, "
             "ICMP address-mask, DNS/UDP; IPv6: TCP, UDP+payload, ICMPv6 echo, DNS/UDP}; seven field groups with boundary value sets: "
             "(source,destination) MAC pairs 6x9 incl. addresses one byte apart, broadcast, multicast; VLAN id x priority/CFI 16; "
             "(source,destination) IPv4 pairs 8x11 / IPv6 pairs 8x12 incl. one-byte neighbours, broadcast, multicast; all 25 pairs over "
             "ports {0,1,53,0x100,0xffff} resp. id/sequence {0,1,0xff,0xff00,0xffff}; 5 DNS ids; 1-3 payload lengths; 3 network header variants (IPv4: no options / stream-id = 24-byte header / NOOP + record-route = 32; "
             "IPv6: none / destination-options 8 bytes / hop-by-hop 8 + destination-options 16; the mirror carries the same). EVERY request that "
             "deviates from the base request in <= 1 group (full sets), in 2 groups (quick: reduced sets of 6-12 values, thorough: full sets) "
             "and, thorough only, in 3 groups (reduced sets) is built with libtins and serialized (as send_recv does before matching). "
             "mirror(r) is built from the request DESCRIPTOR, field by field (addresses/ports swapped, reply type, same id/sequence/DNS id "
             "with QR set, same VLAN id; TTL, IP id, TCP numbers, UDP payload, DNS answer differ), serialized, self-checked against the RFC "
             "offsets. Oracle on every request: matches_response(mirror) = true; for every byte of every matched field (link and network "
             "reply source/destination, VLAN id bits, transport ports, ICMP/ICMPv6 reply type, identifier, sequence, DNS id) and each of "
             "the 255 other values (for the VLAN id: each value that changes the 12 id bits) matches_response = false, EXCEPT reply-source "
             "fields of a layer whose request destination class is exempt in the explicit reference table (link: I/G-bit group addresses incl. "
             "broadcast; IPv4: 255.255.255.255 only, plus reply destination for source 0.0.0.0 -> 255.255.255.255; IPv6: ff02::/16 only) where "
             "every one of those perturbations must be ACCEPTED (match:exempt-class-reply-rejected otherwise) -- both directions are judged, so a "
             "class joining or leaving the exempt set is reported; request address classes enumerated: MAC {unicast, fe:ff.., broadcast, 01:00:5e.., "
             "33:33.., 01:80:c2.., 03:..}, IPv4 destinations {unicast, x.y.z.255, 255.255.255.0, 223.255.255.255, 224.0.0.0, 224.0.0.1, "
             "239.255.255.255, 240.0.0.1, 255.255.255.254, 255.255.255.255, 127.0.0.1, 0.0.0.0} and source 0.0.0.0 (under link layers), IPv6 "
             "destinations {global, fe80::1, fe02::, feff::1, fec0::1, ::1, ::, ff00::, ff01::1, ff02::, ff02::1, ff02::1:ff00:1, ff02:ffff..ffff, ff03::1, "
             "ff05::2, ff0e::1, ff0f::1, ff12::1} and source ::; for IPv4 requests additionally 144 "
             "ICMP errors (types 3/11/12) whose outer source AND destination differ from the mirror and whose quoted header differs from "
             "the request's must not match. All buffers are exact-size malloc blocks. "
             "SAFETY: every concrete PDU class (50 default-constructible classes incl. all Dot11 frames and PKTAP, each as default object and "
             "with a RawPDU child, plus RawPDU, PPI, PDUCacher<EthernetII>, PDUCacher<IP>), branch-steering variants (ICMP/ICMPv6 query kinds, DHCPv6 relay, broadcast / ff02 destinations, IP options, "
             "QinQ, ARP, DHCP, DHCPv6, Loopback, SLL, RadioTap/Dot11) and the base request of all 30 stacks x every buffer length 0..128 x "
             "{zeros, ones, each reply seed (mirror, own wire image, ICMP destination-unreachable quoting the request, mirror with two IPv6 "
             "extension headers, ARP/DHCP/DHCPv6/NA replies) truncated or zero-padded to that length, and that buffer with each byte in a "
             "16-byte (thorough: 24-byte) window after every layer start replaced by each of 35 boundary values (thorough: all 255)}; "
             "oracle: no ASan/UBSan report, no SIGSEGV/SIGBUS (caught per call), only libtins exceptions, allocation ledger unchanged. "
             "MINIMAL MIRRORS: 127 paths = every stack over roots {bare, EthernetII, EthernetII/Dot1Q, Dot1Q, Loopback} x {IPv4: TCP, UDP, ICMP echo / "
             "timestamp / address-mask, UDP/DNS (request with / without question), UDP/BootP (236 and 300 bytes), UDP/DHCP (answered by a 236-byte "
             "BOOTP reply and by a minimal DHCP message); IPv6: TCP, UDP, ICMPv6 echo, UDP/DNS, UDP/DHCPv6} with every layer in minimal form, "
             "every non-empty prefix of each (truncated stacks: link only, link/network only, .../UDP with a header-only reply), EthernetII/ARP, "
             "Dot3, RadioTap, and every matcher class called directly on a bare object; reply = exactly the sum of the RFC minimal header sizes "
             "(padding stripped, self-checked), the same + 1 trailing byte (00 and ff), and as serialized under padding roots: all must be "
             "accepted; every proper prefix of every minimal reply: safety oracle only. OBLIGATION from the generated class table (classes.inc x "
             "compile-time test of which class declares matches_response): every concrete class with an own matcher must be the last reply "
             "layer of at least one case with 0 and with 1 byte behind it (else harness:minimal-mirror-missing). "
             "CALL HISTORY: the first thing every job (process) does: the base request of every (stack, header variant) (90 probes; positive + 6 "
             "values per matched byte, also on fields without an expectation) in ascending network-header-size order starting at a job-specific "
             "probe, then in the opposite order, then the first probe again: every verdict must satisfy the oracle and the verdict vector of a "
             "probe must be identical at every point of the process; in the functional part the mirror is re-evaluated after all other calls on "
             "the same request object. "
             "evaluations = matcher calls judged; distinct_nontrivial = distinct (stack, header variant, perturbed matched field, original field value)."),
    "claim": ("Inside the stated value sets the functional enumeration is complete for all requests within the deviation bound, and every "
              "single-byte departure from the mirror on a matched field is judged; the safety enumeration covers every class and every "
              "length 0..128 with contents that pass each matcher's guards up to the truncation point."),
    "note": ("Trusted: sanitizers (an out-of-bounds read that lands inside another live heap block is invisible to ASan), the harness' "
             "mirror builder (uses libtins setters + serialize, cross-checked against RFC offsets), libtins serialization of the request. "
             "Bound: value sets above, <= 2 (quick) / 3 (thorough) deviating groups, buffers <= 128 bytes, one substituted byte; call histories: "
             "the orders described (hidden state that needs a longer or different history to show is not reached)."),
    "assumptions": ["a request is serialized (sent) before replies are matched against it",
                    "a UDP request is matchable only with a payload (documented libtins behaviour); its reply may be header-only",
                    "a reply cut short inside its last header is judged for memory safety only (the statement does not say it must be rejected)",
                    "a reply to a request with IPv4 options / IPv6 extension headers carries options / headers of the same total length",
                    "the verdict is a function of (request, reply bytes) only: it may not depend on earlier calls in the process",
                    "matched fields are those named by the statement: link/network addresses, ports, ICMP reply type/id/sequence, DNS id, VLAN id",
                    "which request destination classes leave the reply source open is fixed by the reference table in the harness (documented libtins semantics: I/G-bit MACs, 255.255.255.255, ff02::/16); all other classes, incl. IPv4 multicast and non-ff02 IPv6 multicast, are compared literally",
                    "ICMP errors quoting the request verbatim are outside the property (neither required nor forbidden to match)",
                    "sanitizers: ASan+UBSan (alignment check off)"],
}
