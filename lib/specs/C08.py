"""check specification for C08 (loaded by lib/props.py)"""

SPEC = {
    "level": "model_checking",
    "stages": [{"name": "main", "harness": "C08_ipfrag.cpp", "config": "san",
                "deadline": {"quick": 300, "thorough": 2400}}],
    "technique": "explicit-state BFS to fixpoint over the implementation with lock-step reference model",
    "rule": ("per configuration (datagram of n<=4 (quick) / 5 (thorough) 8-byte units + tail, protocol UDP/ICMP/TCP/unknown, EVERY "
             "composition into >= 2 fragments, optional second datagram differing in id / source / direction / destination, bare IP or "
             "Ethernet root (also with every frame zero-padded to the 60-byte minimum behind the IP total length, as captured frames are); the first fragment carries a header that differs from the other fragments' (TTL, TOS, the option only there) so that \"header = first fragment's\" is observable whichever fragment completes; plus the LARGE family: payload sizes at the top of the quantified range (total length 65535, 65534, 65532, last 8-byte "
             "boundary, 32 KiB + 13, with and without IP options) cut at every non-empty subset of {8, 32768, last boundary}) a BFS to fixpoint over the real IPv4Reassembler (copied per state) x reference reassembler; events = every "
             "fragment of either datagram (re-sendable: duplicates, also after completion), an unfragmented packet (with DF, the reserved flag, both, and with the identification and addresses of the datagram being reassembled), a non-IP packet, an "
             "MF|DF stray fragment; on every transition: status = reference status; on REASSEMBLED: header = first fragment's with "
             "offset/MF cleared, upper layer parsed as the protocol's class with correct parent link, serialization byte-identical to "
             "the original datagram; NOT_FRAGMENTED leaves the packet untouched. distinct_nontrivial = product states holding >= 2 fragments."),
    "claim": ("Every interleaving, duplication and arrival order of the fragments of two concurrent datagrams is covered per configuration "
              "(finite reachable set explored to fixpoint) and every partition shape of the payload up to the unit bound is a configuration."),
    "note": "Trusted: sanitizers, harness' own IPv4 header writer + RFC 1071 checksum, reference reassembler. Bound: n units, two concurrent datagrams.",
    "assumptions": ["fragments of one datagram do not overlap (property premise)",
                    "datagram identity = (id, source, destination, protocol) as in RFC 791",
                    "sanitizers: ASan+UBSan (alignment check off)"],
}
