"""check specification for C02 (loaded by lib/props.py)"""

SPEC = {
    "level": "exploration",
    "stages": [
        {"name": "built", "harness": "C02_serialize.cpp", "config": "san", "gen": True,
         "deadline": {"quick": 300, "thorough": 1500}},
        {"name": "parsed", "harness": "BX_bytes.cpp", "config": "san", "gen": True, "args": ["--prop", "C02"],
         "deadline": {"quick": 420, "thorough": 3000}},
    ],
    "technique": "exhaustive enumeration of packets (grammar x mutation histories, accepted parser inputs) under a cross-layer write monitor + ASan",
    "rule": ("(i) built packets: every grammar packet (hand-written stacks + every generated (class, setter, sample) variant), every ordered pair of "
             "generated setters applied to one object of each class (thorough: with every pair of samples), and add/remove/add-again histories of "
             "length <= 3 on every option-carrying class (incl. options whose advertised length differs from the stored data), and ONE add operation "
             "repeated n = 1..300 (thorough 700) times on each of 10 option/tag/extension-carrying classes, serialized after every step up to the "
             "protocol's own size limit (computed by the harness, not read from the object); (ii) parsed packets: every input ACCEPTED by the C01 enumeration restricted to SEEDS, d1, t, x. "
             "Each packet is serialized through a re-implementation of PDU::serialize's recursion on an exactly-sized heap block: after the child "
             "layers have written [header_size, n - trailer_size) that region is snapshotted, the layer's own write_serialization() runs, the region "
             "must be unchanged; the result must equal the public serialize() (binding the monitor to the real recursion), have exactly size() = "
             "sum(header_size + trailer_size) bytes, throw nothing (pdu_not_serializable only for PPI/PKTAP), no sanitizer report. "
             "distinct_nontrivial = distinct (stack, per-layer size vector)."),
    "claim": "All packets of the two families are serialized under the monitor; a size-accounting or cross-layer-overwrite defect in any layer on any of them is reported.",
    "note": "Trusted: sanitizers, the 20-line re-implemented recursion (checked against serialize() on every packet). Root IP with source 0.0.0.0 skipped (routing table).",
    "assumptions": ["builder alphabets stay within wire-representable sizes (TCP/IP options <= 40 bytes, lengths <= 65535)"],
}
