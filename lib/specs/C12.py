"""check specification for C12 (loaded by lib/props.py)"""

SPEC = {
    "level": "model_checking",
    "stages": [{"name": "main", "harness": "C12_ownership.cpp", "config": "san",
                "deadline": {"quick": 600, "thorough": 3000}}],
    "technique": ("depth-bounded explicit-state BFS over PROGRAMS executed on the real objects in lock-step with a value-level "
                  "reference model of the ownership forest; state = op history re-executed from scratch; canonical dedup"),
    "rule": ("pool of 3 slots (nothing | raw root PDU* | Tins::Packet). Ops: cons(K), a/=b, new K(a/b), clone, copy-construct, "
             "copy-assign (same dynamic class, also self), move-construct, move-assign, inner_pdu(ptr) on root or tail (transfer of another "
             "slot's tree), inner_pdu(0), inner_pdu(const PDU&) on root or tail (also of itself), release_inner_pdu on root or "
             "parent-of-tail into a free slot, delete, Packet default/clone-wrap/own_pdu-wrap/PtrPacket-wrap/copy/copy-assign (also "
             "self)/move/move-assign/release_pdu; thorough adds the same typed ops on/from the layer below the root. DEEP: BFS with "
             "canonical dedup from the empty pool, K in {EthernetII, IP, TCP, RawPDU, DHCP, Dot11Beacon, PDUCacher<IP>}, every program of "
             "<= 4 (quick) / 5 (thorough) ops. SWEEP: the same BFS (depth 1 quick / 2 thorough, full op alphabet incl. layer-below-root "
             "variants) from seeded pools for EVERY concrete PDU class K of include/tins (52 + PDUCacher<IP>, PDUCacher<TCP>): one or two "
             "objects of shapes K, K/TCP, K/TCP/RawPDU, EthernetII/K/RawPDU in every combination (longer over shorter, shorter over longer), "
             "raw and Packet-wrapped. EXTRA: PDUOption copy/move/assign/self-assign/vector-shift over payload sizes {0,1,7,8,9,16,40}^2, "
             "TCPStream copy/assign/self-assign with 0..2 buffered fragments per direction. After EVERY step: each live layer reachable "
             "from exactly one slot, parent_pdu() == owner (null for roots), dynamic class and identity (address) of every surviving layer "
             "as the model says, a per-class header field ('stamp') of every layer as the model says, every copied / moved / untouched "
             "layer serializes (alone) to the bytes of its source before the step, every copied / moved / untouched tree serializes to "
             "the bytes of its source tree, writing a field of a fresh copy changes no other layer's field and no other tree's bytes, no "
             "ASan/UBSan report; after the program every slot is destroyed and the operator-new ledger must be back at its start value. "
             "distinct_nontrivial = distinct pool shapes (per slot kind + class chain) with >= 2 live trees one of which has >= 2 layers."),
    "claim": ("Every program over the op alphabet up to the depth bound is executed (BFS, merged only on equal canonical pools: per "
              "slot kind, class chain, per-layer bytes, tree bytes, slots unordered) and every typed op is applied to every concrete "
              "layer class in every shape combination; within these bounds a violation of the ownership / deep-copy invariants cannot be missed."),
    "note": ("Trusted: ASan/UBSan, the 120-line value model (mstep), per-class stamp accessors (self-tested at start). Canonical keys are "
             "compared through two independent 64-bit hashes. Bounds: 3 slots, program length, chain length <= 12. Not covered: assignment "
             "where the source is a descendant of the target, self-move-assignment, operator/= on an empty Packet (all outside the statement's "
             "well-defined programs)."),
    "assumptions": ["IP layers carry explicit non-zero addresses (a root IP with source 0.0.0.0 consults the host routing table)",
                    "a moved-from layer is only required to be a valid, destructible, assignable object without children",
                    "Packet move-assignment is followed by resetting the source (`src = Packet()`), the state of a moved-from Packet being unspecified",
                    "sanitizers: ASan+UBSan (alignment check off)"],
}
