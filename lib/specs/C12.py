"""check specification for C12 (loaded by lib/props.py)"""

SPEC = {
    "level": "model_checking",
    "stages": [{"name": "main", "harness": "C12_ownership.cpp", "config": "san",
                "deadline": {"quick": 900, "thorough": 4500}}],
    "technique": ("depth-bounded explicit-state BFS over PROGRAMS executed on the real objects in lock-step with a value-level "
                  "reference model of the ownership forest; state = op history re-executed from scratch; canonical dedup"),
    "rule": ("pool of 3 slots (nothing | raw root PDU* | Tins::Packet). Ops: cons(K), a/=b (also Packet/=), new K(a/b), clone, "
             "copy-construct, copy-assign (same dynamic class, also self), move-construct, move-assign, inner_pdu(ptr) on root or tail "
             "(transfer of another slot's tree), inner_pdu(0), inner_pdu(const PDU&) on root or tail (also of itself), release_inner_pdu "
             "on root or parent-of-tail into a free slot, delete, Packet default / clone-wrap (ref and pointer ctor) / own_pdu-wrap / "
             "PtrPacket-wrap / copy / copy-assign (also self) / move / move-assign / release_pdu; a second op family applies "
             "clone/copy/move construction and copy/move assignment to and from the layer BELOW the root. "
             "DEEP: BFS with canonical dedup from the empty pool, K in {EthernetII, IP(+option), TCP(+options), RawPDU, DHCP(+option), "
             "Dot11Beacon(+ssid), PDUCacher<IP>}: every program of <= 5 ops over the 125-op alphabet (quick); <= 6 ops over the 125-op "
             "alphabet and <= 5 ops over the 170-op alphabet incl. below-root ops (thorough). "
             "SWEEP: the same BFS (1 further op quick / 2 thorough, 163-op alphabet incl. below-root ops) from 32 seeded pools for EVERY "
             "concrete PDU class K of include/tins (51 + PDUCacher<IP>, PDUCacher<TCP> = 53): one or two objects of shapes K, K/TCP, "
             "K/TCP/RawPDU, EthernetII/K/RawPDU in every combination (longer over shorter, shorter over longer), raw and Packet-wrapped. "
             "EXTRA: PDUOption<uint8_t,TCP> and PDUOption<uint16_t,DHCPv6> copy/move construct, copy/move assign, self copy-assign, "
             "vector insert/erase shifting over payload sizes {0,1,7,8,9,16,40}^2; TCPStream copy-construct / copy-assign / self-assign "
             "with 0..2 buffered fragments per direction on both sides. "
             "After EVERY step: each live layer reachable from exactly one slot, no pointer to a destroyed layer, parent_pdu() == owner "
             "(null for roots), dynamic class and identity (address) of every surviving layer as the model says, a per-class header "
             "field ('stamp', unique per constructed layer) of every layer as the model says, every copied / moved / untouched tree "
             "serializes as a whole and layer by layer to the bytes of its source tree before the step, writing a field of a fresh copy "
             "changes no other layer's field and no other tree's bytes, no ASan/UBSan report; after the program every slot is destroyed "
             "and the operator-new ledger must be back at its start value (confirmed by a second run). "
             "states = sum over workers of canonically distinct pools (workers overlap by ~1.4x; quick also reports the exact "
             "distinct_states). distinct_nontrivial = distinct pool shapes (per slot kind + class chain, slots unordered) with >= 2 live "
             "trees one of which has >= 2 layers."),
    "claim": ("Every program over the op alphabet up to the depth bound is executed (BFS level by level, merged only on equal canonical "
              "pools: per slot kind, class chain, per-layer bytes, tree bytes, moved-from marks; slots unordered) and every typed op is "
              "applied to every concrete layer class in every shape combination; within these bounds a violation of the ownership / "
              "deep-copy invariants cannot be missed."),
    "note": ("Trusted: ASan/UBSan, the ~120-line value model (mstep), per-class stamp accessors (self-tested at start). Canonical keys are "
             "compared through two independent 64-bit hashes. Bounds: 3 slots, program length, chain length <= 12. Not covered: assignment "
             "whose source is a descendant of the target or a different layer of the same tree, self-move-assignment, operator/= on an empty "
             "Packet (outside the statement's well-defined programs). UBSan type-mismatch reports from a transport layer below a "
             "PDUCacher<IP> (tins_cast by pdu_flag) are C13's finding and are counted, not judged, here."),
    "assumptions": ["IP layers carry explicit non-zero addresses (a root IP with source 0.0.0.0 consults the host routing table)",
                    "a moved-from layer is only required to be a valid, destructible, assignable, serializable object without children; "
                    "a class whose move operations resolve to copies (probed at start) is modelled as copying",
                    "Packet move-assignment is followed by resetting the source (`src = Packet()`), the content of a moved-from Packet being unspecified",
                    "observation (serialize of every tree and of every layer alone) after every op is part of every program",
                    "sanitizers: ASan+UBSan (alignment check off)"],
}
