"""check specification for C15 (loaded by lib/props.py)"""

SPEC = {
    "level": "exploration",
    "stages": [{"name": "main", "harness": "C15_fields.cpp", "config": "san", "gen": True,
                "deadline": {"quick": 400, "thorough": 1800}}],
    "technique": "exhaustive sweep of the generated (class, field) table x field values on the real accessors, bit-level differential serialization",
    "rule": ("for every (class, setter) pair generated from the current headers that has a same-named getter (~350) and every prior object state in "
             "{default, every scalar field at its maximum, alternating bit pattern}: EVERY value of the setter's parameter type when it has <= 16 bits "
             "(all 65536 for uint16_t, all 2^n for small_uint<n>), single-bit / walking-zero / byte-lane / boundary patterns for wider and address types, "
             "the domain samples for aggregate types. Oracle: the call throws a libtins exception and leaves every getter unchanged, or the getter returns "
             "exactly the value (silent truncation = violation). On the probe values, from an all-zero and an all-ones baseline: no other getter moves "
             "(documented alias groups excepted); in the standalone serialization, outside checksum/length bytes, value bit i changes exactly one bit, the "
             "bits of a field are contiguous in network order (little-endian allowed for 802.11/RadioTap/Loopback), their number equals the declared width "
             "and the bit sets of two fields of a class are disjoint. The serialization has to follow the setter: if the prior state serializes and the value "
             "set on a default object serializes, a serialize() that throws after setting it on the prior state is a violation (history-dependent setter). "
             "small_uint<n>(v) - where over-range values are rejected for every sub-byte / odd-width setter - is swept for every width n = 1..63 (all values of the representation type when it has <= 16 bits, boundary / single-bit / lane patterns above): in-range values are held exactly, over-range values throw. "
             "TCP::set_flag / get_flag (an indexed one-bit accessor pair the generated table cannot hold) is swept over every flag x value x prior. From priors 1 and 2 the serialization of the prior state is compared with the one after set(0): every changed bit must be one of the field's bits. Re-setting the current value is a no-op on the wire: for every accepted seed packet - itself and with each of its first 32 bytes set to ff / inverted, so that reserved bits and sub-fields without accessors are populated - every layer and every scalar pair: x.f(x.f()) leaves the serialization unchanged (STP timers, lossy by API design, and RadioTap fields, presence-managed, excepted). "
             "Positions are compared with a table of the bit positions the specifications assign to 116 fields. distinct_nontrivial = distinct (class, field) pairs swept."),
    "claim": "Every scalar accessor pair of every layer class is swept over its whole value space (<= 16 bits) or over all single-bit and lane patterns (wider).",
    "note": "Trusted: alias-group and derived-byte tables in the harness (documented views of the same bits; checksum/length bytes), sanitizers.",
    "assumptions": ["absolute offsets against the RFCs are cross-checked by C05's dissector, not here",
                    "setters taking raw pointers (fixed-size arrays: EAPOL nonce/iv/mic, BlockAck bitmap) have no domain and are listed as such in the evidence"],
}
