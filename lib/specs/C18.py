"""check specification for C18 (loaded by lib/props.py)"""

SPEC = {
    "level": "model_checking",
    "stages": [
        {"name": "footprint+schedules", "harness": "C18_threads.cpp", "config": "trace", "extra_srcs": ["harness/C18_workloads.cpp"],
         "deadline": {"quick": 600, "thorough": 2400}},
        {"name": "tsan", "harness": "C18_tsan.cpp", "config": "tsan", "extra_srcs": ["harness/C18_workloads.cpp"],
         "deadline": {"quick": 600, "thorough": 2400}},
    ],
    "technique": "TBD",
    "rule": "TBD",
    "claim": "TBD",
    "note": "TBD",
    "assumptions": ["TBD"],
}
