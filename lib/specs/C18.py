"""check specification for C18 (loaded by lib/props.py)"""


def _post(merged, tier):
    """A run whose canaries were not detected (or whose tracer saw nothing) is a broken check, not a verdict."""
    c = merged.get("counters", {})
    problems = []
    if c.get("canary_detected", 0) < 1:
        problems.append("the racy canary (static scratch buffer) was not found dependent / race + divergence not detected within the bound")
    if c.get("guard_canary_ok", 0) < 1:
        problems.append("the guarded canary (function-local static) was not handled as ordered by its guard")
    if c.get("lock_canary_ok", 0) < 1:
        problems.append("the locked canary (std::mutex) was not explored cleanly")
    if c.get("copyshare_canary_detected", 0) < 1:
        problems.append("the copy-sharing canary (use count shared between copies made before the threads start) was not detected")
    if c.get("foreign_canary_detected", 0) < 1:
        problems.append("the foreign-static canary (gmtime(): state inside an uninstrumented library) was not detected")
    if c.get("tracer_alive", 0) < 1:
        problems.append("no shared-capable read was recorded for any libtins workload (instrumentation callbacks dead)")
    if problems:
        raise SystemExit("BROKEN-CHECK property=C18: " + "; ".join(problems))
    return {"preemption_bound": merged.get("max", {}).get("preemption_bound", 2)}


SPEC = {
    "level": "model_checking",
    "stages": [
        # stage 1 (footprint independence) + stage 2 (preemption-bounded exploration, canaries) in one binary
        {"name": "footprint+schedules", "harness": "C18_threads.cpp", "config": "trace", "extra_srcs": ["harness/C18_workloads.cpp", "harness/C18_sweep.cpp", "harness/C18_descend.cpp"], "gen": True,
         "deadline": {"quick": 600, "thorough": 2400}},
        # stage 3: free-running TSan pass (no cooperative scheduler in this binary)
        {"name": "tsan", "harness": "C18_tsan.cpp", "config": "tsan", "extra_srcs": ["harness/C18_workloads.cpp", "harness/C18_sweep.cpp", "harness/C18_descend.cpp"], "gen": True,
         "deadline": {"quick": 600, "thorough": 2400}},
    ],
    "post": _post,
    "technique": ("schedule exploration over real threads on the real code: load/store footprint independence (partial-order argument covering "
                  "every interleaving of <= 16 threads) + exhaustive enumeration of all schedules with <= 2 preemptions under a cooperative "
                  "scheduler for dependent sets and canaries + free-running ThreadSanitizer pass"),
    "rule": ("14 hand-written workloads (parse Ethernet/Dot1Q/IP/TCP; parse DNS + all section getters; build+serialize IP/UDP/DNS; RadioTap set/serialize/parse; "
             "IPv4 reassembly; StreamFollower on a short connection with explicit timestamps; WEP decrypt; WPA2 beacon + 4-way handshake -> keys -> decrypt, CCMP capture and TKIP capture, each with passphrase+SSID, a WRONG "
             "passphrase (must be rejected) and directly installed keys; address parse/format/ranges/predicates; CRC-32 + checksums; PDU copy/move/clone; parsing through registered/unknown EtherTypes "
             "and IP protocols (allocator registry); ICMPv6/DHCPv6 typed options), each creating, using and destroying only its own objects and "
             "returning a digest of everything observed; + 2 sweeps over the packet grammar (every class: build/serialize; parse + every generated "
             "getter); + ORIGIN dimension: 6 DESCENDANT workloads = threads A and B of three object sets whose objects the main thread derived "
             "from one common ancestor per class family (TCP with SACK/timestamp options, IP options, DHCP, DHCPv6, ICMPv6 options, Dot11 beacon "
             "tagged options, DNS records, RadioTap, RawPDU, PDUCacher, 5-layer Ethernet stack) through every copy path (clone, copy constructor, "
             "copy assignment into an existing object, Packet copy, a / b composition) BEFORE the threads start, ancestor kept alive / destroyed "
             "by the main thread before the threads start / destroyed by thread A while B runs; body: copy again (clone, assignment, Packet "
             "copy/move), getters, option search, serialize, mutate own copy through setters (add/remove option), serialize, destroy; these objects "
             "pre-exist the threads, so they are shared-capable for the tracer and the footprints of A and B must still be disjoint except for "
             "read-only data (free() of such a block counts as a write of the whole block).  STATE INSIDE UNINSTRUMENTED LIBRARIES: (a) every byte of "
             "the writable data (.data/.bss = writable PT_LOAD minus RELRO, from dl_iterate_phdr) of a shared object other than this binary that "
             "instrumented code touches counts as WRITTEN (its real writers are invisible), unless it is on the audited allow-list (one entry: "
             "libstdc++'s classic std::ctype<char> facet object); (b) the documented non-reentrant entry points HMAC/SHA1/SHA224/SHA256/SHA384/"
             "SHA512/MD5/MD4/RIPEMD160 with NULL output, inet_ntoa, gethostbyname, strtok, localtime, gmtime, ctime, asctime, strerror, "
             "getenv vs setenv/putenv/unsetenv, rand/srand, pcap_geterr (per handle) are interposed at link time: a call from instrumented code "
             "is a write of a per-function token (scheduling point before the call) and the static result buffer is reported as written after "
             "the call (second scheduling point) => two workloads using the same entry point are dependent and explored by stage 2 "
             "(race:non-reentrant-call:<fn>, race:foreign-static:<lib>+<offset>, divergence).  STAGE 1: libtins + workloads compiled with -fsanitize-coverage=trace-loads,trace-stores; "
             "malloc family, memcpy/memmove/memset/strlen/memcmp/bcmp/sprintf/snprintf, __cxa_guard_* and pthread_mutex_* interposed; every workload "
             "runs alone in a fresh forked process, cold then warm; every access is private (own stack, heap block allocated during the run) or "
             "shared-capable (anything else; recorded per byte with its symbol); for EVERY pair (Wi,Wj) incl. i==j: a byte written by one and accessed "
             "by the other makes the pair dependent (bytes written only inside a function-local-static guard region and accessed only after a check "
             "of that guard are ordered); independent sets get one finely interleaved representative schedule (round robin every 61 accesses, "
             "k = 2 for all 120 pairs incl. i==j + the 15 pairs of distinct DESCENDANT workloads, k = 3,4,8,16 for rotations, 6 and 16 with all DESCENDANT workloads) whose per-thread digests must equal the digests alone.  STAGE 2: for every dependent "
             "pair (thorough: + triples) and always for five canaries (static scratch buffer; guarded static; mutex; use count shared between copies made before the threads start; gmtime() = state inside libc), real pthreads under a cooperative scheduler (one runnable at a time, semaphore "
             "hand-off), scheduling points = accesses to the conflict bytes + guard and mutex operations, ALL schedules with <= 2 preemptions (levels "
             "0,1,2), each executed in a fresh forked process; verdicts: race = two threads enabled at conflicting accesses to the same byte, "
             "divergence = thread digest != digest alone, dead-lock, crash/hang under a schedule; the first failing schedule of every signature is "
             "replayed twice and must reproduce identically.  STAGE 3: separate TSan binary, k in {2,3,4,8,16} free-running threads x strides {0,1,5} "
             "over the workload list, plus the DESCENDANT workloads one per thread (all six / A+B of a set; objects rebuilt by the main thread before every "
             "round), started from a cold process; every TSan report and every digest mismatch is a violation.  "
             "states = schedules executed (representative + explored + canaries); transitions = scheduling points executed; "
             "distinct_nontrivial = workloads with >= 1 shared-capable read."),
    "claim": ("If no pair is dependent, every interleaving of any k <= 16 threads running these workloads on private objects is equivalent to the "
              "serial composition and free of data races on instrumented code (first divergent step would need a conflicting access); dependent "
              "sets are covered for all schedules with <= 2 preemptions at their conflicting accesses."),
    "note": ("Trusted: libc allocator, libstdc++ internals (out-of-line code such as red-black-tree rebalancing, locale reference counts), OpenSSL, "
             "libpcap are not instrumented and assumed thread-safe as documented; SC interleavings only (data-race freedom makes that sufficient); "
             "a heap block allocated during a run is private until a pointer to it is stored into shared memory (that store is a shared write); "
             "mc::g_live_allocs (allocation counter of the check's own runtime, bumped by the replaced operator new) is excluded from the "
             "dependence relation.  A run whose canaries are not detected exits non-zero as BROKEN-CHECK."),
    "assumptions": ["threads share no libtins objects (property premise); the user-registered allocators are registered before threads start",
                    "uninstrumented third-party libraries (libc, libstdc++.so, libcrypto, libpcap) are thread-safe as documented",
                    "sequentially consistent interleavings; preemption bound 2 for dependent sets",
                    "instrumentation: clang 14 sanitizer coverage trace-loads/trace-stores (trace), ThreadSanitizer (tsan)"],
}
