"""check specification for C07 (loaded by lib/props.py)"""

SPEC = {
    "level": "model_checking",
    # Two stages of the same harness: the sanitizer build (ASan+UBSan monitor on every transition, linear runs at the real limits)
    # and a plain -O2 build of the same sources that reaches greater depths / fixpoints for the functional oracle (~5.5x faster).
    # Deadlines are generous on purpose (other checks share the machine); the enumerations need ~1.7 min (quick) / ~16-17 min (thorough)
    # of wall time on 16 idle cores.
    "stages": [
        {"name": "san", "harness": "C07_follower.cpp", "config": "san", "args": ["--stage", "san"],
         "deadline": {"quick": 1500, "thorough": 7200}},
        {"name": "plain", "harness": "C07_follower.cpp", "config": "fast", "args": ["--stage", "fast"],
         "deadline": {"quick": 1500, "thorough": 7200}},
    ],
    "technique": ("depth-bounded / to-fixpoint explicit-state BFS with canonical dedup over the real StreamFollower; a state is an event "
                  "history replayed on a fresh follower (the object is not copyable), stepped in lock-step with a reference connection table"),
    "rule": ("Per job one BFS over the product (real Tins::TCPIP::StreamFollower) x (reference connection table) for one configuration "
             "(follow_partial_streams off/on) x (library limits 512 chunks / 3 MiB / 5 min | limits written down to 2 chunks / 4 bytes, keep-alive "
             "set to 10 s) and one PAIR of connections out of 22: all pairs of {v4 1.2.3.4:1000->2.2.2.2:80, other client port, other server "
             "port, same ports on swapped hosts, a v6 connection, the v6 connection whose address bytes are the v4 bytes zero-padded}, "
             "(v4, v6 with the v4-mapped ::ffff:a.b.c.d addresses), and v4 paired with each of four templates whose direction is decided by one "
             "coordinate only (client port == server port in v4/v6: only the address tells client from server; same host on both sides in "
             "v4/v6: only the port does) plus equal-ports with same-host per family; quick tier: the 10 pairs containing the base v4 template "
             "(sanitizer stage: 4 more), thorough: all 22; a pair contains every history in which only one connection sends. Alphabet per connection: SYN, SYN+ACK, ACK, client data segment 0..2 "
             "(1,1,3 bytes), server data segment 0..2 (1,1,2 bytes) in any order with duplicates, FIN per side, RST per side, a first packet "
             "that is not the SYN (mid-stream start: attaches with partial following, must be ignored for good without), each event with a "
             "time increment from {0, keep-alive/2, keep-alive, keep-alive+1us}. The FLAG BYTE of each packet kind is a domain, not a constant: every "
             "connection of a configuration is built in one of six flag styles (plain; ECN-setup SYN|ECE|CWR / SYN|ACK|ECE; SYN with ECE, CWR, "
             "PSH or URG; SYN|ACK with ECE/PSH/URG; data with/without PSH, with URG/ECE/CWR; FIN|PSH|ACK, FIN|ACK|URG, bare FIN; RST with "
             "ACK/PSH/URG on either side) - connection a plain and connection b in style (pair index mod 6) in every job, plus flag-family jobs "
             "with both connections non-plain on the base pair (quick: 2 families, plain stage, FULL+DATA; thorough: all 5, both stages, also on "
             "(v4,v6)); the model reacts to the SYN/ACK/FIN/RST bits only. Plus THIRD-PARTY packets of a TCP 4-tuple that belongs to neither "
             "connection and creates no stream (pure ACK; a data segment while partial following is off) with the same four increments, "
             "which only make time pass and drive the idle sweep, so that both connections can be expired at the same sweep; packets are Ethernet/IP(v6)/TCP/payload frames serialized "
             "and re-parsed, fed through process_packet(Packet&) with explicit timestamps. Not generated (left open by the documentation): "
             "payload on a SYN, a SYN or SYN+ACK on a live 4-tuple, traffic of a connection the follower already forgot. Three alphabet "
             "profiles per (configuration, pair): FULL (everything; depth 5/4 san, 7/5 plain in the quick tier [without/with partial "
             "following], 6/4 and 8/6 thorough), DATA (every packet kind, time increment 0 only; depth 7/5, 10/7 quick; 9/6 san and "
             "FIXPOINT (depth 21) / 9 plain thorough), TIME (all four increments, one data segment per direction; depth 6 san quick, 7 san "
             "thorough, FIXPOINT (depth 15) in the plain stage of both tiers; third-party kinds: both in TIME, the ACK in FULL, none in DATA). States are deduplicated on a canonical string read from private "
             "members: per live stream the identifier, partial flag, region of (now - last_seen), both flows' state, destination, sequence "
             "number, buffered chunks (seq,size), byte counter, pending payload; region of (now - last_cleanup_); plus the model state. "
             "On EVERY transition: multiset of callbacks of the event (new-stream, stream-closed, termination+reason, each attributed to a "
             "connection through the 4-tuple the Stream reports) = prediction; bytes handed to the client/server data callbacks of each "
             "connection so far = contiguous prefix of the segments that arrived (reassembly guarantee), every byte value being unique to "
             "(connection, direction, offset) so that a misrouted segment is visible; find_stream() succeeds exactly for live connections "
             "and returns the right 4-tuple/orientation/partial flag, throws stream_not_found otherwise; stream table size = live "
             "connections; buffered chunks/bytes = out-of-order segments received and never above the limits; no exception, no ASan/UBSan "
             "report, no heap block left after destroying the follower. Timeouts are predicted, for EVERY expired connection, at the first sweep at or after expiry (a sweep "
             "runs on a processed packet once a keep-alive has passed since the previous sweep). Plus 6 linear runs at the real limits "
             "(513 one-byte out-of-order chunks v4 / v6 both directions / descending / on a partial stream, 49 x 65000 bytes against 3 MiB, "
             "512 chunks then the gap filler: all 513 bytes delivered, no termination). distinct_nontrivial = (sample of) product states "
             "with two live streams or >= 1 buffered out-of-order chunk; nontrivial_states counts all of them."),
    "claim": ("Within the stated alphabets every interleaving of the two connections' events, every duplication/reordering of the data "
              "segments and every assignment of the four time increments up to the stated depth is executed on the real follower and "
              "compared with the reference connection table after every event; the TIME alphabet and (without partial following) the DATA "
              "alphabet are explored to their fixpoint, i.e. for histories of any length over those alphabets."),
    "note": ("Trusted: clang ASan/UBSan, the ~120-line reference model, the packet builder (libtins' own serializer and parser). Bounds: two "
             "concurrent connections, three segments per direction, depth per profile as listed, time increments from a 4-element set. "
             "Age regions in the canonical state are exact for threshold tests against the keep-alive (<= or <), see harness comment. "
             "The deep stage runs a build without sanitizers; memory errors are only monitored to the sanitizer-stage depths."),
    "assumptions": ["each connection's packets follow a TCP script: SYN before SYN+ACK before server data/FINs; client data any time after the SYN",
                    "segments of one direction carry bytes of one underlying stream and do not overlap each other (overlap/trim cases are C06's)",
                    "expiry = last packet + keep-alive (idle time >= keep-alive counts as expired, as StreamFollower::stream_keep_alive documents "
                    "'the maximum time to keep unseen streams'); violations that depend on idle == keep-alive exactly carry the signature suffix "
                    "':idle-equals-keep-alive'",
                    "canonical states are compared through two independent 64-bit hashes of the canonical string",
                    "sanitizers (stage san): ASan+UBSan, alignment check off"],
}
