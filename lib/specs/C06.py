"""check specification for C06 (loaded by lib/props.py)"""

SPEC = {
    "level": "model_checking",
    "stages": [{"name": "main", "harness": "C06_reassembly.cpp", "config": "san",
                "deadline": {"quick": 240, "thorough": 1500}}],
    "rule": ("explicit-state BFS to fixpoint over the real DataTracker (level a), Flow driven with IP/TCP/RawPDU packets and "
             "callbacks (level b) and the legacy TCPStreamFollower (level c); alphabet = every segment (off,len) of a stream "
             "of L distinct bytes plus stale/straddling segments before the ISN (adjacent ones, and 2^30 + 5 / 2^31 - 9 positions behind it), every event always enabled; one BFS per ISN "
             "with the 2^32 wrap point at every stream offset; state = (relative delivery point, relative chunk map, counters) "
             "x model coverage mask; invariants on every transition: delivered = s[0:k] with k the contiguous arrived prefix, "
             "no chunk at or below k, chunk bytes = stream bytes, total_buffered_bytes = sum of chunk sizes. "
             "Level d: the legacy follower with BOTH directions of one connection interleaved (client and server segments over <= 4 (thorough 5) "
             "positions each, four ISN pairs incl. wrap and either order), each direction judged against its own model. "
             "distinct_nontrivial = distinct product states holding >= 1 out-of-order chunk."),
    "technique": "explicit-state BFS to fixpoint over the implementation with lock-step reference model",
    "claim": ("Every reachable (implementation, model) product state for streams of L bytes, every ISN of a wrap-covering set and "
              "every order/duplication/overlap of segments is visited and the delivery invariants are evaluated on every transition; "
              "the reachable set is finite and explored to fixpoint, so within the bound this is a complete decision, not a sample."),
    "note": "Trusted: clang ASan/UBSan, the harness' 30-line reference model; bound: stream length L, ISN set.",
    "assumptions": ["segments carry bytes of one underlying stream (the property's premise)",
                    "stream length bounded by L (6 quick / 8 thorough); by symmetry of the algorithm in absolute offsets "
                    "larger streams add no new comparison outcomes beyond those of chunk-boundary orderings explored",
                    "sanitizers: ASan+UBSan (alignment check off)"],
}
