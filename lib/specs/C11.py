"""check specification for C11 (loaded by lib/props.py)"""

SPEC = {
    "level": "model_checking",
    "stages": [{"name": "main", "harness": "C11_radiotap.cpp", "config": "san",
                "deadline": {"quick": 600, "thorough": 3000}}],
    "technique": "explicit-state BFS to fixpoint over the implementation with lock-step reference model",
    "rule": ("one BFS to fixpoint per root over (real RadioTap object, copied per state) x (model: field -> last written value); "
             "roots: default-constructed header, parsed header with an empty present word, parsed header with the fields "
             "{rate, channel, dbm_noise, db_signal, tx_flags, xchannel}, each with a 10-byte 802.11 ACK frame as inner PDU; "
             "alphabet: the 14 field setters of the property (tsft, flags, rate, channel, dbm_signal, dbm_noise, signal_quality, "
             "antenna, db_signal, rx_flags, tx_flags, data_retries, xchannel, mcs) with value v1; flags, the one field whose VALUE steers "
             "serializer and parser, has one value per steering-bit combination in BOTH tiers: 0x12 (FCS: serialize() appends a 4-byte FCS trailer, "
             "the parser strips it), 0x0a (plain), 0x42 (FAILED_FCS without FCS: legal, must round-trip), thorough adds 0xc5; FCS|FAILED_FCS is kept "
             "out (RadioTap(buffer) rejects it by design); thorough runs four BFS per root, each adding a second value v2 for a quarter of the other "
             "fields ({tsft, channel, signal_quality, xchannel}, {rate, dbm_signal, rx_flags}, {tx_flags, mcs, dbm_noise}, {antenna, db_signal, "
             "data_retries}); state key = options_payload_ bytes x model. "
             "On EVERY transition: options_payload_ == canonical layout written by the harness' own writer (radiotap.org size/alignment "
             "table, offsets from the start of the RadioTap header; same size, present word and field bytes at the same offsets, gap content "
             "not judged), present() == written fields, each of the 14 getters == last write or throws field_not_present, serialize(): "
             "it_len == header bytes == header_size(), serialized header == options_payload_, inner frame behind it, total size == header + frame + "
             "(4 iff the model's flags value has the FCS bit) == trailer_size() model; RadioTap(serialize()) must be accepted and "
             "returns the same payload, present word, 14 getter results and a Dot11Ack with the same bytes; no ASan/UBSan report; every new state's history is re-played on a fresh object. "
             "distinct_nontrivial = product states whose layout contains at least one alignment gap."),
    "claim": ("Per root the reachable product state space (all subsets of the 14 fields above the root's set x the value choices) is "
              "finite and explored to fixpoint, and every (state, setter) transition is executed and judged; because a state's future "
              "depends only on options_payload_ (the key), this covers setter sequences of any length, order and repetition over the alphabet."),
    "note": ("Trusted: sanitizers, the harness' canonical writer and its radiotap.org field table. Bounds: three roots, one or two values "
             "per field, first radiotap namespace only (no extended present words / vendor namespaces in roots), flags values without the FCS|FAILED_FCS combination "
             "(RadioTap(buffer) rejects those frames by design); the FCS value itself is not judged."),
    "assumptions": ["field sizes/alignments as published on radiotap.org (TSFT 8/8, CHANNEL 4/2, LOCK_QUALITY 2/2, RX/TX_FLAGS 2/2, XCHANNEL 8/4, MCS 3/1, rest 1/1)",
                    "parsed roots are well-formed single-namespace headers followed by a 10-byte ACK frame",
                    "sanitizers: ASan+UBSan (alignment check off)"],
}
