"""check specification for C11 (loaded by lib/props.py)"""

SPEC = {
    "level": "model_checking",
    "stages": [{"name": "main", "harness": "C11_radiotap.cpp", "config": "san",
                "deadline": {"quick": 600, "thorough": 3000}}],
    "technique": "explicit-state BFS to fixpoint over the implementation with lock-step reference model",
    "rule": ("BFS to fixpoint per configuration (root x value set) over (real RadioTap object, a bare header, copied per state; the explored objects "
             "only ever see setters) x (model: field -> last written value); roots: default-constructed header, parsed header with an empty "
             "present word, parsed header with {rate, channel, dbm_noise, db_signal, tx_flags, xchannel}; alphabet: the 14 field setters of the "
             "property with value v1; flags, the one field whose VALUE steers serializer and parser, with one value per steering-bit combination in "
             "BOTH tiers: 0x12 (FCS), 0x0a (plain), 0x42 (FAILED_FCS without FCS), thorough adds 0xc5; FCS|FAILED_FCS is kept out (documented "
             "rejection by RadioTap(buffer)); thorough: the three roots with a second value for signal_quality, data_retries, mcs (the fields no root "
             "carries) and, from the empty root, a second value for the other ten fields four/four/two at a time; state key = options_payload_ bytes x "
             "model. Each configuration is run by 5 jobs that execute the same BFS (setter + canonical-layout comparison on every transition) and "
             "evaluate the rest of the oracle for the source states they own (hash of the key mod 5), so every (state, setter) transition is judged "
             "exactly once. GETTER CALLS ARE PART OF THE HISTORY: per state, on one copy, a walk of 210 reads in which every ordered pair of the 14 "
             "getters (a getter twice included) occurs as consecutive reads, every read judged against the model; per transition (state, set(G,v)) "
             "and every field F present afterwards, on a fresh copy: get(F); set(G,v); get(F) with nothing in between, both reads judged "
             "(insertion in front of / behind F, overwrite of G, F == G). Then on the transition itself: options_payload_ == canonical layout "
             "written by the harness' own writer (radiotap.org size/alignment table, offsets from the start of the RadioTap header; gap content "
             "not judged); on a copy: present() == written fields, each of the 14 getters == last write or throws field_not_present; wire round trip "
             "in three shapes - header + 10-byte 802.11 ACK frame, the header ALONE (no inner PDU), header + zero-length RawPDU -: size() == "
             "serialization length == header + inner + (4 iff the model's flags value has the FCS bit) == trailer_size() model, it_len == header "
             "bytes == header_size(), serialized header == options_payload_; RadioTap(serialize()) must be accepted and return the same payload, "
             "present word, 14 getter results and (ACK shape) a Dot11Ack with the same bytes / (other shapes) no payload; no ASan/UBSan report; "
             "every new state's history is re-played on a fresh object (slice 0). states/transitions = owned, i.e. fully judged, ones; "
             "bfs_* = raw explorer counts over all slices. distinct_nontrivial = product states whose layout contains at least one alignment gap."),
    "claim": ("Per configuration the reachable product state space (all subsets of the 14 fields above the root's set x the value choices) is "
              "finite and explored to fixpoint, and every (state, setter) transition is executed and judged; because a state's future "
              "depends only on options_payload_ (the key), this covers setter sequences of any length, order and repetition over the alphabet; "
              "reads are interleaved as every adjacent pair of getters per state and every get(F); set(G); get(F) triple per transition."),
    "note": ("Trusted: sanitizers, the harness' canonical writer and its radiotap.org field table. Bounds: three roots, one or two values "
             "per field, read interleavings of depth get-get and get-set-get (hidden getter-side state deeper than that is not explored), first radiotap namespace only (no extended present words / vendor namespaces in roots), flags values without the FCS|FAILED_FCS combination "
             "(RadioTap(buffer) rejects those frames by design); the FCS value itself is not judged."),
    "assumptions": ["field sizes/alignments as published on radiotap.org (TSFT 8/8, CHANNEL 4/2, LOCK_QUALITY 2/2, RX/TX_FLAGS 2/2, XCHANNEL 8/4, MCS 3/1, rest 1/1)",
                    "parsed roots are well-formed single-namespace headers followed by a 10-byte ACK frame",
                    "sanitizers: ASan+UBSan (alignment check off)"],
}
