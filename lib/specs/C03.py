"""check specification for C03 (loaded by lib/props.py)"""

SPEC = {
    "level": "exploration",
    "stages": [{"name": "main", "harness": "BX_bytes.cpp", "config": "san", "gen": True, "args": ["--prop", "C03"],
                "deadline": {"quick": 420, "thorough": 3000}}],
    "technique": "deviation-bounded exhaustive input enumeration; differential oracle parse -> serialize -> parse on the real code",
    "rule": ("same input family as C01 minus SHORT (SEEDS, d1, t, x, t x d1s; thorough d2s + LENGTH-MAX) for every serializable entry point; for every "
             "ACCEPTED input b: p = E(b), y = serialize(p), q = E(y) must not be rejected; same layer classes; every generated getter of every layer "
             "equal between p and q except the derived ones (mc/derived.hpp: lengths, checksums, sizes; next-protocol tags only compared when an "
             "unrecognised non-empty payload follows); payload bytes equal (empty payload == none; link-layer minimum-size padding libtins appended may "
             "reappear as trailing zero bytes); and serialize(q) == y byte for byte when the innermost payload is non-empty. "
             "The two parses run over heap blocks pre-filled with different bytes (0xa5 for p, 0x3c for q, through the replaced operator new), so a member "
             "a parser leaves uninitialised makes a getter differ between p and q instead of reading the same left-over twice. "
             "distinct_nontrivial = distinct (entry point, layer/size structure) among accepted inputs; distinct_views = distinct innermost-layer views."),
    "claim": "Every accepted input within two deviations of a seed is round-tripped and compared field by field through the generated getter table.",
    "note": "Trusted: the derived-field table (DESIGN appendix A), sanitizers. Root IP packets with source 0.0.0.0 are skipped (host routing table).",
    "assumptions": ["derived fields are exactly those of DESIGN appendix A", "application layers over UDP are compared as raw payload (UDP does not guess)"],
}
