"""check specification for C16 (loaded by lib/props.py)"""

_DL = {"quick": 600, "thorough": 3000}

SPEC = {
    "level": "exploration",
    # stage "san" comes first so that `bin/check C16 --replay` (which uses the first stage's binary) re-executes a case under
    # ASan+UBSan; case strings are self-contained and do not depend on --reduced.
    "stages": [
        {"name": "san", "harness": "C16_addresses.cpp", "config": "san", "args": ["--reduced"], "deadline": _DL},
        {"name": "fast", "harness": "C16_addresses.cpp", "config": "fast", "deadline": _DL},
    ],
    "technique": "bounded exhaustive input enumeration on the real address / range classes with reference acceptors and 128-bit reference arithmetic",
    "rule": ("rt: IPv4 text round trip (to_string -> constructor, and standard dotted text -> constructor -> bytes) of ALL 2^32 addresses in the "
             "thorough tier (fast stage; quick: all addresses with bytes from a 12-value set + 16 dense 2^20 windows), IPv6: every address with <= 3 "
             "(thorough 4) non-zero groups from {1,ff,100,ffff(,8000,fffe)} in any position + all 256 zero/non-zero group patterns x 4 fills + "
             "v4-mapped/compat/NAT64 forms + boundary set, HWAddress<6>: all addresses with bytes from a 6 (thorough 10) value set + every byte value in "
             "every position, lower and upper case. ord: <,>,<=,>=,==,!= and std::hash on ALL ordered pairs of a boundary set closed under +-1 "
             "(2^k, ones<<k, ones>>k, byte patterns) vs 128-bit reference numbers. str: EVERY string of length <= 6 (thorough 7) over an 11-character alphabet "
             "per family, every string up to length 10..19 over 2-4 character alphabets of address characters, every sequence of <= 5/9/8 tokens of a near-valid "
             "grammar, every single and double edit (substitute/insert/delete over 17 characters) of valid seeds, each compared with a reference acceptor "
             "(IPv4 dotted quad, RFC 4291 text forms, n groups of two hex digits): valid => accepted with the reference value, invalid => an exception; "
             "strings the documentation leaves open (leading-zero octets, hardware-address groups of < 2 digits / empty string / stray colons) are counted, "
             "not compared; the shared hardware-address parser is also swept through HWAddress<2>, where the length bound reaches past a complete address. "
             "value of non-canonical texts: every accepted string of every family is compared with a reference PARSER (not only acceptor) and its value must survive "
             "to_string() -> constructor; for hardware-address text with groups of 0 or 1 digits acceptance stays unjudged but an accepted text must have the value "
             "'group k = byte k, empty = 0, missing groups = 0'; structured families: HWAddress<6> every sequence of <= 7 groups from {\"\",a,1,1e,F0,0b(,C,d7)}, "
             "HWAddress<3> every sequence of <= 4 groups, each empty / one / two digits from {0,1,a,F} (21 tokens, full product), HWAddress<8> <= 9 groups from {\"\",a,1e,C(,07)}, "
             "IPv4 every sequence of <= 4 octets from {7,42,199,255,03,007,042,0}, IPv6 every position and width (0..8 groups) of '::' x every assignment of "
             "{b,0c,00d,f0E1(,1a2,000e)} to the written groups, with and without a dotted-quad tail. "
             "single foreign byte: for 5 v4 / 6 v6 / 4 hw / 3 hw2 valid seeds EVERY one of the 256 byte values substituted at and inserted before EVERY position "
             "(control characters, 0x7f..0xff and the neighbours of the digit/letter ranges included), thorough: every pair of positions x a 27-value set of such bytes, "
             "and all 65536 byte pairs in the first and last group of a hardware address; embedded NUL in IPv4/IPv6 text is counted, not compared. "
             "rng: every prefix length 0..32 / 0..128 / 0..48 x every boundary base address through operator/ and from_mask(from_prefix_length), "
             "from_mask with every boundary value as (also non-contiguous) mask x 12 bases, explicit (first,last[,only_hosts]) over all ordered pairs of a "
             "28-element set: first = a & m, last = a | ~m, contains() on 14 probe points, is_iterable() per its documentation, iteration of every range "
             "with <= 65538 visited addresses = reference list then end() (hosts only for from_mask/operator/ ranges), first 300 steps of larger ranges, the "
             "complete 2^32 iteration of 0.0.0.0/0 and [0.0.0.0,255.255.255.255] (thorough, fast stage), it++ in a forked child, prefix lengths beyond the "
             "width rejected. Stage san repeats everything with reduced bounds under ASan+UBSan. distinct_nontrivial = distinct accepted address strings + "
             "distinct ranges iterated to the end (capped at 150000 per job)."),
    "claim": ("Inside the stated bounds every input is enumerated: all 2^32 IPv4 addresses (thorough), all strings up to the length bounds over the stated alphabets, "
              "all prefix lengths x all boundary base addresses, all ordered pairs of the boundary sets."),
    "note": ("Trusted: harness reference acceptors (dotted quad, RFC 4291, hex groups), unsigned __int128 arithmetic, glibc only as the thing under test behind "
             "inet_pton/inet_ntop. Bounds: string length / alphabets as in the rule; IPv6 and hardware addresses are covered on boundary families, not exhaustively; "
             "ranges larger than 65538 addresses are iterated for their first 300 steps only (except the two whole-IPv4-space ranges)."),
    "assumptions": ["strings whose validity the documentation leaves open are not compared (IPv4 octets with leading zeros; hardware-address text with groups of fewer than two digits, empty text, leading/trailing colon)",
                    "short hardware-address text (k < n complete groups) is valid and zero padded, as fixed by the repository's ShortStringConstructor unit test",
                    "iterating a range whose is_iterable() is false is documented as undefined and is not attempted",
                    "IPv4/IPv6 text with an embedded NUL character is not compared (the constructors pass c_str() to inet_pton; undocumented); for hardware addresses NUL is an ordinary foreign byte and must be rejected",
                    "sanitizers (stage san): ASan+UBSan (alignment check off)"],
}
