"""check specification for C10 (loaded by lib/props.py)"""

SPEC = {
    "level": "model_checking",
    "stages": [{"name": "main", "harness": "C10_dns.cpp", "config": "san",
                "deadline": {"quick": 600, "thorough": 3000}}],
    "technique": ("explicit-state BFS, depth-bounded, over the real Tins::DNS object with a lock-step reference model; "
                  "plus exhaustive enumeration of malformed-name families"),
    "rule": ("One BFS (mc::Explorer) per (initial message, alphabet run): state = real Tins::DNS (copied per state) x model of four record "
             "vectors; canonical key = header counts, records_data_, the three section indices, model. Initial messages (6): empty; wire "
             "messages written by the harness' own encoder: uncompressed; compressed response (answers point into the question, a pointer "
             "to a name that itself ends in a pointer, additional owners point into authority rdata < 12 octets before the additional "
             "section); 1-label question + pointer-to-pointer + SOA/MX rdata with compressed names + root owner; question + additional "
             "only; no question, authority pointing into answer rdata. Runs (each x add_query/add_answer/add_authority/add_additional): "
             "R1 {A,CNAME} x {'a','a.b.example.com'} (16 ops); R2 {MX, SOA, TXT, NULL/opaque with root owner} (16 ops); R3 {NS,PTR,AAAA} x "
             "{34-label ip6.arpa name, 255-octet name, 63-octet label} (36 ops); R3 restricted to each of the three names and to a second "
             "255-octet name of five labels ending in a 1-octet label (12 ops each). "
             "Depth: quick R1/R2/R3-sub 4, R3 3; thorough R1/R2/R3-sub 6, R3 4 - every sequence up to the depth. On every transition: "
             "questions/answers/authority/additional counts = model; queries(), answers(), authority(), additional() (called on a copy "
             "whose buffer has no slack capacity) = model sections in order with fully expanded names, type, class, ttl, MX preference and "
             "data as libtins renders it (A dotted quad, AAAA compared as address, NS/CNAME/PTR/MX expanded name, SOA two uncompressed wire "
             "names + 20 octets, other types raw); DNS(serialize(m)) parsed from an exactly sized heap block shows the same; any "
             "ASan/UBSan report is a violation; every new state's history is replayed on a fresh object. Shape B (`evaluations`): "
             "malformed-name families at 7 name positions (question name, answer owner, CNAME/NS/MX rdata, SOA mname/rname): pointer "
             "chains of 0..130 jumps, pointer to itself / cycles with and without labels, forward pointers, out-of-range pointers "
             "(into the header, message size +0/+1/+2/+257, 0x3ffe/0x3fff, last octet), labels running past the end (behind a pointer and as "
             "the very end of the message for NS/CNAME/PTR/MX/SOA rdata), names of 255/256/257/321 octets inline and through a pointer, 127 "
             "and 128 labels; every dotted length 250..260 (encoded 252..262 octets) x 6 label splits (4..5 labels with a last label of 1..3 "
             "octets or the remainder, 5 equal labels, one-octet labels) x {inline, 1 label + pointer, all but the last label + pointer, pointer "
             "only}: encoded <= 255 must be shown exactly, 256..257 (still fits libtins' 256-byte text buffer) shown exactly or refused, >= 258 "
             "must be refused with a libtins exception; reserved label types; and every compression pointer of every seed message re-targeted to every offset "
             "(quick: 0..size+5 and boundary values; thorough: all 16384 values). Constructor and the four getters must return or throw a "
             "class derived from Tins::exception_base, with no sanitizer report (message in an exactly sized heap block); legal cases "
             "(chains <= 4 jumps, names up to 255 octets, 127 labels) must be shown correctly; a cleanly parsed message that the reference decoder "
             "also accepts must show the reference decoder's sections. distinct_nontrivial = product states with records in >= 2 sections "
             "(plus distinct (family, position, outcome) triples of shape B)."),
    "claim": ("Every sequence of insertions up to the depth bound, from each of the six initial messages and within each alphabet run, is "
              "executed on the real object and compared with the model after every step, before and after a serialize/parse round trip; "
              "every member of the listed malformed-name families is evaluated."),
    "note": ("Trusted: sanitizers; the harness' own RFC 1035 encoder/decoder (mc/ref/dns_ref.hpp; the hand-written expectations of the initial "
             "messages are cross-checked against the decoder at start-up). Bounds: insertion depth, alphabet split into runs (records of "
             "different runs are never mixed in one history), six initial messages, one class (IN) plus the types listed."),
    "assumptions": ["records inserted through the API are well-formed (valid addresses for A/AAAA, labels <= 63 octets, names <= 255 octets)",
                    "MX preference is only compared for MX records (documented as valid for MX only)",
                    "a pointer chain longer than 4 jumps may be rejected with a libtins exception (libtins caps chains at 30)",
                    "malformed input may also be parsed cleanly (only memory safety and the exception class are required there), except names whose dotted form "
                    "exceeds 255 characters (encoded > 257 octets): those must be refused",
                    "names of 256 or 257 encoded octets (above RFC 1035's 255, but accepted by libtins) may be shown exactly or refused",
                    "sanitizers: ASan+UBSan (alignment check off)"],
}
