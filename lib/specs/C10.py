"""check specification for C10 (loaded by lib/props.py)"""

SPEC = {
    "level": "model_checking",
    "stages": [{"name": "main", "harness": "C10_dns.cpp", "config": "san",
                "deadline": {"quick": 600, "thorough": 3000}}],
    "technique": ("explicit-state BFS, depth-bounded, over the real Tins::DNS object with a lock-step reference model; "
                  "plus exhaustive enumeration of malformed-name families, long single-operation histories and the 16-bit record type domain"),
    "rule": ("One BFS (mc::Explorer) per (initial message, alphabet run): state = real Tins::DNS (copied per state) x model of four record "
             "vectors; canonical key = header counts, records_data_, the three section indices, model. Initial messages (6): empty; wire "
             "messages written by the harness' own encoder: uncompressed; compressed response (answers point into the question, a pointer "
             "to a name that itself ends in a pointer, additional owners point into authority rdata < 12 octets before the additional "
             "section); 1-label question + pointer-to-pointer + SOA/MX rdata with compressed names + root owner; question + additional "
             "only; no question, authority pointing into answer rdata. Runs (each x add_query/add_answer/add_authority/add_additional): "
             "R1 {A,CNAME} x {'a','a.b.example.com'} (16 ops); R2 {MX, SOA, TXT, NULL/opaque with root owner} (16 ops); R3 {NS,PTR,AAAA} x "
             "{34-label ip6.arpa name, 255-octet name, 63-octet label} (36 ops); R3 restricted to each of the three names and to a second "
             "255-octet name of five labels ending in a 1-octet label (12 ops each). "
             "Depth: quick R1/R2/R3-sub 4, R3 3; thorough R1/R2/R3-sub 6, R3 4 - every sequence up to the depth. On every transition: "
             "questions/answers/authority/additional counts = model; queries(), answers(), authority(), additional() (called on a copy "
             "whose buffer has no slack capacity) = model sections in order with fully expanded names, type, class, ttl, MX preference and "
             "data as libtins renders it (A dotted quad, AAAA compared as address, NS/CNAME/PTR/MX expanded name, SOA two uncompressed wire "
             "names + 20 octets, other types raw); DNS(serialize(m)) parsed from an exactly sized heap block shows the same; any "
             "ASan/UBSan report is a violation; every new state's history is replayed on a fresh object. Shape B (`evaluations`): "
             "malformed-name families at 7 name positions (question name, answer owner, CNAME/NS/MX rdata, SOA mname/rname): pointer "
             "chains of 0..130 jumps, pointer to itself / cycles with and without labels, forward pointers, out-of-range pointers "
             "(into the header, message size +0/+1/+2/+257, 0x3ffe/0x3fff, last octet), labels running past the end (behind a pointer and as "
             "the very end of the message for NS/CNAME/PTR/MX/SOA rdata), names of 255/256/257/321 octets inline and through a pointer, 127 "
             "and 128 labels; every dotted length 250..260 (encoded 252..262 octets) x 6 label splits (4..5 labels with a last label of 1..3 "
             "octets or the remainder, 5 equal labels, one-octet labels) x {inline, 1 label + pointer, all but the last label + pointer, pointer "
             "only}: encoded <= 255 must be shown exactly, 256..257 (still fits libtins' 256-byte text buffer) shown exactly or refused, >= 258 "
             "must be refused with a libtins exception; reserved label types; and every compression pointer of every seed message re-targeted to every offset "
             "(quick: 0..size+5 and boundary values; thorough: all 16384 values). Constructor and the four getters must return or throw a "
             "class derived from Tins::exception_base, with no sanitizer report (message in an exactly sized heap block); legal cases "
             "(chains <= 4 jumps, names up to 255 octets, 127 labels) must be shown correctly; a cleanly parsed message that the reference decoder "
             "also accepts must show the reference decoder's sections. distinct_nontrivial = product states with records in >= 2 sections "
             "(plus distinct (family, position, outcome) triples of shape B). "
             "REPETITION family (long histories of ONE operation; counted in `evaluations`): for each initial message in {empty, compressed, "
             "ptr2ptr-soa-mx} x each of add_query/add_answer/add_authority/add_additional x each of 6 records (short A, CNAME, MX, SOA, TXT, NS with a "
             "255-octet owner and a 77-octet name as data) the operation is applied n = 1..N times (quick N = 300; thorough N = 1100, 400 for the "
             "342-octet record) and the full coherence oracle above (header counts = section sizes = number inserted, getters = the inserted records in "
             "order, the same after serialize -> parse) runs after EVERY step, not only around the boundaries; additionally at every n, on a copy, one "
             "insertion (short record; the same record) into every EARLIER section followed by the full oracle (relocation of the n records). Boundaries "
             "crossed: 255/256 and 1023/1024 records in one section, section offsets 255/256, message size 512, 0x3fff/0x4000 (17-octet records at n = 964, "
             "342-octet records at n = 48) and 65535/65536 octets. When a compression pointer of a parsed message would have to address an offset above "
             "0x3fff the insertion must either keep the message coherent or be refused with a libtins exception that leaves the message unchanged "
             "(signature dns:pointer-target-beyond-0x3fff:* otherwise); the quick tier stops a sequence right before that point, the thorough tier goes "
             "through it. TYPE SWEEP (`evaluations`): for every record type 0..65535 (thorough) / 0..1023, 0xff00..0xffff, every value equal to one of "
             "1,2,5,6,12,15,28,39 modulo 32 and every value one bit away from those (quick: 17 344 types), through add_answer, add_authority and "
             "add_additional (and add_query for the values 0..63 that DNS::QueryType can hold): (a) add to a fresh message and read back, (b) serialize -> "
             "parse -> read back, (c) the parsed message + one insertion into the section right before and into the question section (update_records walks "
             "over the record) -> read back, -> parse -> read back. Data per reference class, the classification being an explicit table from the RFCs "
             "(not DNS::contains_dname): opaque types: 7 blobs (empty, one octet, c0 0c, c0 ff, 3f 'abc', name-like 12 octets, dotted text) must come back "
             "byte-identical; A / AAAA: address text; NS, CNAME, PTR, MX: dotted names (+ preference); SOA: uncompressed wire rdata; the 19 types whose "
             "RDATA holds names but which neither the statement nor the libtins documentation lists (MD, MF, MB, MG, MR, MINFO, RP, AFSDB, RT, SIG, PX, NXT, "
             "SRV, NAPTR, KX, A6, DNAME, RRSIG, NSEC): raw octets or dotted names, but the same in both directions."),
    "claim": ("Every sequence of insertions up to the depth bound, from each of the six initial messages and within each alphabet run, is "
              "executed on the real object and compared with the model after every step, before and after a serialize/parse round trip; "
              "every member of the listed malformed-name families is evaluated; every prefix of every repetition sequence (and one front insertion "
              "per earlier section at every length) is checked with the full oracle; every record type value of the tier's set is carried through "
              "add / read / serialize / parse / relocate with every data variant of its reference class."),
    "note": ("Trusted: sanitizers; the harness' own RFC 1035 encoder/decoder (mc/ref/dns_ref.hpp; the hand-written expectations of the initial "
             "messages are cross-checked against the decoder at start-up). Bounds: insertion depth, alphabet split into runs (records of "
             "different runs are never mixed in one history), six initial messages, one class (IN) plus the types listed."),
    "assumptions": ["records inserted through the API are well-formed (valid addresses for A/AAAA, labels <= 63 octets, names <= 255 octets)",
                    "MX preference is only compared for MX records (documented as valid for MX only)",
                    "a pointer chain longer than 4 jumps may be rejected with a libtins exception (libtins caps chains at 30)",
                    "malformed input may also be parsed cleanly (only memory safety and the exception class are required there), except names whose dotted form "
                    "exceeds 255 characters (encoded > 257 octets): those must be refused",
                    "names of 256 or 257 encoded octets (above RFC 1035's 255, but accepted by libtins) may be shown exactly or refused",
                    "a message in which a compression pointer would have to address an offset above 0x3fff may refuse further insertions in front of the target "
                    "(libtins exception, message unchanged) instead of expanding the name",
                    "types whose RDATA contains names but which are not listed by the statement or the libtins documentation may be shown as raw octets or as "
                    "dotted names, consistently",
                    "sanitizers: ASan+UBSan (alignment check off)"],
}
