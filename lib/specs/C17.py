"""check specification for C17 (loaded by lib/props.py)"""

SPEC = {
    "level": "exploration",
    "stages": [{"name": "main", "harness": "C17_capture.cpp", "config": "san",
                "deadline": {"quick": 600, "thorough": 3000}}],
    "technique": ("bounded exhaustive enumeration of capture files (all frame sequences over a per-link-type alphabet) read through every reader of the sniffer API; "
                  "explicit-state BFS to fixpoint over object histories (construct / use / move) of sniffer and writer slots with a reference model and drain probes"),
    "rule": ("for each link type in {EN10MB, RAW, NULL, LINUX_SLL, IEEE802_11, IEEE802_11_RADIO, PPI}: EVERY sequence of length <= 3 (quick) / <= 4 "
             "(thorough) over an alphabet of 9 frames {two well-formed packets that are serialization fixpoints, truncated header, zero-length frame, "
             "one garbage frame per rejection class of the top-level parser (inner parser rejects / length field beyond or below the frame / "
             "unknown version / cut LLC, ARP, tag, FCS), garbage the parser accepts, a snap-truncated capture (len > caplen), a 65535-byte frame} "
             "x 3 timestamp rotations over {0.000000, 1.999999, 2^31-1.5}; each sequence is written into a memfd capture file by the harness' own "
             "pcap writer and by Tins::PacketWriter (write(Packet&), write(PDU&), write(begin,end); DataLinkType<> and LinkType constructors; file "
             "bytes compared record by record with the packets' serializations, lengths and timestamps) and read back with FileSniffer through "
             "next_packet, iterator (pre/post increment), sniff_loop with PDU& / const PDU& / Packet& / Packet functors, a functor returning false "
             "at every position k (then a second loop continuing on the handle), functors throwing pdu_not_found / malformed_packet, max_packets=k, "
             "extract_raw_pdus; x sniffing method {pcap_loop, pcap_dispatch, custom method handing the handler an exact-size heap copy of the frame}; "
             "x constructor {path|FILE* x SnifferConfiguration|filter string, set_filter after open}; x filter {none, ip, tcp port 80, udp, vlan, "
             "ether src, len > 60, wlan type mgt, and the empty expression, as far as libpcap accepts them for the link type}; filter REPLACED on a live "
             "sniffer: every ordered pair (f1, f2) of accepted expressions x f1 installed via SnifferConfiguration::set_filter or BaseSniffer::set_filter "
             "x BaseSniffer::set_filter(f2) after k in 0..min(2,n) delivered packets (full product for sequences of length <= 2, 4 rotating "
             "combinations per longer sequence), every frame judged with libpcap's verdict for the expression in force when it was read; "
             "plus the file cut inside its last record. "
             "Oracle on every read: packets out = [f | the link type's top-level parser accepts f and pcap_offline_filter(harness-compiled program, f)], "
             "in order, same class, same bytes (serialization equal to that of the packet parsed directly from the frame; equal to the frame itself "
             "for the fixpoint frames and in extract_raw mode), same seconds/microseconds; stable clean end of file; no exception out of any reader; "
             "no ASan/UBSan report. OfflinePacketFilter value-semantics generations per expression (original, copy, copy of a copy, assigned from a copy "
             "of a copy, original assigned over an object holding another expression, copy of an assignment chain, elements of a std::vector after 3 "
             "push_backs, of a copied vector and of a vector assigned from it; every source destroyed before use; buffer overload on all, PDU "
             "overload on the original) = pcap_offline_filter for ITS expression on "
             "every frame; SnifferConfiguration is used through a copy of a copy assigned over a configuration with other settings; expressions libpcap rejects for a link type must be refused (invalid_pcap_filter / false). "
             "OBJECT HISTORIES: explicit-state BFS to fixpoint over the reference-model states of 2 FileSniffer slots x 3 captures of different "
             "link types (quick: 4 configurations, 3 frames per capture, set_filter OR extract_raw op; thorough: 8 link-type triples covering all 7 "
             "link types, 4 frames, both ops); ops = construct on capture k, next_packet, sniff_loop to the end, set_filter('tcp port 80' / ''), "
             "set_extract_raw_pdus, move-assign slot<-slot, move-assign slot<-fresh sniffer on capture k, move-construct, destroy; model slot = "
             "(capture, cursor, end-of-file seen, filter, raw), a move transfers exactly that and the source is only destroyed or assigned to "
             "afterwards; every transition replays its whole history on fresh objects, judges every next()/loop (class, bytes, timestamp, "
             "null at the end), link_type() of every live slot after every op, and then PROBES: drains every live slot (next_packet / iterator / "
             "sniff_loop rotating) against the model, so state hidden in the object shows although model states are merged. Same BFS for 2 "
             "PacketWriter slots x 3 files of different link types (construct, write(Packet&), move-assign slot<-slot / <-fresh, move-construct, "
             "destroy; <= 2 (quick) / 3 (thorough) records per file): after all writer objects are gone every opened file is a complete capture "
             "of its own link type holding exactly the packets written through the slot that referred to it, unopened files are untouched. "
             "evaluations = file reads judged; distinct_nontrivial = distinct (link type, filter, per-frame accept/skip pattern) with at least "
             "one accepted and one skipped frame, plus history model states with two live objects or a moved-from object / >= 2 files in play."),
    "claim": ("Every frame sequence up to the length bound over the alphabet is a file that was written, read by every reader and judged; "
              "frames are handled independently by the loop except for the libpcap buffer they share, so sequences of length 2 already cover "
              "every (previous frame, frame) pair and the longer ones cover skip chains before/after/between accepted frames and the end of file. "
              "Object histories: the reachable set of reference-model states of two slots is finite and explored to fixpoint; every transition out of "
              "every reachable state is executed on the real objects and followed by a drain probe."),
    "note": ("Trusted: libpcap (file reading, filter compilation and evaluation), the sanitizers, the harness' 20-line pcap writer/reader. "
             "Bound: sequence length, the 9-frame alphabets, 3 timestamps, 8 filter expressions, one filter replacement per read. rot=1,2 run a reduced reader set (timestamps "
             "do not interact with readers); constructors are a full product only for sequences of length <= 1. "
             "Histories: 2 slots, 3 captures of 3-4 frames, one filter expression; merged model states are justified by the drain probe after every transition, "
             "not by a proof that the implementation has no further hidden state."),
    "assumptions": ["libpcap reads what libpcap-format files contain and pcap_offline_filter is the reference verdict (DESIGN appendix C)",
                    "no frame that makes a top-level parser throw anything but malformed_packet is known (1M one-byte deviations/truncations of 30 seeds searched); "
                    "the alphabet therefore has none",
                    "a custom sniffing method may hand the handler a buffer of exactly caplen bytes (sniffer.h: 'or a custom function with the same signature')",
                    "sanitizers: ASan+UBSan (alignment check off)"],
}
