"""check specification for C05 (loaded by lib/props.py)"""

_DL = {"quick": 900, "thorough": 3000}

SPEC = {
    "level": "exploration",
    # stage "san" first: `bin/check C05 --replay` uses the first stage's binary; case strings do not depend on --reduced
    "stages": [
        {"name": "san", "harness": "C05_derived.cpp", "config": "san", "gen": True, "args": ["--reduced"], "deadline": _DL},
        {"name": "fast", "harness": "C05_derived.cpp", "config": "fast", "gen": True, "deadline": _DL},
    ],
    "technique": ("bounded exhaustive enumeration of built and parsed packets plus complete 16-bit word sweeps on the real serializer, every wire image judged by an "
                  "independent reference dissector (mc/ref/dissect.hpp) and by libpcap filter programs"),
    "rule": ("G: every grammar packet (hand-written stacks covering every class and layer adjacency + every generated (class, setter, sample) variant; quick 3, thorough all "
             "samples per setter), each also with a 5- and a 6-byte payload under its innermost layer. X: 46 checksum-carrying stack shapes (eth/ip/tcp, eth/ip/udp, ip/icmp, "
             "eth/ipv6/{tcp,udp,icmpv6}, IP options, TCP options, IPv6 extension headers, 802.1Q, QinQ, 802.1Q without padding, dot3/snap and dot3/llc/snap, SLL, loopback, PPPoE "
             "session + PPP, MPLS x1/x2, ICMP / ICMPv6 errors with RFC 4884 extension structure and/or length octet, RadioTap with and without FCS over 802.11 data / QoS data / "
             "beacon, ip-in-ip, 6in4, 4in6, 6in6, AH, VXLAN, ICMP timestamp) x EVERY payload size 0..140 (thorough 0..1600) + {255,256,1471..1473,9000,32767,32768} + five sizes "
             "around the 65535-byte limit; ladders: every IPv6 extension header data size 0..24 x {hop-by-hop, destination, routing} x 4 contexts, fragment headers, TCP and IP "
             "option data sizes 0..38, AH ICV sizes, ICMP{3,11,12}/ICMPv6{3} x 28 original datagram sizes around the 4/8-byte rounding and the 128-byte minimum x {extension} x "
             "{length octet}, every tag-writing parent (EthernetII, Dot1Q, SNAP, SLL, IP, IPv6, IPv6+ext, AH, Loopback, LLC, MPLS) preset with a wrong tag in front of every child "
             "class libtins has a tag for, Ethernet payload sizes 0..64 x {raw, ip/udp, dot1q, dot1q without padding, QinQ}, EAPOL / Dot3 / PPPoE / RadioTap bodies of 8 sizes. "
             "S: for every shape one 16-bit word swept through ALL 65536 values - a payload word with an even payload length, a payload word straddling the zero-padded last byte "
             "of an odd payload length, the IPv4 identification (header checksum), a word inside the first ICMP extension object; thorough adds both payload sweeps at payload "
             "length 1400/1401 - 250 sweeps quick, 434 thorough, all values in stage 'fast' (both tiers) and in stage 'san' (thorough); quick stage 'san' takes every 251st value "
             "+ 13 boundary values + the values computed with the reference sum to drive each checksum field to 0x0000 / 0xffff and their neighbours. "
             "V: fields set by the harness swept through their domain with libpcap programs compiled per value: TCP / UDP ports 0..65535 on four stacks, VLAN id 0..4095 outer and "
             "QinQ inner, PPPoE session id, ICMP type, TTL, address octet 0..255, MPLS label stride 251 (quick: stride 17 on 16-bit domains). "
             "P: every wire seed of the corpus (layer suffixes of all grammar packets + hand-written wire seeds) parsed by its entry point and re-serialized. "
             "R: histories of serializations of ONE object, every output dissected and filtered: first serialize(), second serialize(), a clone (twice), a Packet copy, the object "
             "wrapped into an EthernetII after it was serialized alone, the network layer detached from its link layer, then after src_addr() / dst_addr() on every IP / IPv6 layer, "
             "after the payload grew by 3 bytes, after the transport child was swapped TCP <-> UDP, after the payload was removed, once more, and (outermost IP) after "
             "src_addr(0.0.0.0) - applied to all 46 shapes x payload {0,7,8,133} (thorough + {1,45,46,600} and with the clone / the Packet copy serialized BEFORE the original), to "
             "every grammar packet, to ICMP / ICMPv6 errors with and without length octet / extension / original datagram, and to 63 stacks whose outermost IP has NO source "
             "address and destination 127.0.0.1 (TCP, UDP, ICMP, IP-in-IP with and without inner source, 6in4, IP options, TCP options, AH, ICMP errors; payload {0,1,7,8,45}) in "
             "4 orders (itself / clone / Packet copy / wrapped in EthernetII first): there IP::prepare_for_serialize() looks the source up (lo) at serialization time and every "
             "checksum must verify against the addresses in the SERIALIZED header; the same stacks below EthernetII / Dot1Q / SLL / Loopback / an outer IP, where the source that "
             "was set (0.0.0.0) must be the one on the wire; plus the first serialization of a FRESH routed ip/tcp and ip/udp object for every 251st (thorough: every) value of a "
             "payload word. skipped_no_route is counted instead when NetworkInterface(127.0.0.1) is not available. "
             "Oracle 1, reference dissector: reads the wire from the link type; per layer compared with the object that was serialized: header-length fields (IPv4 ihl, TCP data "
             "offset, IPv6 extension chain with every Hdr Ext Len, RadioTap it_len, AH length) = real header end; length fields (IPv4 tot_len, IPv6 payload_length, UDP length, 802.3 "
             "length, PPPoE payload_length, EAPOL length, RFC 4884 length octet, ND option lengths, MLDv2 record count) = bytes governed; the protocol named by every next-protocol tag "
             "(EtherType in EthernetII / 802.1Q / SNAP / SLL incl. PPPoE discovery vs session and QinQ, IPv4 protocol, IPv6 next-header chain incl. 59 when nothing follows, AH next "
             "header, 802.2 SAPs for STP, loopback family, MPLS bottom-of-stack + first nibble) = class of the next layer whenever libtins has a tag for that class; Ethernet II frames "
             ">= 60 bytes with all-zero padding and no padding beyond 60 + 4 per 802.1Q tag; checksums by an own RFC 1071 sum (64-bit accumulator, big-endian words) - IPv4 header, "
             "TCP / UDP (never 0) / ICMPv6 with own pseudo header when directly inside IPv4 / IPv6 (also behind extension headers), ICMP, RFC 4884 extension structure (+ version, "
             "object lengths, object count, zero fill of the original datagram), RadioTap FCS by a bitwise CRC-32. "
             "Oracle 2, libpcap: pcap_open_dead(DLT of the root) + pcap_compile + pcap_offline_filter of predicates over the values that were set (ether src/dst/proto, vlan N, mpls N, "
             "pppoes N / pppoed, ip / ip6 / arp, ip src/dst, ip proto, ip[2:2], ip[0]&0xf, ip[8], tcp/udp src/dst port, tcp[12], tcp[13], udp[4:2], icmp[icmptype], icmp[icmpcode], "
             "ip6 src/dst, ip6[4:2], ip6 proto, ip6 protochain, ip6[40], wlan addr1, wlan type/subtype, stp): must match; the same predicate with a neighbouring value: must not match. "
             "distinct_nontrivial = distinct (stack, per-layer header_size/trailer_size vector)."),
    "claim": ("Inside the stated families every packet is serialized and judged; every one of the 65536 values of each swept word is evaluated (fast stage), so the one's-complement "
              "sums pass through every residue, both folds and the UDP computed-zero case in every stack shape. A derived field that is wrong for any of these packets is reported."),
    "note": ("Trusted: mc/ref/dissect.hpp (no libtins code; protocol numbers from IEEE/IANA), libpcap 1.10 as second opinion, object getters for the values that were set (C04/C15). "
             "Not stricter than the statement: tags are judged only in front of a class libtins has a tag for (RawPDU / unknown classes keep the user's value; EthernetII / Dot1Q / IP "
             "without payload write 0; LLC derives SAPs only for STP; MPLS S=0 in front of another label is the user's default); transport checksums only directly inside IPv4 / IPv6 "
             "(behind AH, in fragments and as root layer they are counted, not judged); version nibbles, ARP address lengths, SNAP OUI are user fields; layers the wire format cannot "
             "express are counted as unrepresentable_layers (TCP / IP header > 60 bytes, AH ICV not a multiple of 4, RFC 4884 original datagram > 255 units, 802.3 payload >= 1536, "
             "ND options / MLDv2 aux data of non-multiple sizes) and skipped; Dot3 frames are not padded by libtins and not required to be. Root IP with source 0.0.0.0 (routing "
             "table), PPI / PKTAP (not serializable), packets > 65535 bytes and empty packets are skipped and counted."),
    "assumptions": ["builder alphabets stay within wire-representable sizes; unrepresentable layers are counted and not judged",
                    "the pseudo header of TCP/UDP/ICMPv6 behind an IPv6 routing header uses the destination address of the IPv6 header (libtins has no notion of the final destination)",
                    "the sandbox has the loopback interface lo with 127.0.0.1 (route_to_127.0.0.1_available / skipped_no_route in the evidence say which); the looked-up source address itself is not judged, only that the wire is consistent with it",
                    "an ICMP / ICMPv6 error built with an extension structure but without any original datagram is outside RFC 4884; judged there: the length octet is 0 and the structure behind the header verifies",
                    "DLT_NULL family values are read in host byte order; AF_INET6 = 10 and AF_LLC = 26 (Linux values) are accepted next to the BSD values 24/28/30"],
}
