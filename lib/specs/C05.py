"""check specification for C05 (loaded by lib/props.py)"""

_DL = {"quick": 900, "thorough": 3000}

SPEC = {
    "level": "exploration",
    # stage "san" first: `bin/check C05 --replay` uses the first stage's binary; case strings do not depend on --reduced
    "stages": [
        {"name": "san", "harness": "C05_derived.cpp", "config": "san", "gen": True, "args": ["--reduced"], "deadline": _DL},
        {"name": "fast", "harness": "C05_derived.cpp", "config": "fast", "gen": True, "deadline": _DL},
    ],
    "technique": "exhaustive enumeration of built / parsed packets and 16-bit word sweeps, judged by an independent reference dissector and by libpcap filter programs",
    "rule": "",
    "claim": "",
    "note": "",
    "assumptions": [],
}
