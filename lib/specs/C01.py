"""check specification for C01 (loaded by lib/props.py)"""

SPEC = {
    "level": "exploration",
    "stages": [{"name": "main", "harness": "BX_bytes.cpp", "config": "san", "gen": True, "args": ["--prop", "C01"],
                "deadline": {"quick": 420, "thorough": 3000}}],
    "technique": "deviation-bounded exhaustive input enumeration on the real parsers under ASan/UBSan + allocation ledger",
    "rule": ("for every parsing entry point (all classes with a (buffer,size) constructor - generated from the current headers -, "
             "Dot11::from_bytes, EAPOL::from_bytes, BootP, the sniffer's DLT dispatch): SHORT = all strings of length 0,1,2, length 3 over 24 "
             "boundary bytes, length 4 over 12 (16 thorough); SEEDS = wire images of ~800 (quick) grammar packets (hand-written stacks + one "
             "variant per generated (class,setter,sample)) cut at every layer boundary + hand-written wire seeds; per seed: d1 = every position x "
             "all 255 other values, t = every truncation, x = extensions, t x d1s = every truncation x 8 (24 thorough) boundary values on every "
             "structural byte (a byte is structural iff one of its 255 substitutions changes accept/reject or the layer/size structure); thorough: "
             "d2s pairs of structural bytes x 16x16 grid, LENGTH-MAX growth to 65535/65556. Each input sits in an exactly-sized heap block. "
             "For every accepted packet: every generated getter of every layer, size(), find_pdu, clone + delete, delete. Oracle: no ASan/UBSan "
             "report, only malformed_packet from the parser, only libtins exceptions from accessors, allocation ledger back to baseline, 20 s watchdog. "
             "distinct_nontrivial = distinct (entry point, layer-type/header-size/trailer-size vector) among accepted inputs."),
    "claim": ("Every input within two deviations of a well-formed seed of every entry point (and every short string) is parsed and swept; "
              "memory/UB/leak/exception-type faults anywhere in that family are found deterministically."),
    "note": "Trusted: clang ASan/UBSan (alignment and null-reference-binding checks off, see DESIGN 2.6), glibc, the seed grammar's breadth.",
    "assumptions": ["inputs further than two deviations from every seed and longer than 4 bytes are not reached",
                    "UBSan 'alignment' and 'null' (reference to element 0 of an empty vector) checks are disabled"],
}
