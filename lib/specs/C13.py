"""check specification for C13 (loaded by lib/props.py)"""

SPEC = {
    "level": "exploration",
    "stages": [{"name": "main", "harness": "C13_casts.cpp", "config": "san", "gen": True,
                "deadline": {"quick": 900, "thorough": 2400}}],
    "technique": "exhaustive evaluation of a finite class table generated from the headers' AST",
    "rule": ("K = every concrete class deriving from Tins::PDU + PDUCacher<X> for every cacheable X; T = every class with a pdu_flag "
             "(abstract ones included) + PDUCacher<X>; both tables are generated from clang's AST of a TU including every header "
             "below include/tins of the tree being checked (lib/gen.py -> classes.inc), the harness does not build if a concrete class "
             "cannot be instantiated by it. For EVERY chain of 1 and 2 (quick) and 3 (thorough) objects of classes K (default-constructed, "
             "or from a minimal buffer) plus every object Dot11::from_bytes / EAPOL::from_bytes returns over all 256 values of the "
             "frame-control / descriptor-type byte, and EVERY T: find_pdu<T>, rfind_pdu<T> (const and non-const) on the head, "
             "tins_cast<T*>, tins_cast<const T*>, tins_cast<T>(ref) on the head; a non-null result must be dynamic_cast<T*> of a chain "
             "element (of the head for casts); an element whose exact class is T must be found (and returned when it is the head). "
             "STATE SWEEPS (single objects, every plain T, same oracle): for every concrete class with a (buffer,size) constructor that "
             "constructor itself on its default wire image (+64 zero bytes), on 128 zero bytes and on the harness' minimal image, with every "
             "value of each of the first 8 (quick) / 32 (thorough) bytes and the grid byte0 (256) x byte1 (6 / 32 boundary values), accepted "
             "buffers only; and a default object after one call of every public small-value setter of the generated setter table (bool, "
             "integers, small_uint<N>, enums; inherited ones included), argument swept over the whole domain up to 8 (quick) / 16 (thorough) "
             "bits, per-byte and single-bit boundary values above; the quick-tier domain also AFTER every T was looked up on the object (look up, "
             "mutate, look up again). ORIGIN / HISTORY: for every (K, B) of the generated slice table (K concrete, B a non-abstract "
             "copy-constructible public PDU base of K: 45 pairs) and every K onto itself, o = default K that was looked up {never, for every T, "
             "for exactly one plain T (same-class: thorough only)}; result = B sliced(o), B assigned = o, clone() of the sliced copy, "
             "move-construction of it (and o itself for B = K); every plain T on the result, oracle = its dynamic type. EMPTY STATES "
             "(generated): every public constructor that takes (pointer, length) / string / container / iterator pair handed nothing, every "
             "container or string setter given an empty value, every non-const container getter cleared (also on an object looked up before), "
             "each alone and as innermost layer of IP/UDP/x, all seven helpers, every T. WRAPPERS AROUND A CHAIN: for every PDUCacher<X> and every "
             "plain class Y the wrapper built from the packets X/Y and X/Y/RawPDU (thorough: also X/Y/Z, Y in {IP,UDP,TCP,SNAP,Dot11Data,"
             "EthernetII}, every plain Z), alone, as inner layer of an EthernetII and with an inner TCP of its own; every T, all seven helpers; "
             "a wrapper answering for anything but itself is wrongtype:*, except for its wrapped class X (and X's bases X answers to), which "
             "stays the known wrapper-alias:* finding. "
             "Signatures: wrongtype:<search|cast>:<K>-as-<T> (a wrong flag table entry / override), notfound:<search>:<T>, and "
             "wrapper-alias:<search|cast>:<kind> for the one root cause 'PDUCacher<X> carries X's flag' (only when, after unwrapping "
             "wrapper(s), the object really is what was asked for). evaluations = (chain, T) pairs, each with all 7 helpers; "
             "distinct_nontrivial = (chain, T) pairs with chain length <= 2 where at least one helper returned an object."),
    "claim": ("All (K, T) pairs of the generated table and all chains of up to 2 (quick) / 3 (thorough) layers over K are evaluated with "
              "every look-up and cast helper; the table cannot miss a class present in the headers."),
    "note": ("Trusted: clang's AST dump and dynamic_cast/RTTI as ground truth, UBSan vptr check as corroboration only. Object states: default, "
             "factory-built, own-constructor-from-swept-buffer, one-setter-call (with / without earlier look-ups), sliced / assigned / cloned / "
             "moved copies of looked-up objects, empty states (distinct_state_identities = state_classes shows that identity depends neither "
             "on state nor on history); states needing two or more setter calls or bytes beyond the swept prefix are not enumerated. "
             "Not covered: user-defined PDU classes, PDUCacher<PDUCacher<X>>, find_pdu called with an explicit flag argument."),
    "assumptions": ["ground truth for 'really is a T' is dynamic_cast<T*> (RTTI of the build under test)",
                    "classes = what clang's AST shows for a TU including every header below include/tins with the baseline config.h",
                    "sanitizers: ASan+UBSan (alignment check off)"],
}
