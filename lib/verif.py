#!/usr/bin/env python3
"""Shared plumbing for /verif checks: build cache, job runner, evidence writer,
known-findings matcher.  Everything here is deterministic; VERIF_SEED is only recorded."""
import concurrent.futures as cf
import fnmatch
import glob
import hashlib
import json
import os
import shutil
import signal
import subprocess
import sys
import time

VERIF = os.path.dirname(os.path.dirname(os.path.abspath(__file__)))
REPO = os.environ.get("VERIF_REPO", "/repo")
BUILD = os.path.join(VERIF, "build")
NPROC = int(os.environ.get("VERIF_JOBS", str(os.cpu_count() or 8)))
CXX = "clang++"

CONFIGS = {
    # name: (compile flags for libtins TUs and harness, link flags)
    "san": (["-std=c++11", "-O1", "-g", "-fsanitize=address,undefined", "-fno-sanitize=alignment,null,enum",
             "-fsanitize-recover=address,undefined", "-fno-omit-frame-pointer", "-DTINS_STATIC"],
            ["-fsanitize=address,undefined", "-fno-sanitize=alignment,null,enum"]),
    "fast": (["-std=c++11", "-O2", "-DTINS_STATIC"], []),
    "trace": (["-std=c++11", "-O1", "-g", "-fno-omit-frame-pointer", "-DTINS_STATIC",
               "-fsanitize-coverage=trace-loads,trace-stores,edge"], []),
    "tsan": (["-std=c++11", "-O1", "-g", "-fsanitize=thread", "-DTINS_STATIC"], ["-fsanitize=thread"]),
}
LIBS = ["-lpcap", "-lcrypto", "-lpthread"]


def cfg_dir(config):
    """build dir of a config: name + hash of its flags, so that a flag change rebuilds"""
    return os.path.join(tree_dir(), config + "_" + hashlib.sha1(repr(CONFIGS[config]).encode()).hexdigest()[:6])


def log(*a):
    print("[verif]", *a, file=sys.stderr, flush=True)


def sha(paths, extra=b""):
    h = hashlib.sha1()
    h.update(extra)
    for p in sorted(paths):
        h.update(p.encode())
        try:
            with open(p, "rb") as f:
                h.update(f.read())
        except OSError:
            h.update(b"<missing>")
    return h.hexdigest()[:16]


def repo_sources():
    return sorted(glob.glob(os.path.join(REPO, "src", "**", "*.cpp"), recursive=True))


def repo_headers():
    return sorted(glob.glob(os.path.join(REPO, "include", "**", "*.h"), recursive=True))


_tree_hash = None


def tree_hash():
    global _tree_hash
    if _tree_hash is None:
        _tree_hash = sha(repo_sources() + repo_headers())
    return _tree_hash


def tree_dir():
    d = os.path.join(BUILD, "t_" + tree_hash())
    os.makedirs(d, exist_ok=True)
    return d


def prune_old_trees(keep=4, min_age_s=3 * 3600):
    """Drop build trees of older working-tree hashes (never one used in the last hours: parallel checks
    against scratch copies via VERIF_REPO share this cache)."""
    ds = sorted(glob.glob(os.path.join(BUILD, "t_*")), key=os.path.getmtime, reverse=True)
    cur = tree_dir()
    os.utime(cur, None)
    n = 0
    for d in ds:
        if d == cur:
            continue
        n += 1
        if n >= keep and time.time() - os.path.getmtime(d) > min_age_s:
            shutil.rmtree(d, ignore_errors=True)


def include_dir():
    """/repo/include, plus a generated config.h if the tree has none."""
    inc = [os.path.join(REPO, "include")]
    if not os.path.exists(os.path.join(REPO, "include", "tins", "config.h")):
        g = os.path.join(tree_dir(), "geninc", "tins")
        os.makedirs(g, exist_ok=True)
        with open(os.path.join(g, "config.h"), "w") as f:
            f.write("#ifndef TINS_CONFIG_H\n#define TINS_CONFIG_H\n#define TINS_HAVE_CXX11\n#define TINS_HAVE_DOT11\n"
                    "#define TINS_HAVE_WPA2_DECRYPTION\n#define TINS_HAVE_TCPIP\n#define TINS_HAVE_ACK_TRACKER\n"
                    "#define TINS_HAVE_TCP_STREAM_CUSTOM_DATA\n#define TINS_HAVE_GCC_BUILTIN_SWAP\n"
                    "#define TINS_HAVE_WPA2_CALLBACKS\n#define TINS_HAVE_PCAP\n#define TINS_VERSION_MAJOR 4\n"
                    "#define TINS_VERSION_MINOR 6\n#define TINS_VERSION_PATCH 0\n#endif\n")
        inc.append(os.path.dirname(g))
    return inc


def ensure_gen():
    """Tables generated from the CURRENT headers (lib/gen_api.py [+ lib/gen.py if present]) -> build/t_<hash>/gen/"""
    import fcntl
    gh = sha([os.path.join(VERIF, "lib", "gen_api.py"), os.path.join(VERIF, "lib", "gen.py")])[:8]
    d = os.path.join(tree_dir(), "gen_" + gh)      # regenerated when the tree OR a generator changes
    os.makedirs(d, exist_ok=True)
    with open(os.path.join(d, ".lock"), "w") as lk:
        fcntl.flock(lk, fcntl.LOCK_EX)
        if not os.path.exists(os.path.join(d, "api.inc")):
            import gen_api
            t0 = time.time()
            st = gen_api.generate(d, include_dir())
            log("generated API tables in %.1fs: %s" % (time.time() - t0, st))
        if os.path.exists(os.path.join(VERIF, "lib", "gen.py")) and not os.path.exists(os.path.join(d, ".gen_done")):
            import gen
            if hasattr(gen, "generate"):
                gen.generate(d, include_dir())
            open(os.path.join(d, ".gen_done"), "w").close()
    return d


def _run(cmd, **kw):
    r = subprocess.run(cmd, stdout=subprocess.PIPE, stderr=subprocess.STDOUT, text=True, **kw)
    return r.returncode, r.stdout


def build_lib(config):
    """Compile every libtins TU of the working tree with the config's flags -> libtins.a"""
    import fcntl
    d = cfg_dir(config)
    lib = os.path.join(d, "libtins.a")
    if os.path.exists(lib):
        return lib
    os.makedirs(d, exist_ok=True)
    with open(os.path.join(d, ".lock"), "w") as lk:
        fcntl.flock(lk, fcntl.LOCK_EX)      # concurrent checks on the same tree build once
        if os.path.exists(lib):
            return lib
        return _build_lib_locked(config, d, lib)


def _build_lib_locked(config, d, lib):
    t0 = time.time()
    od = os.path.join(d, "obj")
    os.makedirs(od, exist_ok=True)
    cflags, _ = CONFIGS[config]
    incs = [x for i in include_dir() for x in ("-I", i)]
    jobs = []
    for s in repo_sources():
        o = os.path.join(od, os.path.relpath(s, os.path.join(REPO, "src")).replace("/", "_")[:-4] + ".o")
        jobs.append((s, o))

    def comp(so):
        s, o = so
        return so, _run([CXX] + cflags + incs + ["-c", s, "-o", o])

    with cf.ThreadPoolExecutor(NPROC) as ex:
        for (s, o), (rc, out) in ex.map(comp, jobs):
            if rc != 0:
                sys.stderr.write(out)
                raise SystemExit("BUILD-ERROR: libtins TU %s does not compile in config %s" % (s, config))
    tmp = lib + ".tmp"
    if os.path.exists(tmp):
        os.unlink(tmp)
    rc, out = _run(["ar", "rcs", tmp] + [o for _, o in jobs])
    if rc != 0:
        sys.stderr.write(out)
        raise SystemExit("BUILD-ERROR: ar failed")
    os.rename(tmp, lib)
    log("built libtins [%s] in %.1fs" % (config, time.time() - t0))
    return lib


def harness_deps():
    return sorted(glob.glob(os.path.join(VERIF, "mc", "**", "*.hpp"), recursive=True) +
                  glob.glob(os.path.join(VERIF, "mc", "**", "*.inc"), recursive=True) +
                  glob.glob(os.path.join(VERIF, "mc", "**", "*.cpp"), recursive=True))


def build_harness(src, config, extra_flags=(), extra_srcs=(), gen_inc=None):
    """Compile harness/<src> against the config's libtins.a. Cached on tree hash + harness sources."""
    lib = build_lib(config)
    srcp = os.path.join(VERIF, "harness", src)
    deps = harness_deps() + [srcp] + [os.path.join(VERIF, x) for x in extra_srcs]
    if gen_inc:
        deps += sorted(glob.glob(os.path.join(gen_inc, "*")))
    key = sha(deps, extra=(" ".join(extra_flags) + config).encode())
    out = os.path.join(cfg_dir(config), "%s_%s" % (os.path.splitext(src)[0], key))
    if os.path.exists(out):
        return out
    t0 = time.time()
    cflags, lflags = CONFIGS[config]
    incs = [x for i in include_dir() for x in ("-I", i)] + ["-I", os.path.join(VERIF, "mc")]
    if gen_inc:
        incs += ["-I", gen_inc]
    # drop stale binaries of the same harness
    for old in glob.glob(os.path.join(cfg_dir(config), os.path.splitext(src)[0] + "_*")):
        try:
            os.unlink(old)
        except OSError:
            pass
    cmd = ([CXX] + cflags + ["-fno-access-control", "-Wno-everything"] + list(extra_flags) + incs +
           [srcp] + [os.path.join(VERIF, x) for x in extra_srcs] + [lib] + lflags + LIBS + ["-o", out + ".tmp"])
    rc, o = _run(cmd)
    if rc != 0:
        sys.stderr.write(o)
        raise SystemExit("BUILD-ERROR: harness %s does not compile against the current tree (config %s)" % (src, config))
    os.rename(out + ".tmp", out)
    log("built harness %s [%s] in %.1fs" % (src, config, time.time() - t0))
    return out


SAN_ENV = {
    "ASAN_OPTIONS": "halt_on_error=0:detect_leaks=0:allocator_may_return_null=1:max_allocation_size_mb=512:"
                    "detect_stack_use_after_return=0:print_summary=0:handle_abort=1:symbolize=1:"
                    "detect_odr_violation=0:malloc_context_size=3",
    "UBSAN_OPTIONS": "print_stacktrace=0:halt_on_error=0",
    "TSAN_OPTIONS": "halt_on_error=0:report_signal_unsafe=0",
}


def run_jobs(binary, tier, base_args=(), deadline_s=None, logname="run", job_timeout=None, max_restarts=50):
    """Ask the harness how many jobs it has, run them NPROC at a time, return merged result dict."""
    env = dict(os.environ)
    env.update(SAN_ENV)
    rc, out = _run([binary, "--tier", tier] + list(base_args) + ["--list-jobs"], env=env)
    if rc != 0:
        sys.stderr.write(out)
        raise SystemExit("CHECK-ERROR: %s --list-jobs failed" % binary)
    njobs = int(out.strip().split()[-1])
    work = os.path.join(BUILD, "work", "%s_%d" % (logname, os.getpid()))
    shutil.rmtree(work, ignore_errors=True)
    os.makedirs(work)
    t_end = time.time() + deadline_s if deadline_s else None

    def one(k):
        results = []
        crashed = []
        restarts = 0
        while True:
            outp = os.path.join(work, "job%d_%d.json" % (k, restarts))
            prog = os.path.join(work, "job%d.progress" % k)
            errp = os.path.join(work, "job%d_%d.stderr" % (k, restarts))
            with open(prog, "wb") as f:
                f.write(b"\0" * 65536)
            args = [binary, "--tier", tier] + list(base_args) + ["--job", str(k), "--out", outp, "--progress", prog]
            if crashed:
                args += ["--skip-list", ",".join(str(x) for x in crashed)]
            if t_end:
                args += ["--deadline", str(max(1, int(t_end - time.time())))]
            to = job_timeout
            if t_end:
                to = max(30, t_end - time.time() + 120)
            with open(errp, "wb") as ef:
                try:
                    p = subprocess.run(args, stdout=ef, stderr=subprocess.STDOUT, env=env, timeout=to)
                    rcode = p.returncode
                except subprocess.TimeoutExpired:
                    rcode = -999
            if os.path.exists(outp):
                try:
                    with open(outp) as f:
                        results.append(json.load(f))
                except Exception as e:  # truncated output
                    results.append({"violations": [{"sig": "harness:bad-output", "detail": str(e), "case": "", "count": 1}]})
            if rcode == 0:
                break
            # abnormal end: the progress file names the case that was running
            with open(prog, "rb") as f:
                raw = f.read().split(b"\0", 1)[0].decode("utf-8", "replace")
            idx, _, case = raw.partition("|")
            ctx, _, case = case.partition("|")
            tail = ""
            try:
                with open(errp, "rb") as f:
                    f.seek(max(0, os.path.getsize(errp) - 6000))
                    tail = f.read().decode("utf-8", "replace")
            except OSError:
                pass
            kind = "timeout" if rcode == -999 else ("signal%d" % -rcode if rcode < 0 else "exit%d" % rcode)
            if rcode == 3:  # harness watchdog
                kind = "hang"
            san = ""
            for ln in tail.splitlines():
                if "ERROR: AddressSanitizer:" in ln:
                    san = ln.split("AddressSanitizer:", 1)[1].split()[0]
            results.append({"flags": {"exhaustive": False},
                            "violations": [{"sig": "crash:%s%s:%s" % (kind, ":" + san if san else "", ctx or "?"),
                                            "detail": tail[-3000:], "case": case, "count": 1}]})
            restarts += 1
            try:
                crashed.append(int(idx))
            except ValueError:
                break
            # the re-run repeats the job without the crashing case(s): keep only its results, not the partial ones
            results = [r for r in results if not r.get("counters")]
            if restarts > max_restarts or (t_end and time.time() > t_end):
                break
        return results

    merged = {"counters": {}, "max": {}, "distinct": {}, "samples": [], "violations": {}, "flags": {}, "info": {}}
    with cf.ThreadPoolExecutor(NPROC) as ex:
        for res in ex.map(one, range(njobs)):
            for r in res:
                merge(merged, r)
    merged["jobs"] = njobs
    merged["workdir"] = work
    return merged


def merge(m, r):
    for k, v in r.get("counters", {}).items():
        m["counters"][k] = m["counters"].get(k, 0) + v
    for k, v in r.get("max", {}).items():
        m["max"][k] = max(m["max"].get(k, 0), v)
    for k, v in r.get("distinct", {}).items():
        m["distinct"].setdefault(k, set()).update(v)
    for s in r.get("samples", []):
        if len(m["samples"]) < 12:
            m["samples"].append(s)
    for k, v in r.get("flags", {}).items():
        m["flags"][k] = m["flags"].get(k, True) and v
    for k, v in r.get("info", {}).items():
        m["info"].setdefault(k, v)
    for v in r.get("violations", []):
        e = m["violations"].get(v["sig"])
        if e is None:
            m["violations"][v["sig"]] = dict(v)
        else:
            e["count"] = e.get("count", 1) + v.get("count", 1)
            # keep the shortest case as representative
            if len(v.get("case", "")) and (not e.get("case") or len(v["case"]) < len(e["case"])):
                e["case"], e["detail"] = v["case"], v.get("detail", "")


# ------------------------------------------------------------------ known findings

def load_known(prop):
    """known_findings.txt lines:
         open: property=Cxx signature=<glob> replay=<path> :: <what fails>
         fixed: property=Cxx <commit> <what failed>
    """
    opens = []
    p = os.path.join(VERIF, "known_findings.txt")
    if not os.path.exists(p):
        return opens
    for ln in open(p):
        ln = ln.strip()
        if not ln.startswith("open:"):
            continue
        head, _, what = ln[5:].partition("::")
        kv = dict(x.split("=", 1) for x in head.split() if "=" in x)
        if kv.get("property") == prop:
            opens.append({"signature": kv.get("signature", ""), "replay": kv.get("replay", ""), "what": what.strip()})
    return opens


def finish(prop, tier, level, merged, t0, rule, assumptions, extra_cov=None, replay_note=""):
    """Write evidence, print KNOWN-FINDING / VIOLATION lines, return exit code."""
    seed = int(os.environ.get("VERIF_SEED", "0") or 0)
    cov = {}
    cov.update(merged["counters"])
    cov.update(merged["max"])
    for k, s in merged["distinct"].items():
        cov[k] = len(s)
    for k, v in merged["flags"].items():
        cov[k] = v
    for k, v in merged["info"].items():
        cov[k] = v
    cov["samples"] = merged["samples"] or ["<none>"]
    cov["rule"] = rule
    cov["jobs"] = merged.get("jobs", 1)
    if extra_cov:
        cov.update(extra_cov)
    cov.setdefault("exhaustive", False)
    opens = load_known(prop)
    known, new = [], []
    for sig, v in sorted(merged["violations"].items()):
        hit = None
        for o in opens:
            if fnmatch.fnmatchcase(sig, o["signature"]):
                hit = o
                break
        (known if hit else new).append((sig, v, hit))
    vdir = os.environ.get("VERIF_VIOLATIONS_DIR") or os.path.join(VERIF, "violations")
    os.makedirs(vdir, exist_ok=True)
    for f in glob.glob(os.path.join(vdir, prop + "_*.json")):
        os.unlink(f)
    rc = 0
    seen_known = set()
    for sig, v, hit in known:
        if hit["signature"] in seen_known:
            continue
        seen_known.add(hit["signature"])
        print("KNOWN-FINDING: property=%s %s [signature %s, %d hits]" % (prop, hit["what"], hit["signature"], sum(
            vv.get("count", 1) for s2, vv, h2 in known if h2 is hit)))
    for sig, v, _ in new:
        rp = os.path.join(vdir, "%s_%s.json" % (prop, hashlib.sha1(sig.encode()).hexdigest()[:10]))
        with open(rp, "w") as f:
            json.dump({"property": prop, "signature": sig, "case": v.get("case", ""), "detail": v.get("detail", ""),
                       "count": v.get("count", 1)}, f, indent=1)
        print("VIOLATION property=%s replay=%s" % (prop, rp))
        print("  signature: %s  (x%d)" % (sig, v.get("count", 1)))
        d = v.get("detail", "")
        if d:
            print("  detail: " + d[:600].replace("\n", "\n          "))
        rc = 1
    cov["known_findings_hit"] = sorted(seen_known)
    cov["violation_signatures"] = [s for s, _, _ in new]
    ev = {"property_id": prop, "tier": tier, "seed": seed, "level": level, "coverage": cov,
          "assumptions": assumptions, "wall_s": round(time.time() - t0, 2), "violations": len(new)}
    evdir = os.environ.get("VERIF_EVIDENCE_DIR") or os.path.join(VERIF, "evidence")   # mutation experiments keep /verif/evidence clean
    os.makedirs(evdir, exist_ok=True)
    tmp = os.path.join(evdir, prop + ".json.tmp")
    with open(tmp, "w") as f:
        json.dump(ev, f, indent=1, sort_keys=True)
    os.rename(tmp, os.path.join(evdir, prop + ".json"))
    wd = merged.get("workdir")
    if wd and rc == 0:
        shutil.rmtree(wd, ignore_errors=True)
    summ = {k: v for k, v in cov.items() if isinstance(v, (int, bool)) and not isinstance(v, str)}
    print("%s %s: %s in %.1fs  %s" % (prop, tier, "OK" if rc == 0 else "VIOLATIONS", time.time() - t0,
                                      json.dumps(summ, sort_keys=True)))
    return rc
