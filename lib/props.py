"""Per-property check specifications used by bin/check: one module per property in lib/specs/Cxx.py,
each defining SPEC = {level, stages, technique, rule, claim, note, assumptions[, post]}.
Optional lib/specs/Cxx.py may define NOT_APPLICABLE = "reason" instead of SPEC."""
import glob
import importlib.util
import os

PROPS = {}
NOT_APPLICABLE = {}
for _f in sorted(glob.glob(os.path.join(os.path.dirname(os.path.abspath(__file__)), "specs", "C*.py"))):
    _pid = os.path.basename(_f)[:-3]
    _spec = importlib.util.spec_from_file_location("specs_" + _pid, _f)
    _m = importlib.util.module_from_spec(_spec)
    _spec.loader.exec_module(_m)
    if hasattr(_m, "SPEC"):
        PROPS[_pid] = _m.SPEC
    elif hasattr(_m, "NOT_APPLICABLE"):
        NOT_APPLICABLE[_pid] = _m.NOT_APPLICABLE
