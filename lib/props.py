"""Per-property check specifications used by bin/check."""

PROPS = {}
NOT_APPLICABLE = {}

PROPS["C06"] = {
    "level": "model_checking",
    "stages": [{"name": "main", "harness": "C06_reassembly.cpp", "config": "san",
                "deadline": {"quick": 240, "thorough": 1500}}],
    "rule": ("explicit-state BFS to fixpoint over the real DataTracker (level a), Flow driven with IP/TCP/RawPDU packets and "
             "callbacks (level b) and the legacy TCPStreamFollower (level c); alphabet = every segment (off,len) of a stream "
             "of L distinct bytes plus stale/straddling segments before the ISN, every event always enabled; one BFS per ISN "
             "with the 2^32 wrap point at every stream offset; state = (relative delivery point, relative chunk map, counters) "
             "x model coverage mask; invariants on every transition: delivered = s[0:k] with k the contiguous arrived prefix, "
             "no chunk at or below k, chunk bytes = stream bytes, total_buffered_bytes = sum of chunk sizes. "
             "distinct_nontrivial = distinct product states holding >= 1 out-of-order chunk."),
    "technique": "explicit-state BFS to fixpoint over the implementation with lock-step reference model",
    "claim": ("Every reachable (implementation, model) product state for streams of L bytes, every ISN of a wrap-covering set and "
              "every order/duplication/overlap of segments is visited and the delivery invariants are evaluated on every transition; "
              "the reachable set is finite and explored to fixpoint, so within the bound this is a complete decision, not a sample."),
    "note": "Trusted: clang ASan/UBSan, the harness' 30-line reference model; bound: stream length L, ISN set.",
    "assumptions": ["segments carry bytes of one underlying stream (the property's premise)",
                    "stream length bounded by L (6 quick / 8 thorough); by symmetry of the algorithm in absolute offsets "
                    "larger streams add no new comparison outcomes beyond those of chunk-boundary orderings explored",
                    "sanitizers: ASan+UBSan (alignment check off)"],
}

PROPS["C19"] = {
    "level": "model_checking",
    "stages": [{"name": "main", "harness": "C19_acktracker.cpp", "config": "san",
                "deadline": {"quick": 300, "thorough": 2400}}],
    "technique": "explicit-state BFS to fixpoint over the implementation with lock-step reference model",
    "rule": ("BFS to fixpoint over (conforming receiver model) x (real AckTracker, standalone fed with parsed IP/TCP packets and "
             "inside Flow with ACK tracking); events: segment i of N 3-byte segments arrives at the receiver, which emits an ACK "
             "with its cumulative ACK and ANY subset (<= 3 quick / 4 thorough) of its out-of-order blocks as SACK option, delivered "
             "or lost; one BFS per ISN, wrap point at every byte offset of the stream; in every state: ack_number = model, "
             "acked_intervals as byte set = model SACKed bytes above the ACK, and is_segment_acked = model for EVERY query "
             "(seq in [ISN-3, ISN+3N+3], len 0..3N+4). distinct_nontrivial = product states with >= 1 SACKed byte."),
    "claim": ("All reachable product states of receiver x tracker for N segments are visited (finite, fixpoint), every ACK/SACK "
              "choice a conforming receiver could make is a branch, and the full query grid is compared in each state."),
    "note": "Trusted: sanitizers, the reference model (bitmask of SACKed bytes); bound: N segments, ISN set, no ACK reordering (property premise).",
    "assumptions": ["receiver is conforming: cumulative ACK monotone, SACK blocks truthful and strictly above it",
                    "ACK packets may be lost but are not reordered",
                    "sanitizers: ASan+UBSan (alignment check off)"],
}

PROPS["C08"] = {
    "level": "model_checking",
    "stages": [{"name": "main", "harness": "C08_ipfrag.cpp", "config": "san",
                "deadline": {"quick": 300, "thorough": 2400}}],
    "technique": "explicit-state BFS to fixpoint over the implementation with lock-step reference model",
    "rule": ("per configuration (datagram of n<=4 (quick) / 5 (thorough) 8-byte units + tail, protocol UDP/ICMP/TCP/unknown, EVERY "
             "composition into >= 2 fragments, optional second datagram differing in id / source / direction / protocol, bare IP or "
             "Ethernet root) a BFS to fixpoint over the real IPv4Reassembler (copied per state) x reference reassembler; events = every "
             "fragment of either datagram (re-sendable: duplicates, also after completion), an unfragmented packet, a non-IP packet, an "
             "MF|DF stray fragment; on every transition: status = reference status; on REASSEMBLED: header = first fragment's with "
             "offset/MF cleared, upper layer parsed as the protocol's class with correct parent link, serialization byte-identical to "
             "the original datagram; NOT_FRAGMENTED leaves the packet untouched. distinct_nontrivial = product states holding >= 2 fragments."),
    "claim": ("Every interleaving, duplication and arrival order of the fragments of two concurrent datagrams is covered per configuration "
              "(finite reachable set explored to fixpoint) and every partition shape of the payload up to the unit bound is a configuration."),
    "note": "Trusted: sanitizers, harness' own IPv4 header writer + RFC 1071 checksum, reference reassembler. Bound: n units, two concurrent datagrams.",
    "assumptions": ["fragments of one datagram do not overlap (property premise)",
                    "datagram identity = (id, source, destination, protocol) as in RFC 791",
                    "sanitizers: ASan+UBSan (alignment check off)"],
}
