#!/usr/bin/env python3
"""Generate API tables from the CURRENT libtins headers (clang AST dump) -> <outdir>/api.inc

Emitted X-macros (a harness defines the ones it wants before including api.inc; all default to nothing):
  API_CLASS(Q, T, is_pdu, is_abstract, has_default_ctor, has_buf_ctor)   every class/struct in namespace Tins (non-template)
  API_BASE(Q, T, BaseQ)                                                  direct public bases
  API_BUFCTOR(Q, T)                                                      concrete PDU classes with public (const uint8_t*, uint32_t) ctor
  API_GETTER(Q, T, name, "ret type")                                     public const nullary non-static non-template methods of PDU classes
  API_PAIR(Q, T, name, "arg type", "ret type")                           void name(Arg) setter with a same-named getter
  API_STRUCT_BEGIN(Q, T) API_FIELD(Q, name) API_FIELD_{P|A|B}(Q, name) API_STRUCT_END(Q, T)   public aggregates (option value types); P plain, A array, B bit-field
  API_VSTRUCT_BEGIN(Q, T) API_VGETTER(Q, name) API_VSTRUCT_END(Q, T)     value classes exposing state through getters only (printers)
Q = qualified C++ name, T = identifier-safe tag.
"""
import json
import os
import subprocess
import sys


def load_docs(text):
    dec = json.JSONDecoder()
    i, docs = 0, []
    n = len(text)
    while i < n:
        while i < n and text[i].isspace():
            i += 1
        if i >= n:
            break
        d, i = dec.raw_decode(text, i)
        docs.append(d)
    return docs


class Rec:
    def __init__(self, q):
        self.q = q
        self.bases = []
        self.methods = []   # (name, type, access, is_static, is_pure, nparams)
        self.ctors = []     # (type, access)
        self.fields = []    # (name, type, access)
        self.abstract = False
        self.default_ctor = False
        self.is_union = False
        self.access_in_parent = "public"
        self.has_anon = False
        self.has_ref_or_ptr_field = False
        self.template_methods = set()


ENUMS = {}   # qualified enum name -> [enumerator names]


def collect(docs):
    recs = {}

    def walk_enums(n, scope):
        for c in n.get("inner", []):
            k = c.get("kind")
            if k in ("NamespaceDecl", "CXXRecordDecl") and c.get("name"):
                walk_enums(c, scope + [c["name"]])
            elif k == "EnumDecl" and c.get("name"):
                q = "::".join(scope + [c["name"]])
                names = [e["name"] for e in c.get("inner", []) if e.get("kind") == "EnumConstantDecl"]
                if names:
                    ENUMS[q] = names

    for d in docs:
        if d.get("kind") == "NamespaceDecl" and d.get("name") == "Tins":
            walk_enums(d, ["Tins"])

    def walk(n, scope, acc_in_parent):
        for c in n.get("inner", []):
            k = c.get("kind")
            if k == "NamespaceDecl":
                nm = c.get("name")
                if nm:
                    walk(c, scope + [nm], "public")
            elif k == "CXXRecordDecl" and c.get("completeDefinition") and c.get("name"):
                q = "::".join(scope + [c["name"]])
                r = recs.get(q) or Rec(q)
                recs[q] = r
                dd = c.get("definitionData", {})
                r.abstract = bool(dd.get("isAbstract"))
                r.is_union = c.get("tagUsed") == "union"
                r.access_in_parent = acc_in_parent
                r.bases = [(b["type"].get("desugaredQualType") or b["type"]["qualType"], b.get("access", "public")) for b in c.get("bases", [])]
                acc = "private" if c.get("tagUsed") == "class" else "public"
                user_ctor = False
                for m in c.get("inner", []):
                    mk = m.get("kind")
                    if mk == "AccessSpecDecl":
                        acc = m.get("access", acc)
                    elif mk == "CXXMethodDecl" and not m.get("isImplicit"):
                        t = m.get("type", {}).get("qualType", "")
                        nparams = sum(1 for p in m.get("inner", []) if p.get("kind") == "ParmVarDecl")
                        r.methods.append((m.get("name"), t, acc, m.get("storageClass") == "static", bool(m.get("pure")), nparams,
                                          any(p.get("kind") == "ParmVarDecl" and any(x.get("kind") for x in p.get("inner", [])) for p in m.get("inner", []))))
                    elif mk == "FunctionTemplateDecl" and m.get("name"):
                        r.template_methods.add(m["name"])
                    elif mk == "CXXConstructorDecl" and not m.get("isImplicit"):
                        user_ctor = True
                        t = m.get("type", {}).get("qualType", "")
                        params = [p for p in m.get("inner", []) if p.get("kind") == "ParmVarDecl"]
                        ndefault = sum(1 for p in params if p.get("init") or any(x.get("kind", "").endswith("Expr") or x.get("kind", "").endswith("Literal") for x in p.get("inner", [])))
                        r.ctors.append((t, acc, len(params), ndefault))
                    elif mk == "FieldDecl":
                        ft = m.get("type", {}).get("qualType", "")
                        if not m.get("name"):
                            r.has_anon = True
                        else:
                            kind = "B" if m.get("isBitfield") else ("A" if ft.rstrip().endswith("]") else "P")
                            r.fields.append((m["name"], ft, acc, kind))
                        if "*" in ft or "&" in ft:
                            r.has_ref_or_ptr_field = True
                    elif mk == "CXXRecordDecl" and not m.get("name") and m.get("completeDefinition"):
                        r.has_anon = True
                r.default_ctor = (not user_ctor) or any(a == "public" and (n_ == 0 or n_ == nd) for (_, a, n_, nd) in r.ctors)
                walk(c, scope + [c["name"]], acc_here(c))
        return

    def acc_here(c):
        return "public"

    # second pass to know the access of nested records: walk with tracking
    def walk_acc(n, scope):
        acc = "public"
        if n.get("kind") == "CXXRecordDecl":
            acc = "private" if n.get("tagUsed") == "class" else "public"
        for c in n.get("inner", []):
            k = c.get("kind")
            if k == "AccessSpecDecl":
                acc = c.get("access", acc)
            elif k == "NamespaceDecl" and c.get("name"):
                walk_acc(c, scope + [c["name"]])
            elif k == "CXXRecordDecl" and c.get("completeDefinition") and c.get("name"):
                q = "::".join(scope + [c["name"]])
                if q in recs:
                    recs[q].access_in_parent = acc if n.get("kind") == "CXXRecordDecl" else "public"
                walk_acc(c, scope + [c["name"]])

    for d in docs:
        if d.get("kind") == "NamespaceDecl" and d.get("name") == "Tins":
            walk(d, ["Tins"], "public")
    for d in docs:
        if d.get("kind") == "NamespaceDecl" and d.get("name") == "Tins":
            walk_acc(d, ["Tins"])
    return recs


def norm_base(b):
    b = b.replace("class ", "").replace("struct ", "").strip()
    if not b.startswith("Tins::"):
        b = "Tins::" + b
    return b


def derives_from_pdu(recs, q, seen=None):
    seen = seen or set()
    if q in seen:
        return False
    seen.add(q)
    if q == "Tins::PDU":
        return True
    r = recs.get(q)
    if not r:
        return False
    return any(derives_from_pdu(recs, norm_base(b), seen) for b, _ in r.bases)


def publicly_nested(recs, q):
    parts = q.split("::")
    for i in range(2, len(parts) + 1):
        r = recs.get("::".join(parts[:i]))
        if r is not None and r.access_in_parent != "public":
            return False
    return True


def ret_of(t):
    # "uint8_t () const" -> "uint8_t"
    i = t.find("(")
    return t[:i].strip()


def arg_of(t):
    i, j = t.find("("), t.rfind(")")
    return t[i + 1:j].strip()


SKIP_CLASSES = ("Tins::Internals", "Tins::Memory", "Tins::Utils", "Tins::Endian", "Tins::Crypto", "Tins::TCPIP", "Tins::Internals::")
VSTRUCT_WHITELIST = {"Tins::ICMPExtension", "Tins::ICMPExtensionsStructure", "Tins::RSNInformation"}
SKIP_GETTERS = {"clone", "release_inner_pdu", "serialize", "send", "recv_response"}


def generate(outdir, repo_include_dirs):
    os.makedirs(outdir, exist_ok=True)
    out = os.path.join(outdir, "api.inc")
    src = os.path.join(outdir, "api_tu.cpp")
    import glob
    hdrs = []
    for inc in repo_include_dirs:
        for sub in ("", "dot11", "tcp_ip", "utils"):
            for h in sorted(glob.glob(os.path.join(inc, "tins", sub, "*.h"))):
                rel = os.path.relpath(h, inc)
                if rel not in hdrs and not rel.endswith("config.h.in"):
                    hdrs.append(rel)
    with open(os.path.join(outdir, "all_tins.hpp"), "w") as f:
        f.write("// generated: every public libtins header of the current tree\n#pragma once\n")
        f.write("".join("#include <%s>\n" % h for h in hdrs))
    with open(src, "w") as f:
        f.write('#include "all_tins.hpp"\n')
    cmd = ["clang++", "-std=c++11", "-fsyntax-only", "-Xclang", "-ast-dump=json", "-Xclang", "-ast-dump-filter=Tins", "-Wno-everything"]
    for i in repo_include_dirs:
        cmd += ["-I", i]
    cmd += ["-I", outdir, src]
    p = subprocess.run(cmd, stdout=subprocess.PIPE, stderr=subprocess.PIPE, text=True)
    if p.returncode != 0:
        sys.stderr.write(p.stderr[-3000:])
        raise SystemExit("BUILD-ERROR: cannot dump the AST of <tins/tins.h>")
    recs = collect(load_docs(p.stdout))
    lines = ["// generated by lib/gen_api.py from the current libtins headers; do not edit"]
    for m in ("API_CLASS(Q,T,P,A,D,B)", "API_BASE(Q,T,BQ)", "API_BUFCTOR(Q,T)", "API_GETTER(Q,T,N,R)", "API_GETTER_NC(Q,T,N,R)", "API_PAIR(Q,T,N,A,R)",
              "API_STRUCT_BEGIN(Q,T)", "API_FIELD(Q,N)", "API_FIELD_P(Q,N)", "API_FIELD_A(Q,N)", "API_FIELD_B(Q,N)", "API_STRUCT_END(Q,T)", "API_VSTRUCT_BEGIN(Q,T)", "API_VGETTER(Q,N)", "API_VSTRUCT_END(Q,T)", "API_ENUM_BEGIN(Q)", "API_ENUMERATOR(Q,E)", "API_ENUM_END(Q)"):
        name = m.split("(")[0]
        lines.append("#ifndef %s\n#define %s\n#endif" % (name, m))
    stats = {"classes": 0, "pdu_classes": 0, "bufctors": 0, "getters": 0, "pairs": 0, "structs": 0}
    for q in sorted(recs):
        r = recs[q]
        if any(q.startswith(s) for s in SKIP_CLASSES) or r.is_union or not publicly_nested(recs, q):
            continue
        tag = q[len("Tins::"):].replace("::", "_")
        is_pdu = derives_from_pdu(recs, q)
        buf = any(a == "public" and t.replace(" ", "") in ("void(constuint8_t*,uint32_t)",) for (t, a, _, _) in r.ctors)
        stats["classes"] += 1
        lines.append("API_CLASS(%s, %s, %d, %d, %d, %d)" % (q, tag, is_pdu, r.abstract, r.default_ctor, buf))
        for b, acc in r.bases:
            if acc == "public" and norm_base(b) in recs:
                lines.append("API_BASE(%s, %s, %s)" % (q, tag, norm_base(b)))
        if is_pdu:
            stats["pdu_classes"] += 1
            if buf and not r.abstract:
                stats["bufctors"] += 1
                lines.append("API_BUFCTOR(%s, %s)" % (q, tag))
        getters, setters, nc_getters = {}, {}, {}
        for (name, t, acc, static, pure, nparams, _) in r.methods:
            if acc != "public" or static or not name or name.startswith("operator"):
                continue
            if nparams == 0 and t.rstrip().endswith("const") and ret_of(t) != "void":
                getters.setdefault(name, []).append(ret_of(t))
            elif nparams == 0 and ret_of(t) != "void" and name not in SKIP_GETTERS:
                nc_getters.setdefault(name, []).append(ret_of(t))      # getters that were not declared const (LLC)
            elif nparams == 1 and ret_of(t) == "void" and not t.rstrip().endswith("const"):
                setters.setdefault(name, []).append(arg_of(t))
        nc_only = set()
        for name in list(nc_getters):
            if name not in getters and len(nc_getters[name]) == 1:
                getters[name] = nc_getters[name]
                nc_only.add(name)
        if is_pdu and q != "Tins::PDU":
            for name in sorted(getters):
                if name in SKIP_GETTERS or len(getters[name]) != 1:
                    continue
                stats["getters"] += 1
                lines.append('API_GETTER%s(%s, %s, %s, "%s")' % ("_NC" if name in nc_only else "", q, tag, name, getters[name][0]))
            for name in sorted(setters):
                if name in getters and len(setters[name]) == 1 and len(getters[name]) == 1 and name not in r.template_methods:
                    stats["pairs"] += 1
                    lines.append('API_PAIR(%s, %s, %s, "%s", "%s")' % (q, tag, name, setters[name][0], getters[name][0]))
        elif not is_pdu:
            pub_fields = [f for f in r.fields if f[2] == "public"]
            all_public = len(pub_fields) == len(r.fields)
            if (pub_fields and all_public and not r.has_anon and not r.has_ref_or_ptr_field and r.default_ctor
                    and derives_from_pdu(recs, "::".join(q.split("::")[:2]))):
                stats["structs"] += 1
                lines.append("API_STRUCT_BEGIN(%s, %s)" % (q, tag))
                for (n, t, _, kind) in pub_fields:
                    lines.append("API_FIELD(%s, %s)" % (q, n))
                    if n.startswith("reserved"):
                        continue      # reserved fields are printed but never varied by the generated domains
                    lines.append("API_FIELD_%s(%s, %s)" % (kind, q, n))
                lines.append("API_STRUCT_END(%s, %s)" % (q, tag))
            elif not pub_fields and getters and (q in VSTRUCT_WHITELIST or derives_from_pdu(recs, "::".join(q.split("::")[:2]))):
                names = [n for n in sorted(getters) if len(getters[n]) == 1 and "*" not in getters[n][0]
                         and "iterator" not in getters[n][0] and n not in ("begin", "end", "clone")]
                if names:
                    stats["vstructs"] = stats.get("vstructs", 0) + 1
                    lines.append("API_VSTRUCT_BEGIN(%s, %s)" % (q, tag))
                    for n in names:
                        lines.append("API_VGETTER(%s, %s)" % (q, n))
                    lines.append("API_VSTRUCT_END(%s, %s)" % (q, tag))
    # enumerations nested in public PDU classes: their enumerators are the in-range values
    for q in sorted(ENUMS):
        parent = "::".join(q.split("::")[:-1])
        if parent in recs and publicly_nested(recs, parent) and not any(q.startswith(s_) for s_ in SKIP_CLASSES) and recs[parent].access_in_parent == "public":
            scope = parent
            lines.append("API_ENUM_BEGIN(%s)" % q)
            for nme in ENUMS[q][:64]:
                lines.append("API_ENUMERATOR(%s, %s::%s)" % (q, scope, nme))
            lines.append("API_ENUM_END(%s)" % q)
            stats["enums"] = stats.get("enums", 0) + 1
    lines.append("// stats: " + json.dumps(stats))
    tmp = out + ".tmp"
    with open(tmp, "w") as f:
        f.write("\n".join(lines) + "\n")
    os.rename(tmp, out)
    with open(os.path.join(outdir, "api_stats.json"), "w") as f:
        json.dump(stats, f)
    return stats


if __name__ == "__main__":
    print(generate(sys.argv[1], sys.argv[2:] or ["/repo/include"]))
