// C18 stage 3 — free-running ThreadSanitizer pass (tsan build: libtins, the workload bodies and this file are compiled with
// -fsanitize=thread).  NO cooperative scheduler here: k = 2..16 real threads run the same workload bodies as stages 1/2,
// started together from a cold process, a few rounds each.  Every TSan report is a violation; per-thread digests must equal
// the digests of a sequential run.  This pass can only add alarms to stages 1/2, never remove one.
// mc/common.hpp's implementation part cannot be linked into a TSan binary (its replacement operator new/delete collide with
// the ones of the TSan runtime, and its allocation counter would itself be a data race): only the declarations are used and
// the few definitions needed (report object, command line) are repeated below.
#define MC_NO_IMPL
#include "common.hpp"
#include "C18_iface.hpp"
#include <pthread.h>
#include <sched.h>
#include <sys/wait.h>

namespace mc {
long g_live_allocs = 0;
Report R;
Args A;
double g_t0 = 0;
char* g_progress = 0;
uint64_t g_case_index = 0;
std::string g_context;
int Mon::errors = 0;
std::string Mon::first, Mon::first_detail;
bool Mon::wrote = false;
int run_main(int argc, char** argv, int njobs_quick, int njobs_thorough, const std::function<void(int)>& run_job,
             const std::function<int(const std::string&)>& replay) {
    g_t0 = now();
    for (int i = 1; i < argc; ++i) {
        std::string a = argv[i];
        auto next = [&]() -> std::string { return i + 1 < argc ? argv[++i] : ""; };
        if (a == "--tier") A.tier = next();
        else if (a == "--list-jobs") A.list_jobs = true;
        else if (a == "--job") A.job = atoi(next().c_str());
        else if (a == "--out") A.out = next();
        else if (a == "--progress") A.progress = next();
        else if (a == "--skip") A.skip = strtoull(next().c_str(), 0, 10);
        else if (a == "--skip-list") next();
        else if (a == "--deadline") A.deadline = atof(next().c_str());
        else if (a == "--replay-case") { A.replay = next(); A.have_replay = true; }
    }
    int nj = A.thorough() ? njobs_thorough : njobs_quick;
    if (A.list_jobs) { printf("%d\n", nj); return 0; }
    if (A.have_replay) return replay(A.replay);
    R.flags["exhaustive"] = true;
    if (A.job < 0) { for (int j = 0; j < nj; ++j) run_job(j); }
    else run_job(A.job);
    if (!A.out.empty()) R.write(A.out);
    else R.write("/dev/stdout");
    return 0;
}
}  // namespace mc

using namespace mc;

// ---------------------------------------------------------------- TSan runtime interface (clang 14)
extern "C" {
int __tsan_get_report_data(void* report, const char** description, int* count, int* stack_count, int* mop_count, int* loc_count,
                           int* mutex_count, int* thread_count, int* unique_tid_count, void** sleep_trace, unsigned long trace_size);
int __tsan_get_report_mop(void* report, unsigned long idx, int* tid, void** addr, int* size, int* write, int* atomic, void** trace,
                          unsigned long trace_size);
void __sanitizer_symbolize_pc(void* pc, const char* fmt, char* out_buf, size_t out_buf_size);
void __sanitizer_symbolize_global(void* data_ptr, const char* fmt, char* out_buf, size_t out_buf_size);

const char* __tsan_default_options() { return "exitcode=0:halt_on_error=0:report_signal_unsafe=0:second_deadlock_stack=1"; }
}

struct Rep {
    char desc[32];
    int nmop;
    struct Mop { int tid, size, write; void* addr; void* trace[12]; } mop[2];
};
static Rep g_reps[64];
static volatile int g_nreps = 0;       // reports stored
static volatile int g_total = 0;       // reports seen
static volatile int g_rep_lock = 0;

// Runs inside the TSan runtime (report mutex held): must not be instrumented itself (a "race" seen in here would re-enter the
// reporter and dead-lock), must not allocate, symbolise or call intercepted libc functions — it only copies the raw report.
extern "C" __attribute__((no_sanitize("thread"))) void __tsan_on_report(void* report) {
    while (__atomic_exchange_n(&g_rep_lock, 1, __ATOMIC_ACQUIRE)) {}
    g_total = g_total + 1;
    if (g_nreps < 64) {
        Rep& r = g_reps[g_nreps];
        const char* d = 0;
        int count = 0, sc = 0, mc_ = 0, lc = 0, mu = 0, tc = 0, ut = 0;
        void* sleep_trace[1];
        __tsan_get_report_data(report, &d, &count, &sc, &mc_, &lc, &mu, &tc, &ut, sleep_trace, 1);
        size_t i = 0;
        for (; d && d[i] && i + 1 < sizeof r.desc; ++i) r.desc[i] = d[i];
        r.desc[i] = 0;
        r.nmop = mc_ > 2 ? 2 : mc_;
        for (int m = 0; m < r.nmop; ++m) {
            int atomic = 0;
            for (int q = 0; q < 12; ++q) r.mop[m].trace[q] = 0;
            __tsan_get_report_mop(report, (unsigned long)m, &r.mop[m].tid, &r.mop[m].addr, &r.mop[m].size, &r.mop[m].write, &atomic, r.mop[m].trace, 12);
        }
        g_nreps = g_nreps + 1;
    }
    __atomic_store_n(&g_rep_lock, 0, __ATOMIC_RELEASE);
}

static std::string clean(std::string s) {       // drop template and argument lists
    std::string r; int depth = 0, par = 0;
    for (size_t i = 0; i < s.size(); ++i) {
        char c = s[i];
        if (c == '<') depth++; else if (c == '>') depth--; else if (c == '(') par++; else if (c == ')') par--;
        else if (!depth && !par) r += c;
    }
    size_t p;
    while ((p = r.find(" const")) != std::string::npos) r.erase(p, 6);
    size_t sp = r.rfind(' ');
    if (sp != std::string::npos && sp + 1 < r.size()) r = r.substr(sp + 1);
    return r;
}
static std::string stack_of(const Rep::Mop& m, std::string* top_tins) {
    std::string all;
    for (int i = 0; i < 12 && m.trace[i]; ++i) {
        char buf[512]; buf[0] = 0;
        __sanitizer_symbolize_pc(m.trace[i], "%f %s:%l", buf, sizeof buf);
        std::string f(buf);
        std::string fn = f.substr(0, f.rfind(' '));
        std::string where = f.substr(f.rfind(' ') + 1);
        size_t sl = where.rfind('/');
        if (sl != std::string::npos) where = where.substr(sl + 1);
        std::string c = clean(fn);
        all += (all.empty() ? "" : " <- ") + c + " (" + where + ")";
        if (top_tins && top_tins->empty() && c.compare(0, 6, "Tins::") == 0) *top_tins = c;
    }
    return all;
}

// ---------------------------------------------------------------- configurations
// desc = 0: ordinary workloads, thread t runs the whole list starting at offset + t*stride.
// desc = 1: the DESCENDANT workloads (objects derived by the main thread from common ancestors, harness/C18_descend.cpp), one per
//           thread, all object sets at once (k = 6); desc = 2, 3, 4: threads A and B of one object set (k = 2).  The objects are
//           rebuilt by the main thread before every round.
struct Cfg { int k, stride, offset, barrier, rounds, desc; };
static std::vector<Cfg> configs(bool thorough) {
    std::vector<Cfg> v;
    static const int ks[] = {2, 3, 4, 8, 16};
    static const int strides[] = {0, 1, 5};
    for (int a = 0; a < 5; ++a)
        for (int b = 0; b < 3; ++b) {
            Cfg c; c.k = ks[a]; c.stride = strides[b]; c.offset = 0; c.barrier = 1; c.rounds = thorough ? 4 : 2; c.desc = 0;
            v.push_back(c);
            if (thorough) {
                Cfg d = c; d.barrier = 0; d.offset = 3; v.push_back(d);
                Cfg e = c; e.offset = 7; v.push_back(e);
            }
        }
    if (!thorough) { Cfg c; c.k = 16; c.stride = 1; c.offset = 3; c.barrier = 0; c.rounds = 2; c.desc = 0; v.push_back(c); }
    int nsets = c18::kNumDescendant / 2;
    { Cfg c; c.k = c18::kNumDescendant; c.stride = c.offset = 0; c.barrier = 0; c.rounds = thorough ? 12 : 4; c.desc = 1; v.push_back(c); }
    for (int set = 0; set < nsets; ++set) {
        Cfg c; c.k = 2; c.stride = c.offset = 0; c.barrier = 0; c.rounds = thorough ? 12 : 4; c.desc = 2 + set;
        if (thorough || set == nsets - 1) v.push_back(c);       // quick: the set whose ancestor is destroyed by thread A
    }
    return v;
}
static std::string cfg_str(const Cfg& c, int scale) {
    return "stage=3 scale=" + str(scale) + " k=" + str(c.k) + " stride=" + str(c.stride) + " offset=" + str(c.offset) + " barrier=" + str(c.barrier) +
           " rounds=" + str(c.rounds) + " desc=" + str(c.desc);
}

static int g_scale = 0;
static uint64_t run_workload(int w) {
    try { return c18::kWorkloads[w].fn(g_scale); }
    catch (std::exception& e) { return fnv(std::string("exception:") + e.what()); }
    catch (...) { return 0xdeadULL; }
}

struct TArg { const Cfg* c; int t; pthread_barrier_t* bar; volatile int* go; uint64_t digest[64]; };
static void* worker(void* p) {
    TArg* a = static_cast<TArg*>(p);
    int n = c18::kNumLibtins;
    if (!a->c->barrier) while (!__atomic_load_n(a->go, __ATOMIC_ACQUIRE)) sched_yield();
    if (a->c->desc) {
        int w = n + (a->c->desc == 1 ? a->t : (a->c->desc - 2) * 2 + a->t);
        a->digest[0] = run_workload(w);
        return 0;
    }
    for (int i = 0; i < n; ++i) {
        if (a->c->barrier) pthread_barrier_wait(a->bar);
        int w = (a->c->offset + a->t * a->c->stride + i) % n;
        a->digest[i] = run_workload(w);
    }
    return 0;
}

// returns number of findings
static int run_config(const Cfg& c, bool report) {
    int n = c18::kNumLibtins;
    int findings = 0;
    std::string kase = cfg_str(c, g_scale);
    std::vector<std::vector<uint64_t> > got;     // per (round, thread) digests
    if (c.desc) n = 1;
    for (int round = 0; round < c.rounds; ++round) {
        if (c.desc) c18::setup_descendants();    // main thread, no other thread alive: happens-before every access of the round
        pthread_barrier_t bar;
        pthread_barrier_init(&bar, 0, (unsigned)c.k);
        volatile int go = 0;
        std::vector<TArg> args((size_t)c.k);
        std::vector<pthread_t> th((size_t)c.k);
        for (int t = 0; t < c.k; ++t) {
            args[t].c = &c; args[t].t = t; args[t].bar = &bar; args[t].go = &go;
            pthread_create(&th[t], 0, worker, &args[t]);
        }
        __atomic_store_n(&go, 1, __ATOMIC_RELEASE);
        for (int t = 0; t < c.k; ++t) pthread_join(th[t], 0);
        pthread_barrier_destroy(&bar);
        for (int t = 0; t < c.k; ++t) got.push_back(std::vector<uint64_t>(args[t].digest, args[t].digest + n));
        R.count("tsan_workload_runs", (uint64_t)c.k * n);
    }
    // sequential digests AFTER the concurrent phase (computing them first would warm every lazily initialised table and
    // order it before the threads by thread creation)
    std::vector<uint64_t> seq((size_t)(c.desc ? c18::kNumLibtins + c18::kNumDescendant : n));
    if (c.desc) {
        c18::setup_descendants();
        for (int t = 0; t < c.k; ++t) { int w = c18::kNumLibtins + (c.desc == 1 ? t : (c.desc - 2) * 2 + t); seq[w] = run_workload(w); }
    } else
        for (int w = 0; w < n; ++w) seq[w] = run_workload(w);
    for (size_t r = 0; r < got.size(); ++r) {
        int t = (int)(r % (size_t)c.k);
        for (int i = 0; i < n; ++i) {
            int w = c.desc ? c18::kNumLibtins + (c.desc == 1 ? t : (c.desc - 2) * 2 + t) : (c.offset + t * c.stride + i) % n;
            R.count("tsan_digests_compared");
            if (got[r][i] != seq[w]) {
                findings++;
                if (report) R.violation(std::string("divergence:free-running:") + c18::kWorkloads[w].name,
                                        "digest of a thread differs from the sequential digest under free-running threads", kase);
            }
        }
    }
    int nr = g_nreps;
    for (int i = 0; i < nr; ++i) {
        const Rep& rp = g_reps[i];
        std::string top0, top1;
        std::string s0 = rp.nmop > 0 ? stack_of(rp.mop[0], &top0) : "", s1 = rp.nmop > 1 ? stack_of(rp.mop[1], &top1) : "";
        char g[256]; g[0] = 0;
        if (rp.nmop > 0) __sanitizer_symbolize_global(rp.mop[0].addr, "%g", g, sizeof g);
        std::string top = !top0.empty() ? top0 : !top1.empty() ? top1 : "?";
        std::string kind = rp.desc;
        for (size_t q = 0; q < kind.size(); ++q) if (kind[q] == ' ') kind[q] = '-';
        std::string sig = "tsan:" + kind + ":" + top;
        std::string det = std::string(rp.nmop > 0 && rp.mop[0].write ? "write" : "read") + " of " + str(rp.nmop > 0 ? rp.mop[0].size : 0) +
                          " byte(s)" + (g[0] ? std::string(" in ") + clean(g) : std::string("")) + ": " + s0 + "\nprevious " +
                          (rp.nmop > 1 && rp.mop[1].write ? "write" : "read") + ": " + s1;
        findings++;
        if (report) R.violation(sig, det, kase);
        else printf("%s\n  %s\n", sig.c_str(), det.c_str());
    }
    R.count("tsan_reports", (uint64_t)g_total);
    R.count("tsan_configs");
    R.maxv("tsan_max_threads", (uint64_t)c.k);
    return findings;
}

// The threads of a racy tree may dead-lock or spin for ever: the configuration runs in a forked child (fork happens while the
// process is still single-threaded) and the parent is the watchdog.
static void job(int j) {
    g_scale = A.thorough() ? 1 : 0;
    std::vector<Cfg> cs = configs(A.thorough());
    if (j < 0 || j >= (int)cs.size()) return;
    int limit = A.thorough() ? 420 : 150;
    if (A.deadline > 0 && A.deadline < limit) limit = (int)A.deadline;
    fflush(stdout); fflush(stderr);
    pid_t pid = fork();
    if (pid == 0) {
        run_config(cs[j], true);
        if (j == 0) R.sample("{\"stage\":3,\"config\":" + jstr(cfg_str(cs[j], g_scale)) + ",\"tsan_reports\":" + str(g_total) + "}");
        if (!A.out.empty()) R.write(A.out); else R.write("/dev/stdout");
        _exit(0);
    }
    if (pid > 0) {
        double t0 = now();
        int st = 0;
        for (;;) {
            pid_t r = waitpid(pid, &st, WNOHANG);
            if (r == pid) {
                if (WIFEXITED(st) && WEXITSTATUS(st) == 0) _exit(0);        // the child wrote the report
                R.violation("crash:free-running", "the process running the threads died (status " + str(st) + ")", cfg_str(cs[j], g_scale));
                return;
            }
            if (now() - t0 > limit) {
                kill(pid, SIGKILL);
                waitpid(pid, &st, 0);
                R.violation("hang:free-running", "threads did not finish within " + str(limit) + " s (a sequential run takes well under a second)",
                            cfg_str(cs[j], g_scale));
                R.flags["exhaustive"] = false;
                return;
            }
            usleep(20000);
        }
    }
    run_config(cs[j], true);      // fork failed: run in place
}

static int replay(const std::string& kase) {
    std::map<std::string, std::string> kv;
    std::istringstream is(kase);
    std::string tok;
    while (is >> tok) { size_t e = tok.find('='); if (e != std::string::npos) kv[tok.substr(0, e)] = tok.substr(e + 1); }
    if (kv["stage"] != "3") { printf("this binary replays stage=3 cases only\n"); return 0; }
    Cfg c;
    c.k = atoi(kv["k"].c_str()); c.stride = atoi(kv["stride"].c_str()); c.offset = atoi(kv["offset"].c_str());
    c.barrier = atoi(kv["barrier"].c_str()); c.rounds = atoi(kv["rounds"].c_str()); c.desc = atoi(kv["desc"].c_str());
    g_scale = atoi(kv["scale"].c_str());
    if (c.k < 2 || c.k > 16 || c.rounds < 1) return 0;
    return run_config(c, false) ? 1 : 0;
}

int main(int argc, char** argv) {
    c18::setup_registry();
    int nq = (int)configs(false).size(), nt = (int)configs(true).size();
    return run_main(argc, argv, nq, nt, job, replay);
}
