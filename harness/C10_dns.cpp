// C10 — DNS messages stay coherent under parsing, editing and name compression.
//
// Shape A: explicit-state BFS (mc::Explorer) over the real Tins::DNS object (copied per state) in lock-step
// with a model = four vectors of records.  One BFS per (initial message, alphabet run).  Initial messages:
// empty, and wire messages written by the harness' own encoder (mc/ref/dns_ref.hpp) without and with name
// compression.  On every transition: the four getters and the header counts equal the model, and
// DNS(serialize(m)) shows the same sections; ASan/UBSan on every call.
//
// Shape B (counted as `evaluations`): malformed-name families on hand-built wire messages held in exactly
// sized heap blocks: the constructor and the four getters either work or raise a libtins exception, and never
// touch memory outside the message.
#include "explore.hpp"
#include "ref/dns_ref.hpp"
#include <tins/tins.h>
#include <cxxabi.h>

using namespace Tins;
using namespace mc;
using namespace dnsref;

// ---------------------------------------------------------------- small helpers
static std::string demangle(const char* n) {
    int st = 0;
    char* d = abi::__cxa_demangle(n, 0, 0, &st);
    std::string s = (st == 0 && d) ? d : n;
    free(d);
    return s;
}
static std::string show(const std::string& s, size_t max = 70) {
    std::string o;
    for (size_t i = 0; i < s.size() && i < max; ++i) {
        unsigned char c = s[i];
        if (c >= 0x20 && c < 0x7f && c != '\\') o += char(c);
        else { char b[8]; snprintf(b, sizeof b, "\\x%02x", c); o += b; }
    }
    if (s.size() > max) o += "...(" + str(s.size()) + ")";
    return o;
}
static std::string differ(const std::string& got, const std::string& exp) {
    size_t i = 0;
    while (i < got.size() && i < exp.size() && got[i] == exp[i]) ++i;
    return "got '" + show(got) + "' expected '" + show(exp) + "'" +
           (got.size() > 70 || exp.size() > 70 ? " (lengths " + str(got.size()) + "/" + str(exp.size()) + ", first difference at offset " + str(i) +
                                                 ": '" + show(got.substr(i, 24)) + "' vs '" + show(exp.substr(i, 24)) + "')" : std::string());
}
static bool same_v6(const std::string& a, const std::string& b) {
    try { return IPv6Address(a) == IPv6Address(b); } catch (...) { return false; }
}

// ---------------------------------------------------------------- record table
static std::vector<Rec> g_recs;
static int rec(const std::string& name, unsigned type, uint32_t ttl, const std::string& din, const std::string& dout,
               unsigned pref = 0, unsigned cls = 1) {
    Rec r; r.name = name; r.type = (uint16_t)type; r.cls = (uint16_t)cls; r.ttl = ttl; r.pref = (uint16_t)pref; r.din = din; r.dout = dout;
    g_recs.push_back(r);
    return (int)g_recs.size() - 1;
}
static int rec(const std::string& name, unsigned type, uint32_t ttl, const std::string& d) { return rec(name, type, ttl, d, d); }

static std::string n_ip6() {      // 32 nibbles + ip6 + arpa: 34 labels
    std::string s;
    for (int i = 0; i < 32; ++i) { s += "0123456789abcdef"[(i * 7 + 1) & 15]; s += '.'; }
    return s + "ip6.arpa";
}
static std::string n_255() {      // 63+63+63+61 octet labels: 255 octets on the wire, the longest legal name
    return std::string(63, 'a') + "." + std::string(63, 'b') + "." + std::string(63, 'c') + "." + std::string(61, 'd');
}
static std::string n_l63() { return std::string(63, 'x') + ".example.com"; }
static std::string n_127() {      // 127 one-octet labels: 255 octets on the wire
    std::string s;
    for (int i = 0; i < 127; ++i) { if (i) s += '.'; s += char('a' + i % 26); }
    return s;
}

// ---------------------------------------------------------------- initial messages
struct Init {
    std::string name;
    bool from_wire;
    Bytes wire;
    std::vector<size_t> ptrs;
    std::string sec[4];            // model: record ids per section
};
static std::vector<Init> g_inits;

static std::string self_check(const Init& I) {
    Parsed P = ref_parse(I.wire);
    if (!P.legal) return "reference parser rejects " + I.name + ": " + P.why;
    for (int s = 0; s < 4; ++s) {
        if (P.sec[s].size() != I.sec[s].size()) return I.name + ": section size";
        for (size_t i = 0; i < P.sec[s].size(); ++i) {
            const Rec &a = P.sec[s][i], &b = g_recs[(uint8_t)I.sec[s][i]];
            bool ok = a.name == b.name && a.type == b.type && a.cls == b.cls;
            if (s) ok = ok && a.ttl == b.ttl && (a.type != T_MX || a.pref == b.pref) && (a.type == T_AAAA ? same_v6(a.dout, b.dout) : a.dout == b.dout);
            if (!ok) return I.name + ": section " + str(s) + " record " + str(i) + " differs from the hand-written expectation (" + show(a.name) + " / " + show(a.dout) + ")";
        }
    }
    return "";
}

static void build_inits() {
    size_t p;
    {   Init I; I.name = "empty"; I.from_wire = false; g_inits.push_back(I); }
    {   // no compression at all
        Init I; I.name = "plain"; I.from_wire = true;
        Enc e(1, 2, 1, 1);
        e.name("a.b.example.com").q(T_A);
        e.name("a.b.example.com"); p = e.rr(T_CNAME, 300); e.name("c.example.com"); e.end(p);
        e.name("c.example.com"); p = e.rr(T_A, 60); e.a4(1, 2, 3, 4); e.end(p);
        e.name("example.com"); p = e.rr(T_NS, 0x01020304); e.name("ns1.example.com"); e.end(p);
        e.name("ns1.example.com"); p = e.rr(T_A, 0x34); e.a4(10, 0, 0, 1); e.end(p);
        I.wire = e.b; I.ptrs = e.ptrs;
        I.sec[0] += char(rec("a.b.example.com", T_A, 0, ""));
        I.sec[1] += char(rec("a.b.example.com", T_CNAME, 300, "c.example.com"));
        I.sec[1] += char(rec("c.example.com", T_A, 60, "1.2.3.4"));
        I.sec[2] += char(rec("example.com", T_NS, 0x01020304, "ns1.example.com"));
        I.sec[3] += char(rec("ns1.example.com", T_A, 0x34, "10.0.0.1"));
        g_inits.push_back(I);
    }
    {   // the usual compression of a response: answers point into the question, a pointer to a name that itself
        // ends in a pointer, additional records point into the authority rdata (which sits < 12 octets before the
        // additional section)
        Init I; I.name = "compressed"; I.from_wire = true;
        Enc e(1, 2, 1, 2);
        size_t qn = e.at();
        e.name("a.b.example.com").q(T_A);
        size_t ex = qn + 4;                                  // "example.com"
        e.ptr(qn); p = e.rr(T_CNAME, 300); size_t c = e.at(); e.lab("c").ptr(ex); e.end(p);
        e.ptr(c); p = e.rr(T_A, 60); e.a4(1, 2, 3, 4); e.end(p);
        e.ptr(ex); p = e.rr(T_NS, 86400); size_t ns1 = e.at(); e.lab("ns1").ptr(ex); e.end(p);
        e.ptr(ns1); p = e.rr(T_A, 0x34); e.a4(10, 0, 0, 1); e.end(p);
        e.ptr(ns1); p = e.rr(T_AAAA, 0x100); e.raw(Bytes{0x20, 0x01, 0x0d, 0xb8, 0, 0, 0, 0, 0, 0, 0, 0, 0, 0, 0, 0x53}); e.end(p);
        I.wire = e.b; I.ptrs = e.ptrs;
        I.sec[0] += char(rec("a.b.example.com", T_A, 0, ""));
        I.sec[1] += char(rec("a.b.example.com", T_CNAME, 300, "c.example.com"));
        I.sec[1] += char(rec("c.example.com", T_A, 60, "1.2.3.4"));
        I.sec[2] += char(rec("example.com", T_NS, 86400, "ns1.example.com"));
        I.sec[3] += char(rec("ns1.example.com", T_A, 0x34, "10.0.0.1"));
        I.sec[3] += char(rec("ns1.example.com", T_AAAA, 0x100, "2001:db8::53"));
        g_inits.push_back(I);
    }
    {   // short question name (everything sits < 12 octets before the answer section), pointer to a pointer,
        // SOA and MX rdata with compressed names, root owner
        Init I; I.name = "ptr2ptr-soa-mx"; I.from_wire = true;
        Enc e(1, 2, 1, 2);
        size_t qn = e.at();
        e.name("a").q(T_A);
        size_t p1 = e.at(); e.ptr(qn); p = e.rr(T_A, 5); e.a4(9, 8, 7, 6); e.end(p);
        e.ptr(p1); p = e.rr(T_A, 0x1ff); e.a4(9, 8, 7, 5); e.end(p);
        size_t xo = e.at(); e.lab("x").ptr(qn); p = e.rr(T_SOA, 3600);
        size_t mn = e.at(); e.lab("ns").ptr(qn); e.lab("h").ptr(mn);
        e.u32(2024010101).u32(7200).u32(900).u32(1209600).u32(0x80000001u); e.end(p);
        e.ptr(xo); p = e.rr(T_MX, 7); e.u16(5); e.lab("m").ptr(p1); e.end(p);
        e.z(); p = e.rr(T_TXT, 0); e.raw(std::string("\x02hi")); e.end(p);
        I.wire = e.b; I.ptrs = e.ptrs;
        I.sec[0] += char(rec("a", T_A, 0, ""));
        I.sec[1] += char(rec("a", T_A, 5, "9.8.7.6"));
        I.sec[1] += char(rec("a", T_A, 0x1ff, "9.8.7.5"));
        std::string soa = soa_data("ns.a", "h.ns.a", 2024010101, 7200, 900, 1209600, 0x80000001u);
        I.sec[2] += char(rec("x.a", T_SOA, 3600, soa));
        I.sec[3] += char(rec("x.a", T_MX, 7, "m.a", "m.a", 5));
        I.sec[3] += char(rec("", T_TXT, 0, "\x02hi"));
        g_inits.push_back(I);
    }
    {   // question and additional only: empty sections between the pointer and its target
        Init I; I.name = "q+additional"; I.from_wire = true;
        Enc e(1, 0, 0, 2);
        size_t qn = e.at();
        e.name("b.example.com").q(T_AAAA);
        e.ptr(qn); p = e.rr(T_TXT, 1); e.raw(std::string("\x03" "abc")); e.end(p);
        e.lab("w").ptr(qn); p = e.rr(T_CNAME, 2); e.ptr(qn + 2); e.end(p);
        I.wire = e.b; I.ptrs = e.ptrs;
        I.sec[0] += char(rec("b.example.com", T_AAAA, 0, ""));
        I.sec[3] += char(rec("b.example.com", T_TXT, 1, "\x03" "abc"));
        I.sec[3] += char(rec("w.b.example.com", T_CNAME, 2, "example.com"));
        g_inits.push_back(I);
    }
    {   // no question; authority points into the answer rdata (6 octets before the authority section)
        Init I; I.name = "noq-answer+authority"; I.from_wire = true;
        Enc e(0, 1, 2, 0);
        size_t o = e.at();
        e.name("example.com"); p = e.rr(T_NS, 10); size_t n1 = e.at(); e.lab("ns1").ptr(o); e.end(p);
        e.ptr(o); p = e.rr(T_NS, 11); e.lab("ns2").ptr(o); e.end(p);
        e.ptr(n1); p = e.rr(T_PTR, 0x0100); e.ptr(o); e.end(p);
        I.wire = e.b; I.ptrs = e.ptrs;
        I.sec[1] += char(rec("example.com", T_NS, 10, "ns1.example.com"));
        I.sec[2] += char(rec("example.com", T_NS, 11, "ns2.example.com"));
        I.sec[2] += char(rec("ns1.example.com", T_PTR, 0x0100, "example.com"));
        g_inits.push_back(I);
    }
    for (auto& I : g_inits)
        if (I.from_wire) {
            std::string e = self_check(I);
            if (!e.empty()) { fprintf(stderr, "HARNESS-ERROR: %s\n", e.c_str()); _exit(2); }
        }
}

// ---------------------------------------------------------------- alphabet runs
struct Run { std::string name; std::vector<int> recs; int depth_quick, depth_thorough; };
static std::vector<Run> g_runs;
static std::vector<int> g_rep_recs;      // records of the repetition family: [0] short A, ..., last = the long-name one
static int g_rep_long = -1;

static void build_runs() {
    {   Run r; r.name = "R1"; r.depth_quick = 4; r.depth_thorough = 6;
        r.recs.push_back(rec("a", T_A, 0x100, "1.2.3.4"));
        r.recs.push_back(rec("a.b.example.com", T_A, 0x2a, "10.11.12.13"));
        r.recs.push_back(rec("a", T_CNAME, 0x01000000, "a.b.example.com"));
        r.recs.push_back(rec("a.b.example.com", T_CNAME, 0x762, "a"));
        g_runs.push_back(r);
    }
    {   Run r; r.name = "R2"; r.depth_quick = 4; r.depth_thorough = 6;
        r.recs.push_back(rec("example.com", T_MX, 0x0e10, "mail.example.com", "mail.example.com", 10));
        std::string soa = soa_data("ns.example.com", "admin.example.com", 0x01020304, 0x00000e10, 0x80000000u, 0xffffffffu, 0);
        r.recs.push_back(rec("example.com", T_SOA, 0x00015180, soa));
        r.recs.push_back(rec("t.example.com", T_TXT, 0, std::string("\x05hello\x03" "abc")));
        // opaque type with data that looks like labels / pointers, root owner
        r.recs.push_back(rec("", 10 /* NULL: no structure */, 0x7fffffff, std::string("\xc0\x0c\x00\x3f\xc0", 5)));
        g_runs.push_back(r);
    }
    std::string names[3] = {n_ip6(), n_255(), n_l63()};
    const char* v6[3] = {"2001:db8::1", "::1", "fe80::ffff:1:2"};
    std::vector<int> byname[3];
    {   Run r; r.name = "R3"; r.depth_quick = 3; r.depth_thorough = 4;
        for (int t = 0; t < 3; ++t)
            for (int n = 0; n < 3; ++n) {
                int id;
                if (t == 0) id = rec(names[n], T_NS, 0x100 + n, names[(n + 1) % 3]);
                else if (t == 1) id = rec(names[n], T_PTR, 0x34 + n, names[(n + 2) % 3]);
                else id = rec(names[n], T_AAAA, 0x010000 * (n + 1), v6[n]);
                r.recs.push_back(id);
                byname[n].push_back(id);
            }
        g_runs.push_back(r);
    }
    {   // the longest legal name again, as five labels ending in a 1-octet label (63.63.63.59.1 = 253 characters)
        Run r; r.name = "R3-255octets-5labels"; r.depth_quick = 4; r.depth_thorough = 6;
        std::string n5 = std::string(63, 'p') + "." + std::string(63, 'q') + "." + std::string(63, 'r') + "." + std::string(59, 's') + ".t";
        r.recs.push_back(rec(n5, T_NS, 0x0203, n_255()));
        r.recs.push_back(rec(n5, T_PTR, 0x35, n5));
        r.recs.push_back(rec(n5, T_AAAA, 0x040000, "2001:db8::5"));
        g_runs.push_back(r);
    }
    // repetition family: a short record, records with names in their data, opaque data, and one with 255-octet names
    g_rep_recs.push_back(g_runs[0].recs[0]);      // A  a -> 1.2.3.4                 (17 octets per record)
    g_rep_recs.push_back(g_runs[0].recs[3]);      // CNAME a.b.example.com -> a
    g_rep_recs.push_back(g_runs[1].recs[0]);      // MX
    g_rep_recs.push_back(g_runs[1].recs[1]);      // SOA
    g_rep_recs.push_back(g_runs[1].recs[2]);      // TXT
    g_rep_long = rec(n_255(), T_NS, 0x0101, n_l63());    // 255-octet owner + 77-octet name as data: 342 octets per record
    g_rep_recs.push_back(g_rep_long);
    const char* sub[3] = {"R3-ip6arpa", "R3-255octets", "R3-label63"};
    for (int n = 0; n < 3; ++n) {
        Run r; r.name = sub[n]; r.depth_quick = 4; r.depth_thorough = 6; r.recs = byname[n];
        g_runs.push_back(r);
    }
}

// ---------------------------------------------------------------- state, oracle
struct Model { std::string sec[4]; };
struct S { DNS d; Model m; };
struct Op { int sec, rec; };
static const char* SEC[4] = {"queries", "answers", "authority", "additional"};
static const char* OPN[4] = {"q", "an", "ns", "ar"};
static const char* ADD[4] = {"add_query", "add_answer", "add_authority", "add_additional"};

static std::string cmp_res(const DNS::resource& g, const Rec& r, const std::string& where, size_t i) {
    std::string at = " (record " + str(i) + ", type " + str(r.type) + ")";
    if (g.dname() != r.name) return where + ":name|" + differ(g.dname(), r.name) + at;
    if (g.query_type() != r.type) return where + ":type|got " + str(g.query_type()) + " expected " + str(r.type) + at;
    if (g.query_class() != r.cls) return where + ":class|got " + str(g.query_class()) + at;
    if (g.ttl() != r.ttl) return where + ":ttl|got " + str(g.ttl()) + " expected " + str(r.ttl) + at;
    if (r.type == T_MX && g.preference() != r.pref) return where + ":preference|got " + str(g.preference()) + " expected " + str(r.pref) + at;
    bool same = r.type == T_AAAA ? same_v6(g.data(), r.dout) : g.data() == r.dout;
    if (!same) return where + ":data|" + differ(g.data(), r.dout) + at;
    return "";
}

// the four getters and the header counts against the model; "" or "signature|detail"
static std::string check_sections(const DNS& d, const Model& m, const std::string& phase) {
    unsigned cnt[4] = {d.questions_count(), d.answers_count(), d.authority_count(), d.additional_count()};
    for (int s = 0; s < 4; ++s)
        if (cnt[s] != m.sec[s].size())
            return "dns:" + phase + ":header-count:" + SEC[s] + "|header says " + str(cnt[s]) + ", model has " + str(m.sec[s].size());
    for (int s = 0; s < 4; ++s) {
        std::string where = "dns:" + phase + ":" + SEC[s];
        try {
            if (s == 0) {
                DNS::queries_type q = d.queries();
                if (q.size() != m.sec[0].size()) return where + ":count|getter returns " + str(q.size()) + " entries, model has " + str(m.sec[0].size());
                for (size_t i = 0; i < q.size(); ++i) {
                    const Rec& r = g_recs[(uint8_t)m.sec[0][i]];
                    if (q[i].dname() != r.name) return where + ":name|" + differ(q[i].dname(), r.name) + " (entry " + str(i) + ")";
                    if (q[i].query_type() != r.type) return where + ":type|got " + str((int)q[i].query_type()) + " expected " + str(r.type);
                    if (q[i].query_class() != r.cls) return where + ":class|got " + str((int)q[i].query_class());
                }
            } else {
                DNS::resources_type v = s == 1 ? d.answers() : s == 2 ? d.authority() : d.additional();
                if (v.size() != m.sec[s].size()) return where + ":count|getter returns " + str(v.size()) + " records, model has " + str(m.sec[s].size());
                for (size_t i = 0; i < v.size(); ++i) {
                    std::string e = cmp_res(v[i], g_recs[(uint8_t)m.sec[s][i]], where, i);
                    if (!e.empty()) return e;
                }
            }
        } catch (exception_base& e) {
            return where + ":throws:" + demangle(typeid(e).name()) + "|" + e.what();
        } catch (std::exception& e) {
            return "exc:" + demangle(typeid(e).name()) + ":DNS::" + SEC[s] + "|" + e.what();
        }
    }
    return "";
}

static DNS parse_exact(const Bytes& w) {      // from an exactly sized heap block, released before any getter runs
    uint8_t* blk = (uint8_t*)malloc(w.size() ? w.size() : 1);
    memcpy(blk, w.data(), w.size());
    try { DNS d(blk, (uint32_t)w.size()); free(blk); return d; }
    catch (...) { free(blk); throw; }
}

static std::string g_phase_tag;               // prefix of the phase in signatures ("", "rep-", "type-", "type-moved-" ...)
static std::string oracle(const S& s) {
    DNS probe(s.d);                            // copy: records_data_ in an exactly sized block (no slack capacity)
    std::string e = check_sections(probe, s.m, g_phase_tag + "edit");
    if (!e.empty()) return e;
    Bytes w;
    try { w = probe.serialize(); }
    catch (std::exception& x) { return "dns:serialize:throws:" + demangle(typeid(x).name()) + "|" + x.what(); }
    try {
        DNS re = parse_exact(w);
        return check_sections(re, s.m, g_phase_tag + "reparse");
    } catch (exception_base& x) {
        return "dns:" + g_phase_tag + "reparse:constructor-throws:" + demangle(typeid(x).name()) + "|" + std::string(x.what());
    } catch (std::exception& x) {
        return "exc:" + demangle(typeid(x).name()) + ":DNS::DNS|" + x.what();
    }
}

// Explorer calls enabled() right before every explored transition and step() also while it re-plays a history on a
// fresh object; only the former needs the (much more expensive) oracle.
static bool g_full = false, g_always_full = false;

static std::string step(S& s, const Op& op) {
    const Rec& r = g_recs[op.rec];
    bool full = g_full || g_always_full;
    g_full = false;
    try {
        if (op.sec == 0) s.d.add_query(DNS::query(r.name, (DNS::QueryType)r.type, (DNS::QueryClass)r.cls));
        else {
            DNS::resource res(r.name, r.din, r.type, r.cls, r.ttl, r.pref);
            if (op.sec == 1) s.d.add_answer(res);
            else if (op.sec == 2) s.d.add_authority(res);
            else s.d.add_additional(res);
        }
    } catch (std::exception& x) {
        return "dns:" + g_phase_tag + "edit:" + ADD[op.sec] + ":throws:" + demangle(typeid(x).name()) + "|" + x.what();
    }
    s.m.sec[op.sec] += char(op.rec);
    if (Mon::errors) return Mon::first + "|" + Mon::first_detail + " (inside " + ADD[op.sec] + ")";
    return full ? oracle(s) : std::string();
}

static std::string canon(const S& s) {
    std::string k;
    uint16_t c[4] = {s.d.questions_count(), s.d.answers_count(), s.d.authority_count(), s.d.additional_count()};
    uint32_t ix[3] = {s.d.answers_idx_, s.d.authority_idx_, s.d.additional_idx_};
    k.append((const char*)c, sizeof c);
    k.append((const char*)ix, sizeof ix);
    k.append((const char*)s.d.records_data_.data(), s.d.records_data_.size());
    for (int i = 0; i < 4; ++i) { k += '\xff'; k += s.m.sec[i]; }
    return k;
}

static S make_init(const Init& I) {
    S s;
    if (I.from_wire) s.d = parse_exact(I.wire);
    for (int i = 0; i < 4; ++i) s.m.sec[i] = I.sec[i];
    return s;
}

static std::string bfs_context(int init, int run) { return "kind=bfs tier=" + A.tier + " init=" + str(init) + " run=" + g_runs[run].name; }

static void run_bfs(int init, int run, const std::string* replay_ops = 0, std::string* rerr = 0) {
    const Init& I = g_inits[init];
    const Run& RN = g_runs[run];
    Explorer<S, Op> ex;
    for (int sec = 0; sec < 4; ++sec)
        for (int id : RN.recs) ex.alphabet.push_back(Op{sec, id});
    ex.context = bfs_context(init, run);
    ex.op_str = [](const Op& o) { return std::string(OPN[o.sec]) + str(o.rec); };
    ex.init = [&I]() { return make_init(I); };
    ex.canon = canon;
    ex.enabled = [](const S&, const Op&) { g_full = true; return true; };
    ex.step = step;
    ex.nontrivial = [](const S& s) {      // records in at least two sections, at least one of them not the last populated one
        int n = 0;
        for (int i = 0; i < 4; ++i) n += !s.m.sec[i].empty();
        return n >= 2;
    };
    int depth = A.thorough() ? RN.depth_thorough : RN.depth_quick;
    // distinct getter vectors: one entry per state; kept for the searches of depth <= 4 (the deep ones would only
    // duplicate the per-state hashes already kept in distinct_nontrivial)
    if (depth <= 4) ex.observe = [](const S& s) {
        std::string o;
        try {
            for (auto& q : s.d.queries()) o += q.dname() + "?" + str((int)q.query_type()) + ";";
            for (int k = 1; k < 4; ++k) {
                o += "|";
                for (auto& r : (k == 1 ? s.d.answers() : k == 2 ? s.d.authority() : s.d.additional()))
                    o += r.dname() + ">" + r.data() + "," + str(r.query_type()) + "," + str(r.ttl()) + "," + str(r.preference()) + ";";
            }
        } catch (...) { o += "<throws>"; }
        return o;
    };
    ex.max_depth = depth;
    // the initial message itself: parse -> getters = what the encoder wrote
    std::string e0;
    { Mon::reset(); S s0 = make_init(I); e0 = oracle(s0); if (e0.empty() && Mon::errors) e0 = Mon::first + "|" + Mon::first_detail; }
    if (replay_ops) {
        if (!e0.empty()) { *rerr = e0 + " in the initial message"; return; }
        g_always_full = true;
        *rerr = ex.replay(*replay_ops);
        return;
    }
    if (!e0.empty()) {
        size_t bar = e0.find('|');
        R.violation(e0.substr(0, bar), bar == std::string::npos ? "" : e0.substr(bar + 1), ex.context + " ops=");
        R.count("configurations");
        return;   // nothing sensible to explore from an initial state that is already wrong
    }
    bool ok = ex.run();
    R.count("configurations");
    if (ok) R.count("configurations_completed");
}

// ================================================================== shape B: malformed names
struct Ctx { size_t aux, tail, self, size; };
typedef std::function<void(Enc&, const Ctx&)> NameW;
typedef std::function<Bytes(const Ctx&)> BytesF;
struct Mal {
    std::string fam, desc;
    int pos;              // 0 question name, 1 answer owner, 2 CNAME rdata, 3 NS rdata (authority), 4 MX rdata (additional), 5 SOA mname, 6 SOA rname
    NameW w;
    BytesF aux, tail;
    int expect;           // 0: error or clean parse, both fine; 1: legal name, must be shown as `name`; 2: if shown at all it must be `name`;
                          // 3: does not fit any reading of "up to 255 octets" (nor libtins' 256-byte text buffers): must be reported as an error
    std::string name;
};
static Bytes no_bytes(const Ctx&) { return Bytes(); }

static Bytes build_tpl(const Mal& c) {
    Ctx ctx = {0, 0, 0, 0};
    Bytes out;
    for (int pass = 0; pass < 2; ++pass) {
        Enc e(1, 2, 2, 2);
        size_t p;
        auto nm = [&](int pos, const char* dflt) {
            if (c.pos == pos) { ctx.self = e.at(); c.w(e, ctx); }
            else e.name(dflt);
        };
        nm(0, "q.example"); e.q(T_A);
        e.name("aux"); p = e.rr(T_TXT, 1); size_t aux = e.at(); e.raw(c.aux(ctx)); e.end(p);
        nm(1, "o.example"); p = e.rr(T_CNAME, 2); nm(2, "c.example"); e.end(p);
        e.name("o.example"); p = e.rr(T_NS, 3); nm(3, "ns.example"); e.end(p);
        e.name("o.example"); p = e.rr(T_SOA, 4); nm(5, "m.example"); nm(6, "r.example");
        e.u32(1).u32(2).u32(3).u32(4).u32(5); e.end(p);
        e.name("o.example"); p = e.rr(T_MX, 5); e.u16(10); nm(4, "mx.example"); e.end(p);
        e.name("tail"); p = e.rr(T_TXT, 6); size_t tail = e.at(); e.raw(c.tail(ctx)); e.end(p);
        ctx.aux = aux; ctx.tail = tail; ctx.size = e.at();
        out = e.b;
    }
    return out;
}

// what libtins shows for the tested name of a template message; false when the slot is missing
static bool tpl_name(int pos, const DNS::queries_type& q, const DNS::resources_type r[3], std::string& out) {
    if (pos == 0) { if (q.empty()) return false; out = q[0].dname(); return true; }
    if (pos == 1 || pos == 2) { if (r[0].size() < 2) return false; out = pos == 1 ? r[0][1].dname() : r[0][1].data(); return true; }
    if (pos == 3) { if (r[1].empty()) return false; out = r[1][0].data(); return true; }
    if (pos == 4) { if (r[2].empty()) return false; out = r[2][0].data(); return true; }
    if (r[1].size() < 2) return false;
    // SOA data: two uncompressed wire names + 20 octets
    const std::string& d = r[1][1].data();
    // plain label walk without a length limit: libtins may legitimately show a name slightly above 255 octets
    size_t p = 0;
    for (int k = 0; k < 2; ++k) {
        std::string nm;
        for (;;) {
            if (p >= d.size()) return false;
            size_t l = (uint8_t)d[p++];
            if (l == 0) break;
            if (l > 63 || p + l > d.size()) return false;
            if (!nm.empty()) nm += '.';
            nm.append(d, p, l);
            p += l;
        }
        if ((k == 0 && pos == 5) || k == 1) { out = nm; return true; }
    }
    return false;
}

struct WireCase { std::string fam, desc; Bytes w; int expect, pos; std::string name; bool differential; };

// evaluates one wire message; returns the first violation signature (also recorded) or ""
static std::string eval_wire(const WireCase& c, const std::string& kase, std::string* outcome_out = 0) {
    R.count("evaluations");
    Mon::reset();
    std::string outcome, first;
    auto viol = [&](const std::string& sig, const std::string& detail) {
        R.violation(sig, detail + " [" + c.fam + ": " + c.desc + "; " + str(c.w.size()) + "-byte message " + hex(c.w).substr(0, 400) + "]", kase);
        if (first.empty()) first = sig;
    };
    {
        std::unique_ptr<DNS> d;
        try { d.reset(new DNS(parse_exact(c.w))); outcome = "ok"; }
        catch (exception_base& e) { outcome = "ctor:" + demangle(typeid(e).name()); }
        catch (std::exception& e) { outcome = "ctor:!"; viol("exc:" + demangle(typeid(e).name()) + ":DNS::DNS", e.what()); }
        if (!d && c.expect == 1) viol("dns:legal-name-rejected:constructor", "a message with a legal name of " + c.fam + " was rejected: " + outcome);
        if (d) {
            DNS::queries_type q;
            DNS::resources_type r[3];
            bool clean = true, threw_in[4] = {false, false, false, false};
            for (int s = 0; s < 4; ++s) {
                try {
                    if (s == 0) q = d->queries();
                    else r[s - 1] = s == 1 ? d->answers() : s == 2 ? d->authority() : d->additional();
                    outcome += ",ok";
                } catch (exception_base& e) { clean = false; threw_in[s] = true; outcome += "," + demangle(typeid(e).name()); }
                catch (std::exception& e) { clean = false; threw_in[s] = true; outcome += ",!"; viol("exc:" + demangle(typeid(e).name()) + ":DNS::" + SEC[s], e.what()); }
            }
            if (c.pos >= 0 && c.expect) {
                std::string got;
                // which getter carries the tested name
                int sec = c.pos == 0 ? 0 : c.pos <= 2 ? 1 : c.pos == 4 ? 3 : 2;
                bool threw = threw_in[sec];
                if (threw) {
                    if (c.expect == 1) viol(std::string("dns:legal-name-rejected:") + SEC[sec], "a legal name of " + c.fam + " was reported as an error: " + outcome);
                } else if (c.expect == 3) {
                    tpl_name(c.pos, q, r, got);
                    viol(std::string("dns:overlong-name-accepted:") + SEC[sec], "a name of more than 257 octets (dotted form > 255 characters) was not reported as an error; shown as " +
                         str(got.size()) + " characters '" + show(got, 24) + "'");
                } else if (!tpl_name(c.pos, q, r, got)) {
                    viol(std::string("dns:malformed:record-missing:") + SEC[sec], "getter returned without the record holding the tested name");
                } else if (got != c.name) {
                    viol(std::string("dns:wrong-name:") + SEC[sec], "got '" + show(got) + "' expected '" + show(c.name) + "'");
                }
            }
            if (c.differential && clean) {
                Parsed P = ref_parse(c.w);
                if (P.legal && P.printable) {
                    R.count("differential_compared");
                    Model m;
                    size_t base = g_recs.size();
                    bool fits = true;
                    for (int s = 0; s < 4; ++s)
                        for (auto& x : P.sec[s]) { if (g_recs.size() >= 250) { fits = false; break; } m.sec[s] += char(g_recs.size()); g_recs.push_back(x); }
                    if (fits) {
                        std::string e = check_sections(*d, m, "retarget");
                        if (!e.empty()) { size_t bar = e.find('|'); viol(e.substr(0, bar), bar == std::string::npos ? "" : e.substr(bar + 1)); }
                    }
                    g_recs.resize(base);
                }
            }
        }
    }
    if (Mon::errors) viol(Mon::first, Mon::first_detail);
    R.dist("distinct_nontrivial", fnv(c.fam + "|" + str(c.pos) + "|" + outcome));
    R.dist("malformed_outcomes", fnv(outcome));
    R.count("fam_" + c.fam);
    if (outcome.compare(0, 5, "ctor:") == 0) R.count("malformed_rejected_by_constructor");
    else if (outcome == "ok,ok,ok,ok,ok") R.count("malformed_parsed_cleanly");
    else R.count("malformed_rejected_by_getter");
    if (outcome_out) *outcome_out = outcome;
    return first;
}

// enumerates every case of the malformed-name families in a fixed order
static void for_each_mal(bool thorough, const std::function<bool(const WireCase&)>& f /* return false to stop */) {
    bool go = true;
    auto emit_tpl = [&](const Mal& m) {
        if (!go) return;
        WireCase c; c.fam = m.fam; c.desc = m.desc + " pos=" + str(m.pos); c.w = build_tpl(m); c.expect = m.expect; c.pos = m.pos; c.name = m.name; c.differential = false;
        go = f(c);
    };
    const std::string T = "t.example.com";
    // ---- (a) pointer chains of 0..130 jumps, at every name position
    for (int pos = 0; pos <= 6 && go; ++pos)
        for (int k = 0; k <= 130 && go; ++k) {
            Mal m; m.fam = "chain"; m.desc = "jumps=" + str(k); m.pos = pos;
            m.aux = [&](const Ctx& x) {
                Enc e(0, 0, 0, 0); e.b.clear();
                e.name(T);
                for (int j = 1; j <= 130; ++j) e.ptr(j == 1 ? x.aux : x.aux + 15 + 2 * (j - 2));
                return e.b;
            };
            m.tail = no_bytes;
            m.w = [&](Enc& e, const Ctx& x) { if (k == 0) e.name(T); else e.ptr(k == 1 ? x.aux : x.aux + 15 + 2 * (k - 2)); };
            // the question name precedes the cells (forward pointers): nothing is required of those
            m.expect = k == 0 ? 1 : pos == 0 ? 0 : k <= 4 ? 1 : 2;
            m.name = T;
            emit_tpl(m);
        }
    // ---- (b) pointer to itself, label + pointer back to the start, two-pointer cycle
    for (int pos = 0; pos <= 6 && go; ++pos)
        for (int v = 0; v < 4 && go; ++v) {
            Mal m; m.fam = "self"; m.pos = pos; m.expect = 0; m.tail = no_bytes;
            m.aux = [&](const Ctx& x) { Enc e(0, 0, 0, 0); e.b.clear(); e.ptr(x.self); e.lab("b").ptr(x.self); return e.b; };
            if (v == 0) { m.desc = "pointer to itself"; m.w = [](Enc& e, const Ctx& x) { e.ptr(x.self); }; }
            if (v == 1) { m.desc = "label then pointer to own start"; m.w = [](Enc& e, const Ctx& x) { e.lab("a").ptr(x.self); }; }
            if (v == 2) { m.desc = "two-pointer cycle"; m.w = [](Enc& e, const Ctx& x) { e.ptr(x.aux); }; }
            if (v == 3) { m.desc = "cycle through labels"; m.w = [](Enc& e, const Ctx& x) { e.lab("a").ptr(x.aux + 2); }; }
            emit_tpl(m);
        }
    // ---- (c) forward pointer to a well-formed name later in the message
    for (int pos = 0; pos <= 6 && go; ++pos) {
        Mal m; m.fam = "forward"; m.desc = "pointer to a name in the last record"; m.pos = pos; m.expect = 0; m.aux = no_bytes;
        m.tail = [](const Ctx&) { Enc e(0, 0, 0, 0); e.b.clear(); e.name("fw.example"); return e.b; };
        m.w = [](Enc& e, const Ctx& x) { e.ptr(x.tail); };
        emit_tpl(m);
    }
    // ---- (d) out-of-range pointers
    for (int pos = 0; pos <= 6 && go; ++pos) {
        long tg[] = {0, 1, 6, 11, -1, -2, -3, -258, 0x3ffe, 0x3fff};   // negative: size + 1 + value  (size-0, size+1, size+2, size+257)
        for (int v = 0; v < 10 && go; ++v) {
            Mal m; m.fam = "oob"; m.pos = pos; m.expect = 0; m.aux = no_bytes;
            m.tail = [](const Ctx&) { return Bytes(1, 0x07); };   // last octet of the message: a label length with nothing behind it
            long t = tg[v];
            m.desc = t >= 0 ? "pointer to offset " + str(t) : "pointer to message size + " + str(-t - 1);
            m.w = [t](Enc& e, const Ctx& x) { e.ptr(t >= 0 ? (size_t)t : x.size + (size_t)(-t - 1)); };
            emit_tpl(m);
            // and to the last octet of the message
            if (v == 0) {
                Mal m2 = m; m2.desc = "pointer to the last octet (a label length)";
                m2.w = [](Enc& e, const Ctx& x) { e.ptr(x.size ? x.size - 1 : 0); };
                emit_tpl(m2);
            }
        }
    }
    // ---- (e) label running past the end of the message, reached through a (forward) pointer
    for (int pos = 0; pos <= 6 && go; ++pos)
        for (int v = 0; v < 6 && go; ++v) {
            Mal m; m.fam = "pastend-ptr"; m.pos = pos; m.expect = 0; m.aux = no_bytes;
            Bytes t;
            if (v == 0) { t = {3, 'c', 'o', 'm'}; m.desc = "label ends on the last octet, no terminator"; }
            if (v == 1) { t = {5, 'a', 'b'}; m.desc = "label 2 octets longer than the message"; }
            if (v == 2) { t = {3, 'c', 'o', 'm', 0xc0}; m.desc = "first octet of a pointer is the last octet"; }
            if (v == 3) { t = Bytes(64, 'z'); t[0] = 63; m.desc = "63-octet label ends on the last octet"; }
            if (v == 4) { t = {63}; m.desc = "length octet 63 is the last octet"; }
            if (v == 5) { t = {1, 'a', 1, 'b', 1}; m.desc = "length octet 1 is the last octet"; }
            m.tail = [t](const Ctx&) { return t; };
            m.w = [](Enc& e, const Ctx& x) { e.ptr(x.tail); };
            emit_tpl(m);
        }
    // ---- (f) total length around the 255-octet limit
    for (int pos = 0; pos <= 6 && go; ++pos)
        for (int v = 0; v < 9 && go; ++v) {
            Mal m; m.fam = "length"; m.pos = pos; m.expect = 0; m.aux = no_bytes; m.tail = no_bytes;
            std::string L63a(63, 'a'), L63b(63, 'b'), L63c(63, 'c');
            if (v == 0) { m.desc = "255 octets inline (legal)"; m.expect = 1; m.name = n_255(); m.w = [](Enc& e, const Ctx&) { e.name(n_255()); }; }
            if (v == 1) { m.desc = "256 octets inline"; m.w = [=](Enc& e, const Ctx&) { e.lab(L63a).lab(L63b).lab(L63c).lab(std::string(62, 'd')).z(); }; }
            if (v == 2) { m.desc = "321 octets inline"; m.w = [=](Enc& e, const Ctx&) { for (int i = 0; i < 5; ++i) e.lab(L63a); e.z(); }; }
            if (v == 3) { m.desc = "127 one-octet labels, 255 octets (legal)"; m.expect = 1; m.name = n_127(); m.w = [](Enc& e, const Ctx&) { e.name(n_127()); }; }
            if (v == 4) { m.desc = "128 one-octet labels, 257 octets"; m.w = [](Enc& e, const Ctx&) { e.labs(n_127()).lab("z").z(); }; }
            if (v >= 5) {
                if (pos == 0) continue;   // the cells would sit behind the question
                int last = v == 5 ? 61 : v == 6 ? 62 : v == 7 ? 63 : 1;
                m.aux = [=](const Ctx&) { Enc e(0, 0, 0, 0); e.b.clear(); e.lab(L63c).lab(std::string(last, 'd')); if (v == 8) e.lab(L63a).lab(L63b); e.z(); return e.b; };
                m.w = [=](Enc& e, const Ctx& x) { e.lab(L63a).lab(L63b).ptr(x.aux); };
                m.desc = "2 labels + pointer to 2 labels, total " + str(v == 8 ? 323 : 194 + last) + " octets";
                if (v == 5) { m.desc += " (legal)"; m.expect = 1; m.name = n_255(); }
            }
            emit_tpl(m);
        }
    // ---- (f2) every dotted length 250..260 (encoded 252..262 octets) x label splits x inline / behind a pointer
    // RFC 1035: at most 255 octets encoded = 253 characters dotted.  libtins composes the dotted form into 256-byte
    // buffers and also accepts 254 and 255 characters (256 / 257 octets): those two lengths may be shown (exactly) or
    // refused; 256 characters and more cannot be held and must be refused.
    for (int pos = 0; pos <= 6 && go; ++pos)
        for (int D = 250; D <= 260 && go; ++D)
            for (int split = 0; split < 6 && go; ++split) {
                // label sizes: sum + (count - 1) = D
                std::vector<int> L;
                int last = split < 3 ? split + 1 : 0;              // 0..2: greedy 63s, remainder, then a last label of 1..3
                if (split <= 3) {                                  // 3: greedy 63s and the remainder as last label
                    int pre = last ? D - last - 1 : D;
                    while (pre > 0) {
                        int l = pre > 63 ? 63 : pre;
                        if (pre - l == 1) --l;                     // never leave room for a dot only
                        L.push_back(l);
                        pre -= l;
                        if (pre > 0) --pre;
                    }
                    if (last) L.push_back(last);
                } else if (split == 4) {                           // five labels of (almost) equal size
                    int sum = D - 4;
                    for (int i = 0; i < 5; ++i) L.push_back(sum / 5 + (i < sum % 5 ? 1 : 0));
                } else {                                           // one-octet labels (a 2-octet one when D is even)
                    int n = (D + 1) / 2;
                    for (int i = 0; i < n; ++i) L.push_back(1);
                    if (D % 2 == 0) L.back() = 2;
                }
                bool fits = true; int chk = (int)L.size() - 1;
                for (int l : L) { chk += l; if (l < 1 || l > 63) fits = false; }
                if (!fits || chk != D) continue;                   // e.g. 5 equal labels cannot make 260
                std::vector<std::string> labs;
                std::string dotted;
                for (size_t i = 0; i < L.size(); ++i) {
                    labs.push_back(std::string(L[i], char('a' + i % 26)));
                    if (i) dotted += '.';
                    dotted += labs.back();
                }
                for (int form = 0; form < 4 && go; ++form) {       // 0 inline; 1 first label + pointer; 2 all but the last label + pointer; 3 pointer only
                    Mal m; m.fam = "limit"; m.pos = pos; m.tail = no_bytes; m.name = dotted;
                    size_t inl = form == 0 ? labs.size() : form == 1 ? 1 : form == 2 ? labs.size() - 1 : 0;
                    m.aux = [=](const Ctx&) { Enc e(0, 0, 0, 0); e.b.clear(); for (size_t i = inl; i < labs.size(); ++i) e.lab(labs[i]); e.z(); return e.b; };
                    m.w = [=](Enc& e, const Ctx& x) { for (size_t i = 0; i < inl; ++i) e.lab(labs[i]); if (form == 0) e.z(); else e.ptr(x.aux); };
                    int enc = D + 2;
                    m.expect = enc <= 255 ? 1 : enc <= 257 ? 2 : 3;
                    if (pos == 0 && form != 0 && m.expect == 1) m.expect = 2;   // the question can only point forward: not a "prior occurrence"
                    m.desc = "dotted " + str(D) + " / encoded " + str(enc) + " octets, " + str(L.size()) + " labels (split " + str(split) + ", last label " + str(L.back()) +
                             "), " + (form == 0 ? "inline" : form == 1 ? "1 label + pointer" : form == 2 ? "all but the last label + pointer" : "pointer only");
                    emit_tpl(m);
                }
            }
    // ---- (g) reserved label types 01 / 10, inline and behind a pointer
    for (int pos = 0; pos <= 6 && go; ++pos)
        for (int v = 0; v < 4 && go; ++v) {
            Mal m; m.fam = "reserved"; m.pos = pos; m.expect = 0; m.tail = no_bytes;
            uint8_t lt = (v & 1) ? 0x85 : 0x45;
            m.aux = [lt](const Ctx&) { Bytes b = {lt, 'a', 'b', 'c', 'd', 'e', 0}; return b; };
            m.desc = std::string("label type ") + ((v & 1) ? "10" : "01") + (v < 2 ? " inline" : " behind a pointer");
            if (v < 2) m.w = [lt](Enc& e, const Ctx&) { e.u8(lt).raw(std::string("abcde")).z(); };
            else m.w = [](Enc& e, const Ctx& x) { e.ptr(x.aux); };
            emit_tpl(m);
        }
    // ---- (h) the name is the very end of the message (no forward pointer involved)
    {
        unsigned types[5] = {T_NS, T_CNAME, T_PTR, T_MX, T_SOA};
        for (int ti = 0; ti < 5 && go; ++ti)
            for (int own = 0; own < 4 && go; ++own)      // owner: root / pointer to the question / inline / root in a message without question
                for (int v = 0; v < 9 && go; ++v) {
                    unsigned t = types[ti];
                    Enc e(own == 3 ? 0 : 1, 1, 0, 0);
                    if (own != 3) e.name("q.example").q(T_A);
                    if (own == 0 || own == 3) e.z(); else if (own == 1) e.ptr(12); else e.name("o.example");
                    size_t p = e.rr(t, 7);
                    if (t == T_MX && v != 7) e.u16(10);
                    if (t == T_SOA && v >= 5 && v != 7) e.name("m.example");
                    std::string d;
                    switch (v) {
                        case 0: e.lab("com"); d = "labels without terminator end on the last octet"; break;
                        case 1: e.u8(5).raw(std::string("ab")); d = "label longer than the rest"; break;
                        case 2: d = "empty name"; break;
                        case 3: e.u8(0xc0); d = "half a pointer"; break;
                        case 4: e.lab("a").u8(0xc0); d = "label + half a pointer"; break;
                        case 5: e.lab("r").ptr(12); d = "label + pointer, nothing behind"; break;
                        case 6: e.name("r.example").u32(1).u32(2); d = "name + 8 octets"; break;
                        case 7: e.u8(0); d = "one octet of rdata"; break;
                        case 8: e.lab(std::string(63, 'y')); d = "63-octet label ends on the last octet"; break;
                    }
                    e.end(p);
                    WireCase c; c.fam = "end-of-message"; c.desc = "type " + str(t) + " owner-variant " + str(own) + ": " + d;
                    c.w = e.b; c.expect = 0; c.pos = -1; c.differential = false;
                    go = f(c);
                }
    }
    // ---- (i) every compression pointer of every well-formed seed re-targeted to every offset
    {
        std::vector<std::pair<std::string, std::pair<Bytes, std::vector<size_t> > > > seeds;
        for (auto& I : g_inits) if (I.from_wire && !I.ptrs.empty()) seeds.push_back(std::make_pair(I.name, std::make_pair(I.wire, I.ptrs)));
        for (auto& sd : seeds) {
            const Bytes& w = sd.second.first;
            for (size_t pi = 0; pi < sd.second.second.size() && go; ++pi) {
                size_t at = sd.second.second[pi];
                std::vector<unsigned> targets;
                if (thorough) for (unsigned t = 0; t < 0x4000; ++t) targets.push_back(t);
                else {
                    for (unsigned t = 0; t < w.size() + 6; ++t) targets.push_back(t);
                    unsigned ex[] = {0xff, 0x100, 0x1000, 0x2000, 0x3f00, 0x3ffe, 0x3fff};
                    for (unsigned t : ex) targets.push_back(t);
                }
                for (unsigned t : targets) {
                    if (!go) break;
                    WireCase c; c.fam = "retarget"; c.desc = "seed '" + sd.first + "' pointer at " + str(at) + " -> " + str(t);
                    c.w = w; c.w[at] = uint8_t(0xc0 | t >> 8); c.w[at + 1] = uint8_t(t);
                    c.expect = 0; c.pos = -1; c.differential = true;
                    go = f(c);
                }
            }
        }
    }
}

static void run_mal(int part, int parts) {
    uint64_t idx = 0;
    bool sampled = false;
    for_each_mal(A.thorough(), [&](const WireCase& c) {
        uint64_t i = idx++;
        if ((int)(i % parts) != part || i < A.skip) return true;
        if (deadline_reached()) { R.flags["exhaustive"] = false; return false; }
        std::string kase = "kind=mal tier=" + A.tier + " idx=" + str(i);
        set_case(i, "mal:" + c.fam, kase);
        arm_watchdog(60);
        std::string outcome;
        eval_wire(c, kase, &outcome);
        disarm_watchdog();
        if (!sampled && c.fam == "chain" && i > 40) { sampled = true; R.sample(jstr(kase + " (" + c.fam + ": " + c.desc + ") -> " + outcome)); }
        return true;
    });
}

// ================================================================== repetition family: long histories of ONE operation
// The BFS depth is small; whatever depends on a counter or an offset crossing a byte boundary (256 records in a section,
// offsets 255/256, 0x3fff/0x4000 = the reach of a compression pointer, message size 512 / 65535) needs a long history.
// One sequence = (initial message, add_* operation, record): the operation is applied n = 1..N times and the FULL
// coherence oracle (header counts = section sizes = number inserted, getters = inserted records in order, the same
// after serialize -> parse) runs after EVERY step.  Mixed with it: at every n, on a copy, one insertion into every
// EARLIER section (relocation of the n records), again followed by the full oracle.
struct RepCfg { int init, sec, rec, n; };
static std::vector<RepCfg> rep_configs(bool thorough) {
    std::vector<RepCfg> v;
    int inits[3] = {0, 2, 3};           // empty, compressed, ptr2ptr-soa-mx
    for (int ii = 0; ii < 3; ++ii)
        for (int sec = 0; sec < 4; ++sec)
            for (size_t k = 0; k < g_rep_recs.size(); ++k) {
                bool lng = g_rep_recs[k] == g_rep_long;
                // quick: 300 of everything (count 255 -> 256; the long record passes 0x3fff at n = 48 and 65535 at n = 192)
                // thorough: 1100 short records (count passes 1024, a 17-octet record passes offset 0x3fff at n = 964), 400 long ones
                int n = thorough ? (lng ? 400 : 1100) : 300;
                v.push_back(RepCfg{inits[ii], sec, g_rep_recs[k], n});
            }
    return v;
}
static std::string rep_case(const RepCfg& c, int n, int fsec = -1, int frec = -1) {
    std::string k = "kind=rep tier=" + A.tier + " init=" + str(c.init) + " sec=" + str(c.sec) + " rec=" + str(c.rec) + " n=" + str(n);
    if (fsec >= 0) k += " fsec=" + str(fsec) + " frec=" + str(frec);
    return k;
}
// Octets one record of the table takes on the wire when libtins encodes it (no compression).
static uint32_t rec_wire_size(const Rec& r, bool question) {
    uint32_t n = (uint32_t)wire_name(r.name).size();
    if (question) return n + 4;
    n += 10;
    if (r.type == T_A) return n + 4;
    if (r.type == T_AAAA) return n + 16;
    if (r.type == T_NS || r.type == T_CNAME || r.type == T_PTR) return n + (uint32_t)wire_name(r.din).size();
    if (r.type == T_MX) return n + 2 + (uint32_t)wire_name(r.din).size();
    return n + (uint32_t)r.din.size();
}
// The reach of a compression pointer is 14 bits.  For a parsed message: (target offset, section the target lies in) of
// every pointer; an insertion into section s moves every target that lies in a later section.  Once a target would have
// to move past 0x3fff the wire format cannot express the message any more with that pointer: an implementation has to
// expand the name or refuse the insertion (libtins exception, message left as it was).  Anything else is reported as
// dns:pointer-target-beyond-0x3fff:*.
struct PtrTargets {
    std::vector<std::pair<uint32_t, int> > t;
    bool beyond(const uint32_t ins[4]) const {
        for (auto& x : t) {
            uint32_t sh = 0;
            for (int s = 0; s < x.second; ++s) sh += ins[s];
            if (x.first + sh > 0x3fff) return true;
        }
        return false;
    }
};
static PtrTargets init_targets(const Init& I, const DNS& d) {
    PtrTargets P;
    uint32_t b[3] = {d.answers_idx_ + 12, d.authority_idx_ + 12, d.additional_idx_ + 12};
    for (size_t at : I.ptrs) {
        uint32_t t = (uint32_t)(I.wire[at] & 0x3f) << 8 | I.wire[at + 1];
        P.t.push_back(std::make_pair(t, t < b[0] ? 0 : t < b[1] ? 1 : t < b[2] ? 2 : 3));
    }
    return P;
}
// judges one insertion that makes a pointer target unreachable; returns "" (coped / cleanly refused: *refused set) or a violation
static std::string judge_at_pointer_limit(const S& s, const std::string& e, bool* refused) {
    *refused = false;
    if (e.empty()) return "";
    std::string flat = e;
    for (auto& ch : flat) if (ch == '|') ch = ' ';
    if (e.find(":throws:Tins::") != std::string::npos && e.find(":add_") != std::string::npos) {
        std::string u = oracle(s);           // the model was not advanced: the message has to be what it was
        if (u.empty()) { *refused = true; return ""; }
        for (auto& ch : u) if (ch == '|') ch = ' ';
        return "dns:pointer-target-beyond-0x3fff:refused-but-message-changed|insertion refused (" + flat + ") but the message is no longer what it was: " + u;
    }
    return "dns:pointer-target-beyond-0x3fff:message-corrupted|a compression pointer of the parsed message would have to address an offset above 0x3fff; "
           "the insertion was neither refused nor were the names expanded: " + flat;
}

// returns "" or "signature|detail"; *kase names the failing step.  r_*: replay of one recorded case only.
static std::string run_rep(const RepCfg& c, uint64_t idx, std::string* kase, bool replay = false, int r_fsec = -1, int r_frec = -1) {
    S s = make_init(g_inits[c.init]);
    Op op = {c.sec, c.rec};
    PtrTargets P = init_targets(g_inits[c.init], s.d);
    uint32_t ins[4] = {0, 0, 0, 0};
    g_phase_tag = "rep-";
    for (int n = 1; n <= c.n; ++n) {
        uint32_t ins2[4] = {ins[0], ins[1], ins[2], ins[3]};
        ins2[c.sec] += rec_wire_size(g_recs[c.rec], c.sec == 0);
        bool limit = P.beyond(ins2);
        if (limit && !A.thorough()) { R.count("repetition_sequences_stopped_at_pointer_limit_in_quick"); break; }   // thorough tier goes on
        *kase = rep_case(c, n);
        set_case(idx, "rep", *kase);
        Mon::reset();
        g_full = true;
        uint32_t prev = s.d.header_size();
        std::string e = step(s, op);
        if (e.empty() && Mon::errors) e = Mon::first + "|" + Mon::first_detail;
        R.count("evaluations"); R.count("repetition_steps");
        if (limit) {
            bool refused;
            R.count("repetition_insertions_at_pointer_limit");
            e = judge_at_pointer_limit(s, e, &refused);
            if (refused) { R.count("repetition_insertions_refused_at_pointer_limit"); break; }
        }
        if (!e.empty()) { g_phase_tag.clear(); return e + " [after " + str(n) + " x " + ADD[c.sec] + ", message " + str(s.d.header_size()) + " octets]"; }
        uint32_t size = s.d.header_size();
        ins[c.sec] += size - prev;
        R.maxv("repetition_max_records_in_one_section", g_inits[c.init].sec[c.sec].size() + n);
        R.maxv("repetition_max_message_octets", size);
        if (!replay) {
            if (n == 256) R.count("repetition_crossed_256_records");
            if (n == 1024) R.count("repetition_crossed_1024_records");
            if (prev <= 0x3fff && size > 0x3fff) R.count("repetition_crossed_offset_0x3fff");
            if (prev <= 65535 && size > 65535) R.count("repetition_crossed_65535_octets");
            if (n == 256 || n == 1 || (prev <= 0x3fff && size > 0x3fff) || (prev <= 65535 && size > 65535))
                R.dist("distinct_nontrivial", fnv(rep_case(c, 0) + "|" + str(n == 256) + str(size > 0x3fff) + str(size > 65535)));
        }
        // relocation: one insertion in front of the n records, into every earlier section, on a copy
        g_phase_tag = "rep-moved-";
        for (int fsec = 0; fsec < c.sec; ++fsec)
            for (int v = 0; v < 2; ++v) {
                int frec = v == 0 ? g_rep_recs[0] : c.rec;
                if (replay && (n != c.n || fsec != r_fsec || frec != r_frec)) continue;
                if (v == 1 && frec == g_rep_recs[0]) continue;
                uint32_t ins3[4] = {ins[0], ins[1], ins[2], ins[3]};
                ins3[fsec] += rec_wire_size(g_recs[frec], fsec == 0);
                bool lim = P.beyond(ins3);
                if (lim && !A.thorough()) { R.count("repetition_front_insertions_skipped_at_pointer_limit_in_quick"); continue; }
                S t(s);
                *kase = rep_case(c, n, fsec, frec);
                set_case(idx, "rep", *kase);
                Mon::reset();
                g_full = true;
                e = step(t, Op{fsec, frec});
                if (e.empty() && Mon::errors) e = Mon::first + "|" + Mon::first_detail;
                R.count("evaluations"); R.count("repetition_front_insertions");
                if (lim) {
                    bool refused;
                    R.count("repetition_insertions_at_pointer_limit");
                    e = judge_at_pointer_limit(t, e, &refused);
                    if (refused) R.count("repetition_insertions_refused_at_pointer_limit");
                }
                if (!e.empty()) { g_phase_tag.clear(); return e + " [" + str(n) + " x " + ADD[c.sec] + " then one " + ADD[fsec] + ", message " + str(t.d.header_size()) + " octets]"; }
            }
        g_phase_tag = "rep-";
        if ((n & 31) == 0 && deadline_reached()) { R.flags["exhaustive"] = false; break; }
    }
    g_phase_tag.clear();
    *kase = "";
    return "";
}
static void run_rep_job(int part, int parts) {
    auto v = rep_configs(A.thorough());
    for (size_t i = 0; i < v.size(); ++i) {
        if ((int)((i + i / g_rep_recs.size()) % parts) != part || i < A.skip) continue;   // spreads the long-name sequences over the jobs
        if (deadline_reached()) { R.flags["exhaustive"] = false; break; }
        std::string kase;
        arm_watchdog(1200);
        std::string e = run_rep(v[i], i, &kase);
        disarm_watchdog();
        R.count("repetition_sequences");
        if (!e.empty()) { size_t bar = e.find('|'); R.violation(e.substr(0, bar), bar == std::string::npos ? "" : e.substr(bar + 1), kase); }
        else R.count("repetition_sequences_completed");
        if (i == 5) R.sample(jstr(rep_case(v[i], v[i].n, 0, g_rep_recs[0]) + " (last step of a sequence: " + str(v[i].n) + " x add_query of the 255-octet name)"));
    }
}

// ================================================================== type sweep: the record TYPE is a 16-bit domain
// Reference classification, taken from the RFCs and from what libtins documents for DNS::resource::data(), NOT from
// DNS::contains_dname / convert_records:
//   A (1, RFC 1035 3.4.1): 4-octet address, API form = dotted quad.   AAAA (28, RFC 3596): 16 octets, API form = text.
//   NS (2), CNAME (5), PTR (12) (RFC 1035 3.3): one domain name, API form = dotted name.
//   MX (15): 16-bit preference + domain name, API form = dotted name + preference().
//   SOA (6): API form = mname, rname as uncompressed wire names + 20 octets (what soa_record produces / consumes).
//   Types whose RDATA contains domain names but which neither the property statement nor the libtins documentation
//   lists: MD 3, MF 4, MB 7, MG 8, MR 9, MINFO 14 (RFC 1035), RP 17, AFSDB 18 (RFC 1183), RT 21, SIG 24 (RFC 2535),
//   PX 26 (RFC 2163), NXT 30, SRV 33 (RFC 2782), NAPTR 35 (RFC 3403), KX 36 (RFC 2230), A6 38, DNAME 39 (RFC 6672),
//   RRSIG 46, NSEC 47 (RFC 4034): libtins may present them as raw octets or (single-name types) as a dotted name, but
//   it has to do the same on the way in and on the way out.
//   Every other value 0..65535 (TXT 16, NULL 10, OPT 41, unassigned, private use): opaque, RDATA comes back byte-identical.
enum TClass { TC_OPAQUE, TC_A, TC_AAAA, TC_NAME, TC_MX, TC_SOA, TC_UNLISTED_NAMES };
static TClass ref_class(unsigned t) {
    switch (t) {
        case 1: return TC_A;
        case 28: return TC_AAAA;
        case 2: case 5: case 12: return TC_NAME;
        case 15: return TC_MX;
        case 6: return TC_SOA;
        case 3: case 4: case 7: case 8: case 9: case 14: case 17: case 18: case 21: case 24: case 26: case 30: case 33:
        case 35: case 36: case 38: case 39: case 46: case 47: return TC_UNLISTED_NAMES;
        default: return TC_OPAQUE;
    }
}
static const unsigned SPECIAL_TYPES[] = {1, 2, 5, 6, 12, 15, 28, 39};      // what libtins' own switch statements single out

static std::vector<std::string> opaque_blobs() {
    std::vector<std::string> b;
    b.push_back(std::string());                                   // empty
    b.push_back(std::string("\x00", 1));                          // one octet (would be the root name)
    b.push_back(std::string("\xc0\x0c"));                         // looks like a pointer to the first name of the message
    b.push_back(std::string("\xc0\xff"));                         // looks like a pointer further into / past the message
    b.push_back(std::string("\x3f" "abc"));                       // looks like a 63-octet label running past the end
    b.push_back(std::string("\x05hello\x03" "abc\x00\x01", 12)); // looks like a name followed by one more octet
    b.push_back(std::string("a.b.example.com"));                  // looks like the dotted API form of a name
    return b;
}
struct TVariant { std::string din, dout; unsigned pref; };
static std::vector<TVariant> variants_for(TClass c, bool as_name = false) {
    std::vector<TVariant> v;
    auto add = [&](const std::string& a, const std::string& b, unsigned p = 0) { TVariant x; x.din = a; x.dout = b; x.pref = p; v.push_back(x); };
    if (c == TC_A) { add("1.2.3.4", "1.2.3.4"); add("255.0.10.200", "255.0.10.200"); }
    else if (c == TC_AAAA) { add("2001:db8::1", "2001:db8::1"); add("::", "::"); }
    else if (c == TC_NAME || c == TC_MX || as_name) {
        add("a", "a", c == TC_MX ? 7 : 0); add("a.b.example.com", "a.b.example.com", c == TC_MX ? 0xfffe : 0); add("", "", c == TC_MX ? 1 : 0);
    } else if (c == TC_SOA) {
        std::string a = soa_data("ns.example.com", "admin.example.com", 1, 2, 3, 4, 5), b = soa_data("", "x", 0xffffffffu, 0, 0xc00c0000u, 0x3f, 0);
        add(a, a); add(b, b);
    } else for (auto& b : opaque_blobs()) add(b, b);
    return v;
}
static std::string type_case(unsigned t, int sec) { return "kind=type tier=" + A.tier + " t=" + str(t) + " sec=" + str(sec); }

// one (type, section, variant): (a) fresh message + add_* -> getters, (b) serialize -> parse -> getters, (c) the parsed
// message + one insertion into an earlier section (update_records walks over the record) -> getters, -> parse -> getters
static std::string type_variant(unsigned t, int sec, const TVariant& v) {
    size_t base = g_recs.size();
    int id = rec(sec == 0 ? "t.example.com" : "o.example.com", t, 0x01020304, v.din, v.dout, v.pref);
    std::string err;
    S s;
    Mon::reset();
    g_phase_tag = "type-";
    g_full = true;
    err = step(s, Op{sec, id});
    if (err.empty() && Mon::errors) err = Mon::first + "|" + Mon::first_detail;
    if (err.empty() && sec > 0) {
        Bytes w = s.d.serialize();
        g_phase_tag = "type-moved-";
        for (int fsec = sec - 1; fsec >= 0 && err.empty(); fsec = (fsec == 0 || sec - 1 == 0) ? -1 : 0) {   // the section right before, and the question
            S m;
            m.d = parse_exact(w);
            m.m = s.m;
            Mon::reset();
            g_full = true;
            err = step(m, Op{fsec, g_rep_recs[0]});
            if (err.empty() && Mon::errors) err = Mon::first + "|" + Mon::first_detail;
            R.count("type_sweep_relocations");
        }
    }
    g_phase_tag.clear();
    g_recs.resize(base);
    return err;
}
// all variants of one (type, section); "" or "signature|detail"
static std::string type_group(unsigned t, int sec) {
    TClass c = ref_class(t);
    if (sec == 0) {                      // a question has no data: name / type / class only (DNS::QueryType values are limited to 0..63)
        TVariant v; v.pref = 0;
        R.count("evaluations"); R.count("type_sweep_cases");
        return type_variant(t, 0, v);
    }
    std::string first;
    for (int attempt = 0; attempt < 2; ++attempt) {
        // types with names that nobody lists: raw octets (attempt 0) or, failing that, dotted names (attempt 1) - but consistently
        if (attempt == 1 && (c != TC_UNLISTED_NAMES || first.empty())) break;
        std::string err;
        for (auto& v : variants_for(c, attempt == 1)) {
            R.count("evaluations"); R.count("type_sweep_cases");
            std::string e = type_variant(t, sec, v);
            if (!e.empty()) {
                err = e + " [type " + str(t) + " through " + ADD[sec] + ", data '" + show(v.din, 24) + "', reference class " +
                      (c == TC_OPAQUE ? "opaque" : c == TC_UNLISTED_NAMES ? "names, not listed (raw octets or dotted name, but the same in both directions)" : "listed") + "]";
                break;
            }
        }
        if (err.empty()) { if (attempt == 1) R.count("type_sweep_unlisted_shown_as_name"); return ""; }
        if (first.empty()) first = err;
    }
    return first;
}
static std::vector<unsigned> sweep_types(bool thorough) {
    std::vector<unsigned> v;
    if (thorough) { for (unsigned t = 0; t < 65536; ++t) v.push_back(t); return v; }
    std::vector<bool> in(65536, false);
    for (unsigned t = 0; t < 1024; ++t) in[t] = true;
    for (unsigned t = 0xff00; t < 65536; ++t) in[t] = true;
    for (unsigned sp : SPECIAL_TYPES) {
        for (unsigned t = sp % 32; t < 65536; t += 32) in[t] = true;            // equal to a special type mod 32 (hence also mod 64, 256, ...) over the whole range
        for (int b = 0; b < 16; ++b) in[sp ^ (1u << b)] = true;                 // one bit away
    }
    for (unsigned t = 0; t < 65536; ++t) if (in[t]) v.push_back(t);
    return v;
}
static void run_type_job(int part, int parts) {
    auto types = sweep_types(A.thorough());
    for (size_t i = 0; i < types.size(); ++i) {
        if ((int)(i % parts) != part) continue;
        unsigned t = types[i];
        if ((i & 255) == 0 && deadline_reached()) { R.flags["exhaustive"] = false; break; }
        R.count("type_sweep_types");
        for (int sec = 0; sec < 4; ++sec) {
            if (sec == 0 && t > 63) continue;
            uint64_t idx = (uint64_t)t * 4 + sec;
            if (idx < A.skip) continue;
            std::string kase = type_case(t, sec);
            set_case(idx, "type", kase);
            arm_watchdog(60);
            std::string e = type_group(t, sec);
            disarm_watchdog();
            if (!e.empty()) { size_t bar = e.find('|'); R.violation(e.substr(0, bar), bar == std::string::npos ? "" : e.substr(bar + 1), kase); }
            R.dist("distinct_nontrivial", fnv("type|" + str((int)ref_class(t)) + "|" + str(sec) + "|" + str(e.empty())));
        }
        if (t == 16 || t == 33) R.sample(jstr(type_case(t, 3) + " (" + str(variants_for(ref_class(t)).size()) + " data variants, each: add, read, serialize/parse, relocate twice)"));
    }
}

// ================================================================== jobs
struct Cfg { int init, run; double weight; };
static std::vector<Cfg> configs(bool thorough) {
    std::vector<Cfg> v;
    for (size_t r = 0; r < g_runs.size(); ++r)
        for (size_t i = 0; i < g_inits.size(); ++i) {
            int d = thorough ? g_runs[r].depth_thorough : g_runs[r].depth_quick;
            double w = 1;
            for (int k = 0; k < d; ++k) w *= g_runs[r].recs.size();
            v.push_back(Cfg{(int)i, (int)r, w});
        }
    // heaviest first, so that the long searches start at once
    for (size_t i = 0; i < v.size(); ++i)
        for (size_t j = i + 1; j < v.size(); ++j)
            if (v[j].weight > v[i].weight) std::swap(v[i], v[j]);
    return v;
}

// A wild write/read far outside the heap (update_records walking garbage) ends in SIGSEGV.  Record it as a violation
// of the running case with a stable signature and finish the job normally: the crash costs this one search.
static void on_fatal(int sig) {
    static bool once = false;
    if (once) _exit(4);
    once = true;
    std::string fr = tins_frame(), kase;
    if (g_progress) { const char* a = strchr(g_progress, '|'); const char* b = a ? strchr(a + 1, '|') : 0; if (b) kase = b + 1; }
    R.violation(std::string("crash:") + (sig == SIGSEGV ? "SIGSEGV" : "SIGBUS") + ":" + (fr.empty() ? "?" : fr),
                "fatal signal while executing the case" + (Mon::first.empty() ? std::string() : "; first sanitizer report before it: " + Mon::first), kase);
    R.flags["exhaustive"] = false;
    R.count("searches_ended_by_fatal_signal");
    if (!A.out.empty()) R.write(A.out);
    _exit(A.out.empty() ? 1 : 0);
}

int main(int argc, char** argv) {
    {   // own stack: the fault may be a stack overflow
        static char altstack[1 << 16];
        stack_t ss; ss.ss_sp = altstack; ss.ss_size = sizeof altstack; ss.ss_flags = 0;
        sigaltstack(&ss, 0);
        struct sigaction sa; memset(&sa, 0, sizeof sa); sa.sa_handler = on_fatal; sa.sa_flags = SA_ONSTACK;
        sigaction(SIGSEGV, &sa, 0); sigaction(SIGBUS, &sa, 0);
    }
    build_inits();
    build_runs();
    const int MAL_Q = 4, MAL_T = 12, REP_Q = 6, REP_T = 12, TYPE_Q = 8, TYPE_T = 16;
    int nq = (int)configs(false).size() + MAL_Q + REP_Q + TYPE_Q, nt = (int)configs(true).size() + MAL_T + REP_T + TYPE_T;
    return run_main(argc, argv, nq, nt,
        [](int job) {
            auto v = configs(A.thorough());
            int nmal = A.thorough() ? 12 : 4, nrep = A.thorough() ? 12 : 6, ntype = A.thorough() ? 16 : 8;
            if (job < (int)v.size()) {
                if (A.skip) {   // restarted after a crash inside this search: the crash is already recorded, do not repeat it
                    R.flags["exhaustive"] = false;
                    R.count("searches_abandoned_after_crash");
                    return;
                }
                run_bfs(v[job].init, v[job].run);
                if (job == 0) {
                    std::string s = "initial messages:";
                    for (auto& I : g_inits) s += " " + I.name + "(" + str(I.wire.size()) + "B," + str(I.ptrs.size()) + " pointers)";
                    R.sample(jstr(s));
                    R.sample(jstr("compressed initial message: " + hex(g_inits[2].wire)));
                }
            } else if (job < (int)v.size() + nmal) run_mal(job - (int)v.size(), nmal);
            else if (job < (int)v.size() + nmal + nrep) run_rep_job(job - (int)v.size() - nmal, nrep);
            else run_type_job(job - (int)v.size() - nmal - nrep, ntype);
        },
        [](const std::string& kase) -> int {
            auto kv = parse_kv(kase);
            if (kv.count("tier")) A.tier = kv["tier"];
            if (kv["kind"] == "bfs") {
                int init = atoi(kv["init"].c_str()), run = -1;
                for (size_t r = 0; r < g_runs.size(); ++r) if (g_runs[r].name == kv["run"]) run = (int)r;
                if (run < 0 || init < 0 || init >= (int)g_inits.size()) { printf("no such configuration\n"); return 2; }
                std::string err, ops = kv["ops"];
                run_bfs(init, run, &ops, &err);
                printf("initial message '%s' %s, run %s\n", g_inits[init].name.c_str(), hex(g_inits[init].wire).c_str(), g_runs[run].name.c_str());
                if (!err.empty()) { printf("violation reproduced: %s\n", err.c_str()); return 1; }
                printf("history replayed, all invariants hold\n");
                return 0;
            }
            if (kv["kind"] == "mal") {
                uint64_t want = strtoull(kv["idx"].c_str(), 0, 10), idx = 0;
                int rc = 2;
                for_each_mal(A.thorough(), [&](const WireCase& c) {
                    if (idx++ != want) return true;
                    std::string outcome;
                    std::string sig = eval_wire(c, kase, &outcome);
                    printf("%s: %s\nmessage: %s\noutcome (constructor, queries, answers, authority, additional): %s\n", c.fam.c_str(), c.desc.c_str(),
                           hex(c.w).c_str(), outcome.c_str());
                    if (!sig.empty()) { printf("violation reproduced: %s\n", sig.c_str()); rc = 1; }
                    else { printf("no violation\n"); rc = 0; }
                    return false;
                });
                if (rc == 2) printf("no such case\n");
                return rc;
            }
            if (kv["kind"] == "rep") {
                RepCfg c = {atoi(kv["init"].c_str()), atoi(kv["sec"].c_str()), atoi(kv["rec"].c_str()), atoi(kv["n"].c_str())};
                if (c.init < 0 || c.init >= (int)g_inits.size() || c.sec < 0 || c.sec > 3 || c.rec < 0 || c.rec >= (int)g_recs.size() || c.n < 1) { printf("no such case\n"); return 2; }
                std::string k2;
                int fsec = kv.count("fsec") ? atoi(kv["fsec"].c_str()) : -1, frec = kv.count("frec") ? atoi(kv["frec"].c_str()) : -1;
                std::string e = run_rep(c, 0, &k2, true, fsec, frec);
                printf("initial message '%s', %d x %s of record %d (%s, type %d)%s\n", g_inits[c.init].name.c_str(), c.n, ADD[c.sec], c.rec,
                       show(g_recs[c.rec].name, 30).c_str(), g_recs[c.rec].type, fsec >= 0 ? (std::string(", then one ") + ADD[fsec]).c_str() : "");
                if (!e.empty()) { printf("violation reproduced at %s: %s\n", k2.c_str(), e.c_str()); return 1; }
                printf("sequence replayed, all invariants hold at every step\n");
                return 0;
            }
            if (kv["kind"] == "type") {
                unsigned t = (unsigned)atoi(kv["t"].c_str()); int sec = atoi(kv["sec"].c_str());
                if (t > 65535 || sec < 0 || sec > 3) { printf("no such case\n"); return 2; }
                std::string e = type_group(t, sec);
                printf("type %u through %s\n", t, ADD[sec]);
                if (!e.empty()) { printf("violation reproduced: %s\n", e.c_str()); return 1; }
                printf("no violation\n");
                return 0;
            }
            printf("unknown case kind\n");
            return 2;
        });
}
