// C13 — Layer look-up and casts never hand back an object of the wrong type.
//
// Exhaustive over a finite table that is GENERATED from the headers of the tree being checked (lib/gen.py ->
// classes.inc, read from clang's AST):
//   K  = every concrete class deriving from Tins::PDU  +  PDUCacher<X> for every cacheable X
//   T  = every class with a pdu_flag (abstract ones too)  +  PDUCacher<X> for every cacheable X
// and over every chain of 1, 2 (quick) and 3 (thorough) objects of classes K.  For every (chain, T) all seven
// look-up / cast helpers are called and compared with dynamic_cast:
//   find_pdu<T>, const find_pdu<T>, rfind_pdu<T>, const rfind_pdu<T>   on the chain head,
//   tins_cast<T*>, tins_cast<const T*>, tins_cast<T>(ref)               on the chain head.
// Oracle (no stricter than the statement):
//   * a non-null / non-throwing result r must be `dynamic_cast<T*>(e)` of an element e of the chain
//     (for the casts: of the head) -- "the returned pointer can be used as a T";
//   * if an element's exact class is T the search must not fail, and if it is the head the head is returned.
//   Not required: that a search for a base class finds a derived object (libtins does not promise it: DHCP is not
//   found as BootP, Dot11RTS not as Dot11ControlTA), nor which of two genuine T's of a chain is returned.
// Objects: default-constructed; classes without a default constructor are built from the minimal buffers below and
// the BUILD FAILS if a concrete class of the headers has neither (nothing is skipped silently).  Extra objects:
// what Dot11::from_bytes / EAPOL::from_bytes return for every value of the frame-control / key-descriptor byte.
#include "common.hpp"
#include "tins_all_headers.inc"   // generated: every header below include/tins
#include <type_traits>
#include <typeinfo>
#include <memory>

using namespace mc;

// ---------------------------------------------------------------- construction table (hand-written part)
// A concrete class with a public default constructor needs nothing here.  A class without one needs a minimal
// valid wire image (MinBuf) -- or, if it has no (const uint8_t*, uint32_t) constructor either, a CustomMake.
// The primary templates are deliberately left undefined: a class added to libtins later that cannot be
// default-constructed makes this harness fail to COMPILE until a row is added.
template <class K> struct MinBuf;       // static Bytes get();
template <class K> struct CustomMake;   // static Tins::PDU* make();

template <> struct MinBuf<Tins::RawPDU> { static Bytes get() { return Bytes{0x2a}; } };
// PPI: version 0, flags 0, length 8 (LE), DLT 105 (LE): header only, no fields, no payload
template <> struct MinBuf<Tins::PPI> { static Bytes get() { return Bytes{0, 0, 8, 0, 105, 0, 0, 0}; } };

template <class K, int DEF, int BUF> struct Maker { static Tins::PDU* make() { return CustomMake<K>::make(); } };
template <class K, int BUF> struct Maker<K, 1, BUF> { static Tins::PDU* make() { return new K(); } };
template <class K> struct Maker<K, 0, 1> {
    static Tins::PDU* make() { Bytes b = MinBuf<K>::get(); return new K(b.data(), (uint32_t)b.size()); }
};

// class templates deriving from PDU that this harness knows how to instantiate (PDUCacher<X> for all cacheable X)
static const bool known_pdu_template_PDUCacher = true;

// ---------------------------------------------------------------- static cross-checks table <-> compiler
#define TINS_PDU_CLASS(Q, ID, ABSTRACT, PUBCTOR, DEFCTOR, BUFCTOR, FLAGGED)                                       \
    static_assert(std::is_base_of<Tins::PDU, Q>::value, "classes.inc: " #Q " does not derive from PDU");        \
    static_assert(std::is_abstract<Q>::value == (ABSTRACT != 0), "classes.inc disagrees with the compiler: abstractness of " #Q);
#define TINS_PDU_BASE(Q, ID, QB, IDB) static_assert(std::is_base_of<QB, Q>::value, "classes.inc: " #QB " is not a base of " #Q);
#define TINS_PDU_TEMPLATE(ID) static_assert(known_pdu_template_##ID, "a PDU class template this harness does not instantiate");
#include "classes.inc"
#undef TINS_PDU_CLASS
#undef TINS_PDU_BASE
#undef TINS_PDU_TEMPLATE

// ---------------------------------------------------------------- rows
template <class T> struct Unwrap { typedef T type; static const bool wrapper = false; };
template <class X> struct Unwrap<Tins::PDUCacher<X> > { typedef X type; static const bool wrapper = true; };

static std::string short_name(std::string s) {
    size_t p;
    while ((p = s.find("Tins::")) != std::string::npos) s.erase(p, 6);
    return s;
}

struct KRow {
    std::string name;
    bool wrapper;
    const std::type_info* ti;
    Tins::PDU* (*make)();
    Tins::PDU* (*unwrap)(Tins::PDU*);   // the object whose flag the wrapper reports (the object itself if not a wrapper)
    Tins::PDU* (*from_buf)(const uint8_t*, uint32_t);   // the class's OWN (buffer, size) constructor; 0 if it has none
    bool defctor;
    bool (*min_buf)(Bytes&);            // the MinBuf<K> wire image, if the harness has one
    Tins::PDU* (*wrap)(Tins::PDU*);     // wrapper rows: PDUCacher<X>(x) around a COPY of the X object x (with x's inner chain); else 0
};
template <class X> static Tins::PDU* wrap_cacher(Tins::PDU* x) { return new Tins::PDUCacher<X>(*static_cast<X*>(x)); }
// every class of the table by RTTI (names for objects whose class has no K row: Dot11ManagementFrame, Dot11ControlTA made by slicing)
static std::vector<std::pair<const std::type_info*, std::string> > class_names() {
    std::vector<std::pair<const std::type_info*, std::string> > v;
#define TINS_PDU_CLASS(Q, ID, ABSTRACT, PUBCTOR, DEFCTOR, BUFCTOR, FLAGGED) v.push_back(std::make_pair(&typeid(Q), short_name(#Q)));
#include "classes.inc"
#undef TINS_PDU_CLASS
    return v;
}
template <class K, int BUF> struct BufMaker { static Tins::PDU* make(const uint8_t*, uint32_t) { return 0; } static const bool has = false; };
template <class K> struct BufMaker<K, 1> { static Tins::PDU* make(const uint8_t* p, uint32_t n) { return new K(p, n); } static const bool has = true; };
template <class K, class = void> struct HasMinBuf { static bool get(Bytes&) { return false; } };
template <class K> struct HasMinBuf<K, decltype(void(MinBuf<K>::get()))> { static bool get(Bytes& b) { b = MinBuf<K>::get(); return true; } };
template <class K> static Tins::PDU* unwrap_plain(Tins::PDU* p) { return p; }
template <class X> static Tins::PDU* unwrap_cacher(Tins::PDU* p) { return &static_cast<Tins::PDUCacher<X>*>(p)->cached_; }
template <class X> static Tins::PDU* make_cacher() { return new Tins::PDUCacher<X>(); }

static std::vector<KRow> k_rows() {
    std::vector<KRow> v;
#define TINS_PDU_CONCRETE(Q, ID, DEFCTOR, BUFCTOR) \
    v.push_back(KRow{short_name(#Q), false, &typeid(Q), &Maker<Q, DEFCTOR, BUFCTOR>::make, &unwrap_plain<Q>,           \
                     BufMaker<Q, BUFCTOR>::has ? &BufMaker<Q, BUFCTOR>::make : 0, DEFCTOR != 0, &HasMinBuf<Q>::get, 0});
#define TINS_PDU_CACHEABLE(Q, ID) \
    v.push_back(KRow{"PDUCacher<" + short_name(#Q) + ">", true, &typeid(Tins::PDUCacher<Q>), &make_cacher<Q>, &unwrap_cacher<Q>, 0, true, 0, &wrap_cacher<Q>});
#include "classes.inc"
#undef TINS_PDU_CONCRETE
#undef TINS_PDU_CACHEABLE
    return v;
}

// public small-value setters (generated: TINS_PDU_SETTER) -- candidates for steering how an object identifies itself
struct SRow {
    std::string kname, sname;   // class of the object, "Declaring::setter"
    char kind;                  // U integer, B bool, S small_uint<bits>, E enum needing `bits` bits
    int bits;
    std::function<void(Tins::PDU*, uint64_t)> apply;
};
template <class A> struct ArgOf { static A make(uint64_t v) { return static_cast<A>(v); } };
template <size_t N> struct ArgOf<Tins::small_uint<N> > {
    static Tins::small_uint<N> make(uint64_t v) { return Tins::small_uint<N>(static_cast<typename Tins::small_uint<N>::repr_type>(v)); }
};
template <class K, class DQ, class A>
static SRow s_row(const std::string& k, const std::string& n, char kind, int bits, void (DQ::*p)(A)) {
    typedef typename std::decay<A>::type AT;
    return SRow{k, n, kind, bits, [p](Tins::PDU* o, uint64_t v) { (static_cast<DQ*>(static_cast<K*>(o))->*p)(ArgOf<AT>::make(v)); }};
}
static std::vector<SRow> s_rows() {
    std::vector<SRow> v;
#define TINS_PDU_SETTER(Q, ID, DQ, NAME, KIND, BITS) \
    v.push_back(s_row<Q, DQ>(short_name(#Q), short_name(#DQ) + "::" #NAME, #KIND[0], BITS, &DQ::NAME));
#include "classes.inc"
#undef TINS_PDU_SETTER
    return v;
}

// ---------------------------------------------------------------- origin of an object (generated: TINS_PDU_SLICE + every K onto itself)
// From an object o of class K (possibly looked up before): a B made by slicing copy / copy-assignment / clone() of the sliced copy /
// move-construction of it, B a concrete copy-constructible public base of K -- or B = K (same-class copy, assignment, clone, move, o itself).
// The result IS a B and must answer like one for every T.
struct ORow {
    std::string kname, bname;
    bool self;   // B == K
    Tins::PDU* (*make)(Tins::PDU* o, Tins::PDU* fresh, int op);   // new object; o and fresh stay owned by the caller
};
static const char* const ORIGIN_OPS[] = {"copy", "assign", "clone", "move", "self"};
template <class K, class B> static Tins::PDU* origin_make(Tins::PDU* o, Tins::PDU* fresh, int op) {
    const B& asb = *static_cast<K*>(o);
    switch (op) {
        case 0: return new B(asb);                                                            // B sliced(o)
        case 1: { B* t = new B(static_cast<const B&>(*static_cast<K*>(fresh))); *t = asb; return t; }   // B assigned; assigned = o
        case 2: { B tmp(asb); return tmp.clone(); }                                           // sliced.clone()
        case 3: { B tmp(asb); return new B(std::move(tmp)); }                                 // B moved(std::move(sliced))
        default: return 0;
    }
}
static std::vector<ORow> o_rows() {
    std::vector<ORow> v;
#define TINS_PDU_SLICE(Q, ID, QB, IDB) v.push_back(ORow{short_name(#Q), short_name(#QB), false, &origin_make<Q, QB>});
#define TINS_PDU_CONCRETE(Q, ID, DEFCTOR, BUFCTOR) v.push_back(ORow{short_name(#Q), short_name(#Q), true, &origin_make<Q, Q>});
#define TINS_PDU_CACHEABLE(Q, ID) \
    v.push_back(ORow{"PDUCacher<" + short_name(#Q) + ">", "PDUCacher<" + short_name(#Q) + ">", true, &origin_make<Tins::PDUCacher<Q>, Tins::PDUCacher<Q> >});
#include "classes.inc"
#undef TINS_PDU_SLICE
#undef TINS_PDU_CONCRETE
#undef TINS_PDU_CACHEABLE
    return v;
}

// ---------------------------------------------------------------- empty states (generated: TINS_PDU_EMPTY_CTOR / _EMPTY_SETTER / _CLEARABLE)
struct ERow {
    std::string kname, how;                      // how: ctor-B0 | ctor-STR | ctor-VEC | ctor-IT | set:Declaring::name | clear:Declaring::name
    std::function<Tins::PDU*()> create;          // constructors handed nothing (0 if the constructor refuses)
    std::function<void(Tins::PDU*)> mutate;      // or: a mutation of an existing object (default / minimal-buffer object of K)
};
static const uint8_t g_nothing[1] = {0};
template <class K, class ARG> struct EmptyCtor {
    static Tins::PDU* B0() { return new K(g_nothing, 0u); }
    static Tins::PDU* STR() { return new K(std::string()); }
    static Tins::PDU* VEC() { return new K(ARG()); }
    static Tins::PDU* IT() { return new K(g_nothing, g_nothing); }
};
static std::vector<ERow> e_rows() {
    std::vector<ERow> v;
#define TINS_PDU_EMPTY_CTOR(Q, ID, KIND, ARG) \
    v.push_back(ERow{short_name(#Q), "ctor-" #KIND, []() -> Tins::PDU* { try { return EmptyCtor<Q, ARG>::KIND(); } catch (std::exception&) { return 0; } }, nullptr});
#define TINS_PDU_EMPTY_SETTER(Q, ID, DQ, NAME, ARG) \
    v.push_back(ERow{short_name(#Q), "set:" + short_name(#DQ) + "::" #NAME, nullptr, [](Tins::PDU* o) { static_cast<DQ&>(*static_cast<Q*>(o)).NAME(ARG()); }});
#define TINS_PDU_CLEARABLE(Q, ID, DQ, NAME) \
    v.push_back(ERow{short_name(#Q), "clear:" + short_name(#DQ) + "::" #NAME, nullptr, [](Tins::PDU* o) { static_cast<DQ&>(*static_cast<Q*>(o)).NAME().clear(); }});
#include "classes.inc"
#undef TINS_PDU_EMPTY_CTOR
#undef TINS_PDU_EMPTY_SETTER
#undef TINS_PDU_CLEARABLE
    return v;
}

struct Elem { Tins::PDU* p; Tins::PDU* unwrapped; std::string kname; bool wrapper; };
struct Chain {
    std::vector<Elem> e;
    std::string spec;   // replayable: K1/K2/...
    bool lazy = false;  // state sweeps: call the throwing variants only when their non-throwing twin succeeded
};
struct Outcome {
    std::vector<std::pair<std::string, std::string> > bad;   // (signature, detail)
    unsigned mask = 0;     // bit h: helper h produced a result; bits 8..: truth per element (first 3); bits 12..: matched element + 1
    bool any = false;
    int calls = 0;         // helpers actually invoked
    bool base_not_found = false;   // head really is a T (dynamic_cast) but the search found nothing: allowed, reported as information
};
struct TRow {
    std::string name;
    bool wrapper;
    int flag;
    const std::type_info* ti;
    void (*check)(const Chain&, const TRow&, Outcome&);
    void (*touch)(Tins::PDU*);   // a look-up and a cast whose results are thrown away (history: "has been asked for T before")
};
template <class T> static void touch(Tins::PDU* p) {
    const Tins::PDU* cp = p;
    volatile const void* sink;
    sink = p->find_pdu<T>();
    sink = cp->find_pdu<T>();
    sink = Tins::tins_cast<T*>(p);
    sink = Tins::tins_cast<const T*>(cp);
    (void)sink;
}

// signatures name the helper family (search = the four find_pdu/rfind_pdu variants, which share one code path; cast = the three
// tins_cast variants); the detail names the individual helpers
static inline const char* GROUP(int h) { return h < 4 ? "search" : "cast"; }
static const char* const HELPERS[7] = {"find_pdu", "find_pdu-const", "rfind_pdu", "rfind_pdu-const",
                                       "tins_cast-ptr", "tins_cast-constptr", "tins_cast-ref"};

template <class T>
static void check(const Chain& c, const TRow& t, Outcome& out) {
    typedef typename Unwrap<T>::type UT;
    Tins::PDU* head = c.e[0].p;
    const Tins::PDU* chead = head;
    const size_t n = c.e.size();
    T* truth[8] = {0, 0, 0, 0, 0, 0, 0, 0};   // chains have at most 8 elements (build_chain)
    int exact = -1;
    for (size_t i = 0; i < n; ++i) {
        truth[i] = dynamic_cast<T*>(c.e[i].p);
        if (exact < 0 && typeid(*c.e[i].p) == typeid(T)) exact = (int)i;
        if (truth[i] && i < 3) out.mask |= 1u << (8 + i);
    }
    const void* r[7] = {0, 0, 0, 0, 0, 0, 0};
    // The throwing variants are thin wrappers (find_pdu / tins_cast<T*> + throw on null).  Singles and pairs call all seven
    // unconditionally; in chains of three or more they are only called when their non-throwing twin succeeded (otherwise all
    // they would do is throw: ~3 exceptions per evaluation x 10^8 evaluations).
    const bool all = n < 3 && !c.lazy;
    r[0] = head->find_pdu<T>();
    r[1] = chead->find_pdu<T>();
    out.calls = 4;
    if (all || r[0]) { ++out.calls; try { r[2] = &head->rfind_pdu<T>(); } catch (Tins::pdu_not_found&) { r[2] = 0; } }
    if (all || r[1]) { ++out.calls; try { r[3] = &chead->rfind_pdu<T>(); } catch (Tins::pdu_not_found&) { r[3] = 0; } }
    r[4] = Tins::tins_cast<T*>(head);
    r[5] = Tins::tins_cast<const T*>(chead);
    if (all || r[4]) { ++out.calls; try { r[6] = &Tins::tins_cast<T>(*head); } catch (Tins::bad_tins_cast&) { r[6] = 0; } }
    const bool called[7] = {true, true, all || r[0], all || r[1], true, true, all || r[4]};
    if (truth[0] && !r[0]) out.base_not_found = true;
    for (int h = 0; h < 7; ++h) {
        const bool search = h < 4;
        if (r[h]) { out.mask |= 1u << h; out.any = true; }
        if (r[h]) {
            // which element was handed back?
            int m = -1;
            for (size_t i = 0; i < n; ++i) if ((const void*)c.e[i].p == r[h]) { m = (int)i; break; }
            if (m >= 0 && m < 3) out.mask |= (unsigned)(m + 1) << 12;
            bool sound = false;
            if (search) { for (size_t i = 0; i < n; ++i) if (truth[i] && (const void*)truth[i] == r[h]) sound = true; }
            else sound = truth[0] && (const void*)truth[0] == r[h];
            if (!sound) {
                if (m < 0 || (!search && m != 0)) {
                    out.bad.push_back(std::make_pair(std::string("wrongtype:") + GROUP(h) + ":result-is-not-" + (search ? "a-chain-element" : "the-argument"),
                                                     "T=" + t.name + " returned a pointer that is no element of the chain"));
                    continue;
                }
                const Elem& e = c.e[m];
                // the wrapper reports the wrapped class's flag by design: tell that apart from a wrong flag table
                bool alias = (e.wrapper || t.wrapper) && dynamic_cast<UT*>(e.unwrapped) != 0;
                // wrapper-alias:<helper>:<kind>  = the one root cause "PDUCacher<X> carries X's flag" (no flag table can be blamed:
                //                                  after unwrapping, the object really is what was asked for);
                // wrongtype:<helper>:<K>-as-<T>  = anything else (a wrong pdu_flag / pdu_type() / matches_flag() somewhere)
                std::string sig;
                if (alias)
                    sig = std::string("wrapper-alias:") + GROUP(h) + ":" +
                          (e.wrapper && t.wrapper ? "PDUCacher-returned-as-PDUCacher-of-base-class"
                           : e.wrapper            ? "PDUCacher-returned-as-wrapped-class"
                                                  : "wrapped-class-returned-as-PDUCacher");
                else
                    sig = std::string("wrongtype:") + GROUP(h) + ":" + e.kname + "-as-" + t.name;
                out.bad.push_back(std::make_pair(sig, std::string(HELPERS[h]) + "<" + t.name + "> handed back the " + e.kname + " (element " + str(m) +
                                                          " of " + c.spec + "), which is not a " + t.name));
            }
        }
        if (search && exact >= 0 && called[h]) {
            if (!r[h])
                out.bad.push_back(std::make_pair(std::string("notfound:") + GROUP(h) + ":" + t.name,
                                                 std::string(HELPERS[h]) + "<" + t.name + "> found nothing although element " + str(exact) + " of " + c.spec + " has exactly that class"));
            else if (exact == 0 && r[h] != (const void*)head)
                out.bad.push_back(std::make_pair(std::string("notfound:") + GROUP(h) + ":" + t.name + ":not-the-head",
                                                 std::string(HELPERS[h]) + "<" + t.name + "> did not return the head of " + c.spec + " although the head has exactly that class"));
        }
    }
}

template <class T> static TRow t_row(const std::string& name) {
    return TRow{name, Unwrap<T>::wrapper, (int)T::pdu_flag, &typeid(T), &check<T>, &touch<T>};
}
static std::vector<TRow> t_rows() {
    std::vector<TRow> v;
#define TINS_PDU_FLAGGED(Q, ID) v.push_back(t_row<Q>(short_name(#Q)));
#define TINS_PDU_CACHEABLE(Q, ID) v.push_back(t_row<Tins::PDUCacher<Q> >("PDUCacher<" + short_name(#Q) + ">"));
#include "classes.inc"
#undef TINS_PDU_FLAGGED
#undef TINS_PDU_CACHEABLE
    return v;
}
static std::map<int, std::string> flag_names() {
    std::map<int, std::string> m;
#define TINS_PDU_FLAGNAME(NAME) if (!m.count((int)Tins::PDU::NAME)) m[(int)Tins::PDU::NAME] = #NAME;
#include "classes.inc"
#undef TINS_PDU_FLAGNAME
    return m;
}
static int n_classes_total() {
    int n = 0;
#define TINS_PDU_CLASS(Q, ID, ABSTRACT, PUBCTOR, DEFCTOR, BUFCTOR, FLAGGED) ++n;
#include "classes.inc"
#undef TINS_PDU_CLASS
    return n;
}

// ---------------------------------------------------------------- objects
static std::vector<KRow> KR;
static std::vector<TRow> TR;
static std::vector<SRow> SR;
static std::vector<ORow> OR_;
static std::vector<ERow> ER;
static std::vector<std::pair<const std::type_info*, std::string> > NAMES;

static std::string demangled_class(const Tins::PDU& p) {
    // name of the dynamic class as the table spells it
    for (auto& k : KR) if (*k.ti == typeid(p)) return k.name;
    for (auto& n : NAMES) if (*n.first == typeid(p)) return n.second;
    return std::string("?") + typeid(p).name();
}

// history: look-ups / casts performed on an object before it is copied, mutated or evaluated.  "-" none, "*" every T, else one T
static void warm(Tins::PDU* p, const std::string& w) {
    if (w == "-" || w.empty()) return;
    for (auto& t : TR) if (w == "*" || t.name == w) t.touch(p);
}
static Elem elem_of(Tins::PDU* p) {
    for (auto& k : KR) if (*k.ti == typeid(*p)) return Elem{p, k.unwrap(p), k.name, k.wrapper};
    return Elem{p, p, demangled_class(*p), false};
}

// element spec: a K name, or @dot11:HH (Dot11::from_bytes on a 128-byte frame whose first byte is HH),
// or @eapol:HH (EAPOL::from_bytes on a key frame whose descriptor type byte is HH)
static Tins::PDU* build_elem(const std::string& spec, Elem& e) {
    if (spec.compare(0, 7, "@dot11:") == 0 || spec.compare(0, 7, "@eapol:") == 0) {
        Bytes hx = unhex(spec.substr(7));
        if (hx.size() != 1) return 0;
        Tins::PDU* p = 0;
        try {
            if (spec[1] == 'd') {
                Bytes b(128, 0);
                b[0] = hx[0];
                p = Tins::Dot11::from_bytes(b.data(), (uint32_t)b.size());
            } else {
                Bytes b(160, 0);
                b[0] = 1; b[1] = 3; b[2] = 0; b[3] = 95; b[4] = hx[0];
                p = Tins::EAPOL::from_bytes(b.data(), (uint32_t)b.size());
            }
        } catch (Tins::exception_base&) { p = 0; }
        if (!p) return 0;
        p->inner_pdu(0);   // a parsed payload is not part of this object; chains are built explicitly
        e = Elem{p, p, demangled_class(*p), false};
        return p;
    }
    // K!B!op!warm = an object of class B made from a K that was looked up before (warm = - | * | T): op copy (slicing copy when B is a
    //               base), assign, clone, move; with B = K also op self (the looked-up object itself)
    // PDUCacher<X>{Y+Z} = PDUCacher<X>(x) where x is a default X whose inner chain is Y/Z (default objects): a wrapper built around a chain
    size_t br = spec.find('{');
    if (br != std::string::npos && spec[spec.size() - 1] == '}') {
        const KRow* w = 0;
        for (auto& kr : KR) if (kr.name == spec.substr(0, br) && kr.wrap) w = &kr;
        if (!w) return 0;
        std::string xn = w->name.substr(10, w->name.size() - 11);   // PDUCacher<X> -> X
        std::string list = xn + "+" + spec.substr(br + 1, spec.size() - br - 2);
        std::unique_ptr<Tins::PDU> head;
        Tins::PDU* last = 0;
        for (size_t a = 0; a <= list.size();) {
            size_t b = list.find('+', a);
            std::string n = list.substr(a, b == std::string::npos ? b : b - a);
            const KRow* k = 0;
            for (auto& kr : KR) if (kr.name == n && !kr.wrapper) k = &kr;
            if (!k) return 0;
            Tins::PDU* p = k->make();
            if (!last) head.reset(p); else last->inner_pdu(p);
            last = p;
            if (b == std::string::npos) break;
            a = b + 1;
        }
        Tins::PDU* r = w->wrap(head.get());
        e = Elem{r, w->unwrap(r), w->name, true};
        return r;
    }
    size_t ex = spec.find('!');
    if (ex != std::string::npos) {
        std::vector<std::string> f;
        for (size_t a = 0;;) { size_t b = spec.find('!', a); f.push_back(spec.substr(a, b == std::string::npos ? b : b - a)); if (b == std::string::npos) break; a = b + 1; }
        if (f.size() != 4) return 0;
        int op = -1;
        for (int i = 0; i < 5; ++i) if (f[2] == ORIGIN_OPS[i]) op = i;
        const KRow* k = 0;
        for (auto& kr : KR) if (kr.name == f[0]) k = &kr;
        const ORow* orow = 0;
        for (auto& r : OR_) if (r.kname == f[0] && r.bname == f[1]) orow = &r;
        if (!k || !orow || op < 0 || (op == 4 && !orow->self)) return 0;
        std::unique_ptr<Tins::PDU> o(k->make()), fresh(k->make());
        warm(o.get(), f[3]);
        Tins::PDU* r = op == 4 ? o.release() : orow->make(o.get(), fresh.get(), op);
        if (!r) return 0;
        e = elem_of(r);
        return r;
    }
    // K@b:HEX  = K's own (buffer, size) constructor on that buffer;  K@s:Declaring::setter=V = default K, then that setter;
    // K@S:...  = the same after every T was looked up on the default object;  K@e:how = K in an empty state (ERow), K@E:how = the
    // mutation applied to an object that was looked up before
    size_t at = spec.find('@');
    std::string kn = at == std::string::npos ? spec : spec.substr(0, at);
    for (auto& k : KR)
        if (k.name == kn) {
            Tins::PDU* p = 0;
            if (at == std::string::npos) p = k.make();
            else if (spec.compare(at, 3, "@b:") == 0) {
                if (!k.from_buf) return 0;
                Bytes b = unhex(spec.substr(at + 3));
                try { p = k.from_buf(b.data(), (uint32_t)b.size()); } catch (std::exception&) { p = 0; }
                if (p) p->inner_pdu((Tins::PDU*)0);
            } else if (spec.compare(at, 3, "@e:") == 0 || spec.compare(at, 3, "@E:") == 0) {
                std::string how = spec.substr(at + 3);
                for (auto& er : ER)
                    if (er.kname == kn && er.how == how) {
                        if (er.create) p = er.create();
                        else {
                            p = k.make();
                            if (spec[at + 1] == 'E') warm(p, "*");
                            try { er.mutate(p); } catch (std::exception&) { delete p; p = 0; }
                        }
                        break;
                    }
                if (p) p->inner_pdu((Tins::PDU*)0);
            } else if (spec.compare(at, 3, "@s:") == 0 || spec.compare(at, 3, "@S:") == 0) {
                size_t eq = spec.rfind('=');
                if (eq == std::string::npos) return 0;
                std::string sn = spec.substr(at + 3, eq - at - 3);
                uint64_t v = strtoull(spec.c_str() + eq + 1, 0, 10);
                for (auto& sr : SR)
                    if (sr.kname == kn && sr.sname == sn) {
                        p = k.make();
                        if (spec[at + 1] == 'S') warm(p, "*");
                        try { sr.apply(p, v); } catch (std::exception&) { delete p; p = 0; }
                        break;
                    }
            }
            if (!p) return 0;
            e = Elem{p, k.unwrap(p), k.name, k.wrapper};
            return p;
        }
    return 0;
}

struct ChainOwner {
    Chain c;
    std::unique_ptr<Tins::PDU> head;
    bool ok = false;
};
static void build_chain(const std::string& spec, ChainOwner& o) {
    o.c.spec = spec;
    size_t pos = 0;
    Tins::PDU* last = 0;
    while (pos <= spec.size()) {
        size_t q = spec.find('/', pos);
        std::string s = spec.substr(pos, q == std::string::npos ? std::string::npos : q - pos);
        Elem e;
        Tins::PDU* p = build_elem(s, e);
        if (!p) { o.ok = false; return; }
        if (!last) o.head.reset(p); else last->inner_pdu(p);
        last = p;
        o.c.e.push_back(e);
        if (o.c.e.size() > 8) { o.ok = false; return; }
        if (q == std::string::npos) break;
        pos = q + 1;
    }
    o.ok = !o.c.e.empty();
}

static uint64_t g_index = 0;
static int g_pair_sigs = 0;
static const int MAX_PAIR_SIGS = 24;
static std::set<unsigned> g_masks;
static std::set<std::string> g_base_not_found;   // single objects: 'K as T' where K derives from T yet find_pdu<T> returns null   // distinct outcome vectors seen by this process

// one violation per signature and evaluation, helpers listed in the detail
static int report_bad(const Outcome& out, const std::string& kase, const std::string& ub, bool verbose) {
    int nbad = 0;
    std::map<std::string, std::string> merged;
    for (auto& b : out.bad) {
        std::string& d = merged[b.first];
        d += (d.empty() ? "" : "; ") + b.second;
    }
    for (auto& b0 : merged) {
        std::pair<std::string, std::string> b = b0;
        // a sweeping defect (e.g. in find_pdu itself) would produce one signature per class pair: keep the first
        // MAX_PAIR_SIGS of a process apart, fold the rest
        if (b.first.compare(0, 10, "wrongtype:") == 0 && !R.violations.count(b.first)) {
            if (g_pair_sigs >= MAX_PAIR_SIGS) b.first = b.first.substr(0, b.first.find(':', 10)) + ":further-class-pairs";
            else ++g_pair_sigs;
        }
        R.violation(b.first, b.second + ub, kase);
        ++nbad;
        if (verbose) printf("  %s\n    %s%s\n", b.first.c_str(), b.second.c_str(), ub.c_str());
    }
    return nbad;
}

// evaluate every T on one chain; returns number of violations found
static int eval_chain(const std::string& spec, const std::string& stage, const std::string* only_t = 0, bool verbose = false) {
    ChainOwner o;
    build_chain(spec, o);
    if (!o.ok) { R.count("objects_not_constructible"); return 0; }
    R.count("chains");
    R.count("chains_" + stage);
    int nbad = 0;
    uint64_t evals = 0, with_result = 0, san = 0, calls = 0;
    const std::string prefix = "chain=" + spec + " t=";
    const std::string ctx = "cast-table:" + stage;
    const bool keep_distinct = o.c.e.size() <= 2;   // the (chain, T) identity set is kept for singles and pairs only (triples: counter)
    for (auto& t : TR) {
        if (only_t && t.name != *only_t) continue;
        std::string kase = prefix + t.name;
        set_case(g_index, ctx, kase);
        Mon::reset();
        Outcome out;
        t.check(o.c, t, out);
        ++evals;
        calls += (uint64_t)out.calls;
        g_masks.insert(out.mask);
        if (out.base_not_found && o.c.e.size() == 1) g_base_not_found.insert(o.c.e[0].kname + " as " + t.name);
        if (out.any) {
            ++with_result;
            if (keep_distinct) R.dist("distinct_nontrivial", fnv(kase));
        }
        std::string ub = Mon::errors ? " [sanitizer: " + Mon::first + " " + Mon::first_detail + "]" : "";
        san += Mon::errors;
        nbad += report_bad(out, kase, ub, verbose);
        if (out.bad.empty() && Mon::errors) {
            // memory/UB report with no functional symptom: its own finding
            R.violation(Mon::first, Mon::first_detail + " while evaluating " + kase, kase);
            ++nbad;
            if (verbose) printf("  %s %s\n", Mon::first.c_str(), Mon::first_detail.c_str());
        }
        if (verbose && out.bad.empty()) printf("  T=%s: ok (outcome mask %x)\n", t.name.c_str(), out.mask);
    }
    R.count("evaluations", evals);
    R.count("helper_calls", calls);
    R.count("evaluations_with_a_result", with_result);
    if (stage == "single") R.count("pairs_K_T", evals);
    if (san) R.count("sanitizer_reports", san);
    return nbad;
}

// ---------------------------------------------------------------- state sweeps (single objects in non-default states)
// The same oracle on objects whose STATE is swept, because nothing forces pdu_type()/matches_flag() to be constants:
//   buffer states: the class's own (buffer, size) constructor on its default wire image (as serialized below an EthernetII),
//                  the same + 64 zero bytes, 128 zero bytes and the MinBuf image, with the leading bytes swept;
//   setter states: a default object after ONE call of a public small-value setter (generated table), argument swept.
// Lazy mode (see check()): one set_case / sanitizer window per object, not per T.
static std::set<std::string> g_state_classes;   // dynamic classes of the objects evaluated by the state / origin sweeps
static std::set<uint64_t> g_state_ids;   // distinct (class, outcome vector over all T): > #classes iff identity depends on state

static int eval_state(Tins::PDU* obj, const Elem& el, const std::string& spec, const std::string& stage, bool verbose = false) {
    std::unique_ptr<Tins::PDU> own(obj);
    Chain c;
    c.e.push_back(el);
    c.spec = spec;
    c.lazy = true;
    set_case(g_index, "cast-table:" + stage, "chain=" + spec);
    Mon::reset();
    int nbad = 0;
    uint64_t evals = 0, with_result = 0, calls = 0, id = fnv(el.kname);
    g_state_classes.insert(el.kname);
    for (auto& t : TR) {
        // plain T rows only: PDUCacher<Y>::pdu_flag IS Y::pdu_flag, so for T = PDUCacher<Y> the helpers decide exactly as for T = Y
        // (already evaluated), and K -> PDUCacher<K> is the known wrapper alias, evaluated on the default objects in stage 1
        if (t.wrapper) continue;
        Outcome out;
        t.check(c, t, out);
        ++evals;
        calls += (uint64_t)out.calls;
        id = fnv(&out.mask, sizeof out.mask, id);
        if (out.any) ++with_result;
        if (!out.bad.empty()) {
            std::string ub = Mon::errors ? " [sanitizer: " + Mon::first + " " + Mon::first_detail + "]" : "";
            nbad += report_bad(out, "chain=" + spec + " t=" + t.name, ub, verbose);
        }
    }
    g_state_ids.insert(id);
    if (!nbad && Mon::errors) { R.violation(Mon::first, Mon::first_detail + " while evaluating chain=" + spec, "chain=" + spec); ++nbad; }
    if (Mon::errors) R.count("sanitizer_reports", Mon::errors);
    R.count("evaluations", evals);
    R.count("state_evaluations", evals);
    R.count("helper_calls", calls);
    R.count("evaluations_with_a_result", with_result);
    R.count("state_objects");
    R.count("state_objects_" + stage);
    return nbad;
}

static std::vector<uint64_t> setter_values(char kind, int bits, bool thorough) {
    std::vector<uint64_t> v;
    std::set<uint64_t> seen;
    const uint64_t maxv = bits >= 64 ? ~0ULL : ((1ULL << bits) - 1);
    auto add = [&](uint64_t x) { if (x <= maxv && seen.insert(x).second) v.push_back(x); };
    const int full = thorough ? 16 : 8;       // domains up to 2^full values are swept completely
    if (bits <= full) { for (uint64_t x = 0; x <= maxv; ++x) add(x); return v; }
    for (uint64_t x = 0; x < 256; ++x) add(x);                                  // every low byte
    for (int sh = 8; sh < bits; sh += 8) for (uint64_t x = 1; x < 256; ++x) add(x << sh);   // every value of every other byte
    for (int b = 0; b < bits; ++b) { add(1ULL << b); add((1ULL << b) - 1); add(maxv ^ (1ULL << b)); }
    add(maxv);
    return v;
}

struct BufBase { std::string what; Bytes b; };
static std::vector<BufBase> buffer_bases(const KRow& k, bool thorough) {
    std::vector<BufBase> v;
    Bytes wire;
    if (k.defctor) {
        try {   // below an EthernetII so that no layer is the root of the packet (a root IP would consult the routing table)
            Tins::EthernetII eth;
            eth.inner_pdu(k.make());
            Bytes all = eth.serialize();
            if (all.size() > 14) wire.assign(all.begin() + 14, all.end());
        } catch (std::exception&) { wire.clear(); }
    }
    Bytes mb;
    if (k.min_buf && k.min_buf(mb)) v.push_back(BufBase{"min", mb});
    if (!wire.empty()) {
        Bytes padded = wire;
        padded.insert(padded.end(), 64, 0);
        v.push_back(BufBase{"default+64", padded});
        if (thorough) v.push_back(BufBase{"default", wire});
    }
    v.push_back(BufBase{"zeros", Bytes(128, 0)});
    return v;
}

// enumerate the swept buffers of one base: every single-byte substitution of the leading NPOS bytes, and the grid
// byte0 (all 256) x byte1 (a boundary set); calls f(buffer)
template <class F> static void sweep_buffer(const Bytes& base, bool thorough, F f) {
    static const uint8_t G_QUICK[] = {0x01, 0x02, 0x03, 0x40, 0x80, 0xff};
    static const uint8_t G_THOROUGH[] = {0x01, 0x02, 0x03, 0x04, 0x07, 0x08, 0x0f, 0x10, 0x1f, 0x20, 0x3f, 0x40, 0x41, 0x42, 0x43, 0x45,
                                         0x60, 0x7f, 0x80, 0x81, 0x82, 0x83, 0x88, 0xa0, 0xaa, 0xc0, 0xc3, 0xe0, 0xf0, 0xfc, 0xfe, 0xff};
    const size_t npos = std::min(base.size(), (size_t)(thorough ? 32 : 8));
    Bytes b = base;
    f(b);
    for (size_t pos = 0; pos < npos; ++pos) {
        for (int x = 0; x < 256; ++x) { if ((uint8_t)x == base[pos]) continue; b[pos] = (uint8_t)x; f(b); }
        b[pos] = base[pos];
    }
    if (base.size() >= 2) {
        const uint8_t* g = thorough ? G_THOROUGH : G_QUICK;
        const size_t ng = thorough ? sizeof G_THOROUGH : sizeof G_QUICK;
        for (size_t j = 0; j < ng; ++j) {
            if (g[j] == base[1]) continue;
            b[1] = g[j];
            for (int x = 0; x < 256; ++x) { if ((uint8_t)x == base[0]) continue; b[0] = (uint8_t)x; f(b); }
        }
    }
}

static std::vector<std::string> base_specs() {
    std::vector<std::string> v;
    for (auto& k : KR) v.push_back(k.name);
    return v;
}
static std::vector<std::string> factory_specs() {
    std::vector<std::string> v;
    for (int b = 0; b < 256; ++b) { uint8_t x = (uint8_t)b; v.push_back("@dot11:" + hex(&x, 1)); }
    for (int b = 0; b < 256; ++b) { uint8_t x = (uint8_t)b; v.push_back("@eapol:" + hex(&x, 1)); }
    return v;
}

static void startup_checks() {
    // every row yields an object of exactly the class it names, all distinct; every flagged concrete class is askable
    std::set<std::string> seen;
    for (auto& k : KR) {
        std::unique_ptr<Tins::PDU> p(k.make());
        if (typeid(*p) != *k.ti) R.violation("harness:row-builds-another-class:" + k.name, "Maker does not build the class the row names", "chain=" + k.name);
        if (!seen.insert(k.ti->name()).second) R.violation("harness:duplicate-row:" + k.name, "two rows with the same class", "chain=" + k.name);
        bool askable = false;
        for (auto& t : TR) if (*t.ti == *k.ti) askable = true;
        if (!askable) R.count("concrete_classes_without_pdu_flag");
    }
}

static const int NJ_QUICK = 16, NJ_THOROUGH = 64;

static void run_job(int job) {
    KR = k_rows();
    TR = t_rows();
    SR = s_rows();
    OR_ = o_rows();
    ER = e_rows();
    NAMES = class_names();
    const int nj = A.thorough() ? NJ_THOROUGH : NJ_QUICK;
    std::vector<std::string> base = base_specs(), fac = factory_specs();
    if (job == 0) {
        startup_checks();
        int wrappers = 0;
        for (auto& k : KR) wrappers += k.wrapper;
        R.count("K_classes", KR.size());
        R.count("K_wrappers", wrappers);
        R.count("T_classes", TR.size());
        R.count("pdu_classes_in_headers", n_classes_total());
        std::map<int, std::string> fn = flag_names();
        std::string ks, unused;
        std::set<int> used;
        for (auto& t : TR) used.insert(t.flag);
        for (auto& f : fn) if (!used.count(f.first)) unused += (unused.empty() ? "" : ",") + f.second;
        R.info["flags_without_class"] = jstr(unused);
        R.sample(jstr("case 'chain=PDUCacher<IP> t=IP': the 7 helpers on a default PDUCacher<IP>, each result compared with dynamic_cast<IP*>"));
        R.sample(jstr("case 'chain=EthernetII/Dot11RTS t=Dot11Control': search from an EthernetII head whose child is a Dot11RTS"));
        R.sample(jstr("case 'chain=@dot11:b4 t=Dot11RTS': the object Dot11::from_bytes builds for frame-control byte b4"));
    }
    uint64_t idx = 0;
    auto mine = [&](uint64_t i) {
        if ((int)(i % (uint64_t)nj) != job || i < A.skip) return false;
        if (skipped(i)) { R.flags["exhaustive"] = false; return false; }   // crashed the process in an earlier attempt (reported by the driver)
        return true;
    };
    bool cut = false;
    // stage 1: single objects (all K rows + factory objects); all in job 0 so that its information lists are complete
    for (auto& s : base) { if (job == 0 && !skipped(idx) && idx >= A.skip) { g_index = idx; eval_chain(s, "single"); } ++idx; }
    for (auto& s : fac) { if (job == 0 && !skipped(idx) && idx >= A.skip) { g_index = idx; eval_chain(s, "factory"); } ++idx; }
    if (job == 0) {
        std::string l;
        for (auto& x : g_base_not_found) l += (l.empty() ? "" : ", ") + x;
        R.info["derived_object_not_found_by_base_class_search"] = jstr(l);   // allowed by the statement (soundness only)
    }
    // stage 1b: state sweeps, spread over all jobs
    uint64_t rejected = 0, threw = 0, parse_reports = 0, ticks = 0;
    for (auto& k : KR) {
        if (!k.from_buf || cut) continue;
        for (auto& base : buffer_bases(k, A.thorough())) {
            sweep_buffer(base.b, A.thorough(), [&](const Bytes& b) {
                uint64_t i = idx++;
                if (cut || !mine(i)) return;
                if ((++ticks & 0x3ff) == 0 && deadline_reached()) { cut = true; return; }
                g_index = i;
                std::string spec = k.name + "@b:" + hex(b);
                set_case(i, "cast-table:buffer-construct", "chain=" + spec);
                Mon::reset();
                Tins::PDU* p = 0;
                try { p = k.from_buf(b.data(), (uint32_t)b.size()); } catch (std::exception&) { p = 0; }
                if (Mon::errors) { parse_reports += Mon::errors; if (Mon::wrote) { ++rejected; return; } }   // parser memory safety is C01's subject
                if (!p) { ++rejected; return; }
                p->inner_pdu((Tins::PDU*)0);
                eval_state(p, elem_of(p), spec, "buffer");
            });
        }
    }
    for (auto& sr : SR) {
        if (cut) break;
        const KRow* k = 0;
        for (auto& kr : KR) if (kr.name == sr.kname) k = &kr;
        if (!k) continue;
        // every value without a previous look-up; the quick-tier domain also after every T was looked up on the default object
        // (look up -> mutate -> look up again: an answer cached by the first look-up must not survive the setter)
        std::vector<uint64_t> qv = setter_values(sr.kind, sr.bits, false);
        std::set<uint64_t> warm_domain(qv.begin(), qv.end());
        for (uint64_t v : setter_values(sr.kind, sr.bits, A.thorough())) {
            for (int w = 0; w < 2; ++w) {
                if (w && !warm_domain.count(v)) continue;
                uint64_t i = idx++;
                if (!mine(i)) continue;
                if ((++ticks & 0x3ff) == 0 && deadline_reached()) { cut = true; break; }
                g_index = i;
                std::string spec = k->name + (w ? "@S:" : "@s:") + sr.sname + "=" + str(v);
                set_case(i, "cast-table:setter-call", "chain=" + spec);
                Tins::PDU* p = k->make();
                if (w) warm(p, "*");
                try { sr.apply(p, v); } catch (std::exception&) { delete p; ++threw; continue; }
                eval_state(p, elem_of(p), spec, w ? "setter_after_lookup" : "setter");
            }
            if (cut) break;
        }
    }
    // stage 1c: origin / history.  For every (K, B) of the generated slice table and every K onto itself: o = default K, looked up
    // before in one of the ways {never, every T, exactly one plain T}; result = slicing/same-class copy, copy-assignment, clone of the
    // copy, move of the copy (and o itself when B = K); every plain T on the result, oracle = its dynamic type.
    {
        std::vector<std::string> warms;
        warms.push_back("-");
        warms.push_back("*");
        for (auto& t : TR) if (!t.wrapper) warms.push_back(t.name);
        for (auto& orow : OR_) {
            if (cut) break;
            const KRow* k = 0;
            for (auto& kr : KR) if (kr.name == orow.kname) k = &kr;
            if (!k) continue;
            for (int op = 0; op < 5; ++op) {
                if (op == 4 && !orow.self) continue;
                for (auto& w : warms) {
                    // same-class origins: a single-T history only for the classes that take part in a slice pair (others: never / every T)
                    if (orow.self && w != "-" && w != "*" && !A.thorough()) continue;
                    uint64_t i = idx++;
                    if (!mine(i)) continue;
                    if ((++ticks & 0x3ff) == 0 && deadline_reached()) { cut = true; break; }
                    g_index = i;
                    std::string spec = orow.kname + "!" + orow.bname + "!" + ORIGIN_OPS[op] + "!" + w;
                    set_case(i, "cast-table:origin", "chain=" + spec);
                    std::unique_ptr<Tins::PDU> o(k->make()), fresh(k->make());
                    warm(o.get(), w);
                    Tins::PDU* r = op == 4 ? o.release() : orow.make(o.get(), fresh.get(), op);
                    if (!r) continue;
                    eval_state(r, elem_of(r), spec, orow.self ? "origin_same_class" : "origin_sliced");
                }
                if (cut) break;
            }
        }
        if (job == 0) { R.count("slice_pairs_K_B", 0); for (auto& r : OR_) if (!r.self) R.count("slice_pairs_K_B"); }
    }
    // stage 1d: empty states (constructors handed nothing, containers set empty / cleared), alone and as innermost layer of IP/UDP/x,
    // all seven helpers unconditionally, every T; mutations also on an object that was looked up before
    {
        uint64_t empties = 0, refused = 0, size0 = 0;
        for (auto& er : ER) {
            for (int w = 0; w < (er.create ? 1 : 2); ++w) {
                for (int under = 0; under < 2; ++under) {
                    uint64_t i = idx++;
                    if (!mine(i)) continue;
                    g_index = i;
                    std::string el = er.kname + (w ? "@E:" : "@e:") + er.how;
                    std::string spec = under ? "IP/UDP/" + el : el;
                    uint64_t before = R.counters["chains"];
                    eval_chain(spec, under ? "empty_state_under_ip_udp" : "empty_state");
                    if (R.counters["chains"] == before) { ++refused; continue; }
                    ++empties;
                    if (!under) { Elem e; std::unique_ptr<Tins::PDU> p(build_elem(el, e)); if (p && p->size() == 0) ++size0; }
                }
            }
        }
        R.count("empty_state_chains", empties);
        R.count("empty_states_refused_by_the_class", refused);
        R.count("empty_state_objects_with_size_0", size0);
        if (job == 0) R.count("empty_state_rows", ER.size());
    }
    R.count("buffers_rejected_by_constructor", rejected);
    R.count("setter_calls_that_threw", threw);
    if (parse_reports) R.count("sanitizer_reports_inside_buffer_constructors_not_judged_here", parse_reports);
    if (job == 0) R.count("setters_swept", SR.size());
    // stage 1e: wrappers built around a CHAIN.  For every wrapper class PDUCacher<X> and every plain class Y: the cached packet X/Y and
    // X/Y/RawPDU (thorough: also X/Y/Z for Y in a small set and every plain Z); the wrapper alone, as inner layer of an EthernetII, and with
    // an inner layer of its own (TCP); every T, all seven helpers.  The wrapper may (known finding) answer for X -- for nothing else.
    {
        std::vector<std::string> plain;
        for (auto& kr : KR) if (!kr.wrapper) plain.push_back(kr.name);
        static const char* const MID[] = {"IP", "UDP", "TCP", "SNAP", "Dot11Data", "EthernetII"};
        for (auto& w : KR) {
            if (!w.wrap || cut) continue;
            std::vector<std::string> inner;
            for (auto& y : plain) { inner.push_back(y); inner.push_back(y + "+RawPDU"); }
            if (A.thorough()) for (auto m : MID) for (auto& z : plain) if (z != "RawPDU") inner.push_back(std::string(m) + "+" + z);
            for (auto& in : inner) {
                if ((++ticks & 0xff) == 0 && deadline_reached()) { cut = true; break; }
                std::string el = w.name + "{" + in + "}";
                const std::string place[3] = {el, "EthernetII/" + el, el + "/TCP"};
                for (int pl = 0; pl < 3; ++pl) { if (mine(idx)) { g_index = idx; eval_chain(place[pl], "wrapped_chain"); } ++idx; }
            }
        }
    }
    // stage 2: every ordered pair of K rows
    for (auto& a : base) {
        if (deadline_reached()) { cut = true; break; }
        for (auto& b : base) { if (mine(idx)) { g_index = idx; eval_chain(a + "/" + b, "pair"); } ++idx; }
    }
    // stage 3 (thorough): every ordered triple
    if (A.thorough() && !cut) {
        for (auto& a : base) {
            for (auto& b : base) {
                if (deadline_reached()) { cut = true; break; }
                for (auto& c : base) { if (mine(idx)) { g_index = idx; eval_chain(a + "/" + b + "/" + c, "triple"); } ++idx; }
            }
            if (cut) break;
        }
    }
    if (cut) { R.flags["exhaustive"] = false; R.info["cut"] = jstr("deadline reached before all chains were evaluated"); }
    for (unsigned m : g_masks) R.dist("distinct_outcomes", fnv(str(m)));
    for (uint64_t h : g_state_ids) R.dist("distinct_state_identities", h);
    for (auto& n : g_state_classes) R.dist("state_classes", fnv(n));
    R.maxv("max_chain_length", A.thorough() ? 3 : 2);
}

static int replay(const std::string& kase) {
    KR = k_rows();
    TR = t_rows();
    SR = s_rows();
    OR_ = o_rows();
    ER = e_rows();
    NAMES = class_names();
    std::string chain, t;
    std::istringstream is(kase);
    std::string tok;
    while (is >> tok) {
        if (tok.compare(0, 6, "chain=") == 0) chain = tok.substr(6);
        else if (tok.compare(0, 2, "t=") == 0) t = tok.substr(2);
    }
    if (chain.empty()) { printf("case needs chain=K1[/K2...] [t=T]\n"); return 2; }
    printf("chain %s, %s\n", chain.c_str(), t.empty() ? "every T" : ("T=" + t).c_str());
    int n = eval_chain(chain, "replay", t.empty() ? 0 : &t, true);
    if (R.counters["chains"] == 0) { printf("chain cannot be built\n"); return 2; }
    if (n) { printf("violation reproduced (%d)\n", n); return 1; }
    printf("no violation\n");
    return 0;
}

int main(int argc, char** argv) { return run_main(argc, argv, NJ_QUICK, NJ_THOROUGH, run_job, replay); }
