// C08 — IPv4 fragment reassembly reconstructs the original datagram.
// BFS to fixpoint per configuration over the real IPv4Reassembler (copied per state) x a reference
// reassembler keyed by (id, src, dst, protocol).  Fragments are hand-built wire images, parsed by
// libtins before being fed (as a sniffer would deliver them).
#include "explore.hpp"
#include <tins/tins.h>
#include <tins/ip_reassembler.h>

using namespace Tins;
using namespace mc;

static uint16_t csum(const uint8_t* p, size_t n) {
    uint64_t s = 0;
    for (size_t i = 0; i + 1 < n; i += 2) s += (p[i] << 8) | p[i + 1];
    if (n & 1) s += p[n - 1] << 8;
    while (s >> 16) s = (s & 0xffff) + (s >> 16);
    return (uint16_t)~s;
}

struct Dgram {
    uint16_t id; uint32_t src, dst; uint8_t proto; bool opts;
    Bytes payload;                       // IP payload (upper-layer header + data), checksums valid
    std::vector<int> cuts;               // fragment boundaries in bytes: 0 = c0 < c1 < ... < ck = |payload|
};

// The FIRST fragment's header differs from the others' (TTL, TOS, and the option - not copied on fragmentation - is only in the first):
// the reassembled datagram must carry the first fragment's header whichever fragment completes it.
static Bytes ip_packet(const Dgram& d, int from, int to, bool mf, bool df = false, bool reserved = false) {
    const bool first = from == 0, opt = d.opts && first;
    Bytes h(opt ? 24 : 20, 0);
    h[0] = opt ? 0x46 : 0x45; h[1] = first ? 0x10 : 0x00;
    uint16_t tot = (uint16_t)(h.size() + (to - from));
    h[2] = tot >> 8; h[3] = tot & 0xff; h[4] = d.id >> 8; h[5] = d.id & 0xff;
    uint16_t fo = (uint16_t)((from / 8) | (mf ? 0x2000 : 0) | (df ? 0x4000 : 0) | (reserved ? 0x8000 : 0));
    h[6] = fo >> 8; h[7] = fo & 0xff; h[8] = first ? 77 : 61; h[9] = d.proto;
    for (int i = 0; i < 4; ++i) { h[12 + i] = d.src >> (24 - 8 * i); h[16 + i] = d.dst >> (24 - 8 * i); }
    if (opt) { h[20] = 1; h[21] = 1; h[22] = 1; h[23] = 0; }
    uint16_t c = csum(h.data(), h.size());
    h[10] = c >> 8; h[11] = c & 0xff;
    h.insert(h.end(), d.payload.begin() + from, d.payload.begin() + to);
    return h;
}
static bool g_pad_eth = false;
static Bytes eth_wrap(const Bytes& ip) {
    Bytes e = {0x02, 0, 0, 0, 0, 2, 0x02, 0, 0, 0, 0, 1, 0x08, 0x00};
    e.insert(e.end(), ip.begin(), ip.end());
    if (g_pad_eth) while (e.size() < 60) e.push_back(0);        // minimum-size padding behind the IP total length
    return e;
}

static Bytes upper_payload(uint8_t proto, uint32_t src, uint32_t dst, int size, uint8_t seed) {
    // build with libtins so that upper-layer checksums are valid, then take the IP payload bytes
    IP ip((IPv4Address(Endian::host_to_be(dst))), IPv4Address(Endian::host_to_be(src)));
    Bytes data;
    auto fill = [&](int n) { data.clear(); for (int i = 0; i < n; ++i) data.push_back(uint8_t(seed + i * 7)); };
    Bytes out;
    if (proto == 17) { fill(size - 8); IP p = ip / UDP(53, 1000) / RawPDU(data); out = p.serialize(); }
    else if (proto == 6) { fill(size - 20); IP p = ip / TCP(80, 1000) / RawPDU(data); out = p.serialize(); }
    else if (proto == 1) { fill(size - 8); ICMP ic(ICMP::ECHO_REQUEST); ic.id(7); ic.sequence(9); IP p = ip / ic / RawPDU(data); out = p.serialize(); }
    else { fill(size); return data; }
    return Bytes(out.begin() + 20, out.end());
}

// ---------------------------------------------------------------- events
struct Ev { int kind; int d; int frag; };   // kind 0: fragment `frag` of datagram d; 1: unfragmented; 2: non-IP; 3: MF|DF single
static std::string ev_str(const Ev& e) {
    if (e.kind == 0) return "d" + str(e.d) + "f" + str(e.frag);
    return e.kind == 1 ? "unfrag" + (e.frag ? str(e.frag) : std::string()) : e.kind == 2 ? "arp" : "mfdf";
}

struct Cfg {
    std::vector<Dgram> d;
    bool eth; bool pad = false;
    std::string name;
};

struct RefStream { std::map<int, std::pair<int, bool> > frags; };  // offset -> (size, is_last)
struct Model { std::map<int, RefStream> s; };                        // per datagram index (distinct reassembly keys by construction)

struct S { IPv4Reassembler r; Model m; };

static std::string canon_impl(const IPv4Reassembler& r) {
    std::string o;
    for (auto& kv : r.streams_) {
        o += str(kv.first.first) + "/" + kv.first.second.first.to_string() + "/" + kv.first.second.second.to_string() + "{";
        for (auto& f : kv.second.fragments_) o += str(f.offset()) + "+" + str(f.payload().size()) + "#" + str(fnv(f.payload().data(), f.payload().size()) & 0xffff) + ",";
        o += "}r" + str(kv.second.received_size_) + "t" + str(kv.second.total_size_) + "e" + str(kv.second.received_end_) + "h" +
             str(kv.second.first_fragment_.id()) + "." + str((int)kv.second.first_fragment_.protocol()) + "." + kv.second.first_fragment_.src_addr().to_string() + ";";
    }
    return o;
}
static std::string canon_model(const Model& m) {
    std::string o;
    for (auto& kv : m.s) { o += "D" + str(kv.first) + ":"; for (auto& f : kv.second.frags) o += str(f.first) + ","; }
    return o;
}

static Cfg g_cfg;

static std::string step(S& s, const Ev& e) {
    const Cfg& c = g_cfg;
    Bytes wire;
    int expect;  // 0 NOT_FRAGMENTED 1 FRAGMENTED 2 REASSEMBLED
    const Dgram* dg = 0;
    if (e.kind == 0) {
        dg = &c.d[e.d];
        int from = dg->cuts[e.frag], to = dg->cuts[e.frag + 1];
        bool last = e.frag + 2 == (int)dg->cuts.size();
        wire = ip_packet(*dg, from, to, !last);
        RefStream& rs = s.m.s[e.d];
        if (!rs.frags.count(from)) rs.frags[from] = std::make_pair(to - from, last);
        // complete?
        int pos = 0; bool seen_last = false;
        for (auto& f : rs.frags) { if (f.first != pos) break; pos += f.second.first; if (f.second.second) seen_last = true; }
        bool complete = seen_last && pos == (int)dg->payload.size() && rs.frags.size() + 1 == dg->cuts.size();
        expect = complete ? 2 : 1;
        if (complete) s.m.s.erase(e.d);
    } else if (e.kind == 1) {
        // an unfragmented packet (offset 0, MF clear) whatever its other flag bits are (DF, the reserved bit), also when it has the
        // identification and addresses of a datagram that is being reassembled
        Dgram u = c.d[0]; if (!(e.frag & 4)) u.id = 0x7777; u.payload = upper_payload(17, u.src, u.dst, 12, 3); u.proto = 17;
        wire = ip_packet(u, 0, 12, false, (e.frag & 1) != 0, (e.frag & 2) != 0);
        expect = 0;
    } else if (e.kind == 3) {
        // a single packet with MF and DF both set and offset 0: it is a fragment of a datagram nobody else belongs to
        Dgram u = c.d[0]; u.id = 0x6666; u.payload = upper_payload(17, u.src, u.dst, 16, 5); u.proto = 17;
        wire = ip_packet(u, 0, 16, true, true);
        expect = 1;
    } else expect = 0;

    std::unique_ptr<PDU> pkt;
    if (e.kind == 2) {
        pkt.reset(new EthernetII(EthernetII("02:00:00:00:00:02", "02:00:00:00:00:01") / ARP("10.0.0.1", "10.0.0.2")));
    } else if (c.eth) {
        Bytes w = eth_wrap(wire);
        pkt.reset(new EthernetII(w.data(), (uint32_t)w.size()));
    } else pkt.reset(new IP(wire.data(), (uint32_t)wire.size()));
    Bytes before = pkt->serialize();
    long ledger0 = live_allocs();
    (void)ledger0;
    IPv4Reassembler::PacketStatus st = s.r.process(*pkt);
    int got = st == IPv4Reassembler::NOT_FRAGMENTED ? 0 : st == IPv4Reassembler::FRAGMENTED ? 1 : 2;
    static const char* nm[] = {"NOT_FRAGMENTED", "FRAGMENTED", "REASSEMBLED"};
    if (got != expect) {
        std::string sig = "frag:status:" + std::string(nm[got]) + "-instead-of-" + nm[expect];
        if (got == 2) sig = "frag:reassembled-from-incomplete-set";
        return sig + "|expected " + nm[expect] + " got " + nm[got] + " impl=" + canon_impl(s.r);
    }
    if (got == 0) {
        if (pkt->serialize() != before) return "frag:unfragmented-packet-modified|";
    } else if (got == 2) {
        IP* ip = pkt->find_pdu<IP>();
        if (!ip) return "frag:result-no-ip|";
        if (ip->fragment_offset() != 0 || (ip->flags() & IP::MORE_FRAGMENTS)) return "frag:result-offset-or-mf-not-cleared|";
        Bytes first = ip_packet(*dg, dg->cuts[0], dg->cuts[1], true);
        IP ff(first.data(), (uint32_t)first.size());
        if (ip->id() != ff.id() || ip->src_addr() != ff.src_addr() || ip->dst_addr() != ff.dst_addr() || ip->ttl() != ff.ttl() ||
            ip->tos() != ff.tos() || ip->protocol() != ff.protocol() || ip->options().size() != ff.options().size())
            return "frag:result-header-differs-from-first-fragment|";
        PDU* in = ip->inner_pdu();
        if (!in) return "frag:result-no-payload|";
        PDU::PDUType want = dg->proto == 17 ? PDU::UDP : dg->proto == 6 ? PDU::TCP : dg->proto == 1 ? PDU::ICMP : PDU::RAW;
        if (in->pdu_type() != want) return "frag:result-upper-layer-class|got type " + str((int)in->pdu_type()) + " for protocol " + str((int)dg->proto);
        if (in->parent_pdu() != ip) return "frag:result-parent-link|";
        Bytes whole = ip_packet(*dg, 0, (int)dg->payload.size(), false);
        Bytes res = ip->serialize();
        if (res != whole) return "frag:result-bytes-differ|reassembled datagram != original datagram: " + hex(res) + " vs " + hex(whole);
    }
    return "";
}

static std::vector<std::vector<int> > compositions(int n) {  // cut lists in units
    std::vector<std::vector<int> > out;
    for (unsigned m = 0; m < (1u << (n - 1)); ++m) {
        std::vector<int> c = {0};
        for (int i = 1; i < n; ++i) if (m >> (i - 1) & 1) c.push_back(i);
        c.push_back(n);
        if (c.size() > 2) out.push_back(c);   // at least two fragments
    }
    return out;
}

static std::vector<Cfg> configs(bool thorough) {
    std::vector<Cfg> v;
    const uint32_t A_ = 0x0a000001, B_ = 0x0a000002, C_ = 0x0a000003;
    int maxn = thorough ? 5 : 4;
    int protos[] = {17, 1, 6, 0xFD};
    for (int n = 2; n <= maxn; ++n)
        for (auto& comp : compositions(n))
            for (int tail : {0, 5})
                for (int pi = 0; pi < 4; ++pi) {
                    int proto = protos[pi];
                    int size = 8 * n + tail;
                    if (proto == 6 && size < 20) continue;
                    // second-datagram variants: none / other id / other source / reversed direction / same everything but other protocol
                    for (int var = 0; var < 5; ++var) {
                        if (!thorough && (pi != 0 && var > 1)) continue;          // quick: full variant set for UDP only
                        for (int eth = 0; eth < 2; ++eth) {
                            if (!thorough && eth && (var != 0 || tail)) continue;
                            Cfg c; c.eth = eth;
                            Dgram d1{0x1234, A_, B_, (uint8_t)proto, (n == 3 && tail == 5 && var == 0), upper_payload(proto, A_, B_, size, 1), {}};
                            for (int u : comp) d1.cuts.push_back(u == n ? size : 8 * u);
                            c.d.push_back(d1);
                            if (var) {
                                Dgram d2 = d1;
                                if (var == 1) d2.id = 0x1235;
                                if (var == 2) d2.src = C_;
                                if (var == 3) { d2.src = B_; d2.dst = A_; }
                                if (var == 4) { d2.dst = C_; }          // same id and source, other destination
                                                                int sz2 = 8 * 2 + 3;
                                d2.payload = upper_payload(d2.proto, d2.src, d2.dst, d2.proto == 6 ? 27 : sz2, 0x80);
                                d2.cuts = {0, 8, (int)d2.payload.size()};
                                if (var == 3 || var == 4) {   // same shape as d1 so that byte counts can mask holes
                                    d2.payload = upper_payload(d2.proto, d2.src, d2.dst, size, 0x80);
                                    d2.cuts = d1.cuts;
                                }
                                d2.opts = false;
                                c.d.push_back(d2);
                            }
                            std::string cs; for (int u : comp) cs += str(u) + ".";
                            c.name = "n=" + str(n) + " cuts=" + cs + " tail=" + str(tail) + " proto=" + str(proto) +
                                     " var=" + str(var) + " eth=" + str(eth);
                            v.push_back(c);
                        }
                    }
                }
    { size_t n0 = v.size(); for (size_t i = 0; i < n0; ++i) if (v[i].eth) { Cfg c = v[i]; c.pad = true; c.name += " padded-to-60"; v.push_back(c); } }
    // large family: the statement quantifies over payloads of 1..65515 bytes, so the sizes at the top of the range (total length
    // 65535, 65534, the largest fragment offset, one past 32 KiB) are configurations too; cuts are every non-empty subset of
    // {8, 32768, last 8-byte boundary}, with and without IP options (header 24: the maximum payload is 65511)
    for (int opts = 0; opts < 2; ++opts) {
        const int maxp = 65535 - (opts ? 24 : 20);
        std::vector<int> sizes = {maxp, maxp - 1, maxp - 3, maxp & ~7, 32768 + 13, 65535 - 60};
        if (!thorough) sizes.resize(opts ? 2 : 4);
        for (int size : sizes)
            for (int proto : {17, 0xFD}) {
                if (!thorough && proto != 17 && size != maxp) continue;
                const int lastb = (size - 1) & ~7;
                const int cand[3] = {8, 32768, lastb};
                for (unsigned m = 1; m < 8; ++m) {
                    std::vector<int> cuts = {0};
                    for (int i = 0; i < 3; ++i) if ((m >> i & 1) && cand[i] > cuts.back() && cand[i] < size) cuts.push_back(cand[i]);
                    cuts.push_back(size);
                    if (cuts.size() < 3) continue;
                    for (int var = 0; var < 2; ++var) {
                        if (!thorough && var && m != 7) continue;
                        Cfg c; c.eth = (m == 5);
                        Dgram d1{0x1234, A_, B_, (uint8_t)proto, opts != 0, upper_payload(proto, A_, B_, size, 1), cuts};
                        c.d.push_back(d1);
                        if (var) {
                            Dgram d2 = d1; d2.id = 0x1235; d2.opts = false;
                            d2.payload = upper_payload(d2.proto, d2.src, d2.dst, 19, 0x80);
                            d2.cuts = {0, 8, 19};
                            c.d.push_back(d2);
                        }
                        std::string cs; for (int u : cuts) cs += str(u) + ".";
                        c.name = "large size=" + str(size) + " cuts(bytes)=" + cs + " proto=" + str(proto) + " opts=" + str(opts) +
                                 " var=" + str(var) + " eth=" + str((int)c.eth);
                        v.push_back(c);
                    }
                }
            }
    }
    return v;
}

static std::string cfg_name(int n, unsigned mask, int tail, int proto, int var, int eth) {
    return "n=" + str(n) + " cmask=" + str(mask) + " tail=" + str(tail) + " proto=" + str(proto) + " var=" + str(var) + " eth=" + str(eth);
}

static void run_cfg(const Cfg& c, int index, const std::string* rp = 0, std::string* rerr = 0) {
    g_cfg = c; g_pad_eth = c.pad;
    Explorer<S, Ev> ex;
    for (size_t d = 0; d < c.d.size(); ++d)
        for (size_t f = 0; f + 1 < c.d[d].cuts.size(); ++f) ex.alphabet.push_back(Ev{0, (int)d, (int)f});
    for (int fl : {0, 1, 2, 3, 4, 6}) ex.alphabet.push_back(Ev{1, 0, fl});
    ex.alphabet.push_back(Ev{2, 0, 0}); ex.alphabet.push_back(Ev{3, 0, 0});
    ex.context = "tier=" + A.tier + " cfg=" + str(index);
    ex.op_str = ev_str;
    ex.init = []() { return S{IPv4Reassembler(), Model()}; };
    ex.canon = [](const S& s) { return canon_impl(s.r) + "||" + canon_model(s.m); };
    ex.step = step;
    // the MF|DF stray fragment stays buffered forever: allow it once per state space by disabling when already held
    ex.enabled = [](const S& s, const Ev& e) {
        if (e.kind == 3) for (auto& kv : s.r.streams_) if (kv.first.first == 0x6666) return false;
        return true;
    };
    ex.nontrivial = [](const S& s) { size_t n = 0; for (auto& kv : s.m.s) n += kv.second.frags.size(); return n >= 2; };
    bool ok = true;
    if (rp) { *rerr = ex.replay(*rp); return; }
    ok = ex.run();
    if (ok) R.count("configurations_to_fixpoint");
    R.count("configurations");
}

int main(int argc, char** argv) {
    return run_main(argc, argv, 32, 64,
        [](int job) {
            auto v = configs(A.thorough());
            int nj = A.thorough() ? 64 : 32;
            for (size_t i = job; i < v.size(); i += nj) { if (deadline_reached()) { R.flags["exhaustive"] = false; break; } run_cfg(v[i], (int)i); }
            if (job == 0) R.sample(jstr("config 0: " + v[0].name + "; last config: " + v.back().name));
        },
        [](const std::string& kase) -> int {
            auto kv = parse_kv(kase);
            A.tier = kv.count("tier") ? kv["tier"] : "quick";
            auto v = configs(A.thorough());
            size_t i = (size_t)atoi(kv["cfg"].c_str());
            if (i >= v.size()) { printf("no such config\n"); return 2; }
            std::string err, ops = kv["ops"];
            run_cfg(v[i], (int)i, &ops, &err);
            printf("config: %s\n", v[i].name.c_str());
            if (!err.empty()) { printf("violation reproduced: %s\n", err.c_str()); return 1; }
            printf("history replayed, all invariants hold\n");
            return 0;
        });
}
