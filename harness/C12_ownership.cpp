// C12 — Packet object trees keep sound ownership under copy, move, clone and re-linking.
//
// Bounded exhaustive exploration of PROGRAMS over a pool of 3 slots (each: nothing | a raw root PDU* | a Tins::Packet)
// executed on the real libtins objects in lock-step with a value-level reference model of the ownership forest
// (per slot the chain of (class, stamp, identity, provenance)).  Live object graphs cannot be copied generically, so a
// state is its op history and every transition re-executes the history from scratch, checks the new step, and ends
// the program by destroying every slot (allocation ledger must return to its start value, sanitizers silent).
//   deep  : BFS with canonical dedup over the full op alphabet, 7 layer classes, from the empty pool
//   sweep : the same BFS from seeded pools for EVERY concrete PDU class x shapes {K, K/TCP, K/TCP/Raw, Eth/K/Raw}
//   extra : PDUOption copy/move family incl. self-assignment, TCPStream copy/assignment with buffered fragments
#include "explore.hpp"
#include <tins/tins.h>
#include <tins/pdu_cacher.h>
#include <tins/tcp_stream.h>
#include <tins/loopback.h>
#include <tins/pktap.h>
#include <tins/ppi.h>
#include <tins/mpls.h>
#include <tins/rtp.h>
#include <tins/vxlan.h>
#include <typeindex>
#include <unordered_map>
#include <unordered_set>
#include <algorithm>

using namespace Tins;
using namespace mc;

// =============================================================================== class table
template <class K> struct St;   // per class: create(), get(stamp field), set(stamp field)
#define ST(K, CREATE, GET, SET)                                                                    \
    template <> struct St<K> {                                                                     \
        static K* create() { return CREATE; }                                                      \
        static int get(const K& k) { return (int)(GET); }                                          \
        static void set(K& k, int s) { SET; }                                                      \
    };

static HWAddress<6> hw(int s) { uint8_t b[6] = {2, 0, 0, 0, 0, (uint8_t)s}; return HWAddress<6>(b); }
static const uint8_t kBig[20] = {1, 2, 3, 4, 5, 6, 7, 8, 9, 10, 11, 12, 13, 14, 15, 16, 17, 18, 19, 20};

static TCP* mk_tcp() { TCP* t = new TCP(80, 1025); t->add_option(TCP::option(254, 14, kBig)); t->mss(1400); return t; }
static DHCP* mk_dhcp() { DHCP* d = new DHCP(); d->domain_name("c12.verif.example.org"); return d; }
static Dot11Beacon* mk_beacon() { Dot11Beacon* b = new Dot11Beacon(); b->ssid("c12-ssid-longer-than-eight"); b->addr2(hw(9)); return b; }
static IP* mk_ip() { IP* p = new IP("10.0.0.2", "10.0.0.1"); p->add_option(IP::option(IP::option_identifier(IP::SEC, IP::CONTROL, 1), 11, kBig)); return p; }
static DHCPv6* mk_dhcpv6() { DHCPv6* d = new DHCPv6(); d->add_option(DHCPv6::option(DHCPv6::CLIENTID, 12, kBig)); return d; }
static ICMPv6* mk_icmpv6() { ICMPv6* p = new ICMPv6(); p->add_option(ICMPv6::option(14, 14, kBig)); return p; }
static PPPoE* mk_pppoe() { PPPoE* p = new PPPoE(); p->service_name("c12-service-name"); return p; }
static RawPDU* mk_raw() { return new RawPDU(kBig, 16); }
static PPI* mk_ppi() { static const uint8_t b[12] = {0, 0, 12, 0, 0x93, 0, 0, 0, 0xde, 0xad, 0xbe, 0xef}; return new PPI(b, 12); }
static PDUCacher<IP>* mk_cip() { IP ip("10.0.0.4", "10.0.0.3"); return new PDUCacher<IP>(ip); }
static PDUCacher<TCP>* mk_ctcp() { TCP t(443, 999); t.add_option(TCP::option(253, 12, kBig)); return new PDUCacher<TCP>(t); }

ST(ARP, new ARP(), k.hw_addr_format(), k.hw_addr_format((uint16_t)s))
ST(BootP, new BootP(), k.xid(), k.xid((uint32_t)s))
ST(DHCP, mk_dhcp(), k.xid(), k.xid((uint32_t)s))
ST(DHCPv6, mk_dhcpv6(), (uint32_t)k.transaction_id(), k.transaction_id((uint32_t)s))
ST(DNS, new DNS(), k.id(), k.id((uint16_t)s))
ST(Dot11, new Dot11(), k.duration_id(), k.duration_id((uint16_t)s))
ST(Dot11Disassoc, new Dot11Disassoc(), k.duration_id(), k.duration_id((uint16_t)s))
ST(Dot11AssocRequest, new Dot11AssocRequest(), k.duration_id(), k.duration_id((uint16_t)s))
ST(Dot11AssocResponse, new Dot11AssocResponse(), k.duration_id(), k.duration_id((uint16_t)s))
ST(Dot11ReAssocRequest, new Dot11ReAssocRequest(), k.duration_id(), k.duration_id((uint16_t)s))
ST(Dot11ReAssocResponse, new Dot11ReAssocResponse(), k.duration_id(), k.duration_id((uint16_t)s))
ST(Dot11Authentication, new Dot11Authentication(), k.duration_id(), k.duration_id((uint16_t)s))
ST(Dot11Deauthentication, new Dot11Deauthentication(), k.duration_id(), k.duration_id((uint16_t)s))
ST(Dot11Beacon, mk_beacon(), k.duration_id(), k.duration_id((uint16_t)s))
ST(Dot11ProbeRequest, new Dot11ProbeRequest(), k.duration_id(), k.duration_id((uint16_t)s))
ST(Dot11ProbeResponse, new Dot11ProbeResponse(), k.duration_id(), k.duration_id((uint16_t)s))
ST(Dot11RTS, new Dot11RTS(), k.duration_id(), k.duration_id((uint16_t)s))
ST(Dot11PSPoll, new Dot11PSPoll(), k.duration_id(), k.duration_id((uint16_t)s))
ST(Dot11CFEnd, new Dot11CFEnd(), k.duration_id(), k.duration_id((uint16_t)s))
ST(Dot11EndCFAck, new Dot11EndCFAck(), k.duration_id(), k.duration_id((uint16_t)s))
ST(Dot11Ack, new Dot11Ack(), k.duration_id(), k.duration_id((uint16_t)s))
ST(Dot11BlockAckRequest, new Dot11BlockAckRequest(), k.duration_id(), k.duration_id((uint16_t)s))
ST(Dot11BlockAck, new Dot11BlockAck(), k.duration_id(), k.duration_id((uint16_t)s))
ST(Dot11Data, new Dot11Data(), k.duration_id(), k.duration_id((uint16_t)s))
ST(Dot11QoSData, new Dot11QoSData(), k.duration_id(), k.duration_id((uint16_t)s))
ST(Dot1Q, new Dot1Q(), (uint32_t)k.id(), k.id((uint16_t)s))
ST(Dot3, new Dot3(), k.dst_addr()[5], k.dst_addr(hw(s)))
ST(RC4EAPOL, new RC4EAPOL(), k.key_length(), k.key_length((uint16_t)s))
ST(RSNEAPOL, new RSNEAPOL(), k.key_length(), k.key_length((uint16_t)s))
ST(EthernetII, new EthernetII(hw(200), hw(1)), k.src_addr()[5], k.src_addr(hw(s)))
ST(ICMP, new ICMP(), k.id(), k.id((uint16_t)s))
ST(ICMPv6, mk_icmpv6(), k.identifier(), k.identifier((uint16_t)s))
ST(IP, mk_ip(), k.id(), k.id((uint16_t)s))
ST(IPSecAH, new IPSecAH(), k.spi(), k.spi((uint32_t)s))
ST(IPSecESP, new IPSecESP(), k.spi(), k.spi((uint32_t)s))
ST(IPv6, new IPv6("fe80::2", "fe80::1"), k.hop_limit(), k.hop_limit((uint8_t)s))
ST(LLC, new LLC(), const_cast<LLC&>(k).dsap(), k.dsap((uint8_t)s))
ST(Loopback, new Loopback(), k.family(), k.family((uint32_t)s))
ST(MPLS, new MPLS(), (uint32_t)k.label(), k.label((uint32_t)s))
ST(PKTAP, new PKTAP(), 0, (void)s)
ST(PPI, mk_ppi(), 0, (void)s)
ST(PPPoE, mk_pppoe(), k.session_id(), k.session_id((uint16_t)s))
ST(RadioTap, new RadioTap(), k.padding(), k.padding((uint8_t)s))
ST(RawPDU, mk_raw(), (k.payload().empty() ? -1 : k.payload()[0]), if (!k.payload().empty()) k.payload()[0] = (uint8_t)s)
ST(RTP, new RTP(), k.ssrc_id(), k.ssrc_id((uint32_t)s))
ST(SLL, new SLL(), k.lladdr_type(), k.lladdr_type((uint16_t)s))
ST(SNAP, new SNAP(), (uint32_t)k.org_code(), k.org_code((uint32_t)s))
ST(STP, new STP(), k.root_path_cost(), k.root_path_cost((uint32_t)s))
ST(TCP, mk_tcp(), k.seq(), k.seq((uint32_t)s))
ST(UDP, new UDP(53, 1000), k.sport(), k.sport((uint16_t)s))
ST(VXLAN, new VXLAN(), (uint32_t)k.get_vni(), k.set_vni((uint32_t)s))
ST(PDUCacher<IP>, mk_cip(), k.cached_.id(), k.cached_.id((uint16_t)s))
ST(PDUCacher<TCP>, mk_ctcp(), k.cached_.seq(), k.cached_.seq((uint32_t)s))

struct CI {
    const char* name; std::type_index ti;
    PDU* (*make)(int); int (*get)(const PDU*); void (*set)(PDU*, int);
    PDU* (*cctor)(const PDU*); PDU* (*mctor)(PDU*); void (*cas)(PDU*, const PDU*); void (*mas)(PDU*, PDU*);
    PDU* (*div)(const PDU*, const PDU*); void (*diveq)(PDU*, const PDU*);
    bool stamped, mut, ser;
    bool moves;   // move construction / assignment of this class steals the children (probed at start, see probe_move_semantics)
};
template <class K> struct G {
    static PDU* make(int s) { K* p = St<K>::create(); St<K>::set(*p, s); return p; }
    static int get(const PDU* p) { return St<K>::get(static_cast<const K&>(*p)); }
    static void set(PDU* p, int s) { St<K>::set(static_cast<K&>(*const_cast<PDU*>(p)), s); }
    static PDU* cctor(const PDU* p) { return new K(static_cast<const K&>(*p)); }
    static PDU* mctor(PDU* p) { return new K(std::move(static_cast<K&>(*p))); }
    static void cas(PDU* d, const PDU* s) { static_cast<K&>(*d) = static_cast<const K&>(*s); }
    static void mas(PDU* d, PDU* s) { static_cast<K&>(*d) = std::move(static_cast<K&>(*s)); }
    static PDU* div(const PDU* a, const PDU* b) { return new K(static_cast<const K&>(*a) / *b); }
    static void diveq(PDU* a, const PDU* b) { static_cast<K&>(*a) /= *b; }
};
static std::vector<CI> CL;
static std::unordered_map<std::type_index, int> CLIDX;
template <class K> static void reg(const char* name, bool stamped = true, bool mut = true, bool ser = true) {
    CI c = {name, std::type_index(typeid(K)), G<K>::make, G<K>::get, G<K>::set, G<K>::cctor, G<K>::mctor, G<K>::cas, G<K>::mas,
            G<K>::div, G<K>::diveq, stamped, mut, ser, true};
    CLIDX[c.ti] = (int)CL.size();
    CL.push_back(c);
}
static int cidx(const char* name) { for (size_t i = 0; i < CL.size(); ++i) if (!strcmp(CL[i].name, name)) return (int)i; return -1; }
static int C_ETH, C_TCP, C_RAW;
static void init_classes() {
#define R1(K) reg<K>(#K);
    R1(EthernetII) R1(IP) R1(TCP) R1(RawPDU) R1(DHCP) R1(Dot11Beacon)
    reg<PDUCacher<IP> >("PDUCacher<IP>", true, false, true);
    reg<PDUCacher<TCP> >("PDUCacher<TCP>", true, false, true);
    R1(ARP) R1(BootP) R1(DHCPv6) R1(DNS) R1(Dot11) R1(Dot11Disassoc) R1(Dot11AssocRequest) R1(Dot11AssocResponse)
    R1(Dot11ReAssocRequest) R1(Dot11ReAssocResponse) R1(Dot11Authentication) R1(Dot11Deauthentication)
    R1(Dot11ProbeRequest) R1(Dot11ProbeResponse) R1(Dot11RTS) R1(Dot11PSPoll) R1(Dot11CFEnd) R1(Dot11EndCFAck) R1(Dot11Ack)
    R1(Dot11BlockAckRequest) R1(Dot11BlockAck) R1(Dot11Data) R1(Dot11QoSData) R1(Dot1Q) R1(Dot3) R1(RC4EAPOL) R1(RSNEAPOL)
    R1(ICMP) R1(ICMPv6) R1(IPSecAH) R1(IPSecESP) R1(IPv6) R1(LLC) R1(Loopback) R1(MPLS)
    reg<PKTAP>("PKTAP", false, false, false);
    reg<PPI>("PPI", false, false, false);
    R1(PPPoE) R1(RadioTap) R1(RTP) R1(SLL) R1(SNAP) R1(STP) R1(UDP) R1(VXLAN)
#undef R1
    C_ETH = cidx("EthernetII"); C_TCP = cidx("TCP"); C_RAW = cidx("RawPDU");
    // The statement does not require a class to HAVE move operations: where `K(std::move(x))` resolves to the copy constructor
    // (source keeps its children, destination gets clones) the model treats move-construct/-assign of that class as copies.
    // A source and destination that SHARE the child after a move is never legitimate and is left to the per-step checks.
    for (size_t c = 0; c < CL.size(); ++c) {
        PDU* p = CL[c].make(1); p->inner_pdu(CL[C_RAW].make(2));
        PDU* q = CL[c].mctor(p);
        bool shared = p->inner_pdu() && p->inner_pdu() == q->inner_pdu();
        CL[c].moves = shared || p->inner_pdu() == 0;
        if (shared) p->inner_pdu_ = 0;
        delete p; delete q;
    }
    Mon::reset();
}
static const int N_DEEP_CLASSES = 7;   // the first 7 entries of CL

// =============================================================================== ops
enum { CONS, APP, DIV, CLONE, CCTOR, MCTOR, CAS, MAS, SETP, SETN, SETR, REL, DEL, PNEW, PWC, PWO, PWP, PCP, PAS, PMC, PMA, PRL, NCODES };
static const char* OPN[] = {"cons", "app", "div", "clone", "cctor", "mctor", "cas", "mas", "setp", "setn", "setr", "rel", "del",
                            "pnew", "pwc", "pwo", "pwp", "pcp", "pas", "pmc", "pma", "prl"};
static const int OPARGS[] = {2, 2, 2, 2, 2, 2, 4, 4, 3, 1, 3, 2, 1, 0, 1, 1, 1, 1, 2, 1, 2, 1};
struct Op { int code, a, b, c, d; };
static std::string op_str(const Op& o) {
    std::string s = OPN[o.code];
    int v[4] = {o.a, o.b, o.c, o.d};
    for (int i = 0; i < OPARGS[o.code]; ++i) s += ":" + (o.code == CONS && i == 0 ? std::string(CL[o.a].name) : str(v[i]));
    return s;
}
static bool parse_op(const std::string& t, Op& o) {
    std::vector<std::string> f;
    size_t p = 0;
    while (true) { size_t q = t.find(':', p); f.push_back(t.substr(p, q == std::string::npos ? q : q - p)); if (q == std::string::npos) break; p = q + 1; }
    int code = -1;
    for (int i = 0; i < NCODES; ++i) if (f[0] == OPN[i]) code = i;
    if (code < 0 || (int)f.size() != OPARGS[code] + 1) return false;
    int v[4] = {0, 0, 0, 0};
    for (int i = 0; i < OPARGS[code]; ++i) {
        if (code == CONS && i == 0) { v[0] = cidx(f[1].c_str()); if (v[0] < 0) return false; }
        else v[i] = atoi(f[i + 1].c_str());
    }
    o = Op{code, v[0], v[1], v[2], v[3]};
    return true;
}
static std::string ops_str(const std::vector<Op>& v) { std::string s; for (auto& o : v) { if (!s.empty()) s += ","; s += op_str(o); } return s; }
static bool parse_ops(const std::string& s, std::vector<Op>& out) {
    size_t p = 0;
    while (p < s.size()) {
        size_t q = s.find(',', p); if (q == std::string::npos) q = s.size();
        Op o; if (!parse_op(s.substr(p, q - p), o)) return false;
        out.push_back(o); p = q + 1;
    }
    return true;
}

// =============================================================================== reference model
enum { EMPTY = 0, RAW = 1, PKT = 2 };
static const int NS = 3, MAXLEN = 12;
struct ML { int cls, stamp /*0 = unspecified (moved-from)*/, uid, from; };
struct MSlot { int kind; std::vector<ML> ch; };
struct Model { MSlot s[NS]; int next_uid; Model() : next_uid(1) { for (int i = 0; i < NS; ++i) s[i].kind = EMPTY; } };

static int first_free(const Model& m) { for (int i = 0; i < NS; ++i) if (m.s[i].kind == EMPTY) return i; return -1; }
static int fresh_stamp(const Model& m, int skip = 0) {
    for (int s = 1;; ++s) {
        bool used = false;
        for (int i = 0; i < NS; ++i) for (auto& l : m.s[i].ch) if (l.stamp == s) used = true;
        if (!used && skip-- == 0) return s;
    }
}
static int shape_len(int shape) { return shape == 0 ? 1 : shape == 1 ? 2 : 3; }

static bool enabled(const Model& m, const Op& o) {
    auto in = [](int i) { return i >= 0 && i < NS; };
    auto len = [&](int i) { return (int)m.s[i].ch.size(); };
    int fr = first_free(m);
    switch (o.code) {
    case CONS: return fr >= 0 && o.a >= 0 && o.a < (int)CL.size() && o.b >= 0 && o.b <= 3 && (o.b != 3 || CL[o.a].ser);
    case APP: return in(o.a) && in(o.b) && len(o.a) && len(o.b) && len(o.a) + len(o.b) <= MAXLEN;
    case DIV: return in(o.a) && in(o.b) && len(o.a) && len(o.b) && len(o.a) + len(o.b) <= MAXLEN && fr >= 0;
    case CLONE: case CCTOR: case MCTOR: return in(o.a) && o.b >= 0 && len(o.a) > o.b && fr >= 0;
    case CAS: case MAS:
        if (!in(o.a) || !in(o.c) || o.b < 0 || o.d < 0 || len(o.a) <= o.b || len(o.c) <= o.d) return false;
        if (m.s[o.a].ch[o.b].cls != m.s[o.c].ch[o.d].cls) return false;
        if (o.a == o.c) return o.code == CAS && o.b == 0 && o.d == 0;   // plain self-assignment only
        return len(o.a) - (len(o.a) - o.b) + (len(o.c) - o.d) <= MAXLEN;
    case SETP: return in(o.a) && in(o.c) && o.a != o.c && m.s[o.c].kind == RAW && len(o.a) >= (o.b ? 2 : 1) && len(o.a) + len(o.c) <= MAXLEN;
    case SETN: return in(o.a) && len(o.a) >= 1;
    case SETR: return in(o.a) && in(o.c) && len(o.c) >= 1 && len(o.a) >= (o.b ? 2 : 1) && len(o.a) + len(o.c) <= MAXLEN;
    case REL: return in(o.a) && (o.b == 0 ? (len(o.a) == 1 || (len(o.a) >= 2 && fr >= 0)) : (len(o.a) >= 3 && fr >= 0));
    case DEL: return in(o.a) && m.s[o.a].kind != EMPTY;
    case PNEW: return fr >= 0;
    case PWC: return in(o.a) && len(o.a) >= 1 && fr >= 0;
    case PWO: case PWP: return in(o.a) && m.s[o.a].kind == RAW;
    case PCP: case PMC: case PRL: return in(o.a) && m.s[o.a].kind == PKT && fr >= 0;
    case PAS: return in(o.a) && in(o.b) && m.s[o.a].kind == PKT && m.s[o.b].kind == PKT;
    case PMA: return in(o.a) && in(o.b) && o.a != o.b && m.s[o.a].kind == PKT && m.s[o.b].kind == PKT;
    }
    return false;
}

static std::vector<ML> copies(Model& m, const std::vector<ML>& src, size_t from_idx = 0) {
    std::vector<ML> out;
    for (size_t k = from_idx; k < src.size(); ++k) { ML l = src[k]; l.from = src[k].uid; l.uid = m.next_uid++; out.push_back(l); }
    return out;
}
// value-level semantics of every op; returns destination slot (or -1)
static int mstep(Model& m, const Op& o) {
    for (int i = 0; i < NS; ++i) for (auto& l : m.s[i].ch) l.from = l.uid;
    int fr = first_free(m), dest = -1;
    auto& S = m.s;
    switch (o.code) {
    case CONS: {
        dest = fr; S[fr].kind = RAW;
        int cls[3], n = shape_len(o.b);
        if (o.b == 3) { cls[0] = C_ETH; cls[1] = o.a; cls[2] = C_RAW; } else { cls[0] = o.a; cls[1] = C_TCP; cls[2] = C_RAW; }
        for (int k = 0; k < n; ++k) { ML l = {cls[k], CL[cls[k]].stamped ? fresh_stamp(m) : 0, m.next_uid++, -1}; S[fr].ch.push_back(l); }
        break; }
    case APP: { auto c = copies(m, S[o.b].ch); S[o.a].ch.insert(S[o.a].ch.end(), c.begin(), c.end()); break; }
    case DIV: { dest = fr; S[fr].kind = RAW; S[fr].ch = copies(m, S[o.a].ch); auto c = copies(m, S[o.b].ch); S[fr].ch.insert(S[fr].ch.end(), c.begin(), c.end()); break; }
    case CLONE: case CCTOR: dest = fr; S[fr].kind = RAW; S[fr].ch = copies(m, S[o.a].ch, o.b); break;
    case MCTOR: {
        if (!CL[S[o.a].ch[o.b].cls].moves) { dest = fr; S[fr].kind = RAW; S[fr].ch = copies(m, S[o.a].ch, o.b); break; }
        dest = fr; S[fr].kind = RAW;
        ML r = S[o.a].ch[o.b]; r.from = r.uid; r.uid = m.next_uid++;
        S[fr].ch.push_back(r);
        S[fr].ch.insert(S[fr].ch.end(), S[o.a].ch.begin() + o.b + 1, S[o.a].ch.end());
        S[o.a].ch.resize(o.b + 1); S[o.a].ch[o.b].stamp = 0;
        break; }
    case MAS: if (CL[S[o.a].ch[o.b].cls].moves) {
        std::vector<ML> src = S[o.c].ch;
        S[o.a].ch.resize(o.b + 1);
        S[o.a].ch[o.b].stamp = src[o.d].stamp; S[o.a].ch[o.b].from = src[o.d].uid;
        S[o.a].ch.insert(S[o.a].ch.end(), src.begin() + o.d + 1, src.end());
        S[o.c].ch.resize(o.d + 1); S[o.c].ch[o.d].stamp = 0;
        break; }
        // fall through: no move assignment in this class, it copies
    case CAS: {
        std::vector<ML> src = S[o.c].ch;   // value of the right-hand side before anything changes
        std::vector<ML> kids = copies(m, src, o.d + 1);
        S[o.a].ch.resize(o.b + 1);
        S[o.a].ch[o.b].stamp = src[o.d].stamp; S[o.a].ch[o.b].from = src[o.d].uid;
        S[o.a].ch.insert(S[o.a].ch.end(), kids.begin(), kids.end());
        break; }
    case SETP: { size_t keep = o.b ? S[o.a].ch.size() : 1; S[o.a].ch.resize(keep); S[o.a].ch.insert(S[o.a].ch.end(), S[o.c].ch.begin(), S[o.c].ch.end());
                 S[o.c].ch.clear(); S[o.c].kind = EMPTY; break; }
    case SETN: S[o.a].ch.resize(1); break;
    case SETR: { auto c = copies(m, S[o.c].ch); size_t keep = o.b ? S[o.a].ch.size() : 1; S[o.a].ch.resize(keep); S[o.a].ch.insert(S[o.a].ch.end(), c.begin(), c.end()); break; }
    case REL: {
        size_t keep = o.b ? S[o.a].ch.size() - 1 : 1;
        if (S[o.a].ch.size() > keep) { dest = fr; S[fr].kind = RAW; S[fr].ch.assign(S[o.a].ch.begin() + keep, S[o.a].ch.end()); S[o.a].ch.resize(keep); }
        break; }
    case DEL: S[o.a].ch.clear(); S[o.a].kind = EMPTY; break;
    case PNEW: dest = fr; S[fr].kind = PKT; break;
    case PWC: dest = fr; S[fr].kind = PKT; S[fr].ch = copies(m, S[o.a].ch); break;
    case PWO: case PWP: S[o.a].kind = PKT; break;
    case PCP: dest = fr; S[fr].kind = PKT; S[fr].ch = copies(m, S[o.a].ch); break;
    case PAS: S[o.a].ch = copies(m, S[o.b].ch); break;
    case PMC: dest = fr; S[fr].kind = PKT; S[fr].ch = S[o.a].ch; S[o.a].ch.clear(); break;
    case PMA: S[o.a].ch = S[o.b].ch; S[o.b].ch.clear(); break;   // "*a = move(*b); *b = Packet();"
    case PRL: if (!S[o.a].ch.empty()) { dest = fr; S[fr].kind = RAW; S[fr].ch = S[o.a].ch; S[o.a].ch.clear(); } break;
    }
    return dest;
}

// =============================================================================== implementation side
struct ISlot { int kind; PDU* raw; Packet* pkt; };
struct Pool {
    ISlot s[NS];
    Pool() { for (int i = 0; i < NS; ++i) { s[i].kind = EMPTY; s[i].raw = 0; s[i].pkt = 0; } }
    PDU* root(int i) const { return s[i].kind == RAW ? s[i].raw : s[i].kind == PKT ? s[i].pkt->pdu_ : 0; }
};
static PDU* layer(PDU* r, int d) { while (d-- > 0 && r) r = r->inner_pdu(); return r; }
static PDU* tail(PDU* r) { for (int n = 0; r->inner_pdu() && n < 100; ++n) r = r->inner_pdu(); return r; }
static PDU* pretail(PDU* r) { for (int n = 0; r->inner_pdu() && r->inner_pdu()->inner_pdu() && n < 100; ++n) r = r->inner_pdu(); return r; }
static int cls_of(const PDU* p) { auto it = CLIDX.find(std::type_index(typeid(*p))); return it == CLIDX.end() ? -1 : it->second; }
static const Timestamp kTs((uint64_t)1234567);

// the REAL libtins calls of one op.  `ma` = model after the op (stamps for fresh layers), `dest` from mstep.
static std::string istep(Pool& P, const Model& ma, const Op& o, int dest) {
    auto put_raw = [&](int i, PDU* p) { P.s[i].kind = RAW; P.s[i].raw = p; P.s[i].pkt = 0; };
    auto put_pkt = [&](int i, Packet* p) { P.s[i].kind = PKT; P.s[i].raw = 0; P.s[i].pkt = p; };
    auto clear = [&](int i) { P.s[i].kind = EMPTY; P.s[i].raw = 0; P.s[i].pkt = 0; };
    switch (o.code) {
    case CONS: {
        const std::vector<ML>& ch = ma.s[dest].ch;
        PDU* r = CL[ch[0].cls].make(ch[0].stamp);
        for (size_t k = 1; k < ch.size(); ++k) { PDU* t = CL[ch[k].cls].make(ch[k].stamp); CL[ch[0].cls].diveq(r, t); delete t; }
        put_raw(dest, r);
        break; }
    case APP:
        if (P.s[o.a].kind == PKT) *P.s[o.a].pkt /= *P.root(o.b);
        else CL[cls_of(P.root(o.a))].diveq(P.root(o.a), P.root(o.b));
        break;
    case DIV: put_raw(dest, CL[cls_of(P.root(o.a))].div(P.root(o.a), P.root(o.b))); break;
    case CLONE: put_raw(dest, layer(P.root(o.a), o.b)->clone()); break;
    case CCTOR: { PDU* l = layer(P.root(o.a), o.b); put_raw(dest, CL[cls_of(l)].cctor(l)); break; }
    case MCTOR: { PDU* l = layer(P.root(o.a), o.b); put_raw(dest, CL[cls_of(l)].mctor(l)); break; }
    case CAS: { PDU* t = layer(P.root(o.a), o.b); PDU* s = layer(P.root(o.c), o.d); CL[cls_of(t)].cas(t, s); break; }
    case MAS: { PDU* t = layer(P.root(o.a), o.b); PDU* s = layer(P.root(o.c), o.d); CL[cls_of(t)].mas(t, s); break; }
    case SETP: { PDU* at = o.b ? tail(P.root(o.a)) : P.root(o.a); PDU* x = P.s[o.c].raw; clear(o.c); at->inner_pdu(x); break; }
    case SETN: P.root(o.a)->inner_pdu((PDU*)0); break;
    case SETR: { PDU* at = o.b ? tail(P.root(o.a)) : P.root(o.a); at->inner_pdu(*P.root(o.c)); break; }
    case REL: {
        PDU* at = o.b ? pretail(P.root(o.a)) : P.root(o.a);
        PDU* x = at->release_inner_pdu();
        if (dest >= 0) { if (!x) return "c12:rel:null-result|release_inner_pdu() returned null although a child existed"; put_raw(dest, x); }
        else if (x) { return "c12:rel:non-null-result|release_inner_pdu() on a childless layer returned an object"; }
        break; }
    case DEL: if (P.s[o.a].kind == RAW) delete P.s[o.a].raw; else delete P.s[o.a].pkt; clear(o.a); break;
    case PNEW: put_pkt(dest, new Packet()); break;
    case PWC: put_pkt(dest, (ma.next_uid & 1) ? new Packet(*P.root(o.a), kTs) : new Packet((const PDU*)P.root(o.a), kTs)); break;
    case PWO: { PDU* r = P.s[o.a].raw; put_pkt(o.a, new Packet(r, kTs, Packet::own_pdu())); break; }
    case PWP: { PDU* r = P.s[o.a].raw; PtrPacket pp(r, kTs); put_pkt(o.a, new Packet(pp)); break; }
    case PCP: put_pkt(dest, new Packet(*P.s[o.a].pkt)); break;
    case PAS: *P.s[o.a].pkt = *P.s[o.b].pkt; break;
    case PMC: put_pkt(dest, new Packet(std::move(*P.s[o.a].pkt))); break;
    case PMA: *P.s[o.a].pkt = std::move(*P.s[o.b].pkt); *P.s[o.b].pkt = Packet(); break;
    case PRL: { PDU* x = P.s[o.a].pkt->release_pdu(); if (dest >= 0) { if (!x) return "c12:prl:null-result|release_pdu() returned null"; put_raw(dest, x); }
                else if (x) return "c12:prl:non-null-result|release_pdu() of an empty Packet returned an object"; break; }
    }
    return "";
}

// ------------------------------------------------------------------------------- observation
struct Obs {
    int kind; bool pkt_null;
    std::vector<PDU*> addr; std::vector<int> cls, stamp; std::vector<char> parent_ok; std::vector<Bytes> lb;
    Bytes rb; bool rb_ns; bool truncated; bool dangling; std::string exc;
};
static uint64_t g_c13_reports = 0;
static Bytes layer_bytes(PDU* L, const CI& ci, std::string& exc) {
    Bytes b;
    if (!ci.ser) {
        if (ci.ti == std::type_index(typeid(PKTAP))) { PKTAP* k = static_cast<PKTAP*>(L); b.assign((uint8_t*)&k->header_, (uint8_t*)&k->header_ + sizeof(k->header_)); }
        else { PPI* k = static_cast<PPI*>(L); b.assign((uint8_t*)&k->header_, (uint8_t*)&k->header_ + sizeof(k->header_)); b.insert(b.end(), k->data_.begin(), k->data_.end()); }
        return b;
    }
    // the layer alone: links are detached for the duration of the call (pure observation), then restored
    PDU* in = L->inner_pdu_; PDU* pa = L->parent_pdu_;
    L->inner_pdu_ = 0; L->parent_pdu_ = 0;
    try { if (L->header_size() + L->trailer_size() > 0) b = L->serialize(); }
    catch (std::exception& e) { exc = std::string("layer ") + ci.name + ": " + typeid(e).name(); }
    L->inner_pdu_ = in; L->parent_pdu_ = pa;
    return b;
}
static void observe(const Pool& P, int i, Obs& o, int expect_len) {
    o = Obs();
    o.kind = P.s[i].kind; o.pkt_null = (o.kind == PKT && !P.s[i].pkt);
    o.rb_ns = false; o.truncated = false; o.dangling = false;
    PDU* r = o.pkt_null ? 0 : P.root(i);
    PDU* prev = 0;
    for (PDU* l = r; l; l = l->inner_pdu_) {
        if ((int)o.addr.size() > expect_len + 2) { o.truncated = true; break; }
#ifdef MC_ASAN
        if (__asan_region_is_poisoned(l, sizeof(PDU))) { o.dangling = true; break; }   // pointer to a destroyed layer: do not touch it
#endif
        o.addr.push_back(l); o.parent_ok.push_back(l->parent_pdu_ == prev); prev = l;
    }
    if (o.truncated || o.dangling) return;
    bool cacher = false;
    for (PDU* l : o.addr) {
        int c = cls_of(l); o.cls.push_back(c);
        if (c >= 0 && !CL[c].ser) o.rb_ns = true;
        if (c >= 0 && !strncmp(CL[c].name, "PDUCacher", 9)) cacher = true;
    }
    int e0 = Mon::errors; bool clean0 = Mon::first.empty();
    // whole tree first, then every layer alone: after one observation the stored derived fields are stable
    if (r && !o.rb_ns) {
        try { if (r->size() > 0) o.rb = r->serialize(); }
        catch (std::exception& e) { o.exc = std::string("root: ") + typeid(e).name(); }
    }
    for (size_t k = 0; k < o.addr.size(); ++k) {
        int c = o.cls[k];
        o.stamp.push_back(c >= 0 && CL[c].stamped ? CL[c].get(o.addr[k]) : 0);
        o.lb.push_back(c >= 0 ? layer_bytes(o.addr[k], CL[c], o.exc) : Bytes());
    }
    // a transport layer below a PDUCacher<IP> static_casts its parent to IP (tins_cast goes by pdu_flag): that is property C13's
    // open finding (type identity of the wrapper), not an ownership matter; it reads zeros, deterministically.
    if (cacher && clean0 && Mon::errors > e0 && Mon::first.compare(0, 34, "ubsan:dynamic-type-mismatch:pdu.h:") == 0) {
        g_c13_reports += Mon::errors - e0; Mon::errors = e0; Mon::first.clear(); Mon::first_detail.clear();
    }
}
static std::string render(const Obs& o) {
    std::string s = o.kind == EMPTY ? "-" : o.kind == RAW ? "raw[" : "pkt[";
    for (size_t k = 0; k < o.addr.size(); ++k) s += (k ? "/" : "") + std::string(o.cls.size() > k && o.cls[k] >= 0 ? CL[o.cls[k]].name : "?") + (o.stamp.size() > k ? "#" + str(o.stamp[k]) : "");
    return s + (o.kind == EMPTY ? "" : "]") + (o.truncated ? "(chain longer than expected+2)" : "");
}
static std::string render(const MSlot& m) {
    std::string s = m.kind == EMPTY ? "-" : m.kind == RAW ? "raw[" : "pkt[";
    for (size_t k = 0; k < m.ch.size(); ++k) s += (k ? "/" : "") + std::string(CL[m.ch[k].cls].name) + "#" + (m.ch[k].stamp ? str(m.ch[k].stamp) : "?");
    return s + (m.kind == EMPTY ? "" : "]");
}

struct World { Obs o[NS]; };
static void observe_all(const Pool& P, const Model& m, World& w) { for (int i = 0; i < NS; ++i) observe(P, i, w.o[i], (int)m.s[i].ch.size()); }

// all invariants of one step.  mb/wb = model/observation before the op, ma/wa = after.
static std::string check_step(const Op& op, const Model& mb, const World& wb, const Model& ma, const World& wa) {
    std::string P = std::string("c12:") + OPN[op.code] + ":";
    auto where = [&](int i) { return " slot " + str(i) + ": impl " + render(wa.o[i]) + " model " + render(ma.s[i]); };
    std::map<PDU*, int> seen;
    std::map<int, PDU*> addr_before;            // uid -> address before
    std::map<int, std::pair<int, int> > pos_before;  // uid -> (slot, index) before
    for (int i = 0; i < NS; ++i) for (size_t k = 0; k < mb.s[i].ch.size() && k < wb.o[i].addr.size(); ++k) {
        addr_before[mb.s[i].ch[k].uid] = wb.o[i].addr[k]; pos_before[mb.s[i].ch[k].uid] = std::make_pair(i, (int)k);
    }
    for (int i = 0; i < NS; ++i) {
        const Obs& o = wa.o[i]; const MSlot& m = ma.s[i];
        if (o.kind != m.kind || o.pkt_null) return P + "slot-kind|" + where(i);
        if (o.dangling) return P + "dangling-layer|layer " + str(o.addr.size()) + " of slot " + str(i) + " designates a destroyed object; model " + render(m);
        if (!o.exc.empty()) return P + "exception-in-serialize|" + o.exc + where(i);
        if (o.truncated || o.addr.size() != m.ch.size())
            return P + (o.truncated || o.addr.size() > m.ch.size() ? "layer-count-more" : "layer-count-fewer") + "|" + where(i);
        for (size_t k = 0; k < o.addr.size(); ++k) {
            if (!o.parent_ok[k]) return P + (k ? "parent-link" : "root-has-parent") + "|layer " + str(k) + " parent_pdu() is not its owner;" + where(i);
            if (seen.count(o.addr[k])) return P + "layer-owned-twice|layer " + str(k) + " also reachable from slot " + str(seen[o.addr[k]]) + ";" + where(i);
            seen[o.addr[k]] = i;
            if (o.cls[k] != m.ch[k].cls) return P + "layer-class|layer " + str(k) + ";" + where(i);
            auto ab = addr_before.find(m.ch[k].uid);
            if (ab != addr_before.end() && ab->second != o.addr[k]) return P + "layer-identity|layer " + str(k) + " should be the same object as before the step;" + where(i);
            if (m.ch[k].stamp && CL[m.ch[k].cls].stamped && o.stamp[k] != m.ch[k].stamp) return P + "layer-field|layer " + str(k) + ";" + where(i);
        }
        // whole-tree serialization equal to the tree it is / was copied / moved from
        if (!m.ch.empty()) {
            bool all = true; int bslot = -1;
            for (size_t k = 0; k < m.ch.size() && all; ++k) {
                auto pb = m.ch[k].stamp && m.ch[k].from >= 0 ? pos_before.find(m.ch[k].from) : pos_before.end();
                if (pb == pos_before.end() || pb->second.second != (int)k || (k && pb->second.first != bslot) || !mb.s[pb->second.first].ch[k].stamp) all = false;
                else bslot = pb->second.first;
            }
            if (all && mb.s[bslot].ch.size() == m.ch.size()) {
                if (!o.rb_ns && wb.o[bslot].rb != o.rb)
                    return P + "serialization|tree serializes to " + hex(o.rb) + " but its source (slot " + str(bslot) + " before the step) to " + hex(wb.o[bslot].rb) + ";" + where(i);
                for (size_t k = 0; k < m.ch.size(); ++k)
                    if (wb.o[bslot].lb[k] != o.lb[k])
                        return P + "layer-bytes|layer " + str(k) + " serializes alone to " + hex(o.lb[k]) + " but its source to " + hex(wb.o[bslot].lb[k]) + ";" + where(i);
            }
        }
    }
    return "";
}

static void canon_of(const Model& m, const World& w, uint64_t& h1, uint64_t& h2, uint64_t& shape, bool& nontriv, int& layers) {
    std::string d[NS], sh[NS];
    int roots = 0, deep = 0; layers = 0;
    for (int i = 0; i < NS; ++i) {
        const Obs& o = w.o[i];
        d[i] = str(o.kind) + "{"; sh[i] = d[i];
        for (size_t k = 0; k < o.addr.size(); ++k) {
            bool unspec = k < m.s[i].ch.size() && !m.s[i].ch[k].stamp;
            d[i] += str(o.cls[k]) + (unspec ? "?" : "") + ":" + str(o.lb[k].size()) + "." + str(fnv(o.lb[k].data(), o.lb[k].size())) + ";";
            sh[i] += str(o.cls[k]) + (unspec ? "?," : ",");
            if (o.cls[k] >= 0 && !strncmp(CL[o.cls[k]].name, "PDUCacher", 9)) d[i] += "c" + str(o.addr[k]->header_size()) + ";";
        }
        d[i] += "}" + str(o.rb.size()) + "." + str(fnv(o.rb.data(), o.rb.size()));
        if (!o.addr.empty()) roots++;
        if (o.addr.size() >= 2) deep++;
        layers += (int)o.addr.size();
    }
    std::sort(d, d + NS); std::sort(sh, sh + NS);
    std::string all = d[0] + "|" + d[1] + "|" + d[2], s2 = sh[0] + "|" + sh[1] + "|" + sh[2];
    h1 = fnv(all); h2 = fnv(all, 0x9e3779b97f4a7c15ULL); shape = fnv(s2);
    nontriv = roots >= 2 && deep >= 1;
}

// mutate one layer of a copy and look at everything else: nothing may show through
static std::string indep_check(const Op& op, Pool& P, const Model& ma, const World& wa) {
    int done = 0;
    for (int i = 0; i < NS; ++i) for (size_t k = 0; k < ma.s[i].ch.size(); ++k) {
        const ML& l = ma.s[i].ch[k];
        bool is_copy = l.from >= 0 && l.from != l.uid;
        if (!is_copy || !l.stamp || !CL[l.cls].mut || done >= 4) continue;
        ++done;
        PDU* y = wa.o[i].addr[k];
        int before = CL[l.cls].get(y);
        CL[l.cls].set(y, before ^ 0x40);
        std::string err;
        for (int j = 0; j < NS && err.empty(); ++j) {
            for (size_t q = 0; q < wa.o[j].addr.size(); ++q) {
                if (j == i && q == k) continue;
                int c = wa.o[j].cls[q];
                if (CL[c].stamped && CL[c].get(wa.o[j].addr[q]) != wa.o[j].stamp[q]) { err = "layer " + str(q) + " of slot " + str(j) + " changed when layer " + str(k) + " of slot " + str(i) + " was written"; break; }
            }
            if (j != i && err.empty() && !wa.o[j].addr.empty() && !wa.o[j].rb_ns) {
                PDU* r = P.root(j);
                Bytes now; if (r->size() > 0) now = r->serialize();
                if (now != wa.o[j].rb) err = "serialization of slot " + str(j) + " changed when layer " + str(k) + " of slot " + str(i) + " was written";
            }
        }
        CL[l.cls].set(y, before);
        if (CL[l.cls].get(y) != before) err = "harness: stamp not restored";
        if (!err.empty()) return std::string("c12:") + OPN[op.code] + ":copy-not-independent|" + err;
    }
    return "";
}

// =============================================================================== program execution
struct ExecOut { bool viol; uint64_t h1, h2, shape; bool nontriv; int layers; std::string sig, detail; int fail_step; };
static char g_sig[512], g_detail[8192];
static int g_fail_step;
static bool g_lazy_prefix = false;     // skip the observations of already-validated prefix steps (speed), see notes

static void fail(const std::string& e, int step) {
    size_t bar = e.find('|');
    snprintf(g_sig, sizeof g_sig, "%s", e.substr(0, bar).c_str());
    snprintf(g_detail, sizeof g_detail, "step %d: %s", step, bar == std::string::npos ? "" : e.substr(bar + 1).c_str());
    g_fail_step = step;
}

// returns false on violation (pool abandoned, not destroyed)
static bool exec_inner(const Op* ops, int n, int checked_from, ExecOut& out) {
    Pool P; Model m; World wb, wa;
    bool have_wa = false;
    for (int k = 0; k < n; ++k) {
        bool checked = k >= checked_from;
        if (!enabled(m, ops[k])) { fail("harness:op-not-enabled|" + op_str(ops[k]), k); return false; }
        bool need_obs = checked || !g_lazy_prefix;
        if (need_obs) { if (have_wa) std::swap(wb, wa); else observe_all(P, m, wb); }
        Model mb = m;
        int dest = mstep(m, ops[k]);
        std::string err;
        try { err = istep(P, m, ops[k], dest); }
        catch (std::exception& e) { err = std::string("c12:") + OPN[ops[k].code] + ":exception|" + typeid(e).name() + " " + e.what(); }
        if (err.empty() && (need_obs || k + 1 == n)) { observe_all(P, m, wa); have_wa = true; } else have_wa = false;
        if (err.empty() && checked) err = check_step(ops[k], mb, wb, m, wa);
        if (err.empty() && Mon::errors) err = Mon::first + "|" + Mon::first_detail + " in " + op_str(ops[k]);
        if (err.empty() && checked) err = indep_check(ops[k], P, m, wa);
        if (err.empty() && Mon::errors) err = Mon::first + "|" + Mon::first_detail + " while writing a field after " + op_str(ops[k]);
        if (!err.empty()) { fail(err, k); return false; }
    }
    if (n == 0) observe_all(P, m, wa);
    canon_of(m, wa, out.h1, out.h2, out.shape, out.nontriv, out.layers);
    // end of program: destroy everything that is live
    for (int i = 0; i < NS; ++i) {
        if (P.s[i].kind == RAW) delete P.s[i].raw; else if (P.s[i].kind == PKT) delete P.s[i].pkt;
        P.s[i].kind = EMPTY;
    }
    if (Mon::errors) { fail(Mon::first + "|" + Mon::first_detail + " while destroying all slots", n); return false; }
    return true;
}
static ExecOut exec(const Op* ops, int n, int checked_from) {
    ExecOut out = ExecOut();
    g_sig[0] = g_detail[0] = 0; g_fail_step = -1;
    Mon::reset();
    long base = live_allocs();
    bool ok = exec_inner(ops, n, checked_from, out);
    if (ok) {
        long d = live_allocs() - base;
        if (d != 0) {   // confirm on a second run (lazy one-time initialisation inside the library is not a leak)
            Mon::reset();
            long b2 = live_allocs();
            ExecOut o2 = ExecOut();
            bool ok2 = exec_inner(ops, n, n, o2);
            long d2 = live_allocs() - b2;
            if (ok2 && d2 != 0) {
                snprintf(g_sig, sizeof g_sig, "c12:end:%s", d2 > 0 ? "leak" : "freed-more-than-allocated");
                snprintf(g_detail, sizeof g_detail, "after destroying every slot %ld allocation(s) %s", d2 > 0 ? d2 : -d2, d2 > 0 ? "are still live" : "too many were freed");
                ok = false;
            }
        }
    }
    out.viol = !ok;
    if (!ok) { out.sig = g_sig; out.detail = g_detail; out.fail_step = g_fail_step; }
    Mon::reset();
    return out;
}

// =============================================================================== exploration
struct Node { std::vector<Op> hist; Model m; };
struct H2 { uint64_t a, b; bool operator==(const H2& o) const { return a == o.a && b == o.b; } };
struct H2h { size_t operator()(const H2& h) const { return (size_t)(h.a ^ (h.b * 0x9e3779b97f4a7c15ULL)); } };

static std::vector<Op> make_alphabet(const std::vector<int>& classes, bool with_depth1) {
    std::vector<Op> a;
    for (int c : classes) a.push_back(Op{CONS, c, 0, 0, 0});
    for (int i = 0; i < NS; ++i) {
        a.push_back(Op{CLONE, i, 0, 0, 0}); a.push_back(Op{CCTOR, i, 0, 0, 0}); a.push_back(Op{MCTOR, i, 0, 0, 0});
        if (with_depth1) { a.push_back(Op{CLONE, i, 1, 0, 0}); a.push_back(Op{CCTOR, i, 1, 0, 0}); a.push_back(Op{MCTOR, i, 1, 0, 0}); }
        a.push_back(Op{SETN, i, 0, 0, 0}); a.push_back(Op{REL, i, 0, 0, 0}); a.push_back(Op{REL, i, 1, 0, 0}); a.push_back(Op{DEL, i, 0, 0, 0});
        a.push_back(Op{PWC, i, 0, 0, 0}); a.push_back(Op{PWO, i, 0, 0, 0}); a.push_back(Op{PWP, i, 0, 0, 0}); a.push_back(Op{PCP, i, 0, 0, 0});
        a.push_back(Op{PMC, i, 0, 0, 0}); a.push_back(Op{PRL, i, 0, 0, 0});
        for (int j = 0; j < NS; ++j) {
            a.push_back(Op{APP, i, j, 0, 0}); a.push_back(Op{DIV, i, j, 0, 0});
            a.push_back(Op{CAS, i, 0, j, 0});
            if (i != j) a.push_back(Op{MAS, i, 0, j, 0});
            if (with_depth1 && i != j) for (int de = 1; de < 4; ++de) { a.push_back(Op{CAS, i, de & 1, j, de >> 1}); a.push_back(Op{MAS, i, de & 1, j, de >> 1}); }
            if (i != j) { a.push_back(Op{SETP, i, 0, j, 0}); a.push_back(Op{SETP, i, 1, j, 0}); a.push_back(Op{PMA, i, j, 0, 0}); }
            a.push_back(Op{SETR, i, 0, j, 0}); a.push_back(Op{SETR, i, 1, j, 0});
            a.push_back(Op{PAS, i, j, 0, 0});
        }
    }
    a.push_back(Op{PNEW, 0, 0, 0, 0});
    return a;
}

// Which worker expands which node of the split level.  Nodes whose histories constructed the same multiset of classes have
// the most overlapping descendants, so they are kept together (less work duplicated between workers); groups larger than the
// fair share are cut into parts; parts are dealt largest-first to the least loaded worker.  Every worker computes the same
// frontier, hence the same assignment.
static int g_share_policy = 1;
static std::vector<int> assign_shares(const std::vector<std::vector<Op> >& hists, int nshare) {
    std::vector<int> owner(hists.size(), 0);
    if (g_share_policy == 0) { for (size_t i = 0; i < hists.size(); ++i) owner[i] = (int)(i % nshare); return owner; }
    std::map<std::vector<int>, std::vector<size_t> > groups;
    for (size_t i = 0; i < hists.size(); ++i) {
        std::vector<int> k;
        for (auto& o : hists[i]) if (o.code == CONS) k.push_back(o.a);
        std::sort(k.begin(), k.end());
        groups[k].push_back(i);
    }
    size_t target = hists.size() / nshare + 1;
    std::vector<std::vector<size_t> > parts;
    for (auto& g : groups) {
        size_t np = (g.second.size() + target - 1) / target;
        size_t base = parts.size();
        parts.resize(base + np);
        for (size_t j = 0; j < g.second.size(); ++j) parts[base + j % np].push_back(g.second[j]);
    }
    std::stable_sort(parts.begin(), parts.end(), [](const std::vector<size_t>& a, const std::vector<size_t>& b) { return a.size() > b.size(); });
    std::vector<size_t> load(nshare, 0);
    for (auto& p : parts) {
        int best = 0;
        for (int w = 1; w < nshare; ++w) if (load[w] < load[best]) best = w;
        load[best] += p.size();
        for (size_t i : p) owner[i] = best;
    }
    return owner;
}

struct Counters { uint64_t transitions, states, violations, max_layers; Counters() : transitions(0), states(0), violations(0), max_layers(0) {} };
static uint64_t g_case_no = 0;
static std::string g_last_hist;

// BFS from `seed` (a program prefix) to `depth` further ops.  Nodes of BFS level `split_level` (relative to the seed) are dealt
// round-robin to `nshare` workers and only share `share` is expanded further; levels up to the split are computed by every
// worker but counted by worker 0 only.
static bool explore(const std::string& ctx, const std::vector<Op>& seed, const std::vector<Op>& alphabet, int depth,
                    int split_level, int nshare, int share, Counters& C, bool record_states) {
    std::unordered_set<H2, H2h> seen;
    std::vector<Node> frontier, next;
    Node n0; n0.hist = seed;
    for (auto& o : seed) { if (!enabled(n0.m, o)) { R.violation("harness:bad-seed", ops_str(seed), ctx); return true; } mstep(n0.m, o); }
    {
        set_case(g_case_no++, ctx, ctx + " ops=" + ops_str(seed));
        ExecOut e = exec(seed.data(), (int)seed.size(), 0);
        if (share == 0) { C.transitions += seed.size() ? 1 : 0; }
        if (e.viol) { if (share == 0) { R.violation(e.sig, e.detail, ctx + " ops=" + ops_str(seed)); C.violations++; } return true; }
        seen.insert(H2{e.h1, e.h2});
        if (share == 0) C.states++;
    }
    frontier.push_back(n0);
    bool complete = true;
    for (int lvl = 0; lvl < depth && complete; ++lvl) {
        bool counting = lvl >= split_level || share == 0;
        next.clear();
        std::vector<int> owner;
        if (lvl == split_level && nshare > 1) {
            std::vector<std::vector<Op> > hs;
            for (auto& nd : frontier) hs.push_back(nd.hist);
            owner = assign_shares(hs, nshare);
        }
        for (size_t fi = 0; fi < frontier.size(); ++fi) {
            if (lvl == split_level && nshare > 1 && owner[fi] != share) continue;
            if (deadline_reached()) { complete = false; break; }
            const Node& nd = frontier[fi];
            std::vector<Op> h = nd.hist;
            h.push_back(Op());
            for (const Op& op : alphabet) {
                if (!enabled(nd.m, op)) continue;
                h.back() = op;
                uint64_t idx = g_case_no++;
                if (skipped(idx)) { R.flags["exhaustive"] = false; continue; }   // killed the worker process in an earlier attempt (reported by the driver)
                set_case(idx, ctx, ctx + " ops=" + ops_str(h));
                ExecOut e = exec(h.data(), (int)h.size(), (int)h.size() - 1);
                if (counting) C.transitions++;
                if (e.viol) {
                    if (counting) { C.violations++; R.violation(e.sig, e.detail, ctx + " ops=" + ops_str(h)); }
                    continue;   // not expanded past a violating transition
                }
                if (!seen.insert(H2{e.h1, e.h2}).second) continue;
                if (counting) {
                    C.states++;
                    if ((uint64_t)e.layers > C.max_layers) C.max_layers = e.layers;
                    if (e.nontriv) R.dist("distinct_nontrivial", e.shape);
                    if (record_states) R.dist("distinct_states", e.h1);
                    R.maxv("max_depth", seed.size() + lvl + 1);
                }
                if (lvl + 1 < depth) { Node nn; nn.hist = h; nn.m = nd.m; mstep(nn.m, op); next.push_back(nn); }
                else g_last_hist = ops_str(h);
            }
        }
        frontier.swap(next);
    }
    return complete;
}

// =============================================================================== extra: PDUOption family
template <class O> static std::string option_case(int sa, int sb, int op) {
    static const int SZ[] = {0, 1, 7, 8, 9, 16, 40};
    uint8_t da[40], db[40];
    for (int i = 0; i < 40; ++i) { da[i] = (uint8_t)(0xa0 + i); db[i] = (uint8_t)(0x10 + i); }
    std::string err;
    Mon::reset();
    long base = live_allocs();
    {
        O a(3, SZ[sa], da), b(5, SZ[sb], db);
        auto same = [](const O& x, int opt, const uint8_t* d, int n) {
            return (int)x.option() == opt && (int)x.data_size() == n && (int)x.length_field() == n && (n == 0 || memcmp(x.data_ptr(), d, n) == 0);
        };
        std::string cerr;
        switch (op) {
        case 0: { O c(b); if (!same(c, 5, db, SZ[sb]) || !same(b, 5, db, SZ[sb])) cerr = "option:copy-construct:content"; break; }
        case 1: { O c(std::move(b)); if (!same(c, 5, db, SZ[sb])) cerr = "option:move-construct:content"; break; }
        case 2: a = b; if (!same(a, 5, db, SZ[sb]) || !same(b, 5, db, SZ[sb])) cerr = "option:copy-assign:content"; break;
        case 3: a = std::move(b); if (!same(a, 5, db, SZ[sb])) cerr = "option:move-assign:content"; b = O(7, SZ[sa], da); if (!same(b, 7, da, SZ[sa])) cerr = "option:reuse-after-move:content"; break;
        case 4: { O& r = a; a = r; if (!same(a, 3, da, SZ[sa])) cerr = "option:self-copy-assign:content"; break; }
        case 5: { std::vector<O> v; v.push_back(a); v.push_back(b); v.insert(v.begin(), v[1]); v.erase(v.begin() + 1);
                  if (v.size() != 2 || !same(v[0], 5, db, SZ[sb]) || !same(v[1], 5, db, SZ[sb])) cerr = "option:vector-insert-erase:content"; break; }
        }
        if (Mon::errors) err = "option:" + Mon::first; else err = cerr;   // a sanitizer report is the more basic verdict
    }
    if (err.empty() && Mon::errors) err = "option:" + Mon::first;
    if (err.empty() && live_allocs() != base) err = live_allocs() > base ? "option:leak" : "option:freed-more-than-allocated";
    Mon::reset();
    return err;
}
static const char* OPT_OPS[] = {"copy-construct", "move-construct", "copy-assign", "move-assign", "self-copy-assign", "vector-insert-erase"};

// =============================================================================== extra: TCPStream copy/assignment
static IP seg(bool from_client, uint32_t seq, int flags, uint32_t ack, const char* data) {
    IP ip(from_client ? "10.0.0.2" : "10.0.0.1", from_client ? "10.0.0.1" : "10.0.0.2");
    TCP tcp(from_client ? 80 : 1025, from_client ? 1025 : 80);
    tcp.flags(flags); tcp.seq(seq); tcp.ack_seq(ack);
    ip /= tcp;
    if (data) { RawPDU raw(data); ip /= raw; }
    return ip;   // (named return value: no temporary chain is moved around more than necessary)
}
static TCPStream* mk_stream(int nc, int ns, int delivered) {
    IP syn = seg(true, 100, TCP::SYN, 0, 0);
    TCPStream* s = new TCPStream(&syn, &syn.rfind_pdu<TCP>(), 7);
    IP sa = seg(false, 500, TCP::SYN | TCP::ACK, 101, 0);
    s->update(&sa, &sa.rfind_pdu<TCP>());
    for (int k = 0; k < delivered; ++k) { IP d = seg(true, 101 + 4 * k, TCP::ACK, 501, "abcd"); s->update(&d, &d.rfind_pdu<TCP>()); }
    for (int k = 0; k < nc; ++k) { IP d = seg(true, 101 + 4 * delivered + 50 * (k + 1), TCP::ACK, 501, "client-fragment"); s->update(&d, &d.rfind_pdu<TCP>()); }   // out of order: stays buffered
    for (int k = 0; k < ns; ++k) { IP d = seg(false, 501 + 70 * (k + 1), TCP::ACK, 101, "server-fragment"); s->update(&d, &d.rfind_pdu<TCP>()); }
    return s;
}
static std::string stream_view(const TCPStream& s) {
    std::string v = "c=" + hex(s.client_payload()) + " s=" + hex(s.server_payload()) + " cf=";
    for (auto& f : s.client_frags_) v += str(f.first) + ":" + hex(f.second->payload()) + ",";
    v += " sf=";
    for (auto& f : s.server_frags_) v += str(f.first) + ":" + hex(f.second->payload()) + ",";
    return v + " fin=" + str(s.is_finished()) + " id=" + str(s.id());
}
static bool frags_disjoint(const TCPStream& a, const TCPStream& b) {
    std::set<const RawPDU*> p;
    for (auto& f : a.client_frags_) p.insert(f.second);
    for (auto& f : a.server_frags_) p.insert(f.second);
    for (auto& f : b.client_frags_) if (p.count(f.second)) return false;
    for (auto& f : b.server_frags_) if (p.count(f.second)) return false;
    return true;
}
static std::string stream_case(int ac, int as, int bc, int bs, int op) {
    std::string err;
    Mon::reset();
    long base = live_allocs();
    {
        std::unique_ptr<TCPStream> a(mk_stream(ac, as, 1)), b(mk_stream(bc, bs, 2));
        size_t expect_frags = (size_t)(bc + bs);
        if (b->client_frags_.size() + b->server_frags_.size() != expect_frags) err = "harness:stream-setup";
        std::string vb = stream_view(*b), va = stream_view(*a);
        if (op == 0) { TCPStream c(*b); if (stream_view(c) != vb || stream_view(*b) != vb) err = "stream:copy-construct:content"; else if (!frags_disjoint(c, *b)) err = "stream:copy-construct:shared-fragment"; }
        else if (op == 1) { *a = *b; if (stream_view(*a) != vb || stream_view(*b) != vb) err = "stream:copy-assign:content"; else if (!frags_disjoint(*a, *b)) err = "stream:copy-assign:shared-fragment"; }
        else { TCPStream& r = *a; *a = r; if (stream_view(*a) != va) err = "stream:self-copy-assign:content"; }
    }
    if (err.empty() && Mon::errors) err = "stream:" + Mon::first;
    if (err.empty() && live_allocs() != base) err = live_allocs() > base ? "stream:copy-assign:leak" : "stream:freed-more-than-allocated";
    Mon::reset();
    return err;
}
static const char* STREAM_OPS[] = {"copy-construct", "copy-assign", "self-copy-assign"};

static void run_extras() {
    uint64_t n = 0; std::set<std::string> outcomes;
    for (int t = 0; t < 2; ++t) for (int op = 0; op < 6; ++op) for (int sa = 0; sa < 7; ++sa) for (int sb = 0; sb < 7; ++sb) {
        std::string kase = "mode=option t=" + str(t) + " op=" + str(op) + " sa=" + str(sa) + " sb=" + str(sb);
        uint64_t idx = g_case_no++;
        if (skipped(idx)) continue;
        set_case(idx, "option", kase);
        std::string e = t == 0 ? option_case<TCP::option>(sa, sb, op) : option_case<DHCPv6::option>(sa, sb, op);
        ++n;
        if (!e.empty()) R.violation(e.compare(0, 12, "option:asan:") == 0 ? e + ":" + OPT_OPS[op] : e, std::string(OPT_OPS[op]) + " with payload sizes index " + str(sa) + "/" + str(sb), kase);
    }
    R.count("option_cases", n); n = 0;
    for (int op = 0; op < 3; ++op) for (int ac = 0; ac < 3; ++ac) for (int as = 0; as < 3; ++as) for (int bc = 0; bc < 3; ++bc) for (int bs = 0; bs < 3; ++bs) {
        std::string kase = "mode=stream op=" + str(op) + " ac=" + str(ac) + " as=" + str(as) + " bc=" + str(bc) + " bs=" + str(bs);
        uint64_t idx = g_case_no++;
        if (skipped(idx)) continue;
        set_case(idx, "stream", kase);
        std::string e = stream_case(ac, as, bc, bs, op);
        ++n;
        if (!e.empty()) R.violation(e, std::string("TCPStream ") + STREAM_OPS[op] + ", target holds " + str(ac + as) + " buffered fragments, source " + str(bc + bs), kase);
    }
    R.count("stream_cases", n);
}

// =============================================================================== class-table self test (harness sanity)
static void self_test() {
    for (size_t c = 0; c < CL.size(); ++c) {
        PDU* p = CL[c].make(5);
        bool ok = cls_of(p) == (int)c;
        if (CL[c].stamped) {
            ok = ok && CL[c].get(p) == 5;
            if (CL[c].ser) { p->serialize(); ok = ok && CL[c].get(p) == 5; }
            if (CL[c].mut) { CL[c].set(p, 5 ^ 0x40); ok = ok && CL[c].get(p) == (5 ^ 0x40); CL[c].set(p, 5); ok = ok && CL[c].get(p) == 5; }
        }
        delete p;
        if (!ok || Mon::errors) R.violation("harness:class-table", std::string("stamp accessors of ") + CL[c].name + " do not round-trip " + Mon::first, "mode=selftest");
        Mon::reset();
    }
}

// =============================================================================== jobs
static const int NJ_Q = 32, NJ_T = 64;

static std::vector<std::vector<Op> > sweep_seeds(int k) {
    std::vector<std::vector<Op> > s;
    int nshape = CL[k].ser ? 4 : 3;
    for (int a = 0; a < nshape; ++a) {
        s.push_back({Op{CONS, k, a, 0, 0}});
        for (int b = 0; b < nshape; ++b) s.push_back({Op{CONS, k, a, 0, 0}, Op{CONS, k, b, 0, 0}});
    }
    for (int a = 0; a < 3; ++a) {
        s.push_back({Op{CONS, k, a, 0, 0}, Op{PWO, 0, 0, 0, 0}});
        for (int b = 0; b < 3; ++b) s.push_back({Op{CONS, k, a, 0, 0}, Op{PWO, 0, 0, 0, 0}, Op{CONS, k, b, 0, 0}, Op{PWP, 1, 0, 0, 0}});
    }
    return s;
}

static void run_job(int job) {
    init_classes();
    bool th = A.thorough();
    int NJ = th ? NJ_T : NJ_Q;
    if (getenv("C12_SHARE")) g_share_policy = atoi(getenv("C12_SHARE"));
    if (getenv("C12_LAZY")) g_lazy_prefix = atoi(getenv("C12_LAZY")) != 0;
    // warm-up (one-time lazy initialisation inside libtins / libstdc++ must not look like a leak)
    { std::vector<Op> w; parse_ops("cons:IP:2,cons:EthernetII:0,app:1:0,pwc:1,del:0,del:1,del:2", w); exec(w.data(), (int)w.size(), 0); }
    if (job == 0) { self_test(); run_extras(); }
    Counters C;
    // ---- class sweep
    {
        int sdepth = th ? 2 : 1;
        if (getenv("C12_SDEPTH")) sdepth = atoi(getenv("C12_SDEPTH"));
        std::vector<Op> alpha = make_alphabet(std::vector<int>(), true);
        uint64_t item = 0;
        Counters S;
        bool done = true;
        for (size_t k = 0; k < CL.size() && done; ++k) {
            auto seeds = sweep_seeds((int)k);
            for (size_t si = 0; si < seeds.size(); ++si, ++item) {
                if ((int)(item % NJ) != job) continue;
                if (deadline_reached()) { done = false; break; }
                uint64_t before = S.transitions;
                done = explore("mode=sweep", seeds[si], alpha, sdepth, 0, 1, 0, S, false) && done;
                R.count("sweep_seeds");
                if (S.transitions > before) R.dist("sweep_classes_covered", fnv(CL[k].name));
            }
        }
        if (!done) R.flags["exhaustive"] = false;
        R.count("sweep_transitions", S.transitions); R.count("sweep_states", S.states);
        C.transitions += S.transitions; C.states += S.states; C.violations += S.violations;
        if (S.max_layers > C.max_layers) C.max_layers = S.max_layers;
        if (job == 0) { R.info["sweep_depth"] = str(sdepth); R.info["sweep_alphabet_size"] = str(alpha.size()); R.info["classes"] = str(CL.size()); }
        if (!g_last_hist.empty()) R.sample(jstr("mode=sweep ops=" + g_last_hist));
    }
    // ---- deep search (after the sweep; cheapest pass first, so that a deadline cuts the most expensive pass only)
    {
        std::vector<int> classes; for (int i = 0; i < N_DEEP_CLASSES; ++i) classes.push_back(i);
        struct Pass { int depth; bool below_root; };
        std::vector<Pass> passes;
        if (th) { passes.push_back(Pass{5, true}); passes.push_back(Pass{6, false}); } else passes.push_back(Pass{5, false});
        if (getenv("C12_DEPTH")) { passes.clear(); passes.push_back(Pass{atoi(getenv("C12_DEPTH")), getenv("C12_D1") && atoi(getenv("C12_D1"))}); }
        std::string desc;
        for (auto& ps : passes) {
            std::vector<Op> alpha = make_alphabet(classes, ps.below_root);
            int split = ps.depth >= 5 ? 3 : 2;
            if (getenv("C12_SPLIT")) split = atoi(getenv("C12_SPLIT"));
            bool done = explore("mode=deep", std::vector<Op>(), alpha, ps.depth, split, NJ, job, C, !th);
            if (done) R.maxv(ps.below_root ? "deep_completed_depth_with_below_root_ops" : "deep_completed_depth", ps.depth); else R.flags["exhaustive"] = false;
            desc += (desc.empty() ? "" : "; ") + std::string("depth ") + str(ps.depth) + " over " + str(alpha.size()) + " ops" + (ps.below_root ? " (incl. ops on the layer below the root)" : "");
            if (!g_last_hist.empty()) R.sample(jstr("mode=deep ops=" + g_last_hist));
        }
        if (job == 0) R.info["deep_passes"] = jstr(desc);
    }
    R.count("states", C.states); R.count("transitions", C.transitions); R.count("traces_validated_against_impl", C.transitions);
    R.count("violating_transitions", C.violations);
    R.count("c13_known_type_confusion_reports_ignored", g_c13_reports);
    R.maxv("max_live_layers", C.max_layers);
}

static int replay(const std::string& kase) {
    init_classes();
    auto kv = parse_kv(kase);
    std::string mode = kv["mode"];
    if (mode == "option") {
        int t = atoi(kv["t"].c_str()), op = atoi(kv["op"].c_str()), sa = atoi(kv["sa"].c_str()), sb = atoi(kv["sb"].c_str());
        std::string e = t == 0 ? option_case<TCP::option>(sa, sb, op) : option_case<DHCPv6::option>(sa, sb, op);
        printf("PDUOption %s, payload size indexes %d/%d: %s\n", OPT_OPS[op], sa, sb, e.empty() ? "ok" : e.c_str());
        return e.empty() ? 0 : 1;
    }
    if (mode == "stream") {
        int op = atoi(kv["op"].c_str());
        std::string e = stream_case(atoi(kv["ac"].c_str()), atoi(kv["as"].c_str()), atoi(kv["bc"].c_str()), atoi(kv["bs"].c_str()), op);
        printf("TCPStream %s: %s\n", STREAM_OPS[op], e.empty() ? "ok" : e.c_str());
        return e.empty() ? 0 : 1;
    }
    if (mode == "selftest") { self_test(); return R.violations.empty() ? 0 : 1; }
    std::vector<Op> ops;
    if (!parse_ops(kv["ops"], ops)) { printf("cannot parse ops\n"); return 2; }
    { std::vector<Op> w; parse_ops("cons:IP:2,cons:EthernetII:0,app:1:0,pwc:1,del:0,del:1,del:2", w); exec(w.data(), (int)w.size(), 0); }
    ExecOut e = exec(ops.data(), (int)ops.size(), 0);
    // narrate the program on the model
    Model m;
    for (size_t k = 0; k < ops.size(); ++k) {
        if (!enabled(m, ops[k])) { printf("  %-22s (not enabled)\n", op_str(ops[k]).c_str()); break; }
        mstep(m, ops[k]);
        printf("  %-22s expected: %s | %s | %s%s\n", op_str(ops[k]).c_str(), render(m.s[0]).c_str(), render(m.s[1]).c_str(), render(m.s[2]).c_str(),
               e.viol && e.fail_step == (int)k ? "   <== violated here" : "");
        if (e.viol && e.fail_step == (int)k) break;
    }
    if (e.viol) { printf("violation reproduced: %s\n  %s\n", e.sig.c_str(), e.detail.c_str()); return 1; }
    printf("program replayed, every invariant holds, all allocations returned\n");
    return 0;
}

int main(int argc, char** argv) { return run_main(argc, argv, NJ_Q, NJ_T, run_job, replay); }
