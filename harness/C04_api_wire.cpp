// C04 — what is set through the API is what a parser of the wire bytes gets back.
// Explicit-state BFS per layer class over the generated setter table (every typed option / field setter x its argument
// samples) plus raw option add / remove, with a shadow model of the getters and a wire round trip in every state.
#include "entry.hpp"
#include "sermon.hpp"
#include "derived.hpp"
#include "explore.hpp"

using namespace mc;
using namespace Tins;

template <class T> struct is_small_uint { static const bool value = false; };
template <size_t n> struct is_small_uint<small_uint<n> > { static const bool value = true; };
struct SetterDesc { std::string cls, name; bool (*applies)(PDU&); int (*apply)(PDU&, int); std::string (*shown)(int); int ns; bool scalar; };
// apply returns 1 ok, 0 libtins exception (rejected)
static std::vector<SetterDesc> setter_table() {
    std::vector<SetterDesc> t;
#define API_PAIR(Q, T, N, A, R) { typedef decltype(setter_arg(&Q::N)) Arg; int ns = nsamples<Arg>(); \
    if (ns) t.push_back(SetterDesc{#T, #N, [](PDU& p) { return dynamic_cast<Q*>(&p) != 0; }, \
        [](PDU& p, int k) -> int { try { static_cast<Q&>(p).N(sample<Arg>(k)); return 1; } catch (std::exception& e_) { if (!mc::tins_exc(e_)) throw; return 0; } }, \
        [](int k) { return show(sample<Arg>(k)); }, ns, std::is_arithmetic<Arg>::value || std::is_enum<Arg>::value || is_small_uint<Arg>::value}); }
#include "api.inc"
#undef API_PAIR
    return t;
}

// ---- raw option adapters for the option-carrying classes
struct RawOps {
    bool (*applies)(PDU&);
    size_t (*count)(PDU&);
    void (*add)(PDU&, int type_sel, int len);
    bool (*remove_at)(PDU&, size_t i);     // remove_option(type of option i)
    bool (*search_at_type)(PDU&, int type_sel);
};
static Bytes g_data = pattern(40, 0x51);
static std::vector<int> g_rawlens = {0, 3, 9, 12};
template <class Q, class Opt, class CtorT, class Type> RawOps raw_ops(const std::vector<int>& types) {
    static std::vector<int> ty; ty = types;
    RawOps r;
    r.applies = [](PDU& p) { return dynamic_cast<Q*>(&p) != 0; };
    r.count = [](PDU& p) { return (size_t)static_cast<Q&>(p).options().size(); };
    r.add = [](PDU& p, int ts, int len) { static_cast<Q&>(p).add_option(Opt((CtorT)ty[ts % ty.size()], len, g_data.data())); };
    r.remove_at = [](PDU& p, size_t i) { Q& q = static_cast<Q&>(p); auto opts = q.options(); if (i >= opts.size()) return false; auto it = opts.begin(); std::advance(it, i); return q.remove_option((Type)it->option()); };
    r.search_at_type = [](PDU& p, int ts) { return static_cast<Q&>(p).search_option((Type)ty[ts % ty.size()]) != 0; };
    return r;
}

static std::map<std::string, std::string> snapshot(const PDU& p) { std::map<std::string, std::string> m; View v; view_layer(p, v, 0); for (auto& e : v) m[e.key] = e.val; return m; }
static bool size_key(const std::string& key) { size_t d = key.find('.'); std::string g = key.substr(d + 1); return g == "header_size" || g == "trailer_size" || g == "size" || g == "advertised_size" || g == "pdu_type"; }
static bool list_key(const std::string& key) { size_t d = key.find('.'); std::string g = key.substr(d + 1); return g == "options" || g == "tags" || g == "headers" || g == "options_payload" || g == "present" || g == "vend" || g == "length"; }

struct Op { int kind; int a, b; };   // 0: set(setter a, sample b)  1: raw add(type a, len b)  2: remove option at a
struct S {
    std::unique_ptr<PDU> o;
    std::map<std::string, std::string> expect;     // shadow model: getter key -> value set (first match for additive options)
    std::map<std::string, int> added;              // option-adding setters called so far (per key)
    int depth = 0;
    S() {}
    S(const S& r) : o(r.o ? r.o->clone() : 0), expect(r.expect), added(r.added), depth(r.depth) {}
    S& operator=(const S& r) { o.reset(r.o ? r.o->clone() : 0); expect = r.expect; added = r.added; depth = r.depth; return *this; }
};

static std::vector<SetterDesc> g_setters;   // those of the class under exploration
static RawOps* g_raw = 0;
static PDU* (*g_make)() = 0;
static bool g_preload = false;      // root object starts with four raw options (types t0,t1,t2,t0)
static PDU* (*g_parse)(const uint8_t*, uint32_t) = 0;
static std::string g_cls;
static int g_kmax[4] = {1000, 2, 1, 1};

// aliases: getters that are documented views of the same wire bits or of the raw option the setter adds
static bool related(const std::string& a, const std::string& b) {
    static const char* groups[][20] = {
        {"IP.frag_off", "IP.fragment_offset", "IP.flags", "IP.is_fragmented", 0},
        {"ICMP.id", "ICMP.sequence", "ICMP.gateway", "ICMP.mtu", "ICMP.pointer", "ICMP.length", 0},
        {"ICMP.original_timestamp", "ICMP.address_mask", 0},
        {"ICMPv6.identifier", "ICMPv6.sequence", "ICMPv6.hop_limit", "ICMPv6.router", "ICMPv6.solicited", "ICMPv6.override", "ICMPv6.maximum_response_code", "ICMPv6.length",
         "ICMPv6.router_lifetime", "ICMPv6.managed", "ICMPv6.other", "ICMPv6.home_agent", "ICMPv6.router_pref", 0},
        {"ICMPv6.reachable_time", "ICMPv6.qqic", "ICMPv6.qrv", "ICMPv6.supress", 0},
        {"ICMPv6.source_link_layer_addr", "ICMPv6.target_link_layer_addr", "ICMPv6.link_layer_addr", 0},
        {"TCP.sack_permitted", "TCP.has_sack_permitted", 0},
        {"DHCPv6.msg_type", "DHCPv6.is_relay_message", "DHCPv6.hop_count", "DHCPv6.transaction_id", "DHCPv6.link_address", "DHCPv6.peer_address", 0},
        {"Dot11.addr1", "Dot11Data.addr2", "Dot11Data.addr3", "Dot11Data.addr4", "Dot11Data.dst_addr", "Dot11Data.src_addr", "Dot11Data.bssid_addr", "Dot11.to_ds", "Dot11.from_ds", 0},
        {"RTP.padding_size", "RTP.padding_bit", 0},
        {"LLC.dsap", "LLC.group", 0},
        {"LLC.ssap", "LLC.response", 0},
        {"LLC.type", "LLC.send_seq_number", "LLC.receive_seq_number", "LLC.poll_final", "LLC.supervisory_function", "LLC.modifier_function", 0},
        {"RTP.extension_bit", "RTP.extension_profile", "RTP.extension_length", "RTP.extension_data", 0},
        {0}};
    if (a == b) return true;
    for (int g = 0; groups[g][0]; ++g) {
        bool ha = false, hb = false;
        for (int i = 0; groups[g][i]; ++i) { if (a == groups[g][i]) ha = true; if (b == groups[g][i]) hb = true; }
        if (ha && hb) return true;
    }
    return false;
}

// Fields that only exist on the wire for particular message types (the API stores them regardless); a class variant that
// presets the right type lists them as applicable.
static std::set<std::string> g_applicable;
static bool type_dependent(const std::string& key) {
    static const char* k[] = {"ICMPv6.target_addr", "ICMPv6.dest_addr", "ICMPv6.multicast_addr", "ICMPv6.sources", "ICMPv6.reachable_time", "ICMPv6.retransmit_timer",
                              "ICMPv6.qqic", "ICMPv6.qrv", "ICMPv6.supress", "ICMPv6.multicast_address_records", "ICMPv6.options", "ICMP.original_timestamp",
                              "ICMP.receive_timestamp", "ICMP.transmit_timestamp", "ICMP.address_mask", "Dot11Data.addr4", "Dot11ManagementFrame.addr4",
                              "DHCPv6.peer_address", "DHCPv6.link_address", "DHCPv6.hop_count", "DHCPv6.transaction_id", "RTP.extension_profile", "RTP.extension_length", 0};
    for (int i = 0; k[i]; ++i) if (key == k[i]) return !g_applicable.count(key);
    return false;
}
// x<hex> runs may come back zero-padded (option formats that only carry a length in 4/8-octet units)
static std::string strip_len(const std::string& v) {   // drop "len=<n>," from an option list rendering
    std::string o; size_t i = 0;
    while (i < v.size()) { if (v.compare(i, 4, "len=") == 0) { size_t j = i + 4; while (j < v.size() && isdigit((unsigned char)v[j])) ++j; if (j < v.size() && v[j] == ',') ++j; i = j; } else o += v[i++]; }
    return o;
}
static std::string strip_num(const std::string& v, const char* tag) {   // drop "<tag><digits>" from a rendering
    std::string o; size_t i = 0, n = strlen(tag);
    while (i < v.size()) { if (v.compare(i, n, tag) == 0) { size_t j = i + n; while (j < v.size() && isdigit((unsigned char)v[j])) ++j; i = j; } else o += v[i++]; }
    return o;
}
static bool equal_modulo_padding(const std::string& want, const std::string& got) {
    size_t i = 0, j = 0;
    while (i < want.size() && j < got.size()) {
        if (want[i] != got[j]) return false;
        bool hexrun = want[i] == 'x' && (i == 0 || want[i - 1] == '=' || want[i - 1] == '[' || want[i - 1] == ',');
        ++i; ++j;
        if (hexrun) {
            while (i < want.size() && j < got.size() && isxdigit((unsigned char)want[i]) && want[i] == got[j]) { ++i; ++j; }
            if (i < want.size() && isxdigit((unsigned char)want[i])) return false;
            while (j < got.size() && got[j] == '0') ++j;          // padding zeros
            if (j < got.size() && isxdigit((unsigned char)got[j])) return false;
        }
    }
    return i == want.size() && j == got.size();
}
static std::string strip_aux(std::string v) { size_t p; while ((p = v.find("aux_data=x")) != std::string::npos) { size_t e = v.find(';', p); v.erase(p, e == std::string::npos ? std::string::npos : e - p); } return v; }
static bool has_empty_container(const std::string& shown) { return shown.find("[]") != std::string::npos || shown.find("=x;") != std::string::npos || shown == "x" || shown == "\"\"" || shown.find("\"\"") != std::string::npos; }

static long hdr_size(const std::map<std::string, std::string>& m) { long v = 0; for (auto& kv : m) if (kv.first.size() > 12 && kv.first.compare(kv.first.size() - 12, 12, ".header_size") == 0) v = std::max(v, atol(kv.second.c_str())); return v; }
static std::string wire_check(S& s) {
    // serialize the object alone and parse it back with its own class
    if (needs_environment(*s.o)) static_cast<IP&>(*s.o).src_addr("10.9.8.7");
    // serialization may rewrite derived fields inside the object (lengths, tags, the RFC 4884 length octet that aliases ICMP id/gateway):
    // serialize a clone so that the explored object keeps exactly what the API calls put into it
    std::unique_ptr<PDU> ser_copy(s.o->clone());
    // outside what the wire format can represent: TCP / IP headers longer than 60 bytes (4-bit length fields)
    if ((g_cls == "TCP" || g_cls == "IP") && s.o->header_size() > 60) { R.count("states_beyond_wire_limits"); return ""; }
    Bytes y;
    try { y = ser_copy->serialize(); }
    catch (std::exception& e) { return std::string("wire:serialize-throws:") + g_cls + "|" + typeid(e).name() + " " + e.what(); }
    std::unique_ptr<PDU> q;
    try { q.reset(g_parse(y.data(), (uint32_t)y.size())); }
    catch (malformed_packet&) { return "wire:own-serialization-rejected:" + g_cls + "|" + hex(y).substr(0, 300); }
    auto a = snapshot(*s.o), b = snapshot(*q);
    bool icmp_err = a.count("ICMP.type") && (a["ICMP.type"] == "3" || a["ICMP.type"] == "11" || a["ICMP.type"] == "12");
    bool icmp6_err = a.count("ICMPv6.type") && (a["ICMPv6.type"] == "1" || a["ICMPv6.type"] == "3");
    for (auto& kv : a) {
        // RFC 4884: for error messages the length octet is derived; getters aliasing it are views of a derived field (as in C03)
        if (icmp_err && (kv.first == "ICMP.gateway" || kv.first == "ICMP.id")) continue;
        // MLDv2 report: the number of records is derived and lives in the octets 'sequence' / 'router_lifetime' alias
        if (a.count("ICMPv6.type") && a["ICMPv6.type"] == "143" && (kv.first == "ICMPv6.sequence" || kv.first == "ICMPv6.router_lifetime")) continue;
        if (icmp6_err && (kv.first == "ICMPv6.identifier" || kv.first == "ICMPv6.hop_limit" || kv.first == "ICMPv6.router" || kv.first == "ICMPv6.solicited" ||
                          kv.first == "ICMPv6.override" || kv.first == "ICMPv6.maximum_response_code")) continue;
        if (always_derived(kv.first) || protocol_tag(kv.first) || size_key(kv.first) || type_dependent(kv.first) || kv.first == "BootP.vend" || kv.first == "Dot1Q.append_padding") continue;
        if (g_cls == "ICMPv6" && !g_applicable.count("ICMPv6.options") && b[kv.first].find("option_not_found") != std::string::npos) continue;   // this message type has no option area
        if (kv.first == "ICMPv6.multicast_address_records" && strip_aux(kv.second) == strip_aux(b[kv.first])) continue;   // aux data is counted in 32-bit words
        // the checksum inside an RFC 4884 extension structure is derived (0 until serialized)
        if ((kv.first == "ICMP.extensions" || kv.first == "ICMPv6.extensions") && strip_num(kv.second, "checksum=") == strip_num(b[kv.first], "checksum=")) continue;
        // IPv6 extension headers are padded with zeros to whole 8-octet units on the wire: the parsed data is the built data plus that padding
        if (kv.first == "IPv6.headers" && equal_modulo_padding(strip_len(kv.second), strip_len(b[kv.first]))) continue;
        if (b[kv.first] != kv.second && !equal_modulo_padding(kv.second, b[kv.first]))
            return "wire:field-differs:" + kv.first + "|built " + kv.second.substr(0, 220) + " parsed " + b[kv.first].substr(0, 220) + " wire=" + hex(y).substr(0, 200);
    }
    R.count("wire_roundtrips");
    return "";
}

static std::string step(S& s, const Op& op) {
    s.depth++;
    auto before = snapshot(*s.o);
    std::string changed_key;
    if (op.kind == 0) {
        const SetterDesc& sd = g_setters[op.a];
        std::string key = sd.cls + "." + sd.name;
        {   // argument values the wire format cannot represent are outside "in-range field values"
            std::string sh = sd.shown(op.b);
            bool oor = false;
            if (key == "IPSecAH.icv") oor = sh.size() > 1 && ((sh.size() - 1) / 2) % 4 != 0;          // ICV is a whole number of 32-bit words
            if (key == "ICMPv6.nonce" || key == "ICMPv6.redirect_header") oor = sh.size() < 2 || ((sh.size() - 1) / 2 + 2) % 8 != 0;   // ND options are whole 8-octet units; these two encoders do not pad
            if (key == "ICMPv6.multicast_address_records") { size_t q = 0; while ((q = sh.find("aux_data=x", q)) != std::string::npos) { q += 10; size_t e = sh.find(';', q); if (((e - q) / 2) % 4 != 0) oor = true; } }   // aux data is counted in 32-bit words
            if (key == "ICMPv6.dns_search_list") oor = sh.find("\"\"") != std::string::npos;       // an empty name is the list terminator
            if (oor) { R.count("arguments_outside_wire_range"); s.depth--; return ""; }
        }
        size_t raw0 = g_raw ? g_raw->count(*s.o) : 0;
        int ok = sd.apply(*s.o, op.b);
        size_t raw1 = g_raw ? g_raw->count(*s.o) : 0;
        auto after = snapshot(*s.o);
        if (!ok) {
            if (after != before) return "api:rejected-but-changed:" + key + "|";
        } else {
            // additive setters append an option: the typed getter then returns the FIRST matching option
            // variable-size header fields are not options: the last value wins
            static const char* sized[] = {"ICMPv6.multicast_address_records", "ICMPv6.sources", "RC4EAPOL.key", "RSNEAPOL.key", "IPSecAH.icv", "RTP.padding_size", 0};
            bool sized_field = false;
            for (int i = 0; sized[i]; ++i) if (key == sized[i]) sized_field = true;
            bool additive = !sized_field && (hdr_size(after) > hdr_size(before) || raw1 > raw0);
            std::string want = sd.shown(op.b);
            const std::string& was = before[key];
            bool had_match = !was.empty() && was.find("option_not_found") == std::string::npos && was.find("field_not_present") == std::string::npos;
            if (additive && had_match) want = was;
            bool derived = always_derived(key) || protocol_tag(key) || size_key(key);
            for (auto it = s.expect.begin(); it != s.expect.end();) { if (it->first != key && related(it->first, key)) it = s.expect.erase(it); else ++it; }
            if (!derived) {
                bool match = after[key] == want || equal_modulo_padding(want, after[key]);
                // an earlier RAW option of the same type (possibly undecodable) is the first match: the getter legitimately does not move
                if (!match && additive && raw0 > 0 && after[key] == was) match = true;
                // scalar exactness (truncation of over-wide values) is C15's subject; empty containers that the decoder refuses are outside the
                // representable domain of the option formats
                if (!match && sd.scalar) { R.count("scalar_mismatch_left_to_C15"); want = after[key]; match = true; }
                if (!match && has_empty_container(sd.shown(op.b)) && after[key].size() && after[key][0] == '!') { R.count("unrepresentable_empty_values"); s.o.reset(g_make()); s.expect.clear(); return ""; }
                if (!match) return "api:getter-after-setter:" + key + "|set " + sd.shown(op.b).substr(0, 250) + " getter " + after[key].substr(0, 250) + (additive ? " (option added)" : "");
                for (auto it = s.expect.begin(); it != s.expect.end();) { if (it->first != key && related(it->first, key)) it = s.expect.erase(it); else ++it; }
                s.expect[key] = after[key];
            }
            for (auto& kv : before) {
                if (related(kv.first, key) || size_key(kv.first) || list_key(kv.first) || always_derived(kv.first)) continue;
                if (after[kv.first] != kv.second) return "api:disturbs:" + key + "->" + kv.first + "|" + kv.first + " changed from " + kv.second.substr(0, 120) + " to " + after[kv.first].substr(0, 120);
            }
        }
    } else if (op.kind == 1) {
        size_t n0 = g_raw->count(*s.o);
        bool had = g_raw->search_at_type(*s.o, op.a);
        g_raw->add(*s.o, op.a, op.b);
        if (g_raw->count(*s.o) != n0 + 1) return "api:add-option-count:" + g_cls + "|";
        if (!g_raw->search_at_type(*s.o, op.a)) return "api:added-option-not-found:" + g_cls + "|";
        (void)had;
        // typed expectations may be invalidated only for getters that had nothing before: drop expectations of keys that threw before
        auto after = snapshot(*s.o);
        for (auto& kv : before) if (kv.second.size() && kv.second[0] != '!' && !size_key(kv.first) && !list_key(kv.first) && after[kv.first] != kv.second)
            return "api:raw-add-disturbs:" + kv.first + "|" + kv.second.substr(0, 120) + " -> " + after[kv.first].substr(0, 120);
    } else {
        size_t n0 = g_raw->count(*s.o);
        if ((size_t)op.a >= n0) return "";
        std::string list_before;
        for (auto& kv : before) if (list_key(kv.first) && kv.second.size() > 2 && kv.second.compare(0, 5, "[opt(") == 0) list_before = kv.second;
        bool ok = g_raw->remove_at(*s.o, op.a);
        if (!ok || g_raw->count(*s.o) != n0 - 1) return "api:remove-option:" + g_cls + "|remove_option returned " + std::to_string(ok) + " count " + std::to_string(n0) + " -> " + std::to_string(g_raw->count(*s.o));
        s.expect.clear(); s.added.clear();     // the wire round trip is the oracle after removals (first-match bookkeeping restarts)
        // the surviving options keep their order and bytes: expected list = old list minus the first option of the removed option's type
        if (!list_before.empty()) {
            std::vector<std::string> el; int depth = 0; std::string cur;
            for (size_t i = 1; i + 1 < list_before.size(); ++i) { char ch = list_before[i]; if (ch == '(' || ch == '{' || ch == '[') ++depth; if (ch == ')' || ch == '}' || ch == ']') --depth;
                if (ch == ',' && depth == 0) { el.push_back(cur); cur.clear(); } else cur += ch; }
            if (!cur.empty()) el.push_back(cur);
            if ((size_t)op.a < el.size()) {
                std::string type = el[op.a].substr(0, el[op.a].find(",len="));
                for (size_t j = 0; j < el.size(); ++j) if (el[j].substr(0, el[j].find(",len=")) == type) { el.erase(el.begin() + j); break; }
                std::string want = "[";
                for (size_t j = 0; j < el.size(); ++j) want += (j ? "," : "") + el[j];
                want += "]";
                auto after = snapshot(*s.o);
                for (auto& kv : after) if (list_key(kv.first) && before.count(kv.first) && before[kv.first] == list_before && kv.second != want)
                    return "api:remove-option-order:" + g_cls + "|options after removal " + kv.second.substr(0, 200) + " expected " + want.substr(0, 200);
            }
        }
    }
    // every remembered expectation still holds
    auto now = snapshot(*s.o);
    for (auto& kv : s.expect) if (now[kv.first] != kv.second && !always_derived(kv.first) && !protocol_tag(kv.first)) return "api:earlier-value-lost:" + kv.first + "|expected " + kv.second.substr(0, 200) + " now " + now[kv.first].substr(0, 200);
    return wire_check(s);
}

template <class Q> PDU* make_q() { return make_default((Q*)0); }
template <class Q> PDU* parse_q(const uint8_t* p, uint32_t n) { return new Q(p, n); }
inline PDU* parse_eapol(const uint8_t* p, uint32_t n) { return EAPOL::from_bytes(p, n); }

struct ClassCfg { std::string name; PDU* (*make)(); PDU* (*parse)(const uint8_t*, uint32_t); RawOps raw; bool has_raw; std::vector<std::string> applicable; std::vector<std::string> exclude_setters; bool preload; };

static std::vector<ClassCfg> classes() {
    std::vector<ClassCfg> v;
    RawOps none = RawOps();
#define CLS(Q) v.push_back(ClassCfg{#Q, &make_q<Q>, &parse_q<Q>, none, false, {}, {}, false});
#define CLSR(Q, Opt, CtorT, Type, ...) v.push_back(ClassCfg{#Q, &make_q<Q>, &parse_q<Q>, raw_ops<Q, Opt, CtorT, Type>(std::vector<int>(__VA_ARGS__)), true, {}, {}, false});
    CLSR(TCP, TCP::option, TCP::OptionTypes, TCP::OptionTypes, {2, 34, 254})
    CLSR(IP, IP::option, IP::option_identifier, IP::option_identifier, {0x88, 0x07, 0x94})
    v.push_back(ClassCfg{"ICMPv6", []() -> PDU* { return new ICMPv6(ICMPv6::NEIGHBOUR_SOLICIT); }, &parse_q<ICMPv6>, raw_ops<ICMPv6, ICMPv6::option, uint8_t, ICMPv6::OptionTypes>({1, 5, 200}), true,
                         {"ICMPv6.target_addr", "ICMPv6.options"}, {"type"}});
    v.push_back(ClassCfg{"ICMPv6", []() -> PDU* { return new ICMPv6(ICMPv6::ROUTER_ADVERT); }, &parse_q<ICMPv6>, RawOps(), false,
                         {"ICMPv6.reachable_time", "ICMPv6.retransmit_timer", "ICMPv6.options"}, {"type"}});
    v.push_back(ClassCfg{"ICMPv6", []() -> PDU* { return new ICMPv6(ICMPv6::REDIRECT); }, &parse_q<ICMPv6>, RawOps(), false,
                         {"ICMPv6.target_addr", "ICMPv6.dest_addr", "ICMPv6.options"}, {"type"}});
    v.push_back(ClassCfg{"ICMPv6", []() -> PDU* { return new ICMPv6(ICMPv6::MGM_QUERY); }, &parse_q<ICMPv6>, RawOps(), false,
                         {"ICMPv6.multicast_addr", "ICMPv6.sources", "ICMPv6.qqic", "ICMPv6.qrv", "ICMPv6.supress"}, {"type"}});
    v.push_back(ClassCfg{"ICMPv6", []() -> PDU* { return new ICMPv6(ICMPv6::MLD2_REPORT); }, &parse_q<ICMPv6>, RawOps(), false,
                         {"ICMPv6.multicast_address_records"}, {"type", "sequence", "router_lifetime"}});
    v.push_back(ClassCfg{"ICMPv6", []() -> PDU* { return new ICMPv6(ICMPv6::ECHO_REQUEST); }, &parse_q<ICMPv6>, RawOps(), false, {}, {}});
    v.push_back(ClassCfg{"ICMP", []() -> PDU* { return new ICMP(ICMP::TIMESTAMP_REQUEST); }, &parse_q<ICMP>, RawOps(), false,
                         {"ICMP.original_timestamp", "ICMP.receive_timestamp", "ICMP.transmit_timestamp"}, {"type"}});
    v.push_back(ClassCfg{"ICMP", []() -> PDU* { return new ICMP(ICMP::ADDRESS_MASK_REQUEST); }, &parse_q<ICMP>, RawOps(), false, {"ICMP.address_mask"}, {"type"}});
    v.push_back(ClassCfg{"DHCPv6", []() -> PDU* { DHCPv6* d = new DHCPv6(); d->msg_type(DHCPv6::RELAY_FORWARD); return d; }, &parse_q<DHCPv6>, RawOps(), false,
                         {"DHCPv6.peer_address", "DHCPv6.link_address", "DHCPv6.hop_count"}, {"msg_type"}});
    v.push_back(ClassCfg{"Dot11Data", []() -> PDU* { Dot11Data* d = new Dot11Data(); d->to_ds(1); d->from_ds(1); return d; }, &parse_q<Dot11Data>, RawOps(), false,
                         {"Dot11Data.addr4"}, {"to_ds", "from_ds"}});
    v.push_back(ClassCfg{"PPPoE", []() -> PDU* { PPPoE* p = new PPPoE(); p->code(0x09); return p; }, &parse_q<PPPoE>, RawOps(), false, {}, {"code"}});
    v.push_back(ClassCfg{"RadioTap", []() -> PDU* { RadioTap* r = new RadioTap(); r->inner_pdu(new Dot11Ack()); return r; }, &parse_q<RadioTap>, RawOps(), false, {}, {}});
    CLSR(DHCP, DHCP::option, uint8_t, DHCP::OptionTypes, {53, 12, 43})
    CLSR(DHCPv6, DHCPv6::option, uint16_t, DHCPv6::OptionTypes, {1, 8, 17})
    CLSR(Dot11Beacon, Dot11::option, uint8_t, Dot11::OptionTypes, {0, 3, 221})
    CLSR(Dot11ProbeResponse, Dot11::option, uint8_t, Dot11::OptionTypes, {0, 3, 221})
    CLSR(Dot11AssocRequest, Dot11::option, uint8_t, Dot11::OptionTypes, {0, 1, 221})
    CLS(EthernetII) CLS(Dot3) CLS(LLC) CLS(SNAP) CLS(Dot1Q) CLS(SLL) CLS(Loopback) CLS(MPLS) CLS(ARP) CLS(IPv6) CLS(IPSecAH) CLS(IPSecESP)
    CLS(UDP) CLS(ICMP) CLS(DNS) CLS(BootP) CLS(RTP) CLS(VXLAN) CLS(STP) CLS(RSNEAPOL) CLS(RC4EAPOL)
    CLS(Dot11Data) CLS(Dot11QoSData) CLS(Dot11Authentication) CLS(Dot11Deauthentication) CLS(Dot11Disassoc) CLS(Dot11ProbeRequest) CLS(Dot11AssocResponse)
    CLS(Dot11ReAssocRequest) CLS(Dot11ReAssocResponse) CLS(Dot11RTS) CLS(Dot11PSPoll) CLS(Dot11CFEnd) CLS(Dot11EndCFAck) CLS(Dot11Ack) CLS(Dot11BlockAck) CLS(Dot11BlockAckRequest)
    // the option-carrying classes again, starting from an object that already holds four raw options
    { size_t n = v.size(); for (size_t i = 0; i < n; ++i) if (v[i].has_raw) { ClassCfg c = v[i]; c.preload = true; v.push_back(c); } }
    {   // IPv6 extension headers: add_header / search_header (there is no removal); data sizes 6 mod 8 fill the 8-octet unit exactly, 7 mod 8
        // is the one residue where the padded size and the data size give different unit counts
        RawOps r;
        r.applies = [](PDU& p) { return dynamic_cast<IPv6*>(&p) != 0; };
        r.count = [](PDU& p) { return (size_t)static_cast<IPv6&>(p).headers().size(); };
        r.add = [](PDU& p, int ts, int len) { static const int ty[3] = {IPv6::HOP_BY_HOP, IPv6::DESTINATION_OPTIONS, IPv6::ROUTING};
                                               static_cast<IPv6&>(p).add_header(IPv6::ext_header((uint8_t)ty[ts % 3], len, g_data.data())); };
        r.remove_at = [](PDU&, size_t) { return false; };
        r.search_at_type = [](PDU& p, int ts) { static const int ty[3] = {IPv6::HOP_BY_HOP, IPv6::DESTINATION_OPTIONS, IPv6::ROUTING};
                                                return static_cast<IPv6&>(p).search_header((IPv6::ExtensionHeader)ty[ts % 3]) != 0; };
        v.push_back(ClassCfg{"IPv6", &make_q<IPv6>, &parse_q<IPv6>, r, true, {}, {}, false});
        v.push_back(ClassCfg{"IPv6", &make_q<IPv6>, &parse_q<IPv6>, r, true, {}, {}, true});
    }
    // error messages that carry an RFC 4884 extension structure, a quoted datagram and the length octet: the rest-of-header fields (Next-Hop
    // MTU, pointer) share their octets with the derived length; setting them must still reach the wire when the extension machinery is active
    v.push_back(ClassCfg{"ICMP", []() -> PDU* { ICMP* i = new ICMP(ICMP::DEST_UNREACHABLE); i->code(4); i->extensions().add_extension(ICMPExtension(1, 1));
                             i->use_length_field(true); i->inner_pdu(IP("2.2.2.2", "1.1.1.1") / UDP(7, 9) / RawPDU(pattern(9))); return i; },
                         &parse_q<ICMP>, RawOps(), false, {}, {"type"}});
    v.push_back(ClassCfg{"ICMP", []() -> PDU* { ICMP* i = new ICMP(ICMP::PARAM_PROBLEM); i->extensions().add_extension(ICMPExtension(1, 1));
                             i->inner_pdu(IP("2.2.2.2", "1.1.1.1") / UDP(7, 9) / RawPDU(pattern(140))); return i; },
                         &parse_q<ICMP>, RawOps(), false, {}, {"type"}});
    // MLDv2 report pre-loaded with a record whose auxiliary data exceeds 255 bytes (Aux Data Len counts 32-bit words, up to 1020 bytes)
    // followed by a second record: the parser has to find the second record behind the first one's auxiliary data
    v.push_back(ClassCfg{"ICMPv6", []() -> PDU* { ICMPv6* c = new ICMPv6(ICMPv6::MLD2_REPORT); ICMPv6::multicast_address_records_list l;
                             ICMPv6::multicast_address_record r; r.type = 2; r.multicast_address = "ff02::16"; r.aux_data = pattern(300, 0x36); l.push_back(r);
                             r.type = 1; r.sources.push_back("2001:db8::5"); r.aux_data = pattern(8, 0x37); l.push_back(r);
                             c->multicast_address_records(l); return c; },
                         &parse_q<ICMPv6>, RawOps(), false, {"ICMPv6.multicast_address_records"}, {"type", "sequence", "router_lifetime", "multicast_address_records"}});
    return v;
}

static void run_class(const ClassCfg& c, int variant, int maxdepth, const std::string* rp = 0, std::string* rerr = 0) {
    g_cls = c.name; g_make = c.make; g_parse = c.parse; g_preload = c.preload;
    mc::dom::large_blobs() = (c.name == "DHCPv6" || c.name == "PPPoE");     // option / tag lengths are 16 bits wide: 300-byte blobs are representable
    static RawOps raw; raw = c.raw; g_raw = c.has_raw ? &raw : 0;
    std::unique_ptr<PDU> probe(c.make());
    if (!probe) return;
    g_setters.clear();
    g_applicable.clear();
    for (auto& a : c.applicable) g_applicable.insert(a);
    for (auto& sd : setter_table()) {
        if (!sd.applies(*probe)) continue;
        bool ex = (sd.cls == "BootP" && sd.name == "vend");        // opaque vendor area: its size is a parse-time parameter
        for (auto& e : c.exclude_setters) if (sd.name == e) ex = true;
        if (!ex) g_setters.push_back(sd);
    }
    Explorer<S, Op> ex;
    for (size_t i = 0; i < g_setters.size(); ++i) for (int k = 0; k < g_setters[i].ns; ++k) ex.alphabet.push_back(Op{0, (int)i, k});
    g_rawlens = (c.name == "ICMPv6") ? std::vector<int>{6, 14, 22} : (c.name == "IPv6") ? std::vector<int>{6, 7, 15, 22} : std::vector<int>{0, 3, 9, 12};   // 9 and 12: two different sizes above PDUOption's 8-byte inline buffer   // ND options are whole multiples of 8 octets
    if (g_raw) { for (int t = 0; t < 3; ++t) for (int len : g_rawlens) ex.alphabet.push_back(Op{1, t, len}); if (c.name != "IPv6") { ex.alphabet.push_back(Op{2, 0, 0}); ex.alphabet.push_back(Op{2, 1, 0}); } }
    ex.context = "class=" + c.name + " variant=" + std::to_string(variant) + " depth=" + std::to_string(maxdepth);
    ex.op_str = [](const Op& o) { return o.kind == 0 ? g_setters[o.a].name + "#" + std::to_string(o.b) : o.kind == 1 ? "add" + std::to_string(o.a) + "." + std::to_string(o.b) : "rem" + std::to_string(o.a); };
    ex.init = []() { S s; s.o.reset(g_make()); if (g_preload && g_raw) { g_raw->add(*s.o, 0, g_rawlens[1]); g_raw->add(*s.o, 1, g_rawlens[2]); g_raw->add(*s.o, 2, g_rawlens.back()); g_raw->add(*s.o, 0, g_rawlens[0]); } return s; };
    ex.canon = [](const S& s) { std::string o; for (auto& kv : snapshot(*s.o)) o += kv.first + "=" + kv.second + ";"; for (auto& kv : s.expect) o += kv.first + ">" + kv.second; return o; };
    // deeper levels use fewer samples per setter (deviation bound on the argument domain)
    ex.enabled = [](const S& s, const Op& o) { if (o.kind != 0) return true; int d = s.depth < 3 ? s.depth : 3; return o.b < g_kmax[d]; };
    ex.step = step;
    ex.max_depth = maxdepth;
    ex.replay_check = false;
    ex.nontrivial = [](const S& s) { return !s.expect.empty(); };
    if (rp) { *rerr = ex.replay(*rp); return; }
    bool ok = ex.run();
    R.count("classes");
    if (ok) R.count("classes_completed");
}

// ---- RTP: add_csrc_id / remove_csrc_id / add_extension_data / remove_extension_data have no same-named getter, so they are not in the
// generated setter table; a small BFS of its own against two plain lists (identifiers may repeat: removal takes the FIRST match only).
struct RtpOp { int kind; uint32_t v; };   // 0 add csrc, 1 remove csrc, 2 add ext, 3 remove ext
struct SR { RTP o; std::vector<uint32_t> cs, ex; };
static void run_rtp(const std::string* rp = 0, std::string* rerr = 0) {
    Explorer<SR, RtpOp> ex;
    for (uint32_t v : {7u, 0x01020304u}) { ex.alphabet.push_back(RtpOp{0, v}); ex.alphabet.push_back(RtpOp{2, v}); }
    for (uint32_t v : {7u, 0x01020304u, 5u}) { ex.alphabet.push_back(RtpOp{1, v}); ex.alphabet.push_back(RtpOp{3, v}); }
    ex.context = "variant=rtp depth=0";
    ex.op_str = [](const RtpOp& o) { static const char* n[] = {"addc", "remc", "adde", "reme"}; return std::string(n[o.kind]) + std::to_string(o.v); };
    ex.init = []() { return SR(); };
    ex.canon = [](const SR& s) { std::string c; for (uint32_t v : s.cs) c += std::to_string(v) + ","; c += "|"; for (uint32_t v : s.ex) c += std::to_string(v) + ","; return c + "|" + std::to_string((int)s.o.extension_bit()); };
    ex.enabled = [](const SR& s, const RtpOp& o) { return !(o.kind == 0 && s.cs.size() >= 3) && !(o.kind == 2 && s.ex.size() >= 3); };
    ex.nontrivial = [](const SR& s) { return s.cs.size() + s.ex.size() >= 2; };
    ex.step = [](SR& s, const RtpOp& o) -> std::string {
        auto erase_first = [](std::vector<uint32_t>& l, uint32_t v) { auto it = std::find(l.begin(), l.end(), v); if (it == l.end()) return false; l.erase(it); return true; };
        if (o.kind == 0) { s.o.add_csrc_id(o.v); s.cs.push_back(o.v); }
        else if (o.kind == 2) { s.o.add_extension_data(o.v); s.ex.push_back(o.v); }
        else if (o.kind == 1) { bool want = erase_first(s.cs, o.v), got = s.o.remove_csrc_id(o.v); if (want != got) return "api:rtp:remove-csrc-result|returned " + std::to_string(got); }
        else { bool want = erase_first(s.ex, o.v), got = s.o.remove_extension_data(o.v); if (want != got) return "api:rtp:remove-extension-result|returned " + std::to_string(got); }
        auto same = [](const std::vector<uint32_t>& got, const std::vector<uint32_t>& want) { if (got.size() != want.size()) return false; for (size_t i = 0; i < got.size(); ++i) if (Endian::be_to_host(got[i]) != want[i]) return false; return true; };
        auto judge = [&](RTP& r, const char* where) -> std::string {
            std::vector<uint32_t> c(r.csrc_ids().begin(), r.csrc_ids().end());
            if (!same(c, s.cs)) return std::string("api:rtp:csrc-list|") + where + ": " + std::to_string(c.size()) + " identifiers, model has " + std::to_string(s.cs.size());
            if ((size_t)r.csrc_count() != s.cs.size()) return std::string("api:rtp:csrc-count|") + where + ": csrc_count " + std::to_string((int)r.csrc_count()) + ", model " + std::to_string(s.cs.size());
            for (uint32_t v : {7u, 0x01020304u, 5u}) if (r.search_csrc_id(v) != (std::find(s.cs.begin(), s.cs.end(), v) != s.cs.end())) return std::string("api:rtp:search-csrc|") + where;
            if (r.extension_bit()) {
                std::vector<uint32_t> e(r.extension_data().begin(), r.extension_data().end());
                if (!same(e, s.ex)) return std::string("api:rtp:extension-data|") + where;
                if ((size_t)r.extension_length() != s.ex.size()) return std::string("api:rtp:extension-length|") + where;
            } else if (!s.ex.empty()) return std::string("api:rtp:extension-bit-clear-with-data|") + where;
            uint32_t hs = 12 + 4 * (uint32_t)s.cs.size() + (r.extension_bit() ? 4 + 4 * (uint32_t)s.ex.size() : 0);
            if (r.header_size() != hs) return std::string("api:rtp:header-size|") + where + ": " + std::to_string(r.header_size()) + " instead of " + std::to_string(hs);
            return "";
        };
        std::string e = judge(s.o, "object");
        if (!e.empty()) return e;
        RTP c(s.o); c.inner_pdu(RawPDU(pattern(5, 0x31)));
        Bytes y = c.serialize();
        if (y.size() != c.size()) return "api:rtp:size|serialization has " + std::to_string(y.size()) + " bytes, size() " + std::to_string(c.size());
        try { RTP q(y.data(), (uint32_t)y.size());
              e = judge(q, "re-parsed");
              if (!e.empty()) return "wire:" + e.substr(4) + " wire=" + hex(y);
              const RawPDU* rw = q.find_pdu<RawPDU>();
              if (!rw || rw->payload() != pattern(5, 0x31)) return "wire:rtp:payload|payload changed through the wire: " + hex(y);
        } catch (malformed_packet&) { return "wire:own-serialization-rejected:RTP|" + hex(y); }
        R.count("wire_roundtrips");
        return "";
    };
    if (rp) { *rerr = ex.replay(*rp); return; }
    if (ex.run()) R.count("rtp_list_bfs_to_fixpoint");
}

int main(int argc, char** argv) {
    const int NJ = 64;
    return run_main(argc, argv, NJ, NJ,
        [&](int job) {
            auto cs = classes();
            if (job == NJ - 1) run_rtp();
            for (size_t i = job; i < cs.size(); i += NJ) {
                // quick: depth 2 (all samples, then 2). thorough: small classes depth 3 (all, 2, 1); classes with many setters depth 2 (all, 4)
                int depth = 2; g_kmax[0] = 1000; g_kmax[1] = 2; g_kmax[2] = 1;
                if (A.thorough()) {
                    std::unique_ptr<PDU> probe(cs[i].make());
                    size_t nset = 0;
                    if (probe) for (auto& sd : setter_table()) if (sd.applies(*probe)) ++nset;
                    if (nset <= 24) depth = 3; else g_kmax[1] = 4;
                }
                {   // zero edits: the state of a freshly built object is a function of the constructor, not of what the memory held before
                    g_new_fill_on = true; g_new_fill = 0xa5; std::unique_ptr<PDU> fa(cs[i].make());
                    g_new_fill = 0x3c; std::unique_ptr<PDU> fb(cs[i].make()); g_new_fill_on = false;
                    if (fa && fb) {
                        R.count("default_objects_compared");
                        auto sa = snapshot(*fa), sb = snapshot(*fb);
                        for (auto& kv : sa) if (sb[kv.first] != kv.second) { R.violation("api:default-state-indeterminate:" + kv.first, kv.first + " of a default-constructed object reads " + kv.second + " or " + sb[kv.first] + " depending on the previous content of its memory", "variant=" + std::to_string(i) + " depth=0 ops="); break; }
                        if (!needs_environment(*fa)) {
                            Bytes ya, yb; bool ok = true;
                            try { ya = fa->serialize(); yb = fb->serialize(); } catch (std::exception& e_) { if (!mc::tins_exc(e_)) throw; ok = false; }
                            if (ok && ya != yb) R.violation("api:default-serialization-indeterminate:" + cs[i].name, hex(ya).substr(0, 200) + " vs " + hex(yb).substr(0, 200), "variant=" + std::to_string(i) + " depth=0 ops=");
                        }
                    }
                }
                run_class(cs[i], (int)i, depth); if (deadline_reached()) { R.flags["exhaustive"] = false; break; } }
        },
        [&](const std::string& kase) -> int {
            auto kv = parse_kv(kase);
            if (kv["variant"] == "rtp") { std::string err, ops = kv["ops"]; run_rtp(&ops, &err); if (!err.empty()) { printf("violation reproduced: %s\n", err.c_str()); return 1; } printf("history replayed, all invariants hold\n"); return 0; }
            auto cs = classes();
            size_t vi = (size_t)atoi(kv["variant"].c_str());
            if (vi < cs.size()) { const ClassCfg& c = cs[vi];
                std::string err, ops = kv["ops"];
                g_kmax[1] = 4; g_kmax[2] = 2;
                run_class(c, (int)vi, atoi(kv["depth"].c_str()), &ops, &err);
                if (!err.empty()) { printf("violation reproduced: %s\n", err.c_str()); return 1; }
                printf("history replayed, all invariants hold\n");
                return 0;
            }
            return 2;
        });
}
