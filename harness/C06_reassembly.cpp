// C06 — TCP stream reassembly delivers exactly the sent byte stream.
// Explicit-state BFS over the real DataTracker / Flow / legacy TCPStream, in lock-step with
// a coverage-bitmask reference model; explored to fixpoint per (level, ISN).
#include "explore.hpp"
#include <tins/tins.h>
#include <tins/tcp_ip/data_tracker.h>
#include <tins/tcp_ip/flow.h>
#include <tins/tcp_stream.h>

using namespace Tins;
using namespace mc;

static int L = 6;                      // stream length
struct Seg { int off, len; };          // off may be negative (bytes before the ISN)
static uint8_t stream_byte(int pos) { return pos >= 0 ? uint8_t(0x10 + pos) : uint8_t(0xE0u - (unsigned)pos); }
static std::vector<uint8_t> seg_bytes(const Seg& s) {
    std::vector<uint8_t> v;
    for (int i = 0; i < s.len; ++i) v.push_back(stream_byte(s.off + i));
    return v;
}

// reference: which stream positions have arrived
struct Model {
    uint32_t mask = 0;
    int k() const { int k = 0; while (k < L && (mask >> k & 1)) ++k; return k; }
    void add(const Seg& s) { for (int i = 0; i < s.len; ++i) if (s.off + i >= 0 && s.off + i < L) mask |= 1u << (s.off + i); }
};

static std::vector<Seg> make_alphabet() {
    std::vector<Seg> a;
    for (int len = 1; len <= L; ++len)
        for (int off = 0; off + len <= L; ++off) a.push_back(Seg{off, len});
    // stale segments wholly before the ISN, one ending exactly at the ISN, and straddling ones
    a.push_back(Seg{-1, 1}); a.push_back(Seg{-2, 1}); a.push_back(Seg{-2, 2});
    a.push_back(Seg{-1, 2}); a.push_back(Seg{-1, 3}); a.push_back(Seg{-2, L + 2});
    // far behind the ISN but still within half the sequence space: 2^30 + 5 and 2^31 - 9 positions before it
    a.push_back(Seg{-(1 << 30) - 5, 3}); a.push_back(Seg{-0x7ffffff7, 2});
    return a;
}
static std::string seg_str(const Seg& s) { return str(s.off) + "+" + str(s.len); }

// common invariant evaluation given what the implementation exposes
static std::string check_common(uint32_t isn, const Model& m, const std::vector<uint8_t>& delivered, uint32_t seq_now,
                                const std::vector<std::pair<uint32_t, std::vector<uint8_t> > >& chunks,
                                long total_buffered /* -1: not exposed */, const char* lvl) {
    int k = m.k();
    std::string L_ = std::string(lvl);
    // (1) delivered == s[0:k], each byte once
    if ((int)delivered.size() != k) {
        return "reassembly:" + L_ + (delivered.size() < (size_t)k ? ":delivery-late" : ":delivered-too-much") +
               "|delivered " + str(delivered.size()) + " bytes, contiguous prefix arrived " + str(k);
    }
    for (int i = 0; i < k; ++i)
        if (delivered[i] != stream_byte(i)) return "reassembly:" + L_ + ":wrong-byte|delivered[" + str(i) + "] wrong";
    if (seq_now != isn + (uint32_t)k) return "reassembly:" + L_ + ":seq-number|sequence_number != ISN + delivered";
    // (2)(3)(4) buffered chunks
    long sum = 0;
    for (auto& c : chunks) {
        int32_t rel = (int32_t)(c.first - isn);
        sum += (long)c.second.size();
        if (rel <= k) return "reassembly:" + L_ + ":stale-chunk-buffered|chunk at rel " + str(rel) + " with delivery point " + str(k);
        for (size_t i = 0; i < c.second.size(); ++i) {
            int pos = rel + (int)i;
            if (pos >= L || c.second[i] != stream_byte(pos))
                return "reassembly:" + L_ + ":chunk-bytes|chunk at rel " + str(rel) + " holds bytes that are not s[off:off+len]";
            if (!(m.mask >> pos & 1)) return "reassembly:" + L_ + ":chunk-bytes|chunk holds byte never received";
        }
    }
    if (total_buffered >= 0 && total_buffered != sum)
        return "reassembly:" + L_ + ":buffered-count|total_buffered_bytes=" + str(total_buffered) + " but chunks hold " + str(sum);
    return "";
}

// ---------------------------------------------------------------- level a: DataTracker
struct SA { TCPIP::DataTracker t; Model m; };
// ---------------------------------------------------------------- level b: Flow with real packets + callbacks
struct SB { TCPIP::Flow f; Model m; std::vector<uint8_t> delivered; unsigned ooo_calls; };
static std::vector<uint8_t>* g_sink = 0;
static unsigned* g_ooo = 0;
// ---------------------------------------------------------------- level c: legacy follower
struct SC { TCPStreamFollower f; Model m; std::vector<uint8_t> delivered; };

// ---------------------------------------------------------------- level d: legacy follower, BOTH directions of one connection interleaved
struct Seg2 { int dir; Seg g; };
struct SD { TCPStreamFollower f; Model mc, ms; std::vector<uint8_t> dc, ds; };
static const uint32_t PAIRS[4][2] = {{1000u, 500000u}, {500000u, 1000u}, {0xfffffffeu, 0x10000000u}, {0x10000000u, 0xfffffffeu}};

static std::vector<uint32_t> isns(bool thorough) {
    std::vector<uint32_t> v = {0u, 1u, 0x7fffffffu, 0x80000000u, 0x80000001u, 1000u};
    for (int j = 0; j <= L + 2; ++j) v.push_back(0u - (uint32_t)j);
    (void)thorough;
    return v;
}

static std::string canon_chunks(uint32_t isn, const std::map<uint32_t, std::vector<uint8_t> >& b) {
    std::vector<std::pair<int32_t, size_t> > v;
    for (auto& kv : b) v.push_back(std::make_pair((int32_t)(kv.first - isn), kv.second.size()));
    std::sort(v.begin(), v.end());
    std::string s;
    for (auto& p : v) s += str(p.first) + ":" + str(p.second) + ";";
    return s;
}

static void run_level(char level, uint32_t isn, const std::string* rp = 0, std::string* rerr = 0) {
    std::string ctx = std::string("level=") + level + " L=" + str(L) + " isn=" + str(isn);
    auto alpha = make_alphabet();
    bool ok = true;
    if (level == 'a') {
        Explorer<SA, Seg> ex;
        ex.alphabet = alpha; ex.context = ctx; ex.op_str = seg_str;
        ex.init = [isn]() { return SA{TCPIP::DataTracker(isn), Model()}; };
        ex.canon = [isn](const SA& s) {
            return str(s.t.seq_number_ - isn) + "|" + canon_chunks(isn, s.t.buffered_payload_) + "|" +
                   str(s.t.total_buffered_bytes_) + "|" + str(s.t.payload_.size()) + "|" + str(s.m.mask);
        };
        ex.step = [isn](SA& s, const Seg& g) -> std::string {
            s.t.process_payload(isn + (uint32_t)g.off, seg_bytes(g));
            s.m.add(g);
            std::vector<std::pair<uint32_t, std::vector<uint8_t> > > ch(s.t.buffered_payload().begin(), s.t.buffered_payload().end());
            return check_common(isn, s.m, s.t.payload(), s.t.sequence_number(), ch, s.t.total_buffered_bytes(), "tracker");
        };
        ex.nontrivial = [](const SA& s) { return !s.t.buffered_payload_.empty(); };
        ex.observe = [isn](const SA& s) { return str(s.t.payload_.size()) + canon_chunks(isn, s.t.buffered_payload_); };
        if (rp) *rerr = ex.replay(*rp); else ok = ex.run();
    } else if (level == 'b') {
        Explorer<SB, Seg> ex;
        ex.alphabet = alpha; ex.context = ctx; ex.op_str = seg_str;
        ex.init = [isn]() {
            SB s{TCPIP::Flow(IPv4Address("10.0.0.2"), 80, isn), Model(), {}, 0};
            s.f.data_callback([](TCPIP::Flow& fl) {
                g_sink->insert(g_sink->end(), fl.payload().begin(), fl.payload().end());
                fl.payload().clear();
            });
            s.f.out_of_order_callback([](TCPIP::Flow&, uint32_t, const TCPIP::Flow::payload_type&) { ++*g_ooo; });
            return s;
        };
        ex.canon = [isn](const SB& s) {
            auto& t = s.f.data_tracker_;
            return str(t.seq_number_ - isn) + "|" + canon_chunks(isn, t.buffered_payload_) + "|" + str(t.total_buffered_bytes_) +
                   "|" + str(t.payload_.size()) + "|" + str(s.m.mask) + "|" + str(s.delivered.size());
        };
        ex.step = [isn](SB& s, const Seg& g) -> std::string {
            IP pkt = IP("10.0.0.2", "10.0.0.1") / TCP(80, 1025) / RawPDU(seg_bytes(g));
            pkt.rfind_pdu<TCP>().seq(isn + (uint32_t)g.off);
            g_sink = &s.delivered; g_ooo = &s.ooo_calls;
            s.f.process_packet(pkt);
            s.m.add(g);
            auto& t = s.f.data_tracker_;
            std::vector<std::pair<uint32_t, std::vector<uint8_t> > > ch(t.buffered_payload().begin(), t.buffered_payload().end());
            // bytes handed to the application = data-callback deliveries (payload cleared by the callback)
            if (!s.f.payload().empty()) return "reassembly:flow:payload-without-callback|Flow::payload() non-empty but no data callback";
            return check_common(isn, s.m, s.delivered, s.f.sequence_number(), ch, s.f.total_buffered_bytes(), "flow");
        };
        ex.nontrivial = [](const SB& s) { return !s.f.data_tracker_.buffered_payload_.empty(); };
        if (rp) *rerr = ex.replay(*rp); else ok = ex.run();
    } else {
        Explorer<SC, Seg> ex;
        ex.alphabet = alpha; ex.context = ctx; ex.op_str = seg_str;
        auto feed = [](SC& s, IP& pkt) {
            std::vector<uint8_t>* d = &s.delivered;
            auto data_fun = [d](TCPStream& st) {
                d->insert(d->end(), st.client_payload().begin(), st.client_payload().end());
                st.client_payload().clear();
            };
            auto end_fun = [](TCPStream&) {};
            s.f.callback(pkt, data_fun, end_fun);
        };
        ex.init = [isn, feed]() {
            SC s;
            IP syn = IP("10.0.0.2", "10.0.0.1") / TCP(80, 1025);
            syn.rfind_pdu<TCP>().flags(TCP::SYN); syn.rfind_pdu<TCP>().seq(isn - 1);
            feed(s, syn);
            IP synack = IP("10.0.0.1", "10.0.0.2") / TCP(1025, 80);
            synack.rfind_pdu<TCP>().flags(TCP::SYN | TCP::ACK); synack.rfind_pdu<TCP>().seq(7777); synack.rfind_pdu<TCP>().ack_seq(isn);
            feed(s, synack);
            return s;
        };
        auto frag_canon = [isn](const SC& s) {
            std::string o;
            if (s.f.sessions_.empty()) return std::string("<no session>");
            const TCPStream& st = s.f.sessions_.begin()->second;
            std::vector<std::pair<int32_t, size_t> > v;
            for (auto& kv : st.client_frags_) v.push_back(std::make_pair((int32_t)(kv.first - isn), (size_t)kv.second->payload_size()));
            std::sort(v.begin(), v.end());
            for (auto& p : v) o += str(p.first) + ":" + str(p.second) + ";";
            return str(st.client_seq_ - isn) + "|" + o + "|" + str(st.client_payload_.size());
        };
        ex.canon = [frag_canon](const SC& s) { return frag_canon(s) + "|" + str(s.m.mask) + "|" + str(s.delivered.size()); };
        ex.step = [isn, feed](SC& s, const Seg& g) -> std::string {
            IP pkt = IP("10.0.0.2", "10.0.0.1") / TCP(80, 1025) / RawPDU(seg_bytes(g));
            pkt.rfind_pdu<TCP>().seq(isn + (uint32_t)g.off);
            pkt.rfind_pdu<TCP>().flags(TCP::ACK);
            feed(s, pkt);
            s.m.add(g);
            if (s.f.sessions_.size() != 1) return "reassembly:legacy:session-lost|session count " + str(s.f.sessions_.size());
            const TCPStream& st = s.f.sessions_.begin()->second;
            std::vector<std::pair<uint32_t, std::vector<uint8_t> > > ch;
            for (auto& kv : st.client_frags_) ch.push_back(std::make_pair(kv.first, kv.second->payload()));
            return check_common(isn, s.m, s.delivered, st.client_seq_, ch, -1, "legacy");
        };
        ex.nontrivial = [](const SC& s) { return !s.f.sessions_.empty() && !s.f.sessions_.begin()->second.client_frags_.empty(); };
        if (rp) *rerr = ex.replay(*rp); else ok = ex.run();
    }
    if (rp) return;
    if (ok) R.count("configurations_to_fixpoint");
    R.count("configurations");
}

static void run_both(int pair, const std::string* rp = 0, std::string* rerr = 0) {
    const uint32_t cisn = PAIRS[pair][0], sisn = PAIRS[pair][1];
    const int LD = A.thorough() ? 5 : 4;
    std::string ctx = std::string("level=d L=") + str(L) + " pair=" + str(pair);
    Explorer<SD, Seg2> ex;
    for (int dir = 0; dir < 2; ++dir) {
        for (int len = 1; len <= LD; ++len) for (int off = 0; off + len <= LD; ++off) ex.alphabet.push_back(Seg2{dir, Seg{off, len}});
        ex.alphabet.push_back(Seg2{dir, Seg{-1, 2}});
    }
    ex.context = ctx;
    ex.op_str = [](const Seg2& e) { return std::string(e.dir ? "s" : "c") + seg_str(e.g); };
    auto feed = [](SD& s, IP& pkt) {
        std::vector<uint8_t>* dc = &s.dc; std::vector<uint8_t>* ds = &s.ds;
        auto data_fun = [dc, ds](TCPStream& st) {
            dc->insert(dc->end(), st.client_payload().begin(), st.client_payload().end()); st.client_payload().clear();
            ds->insert(ds->end(), st.server_payload().begin(), st.server_payload().end()); st.server_payload().clear();
        };
        auto end_fun = [](TCPStream&) {};
        s.f.callback(pkt, data_fun, end_fun);
    };
    ex.init = [cisn, sisn, feed]() {
        SD s;
        IP syn = IP("10.0.0.2", "10.0.0.1") / TCP(80, 1025);
        syn.rfind_pdu<TCP>().flags(TCP::SYN); syn.rfind_pdu<TCP>().seq(cisn - 1);
        feed(s, syn);
        IP synack = IP("10.0.0.1", "10.0.0.2") / TCP(1025, 80);
        synack.rfind_pdu<TCP>().flags(TCP::SYN | TCP::ACK); synack.rfind_pdu<TCP>().seq(sisn - 1); synack.rfind_pdu<TCP>().ack_seq(cisn);
        feed(s, synack);
        return s;
    };
    auto side = [](uint32_t isn, uint32_t seq, const TCPStream::fragments_type& fr) {
        std::vector<std::pair<int32_t, size_t> > v;
        for (auto& kv : fr) v.push_back(std::make_pair((int32_t)(kv.first - isn), (size_t)kv.second->payload_size()));
        std::sort(v.begin(), v.end());
        std::string o = str(seq - isn) + "|";
        for (auto& p : v) o += str(p.first) + ":" + str(p.second) + ";";
        return o;
    };
    ex.canon = [cisn, sisn, side](const SD& s) {
        if (s.f.sessions_.empty()) return std::string("<no session>");
        const TCPStream& st = s.f.sessions_.begin()->second;
        return side(cisn, st.client_seq_, st.client_frags_) + "#" + side(sisn, st.server_seq_, st.server_frags_) + "#" + str(s.mc.mask) + "," + str(s.ms.mask) + "," +
               str(s.dc.size()) + "," + str(s.ds.size());
    };
    ex.step = [cisn, sisn, feed](SD& s, const Seg2& e) -> std::string {
        IP pkt = e.dir ? IP("10.0.0.1", "10.0.0.2") / TCP(1025, 80) / RawPDU(seg_bytes(e.g)) : IP("10.0.0.2", "10.0.0.1") / TCP(80, 1025) / RawPDU(seg_bytes(e.g));
        pkt.rfind_pdu<TCP>().seq((e.dir ? sisn : cisn) + (uint32_t)e.g.off);
        pkt.rfind_pdu<TCP>().flags(TCP::ACK);
        feed(s, pkt);
        (e.dir ? s.ms : s.mc).add(e.g);
        if (s.f.sessions_.size() != 1) return "reassembly:legacy2:session-lost|session count " + str(s.f.sessions_.size());
        const TCPStream& st = s.f.sessions_.begin()->second;
        std::vector<std::pair<uint32_t, std::vector<uint8_t> > > cc, cs;
        for (auto& kv : st.client_frags_) cc.push_back(std::make_pair(kv.first, kv.second->payload()));
        for (auto& kv : st.server_frags_) cs.push_back(std::make_pair(kv.first, kv.second->payload()));
        std::string r = check_common(cisn, s.mc, s.dc, st.client_seq_, cc, -1, "legacy2:client");
        if (r.empty()) r = check_common(sisn, s.ms, s.ds, st.server_seq_, cs, -1, "legacy2:server");
        return r;
    };
    ex.nontrivial = [](const SD& s) { return !s.f.sessions_.empty() && !s.f.sessions_.begin()->second.client_frags_.empty() && !s.f.sessions_.begin()->second.server_frags_.empty(); };
    bool ok = true;
    if (rp) { *rerr = ex.replay(*rp); return; }
    ok = ex.run();
    if (ok) R.count("configurations_to_fixpoint");
    R.count("configurations");
    R.count("two_direction_configurations");
}

struct Cfg { char level; uint32_t isn; };
static std::vector<Cfg> configs() {
    std::vector<Cfg> c;
    for (char lv : {'a', 'b', 'c'})
        for (uint32_t i : isns(A.thorough())) c.push_back(Cfg{lv, i});
    return c;
}

int main(int argc, char** argv) {
    for (int i = 1; i + 1 < argc; ++i) if (std::string(argv[i]) == "--tier" && std::string(argv[i + 1]) == "thorough") L = 8;
    if (getenv("C06_L")) L = atoi(getenv("C06_L"));
    int nq = 3 * (6 + 6 + 3) + 4, nt = 3 * (6 + 8 + 3) + 4;      // + 4 two-direction configurations of the legacy follower
    if (getenv("C06_L")) nq = nt = 3 * (6 + L + 3) + 4;
    return run_main(argc, argv, nq, nt,
        [](int job) {
            auto c = configs();
            if (job < (int)c.size()) run_level(c[job].level, c[job].isn);
            else if (job < (int)c.size() + 4) run_both(job - (int)c.size());
            R.maxv("completed_bound_L", L);
        },
        [](const std::string& kase) -> int {
            auto kv = parse_kv(kase);
            L = atoi(kv["L"].c_str());
            uint32_t isn = (uint32_t)strtoul(kv["isn"].c_str(), 0, 10);
            std::string err, ops = kv["ops"];
            if (kv["level"] == "d") { A.tier = L > 6 ? "thorough" : "quick"; run_both(atoi(kv["pair"].c_str()), &ops, &err); }
            else run_level(kv["level"][0], isn, &ops, &err);
            if (!err.empty()) { printf("violation reproduced: %s\n", err.c_str()); return 1; }
            printf("history replayed, all invariants hold\n");
            return 0;
        });
}
