// C18 — Independent objects can be used from different threads without data races.
// Shape C (schedule exploration), trace build: libtins, the workload bodies and this file are compiled with
// -fsanitize-coverage=trace-loads,trace-stores: every load/store calls back into the tracer below.
//
//   stage 1  footprint independence: every workload is run alone in a fresh (forked) process, cold and warm; every access is
//            classified private (own stack / heap block allocated during the run) or shared-capable (everything else);
//            for every pair (Wi, Wj) incl. i == j: no byte written by one and accessed by the other  =>  all interleavings
//            are equivalent to the serial composition; one representative (finely interleaved) schedule is executed.
//   stage 2  for dependent pairs (and always for the canaries): real pthreads under a cooperative scheduler, scheduling
//            points = accesses to the conflict bytes + guard operations, ALL schedules with <= 2 preemptions, every one
//            executed in a fresh forked process (cold state); verdicts: race (two threads enabled at conflicting accesses
//            to the same byte) and result divergence (thread digest != sequential digest).
//   (stage 3, the free-running TSan pass, is harness/C18_tsan.cpp)
#include "common.hpp"
#include "C18_iface.hpp"
#include <cxxabi.h>
#include <arpa/inet.h>
#include <deque>
#include <netinet/in.h>
#include <dlfcn.h>
#include <elf.h>
#include <errno.h>
#include <link.h>
#include <locale>
#include <pthread.h>
#include <sched.h>
#include <semaphore.h>
#include <stdarg.h>
#include <sys/wait.h>
#include <algorithm>

// NOSAN: never instrumented and never inlined into an instrumented caller (inlined code would be instrumented there).
// NOSAN_INL: small helpers that are only called from NOSAN functions.
#define NOSAN __attribute__((no_sanitize("coverage"), noinline))
#define NOSAN_INL __attribute__((no_sanitize("coverage"))) inline

using namespace mc;

// ====================================================================== 0. thread-local switches
// t_in  : the tracer itself is running on this thread (callbacks from instrumented tracer code are ignored)
// t_role: 0 = not observed, 1 = stage-1 tracing thread, 2 = thread managed by the cooperative scheduler
static __thread int t_in = 0;
static __thread int t_role = 0;
static volatile int g_mode = 0;   // 0 off, 1 footprint recording, 2 scheduler

struct InGuard {
    int saved;
    NOSAN_INL InGuard() : saved(t_in) { t_in = 1; }
    NOSAN_INL ~InGuard() { t_in = saved; }
};

extern "C" {
void* __libc_malloc(size_t);
void __libc_free(void*);
void* __libc_calloc(size_t, size_t);
void* __libc_realloc(void*, size_t);
void* __libc_memalign(size_t, size_t);
int __vsnprintf_chk(char*, size_t, int, size_t, const char*, va_list);
}

template <class T>
struct LibcAlloc {            // allocator for the tracer's own containers: bypasses the interposed malloc
    typedef T value_type;
    LibcAlloc() {}
    template <class U> LibcAlloc(const LibcAlloc<U>&) {}
    T* allocate(size_t n) { return static_cast<T*>(__libc_malloc(n * sizeof(T))); }
    void deallocate(T* p, size_t) { __libc_free(p); }
    template <class U> bool operator==(const LibcAlloc<U>&) const { return true; }
    template <class U> bool operator!=(const LibcAlloc<U>&) const { return false; }
};

// ====================================================================== 1. heap block table (malloc family interposed)
struct Block { size_t size; uint32_t seq; uint16_t phase; uint32_t run; };
typedef std::map<uintptr_t, Block, std::less<uintptr_t>, LibcAlloc<std::pair<const uintptr_t, Block> > > BlockMap;
static BlockMap* g_blocks = 0;
static char g_blocks_mem[sizeof(BlockMap)] __attribute__((aligned(16)));
static volatile int g_tab_lock = 0;
static volatile int g_track = 1;        // block bookkeeping on (switched off inside scheduler children)
static uint32_t g_alloc_seq = 0;
static uint16_t g_phase = 0;            // 0 = before main, 1 = allocator registration, 2 = harness, 3 = ancestors + derived objects of the DESCENDANT workloads
static uint32_t g_run = 0;              // id of the current stage-1 run (blocks allocated by the tracing thread get it)
static uint64_t g_run_allocs = 0, g_run_frees = 0;

NOSAN_INL static void tab_lock() { while (__sync_lock_test_and_set(&g_tab_lock, 1)) {} }
NOSAN_INL static void tab_unlock() { __sync_lock_release(&g_tab_lock); }

NOSAN static void note_alloc(void* p, size_t n) {
    InGuard ig;
    tab_lock();
    if (!g_blocks) g_blocks = new (g_blocks_mem) BlockMap();
    Block b;
    b.size = n ? n : 1;
    b.seq = ++g_alloc_seq;
    b.phase = g_phase;
    b.run = (t_role == 1 && g_mode == 1) ? g_run : 0;
    if (b.run) ++g_run_allocs;
    (*g_blocks)[(uintptr_t)p] = b;
    tab_unlock();
}
NOSAN static void note_free(void* p) {
    InGuard ig;
    tab_lock();
    if (g_blocks) {
        BlockMap::iterator it = g_blocks->find((uintptr_t)p);
        if (it != g_blocks->end()) {
            if (it->second.run && it->second.run == g_run) ++g_run_frees;
            g_blocks->erase(it);
        }
    }
    tab_unlock();
}
// block containing addr (copy), or false
NOSAN static bool find_block(uintptr_t a, uintptr_t& lo, Block& out) {
    bool ok = false;
    tab_lock();
    if (g_blocks && !g_blocks->empty()) {
        BlockMap::iterator it = g_blocks->upper_bound(a);
        if (it != g_blocks->begin()) {
            --it;
            if (a < it->first + it->second.size) { lo = it->first; out = it->second; ok = true; }
        }
    }
    tab_unlock();
    return ok;
}

extern "C" {
NOSAN void* malloc(size_t n) { void* p = __libc_malloc(n); if (p && g_track) note_alloc(p, n); return p; }
static void on_free(void* p, uintptr_t pc);
NOSAN void free(void* p) {
    if (!p) return;
    if (g_mode && !t_in && t_role) on_free(p, (uintptr_t)__builtin_return_address(0));
    if (g_track) note_free(p);
    __libc_free(p);
}
NOSAN void* calloc(size_t a, size_t b) { void* p = __libc_calloc(a, b); if (p && g_track) note_alloc(p, a * b); return p; }
NOSAN void* realloc(void* q, size_t n) {
    if (q && g_track) note_free(q);
    void* p = __libc_realloc(q, n);
    if (p && g_track) note_alloc(p, n);
    return p;
}
NOSAN void* memalign(size_t al, size_t n) { void* p = __libc_memalign(al, n); if (p && g_track) note_alloc(p, n); return p; }
NOSAN void* aligned_alloc(size_t al, size_t n) { return memalign(al, n); }
NOSAN int posix_memalign(void** out, size_t al, size_t n) {
    void* p = __libc_memalign(al, n);
    if (!p) return ENOMEM;
    if (g_track) note_alloc(p, n);
    *out = p;
    return 0;
}
}

// ====================================================================== 2. symbols of the running binary (ELF .symtab)
struct Sym { uintptr_t addr; size_t size; const char* name; bool func; };
static std::vector<Sym> g_objs, g_funcs;
struct Seg { uintptr_t lo, hi; bool writable; };
static std::vector<Seg> g_segs;
static uintptr_t g_bias = 0;
static char* g_elf = 0;

// Writable data (.data/.bss, i.e. writable PT_LOAD minus the RELRO part) of every shared object other than this binary:
// state that lives in an UNINSTRUMENTED library.  Its writers are invisible to the tracer, so any such byte that instrumented code
// (libtins, workloads) touches is treated as WRITTEN: two workloads touching the same byte are dependent ("foreign-static").
struct Foreign { uintptr_t lo, hi, base; char lib[40]; };
static Foreign g_foreign[96];
static int g_nforeign = 0;
static uintptr_t g_foreign_min = ~(uintptr_t)0, g_foreign_max = 0;
// Audited allow-list: foreign objects that libtins may read from several threads (see notes/C18.md for the reasons)
struct Allowed { uintptr_t lo, hi; const char* what; };
static Allowed g_allowed[16];
static int g_nallowed = 0;

NOSAN_INL static int foreign_index(uintptr_t a) {
    if (a < g_foreign_min || a >= g_foreign_max) return -1;
    for (int i = 0; i < g_nforeign; ++i) if (a >= g_foreign[i].lo && a < g_foreign[i].hi) return i;
    return -1;
}
NOSAN_INL static int allowed_index(uintptr_t a) {
    for (int i = 0; i < g_nallowed; ++i) if (a >= g_allowed[i].lo && a < g_allowed[i].hi) return i;
    return -1;
}
NOSAN_INL static bool foreign_static(uintptr_t a) { return foreign_index(a) >= 0 && allowed_index(a) < 0; }

static void add_foreign(struct dl_phdr_info* info) {
    const char* nm = info->dlpi_name ? info->dlpi_name : "";
    if (!*nm || strstr(nm, "linux-vdso")) return;
    const char* base = strrchr(nm, '/');
    base = base ? base + 1 : nm;
    uintptr_t rlo = 0, rhi = 0;
    for (int i = 0; i < info->dlpi_phnum; ++i)
        if (info->dlpi_phdr[i].p_type == PT_GNU_RELRO) { rlo = info->dlpi_addr + info->dlpi_phdr[i].p_vaddr; rhi = rlo + info->dlpi_phdr[i].p_memsz; }
    rhi = (rhi + 4095) & ~(uintptr_t)4095;          // RELRO protection is page granular
    for (int i = 0; i < info->dlpi_phnum; ++i) {
        const ElfW(Phdr)& ph = info->dlpi_phdr[i];
        if (ph.p_type != PT_LOAD || !(ph.p_flags & PF_W)) continue;
        uintptr_t lo = info->dlpi_addr + ph.p_vaddr, hi = lo + ph.p_memsz;
        if (rhi > lo && rlo <= lo) lo = std::min(rhi, hi);      // skip the read-only-after-relocation prefix
        if (lo >= hi || g_nforeign >= 96) continue;
        Foreign& f = g_foreign[g_nforeign++];
        f.lo = lo; f.hi = hi; f.base = info->dlpi_addr;
        size_t n = 0;
        for (; base[n] && n < sizeof f.lib - 1; ++n) { f.lib[n] = base[n]; if (n >= 2 && base[n] == 'o' && base[n - 1] == 's' && base[n - 2] == '.') { ++n; break; } }
        f.lib[n] = 0;
        g_foreign_min = std::min(g_foreign_min, lo);
        g_foreign_max = std::max(g_foreign_max, hi);
    }
}

static int phdr_cb(struct dl_phdr_info* info, size_t, void* data) {
    int* first = static_cast<int*>(data);
    if (!*first) add_foreign(info);
    if (*first) {
        *first = 0;
        g_bias = info->dlpi_addr;
        for (int i = 0; i < info->dlpi_phnum; ++i)
            if (info->dlpi_phdr[i].p_type == PT_LOAD) {
                Seg s;
                s.lo = g_bias + info->dlpi_phdr[i].p_vaddr;
                s.hi = s.lo + info->dlpi_phdr[i].p_memsz;
                s.writable = (info->dlpi_phdr[i].p_flags & PF_W) != 0;
                g_segs.push_back(s);
            }
    }
    return 0;
}
static bool sym_less(const Sym& a, const Sym& b) { return a.addr < b.addr; }
static void load_symbols() {
    int first = 1;
    dl_iterate_phdr(phdr_cb, &first);
    // file-backed private mapping: not copied by the many fork()s below
    int fd = open("/proc/self/exe", O_RDONLY);
    if (fd < 0) return;
    off_t n = lseek(fd, 0, SEEK_END);
    void* m = mmap(0, (size_t)n, PROT_READ, MAP_PRIVATE, fd, 0);
    close(fd);
    if (m == MAP_FAILED) return;
    g_elf = static_cast<char*>(m);
    Elf64_Ehdr* eh = reinterpret_cast<Elf64_Ehdr*>(g_elf);
    Elf64_Shdr* sh = reinterpret_cast<Elf64_Shdr*>(g_elf + eh->e_shoff);
    for (int i = 0; i < eh->e_shnum; ++i) {
        if (sh[i].sh_type != SHT_SYMTAB) continue;
        Elf64_Sym* st = reinterpret_cast<Elf64_Sym*>(g_elf + sh[i].sh_offset);
        size_t cnt = sh[i].sh_size / sizeof(Elf64_Sym);
        const char* strs = g_elf + sh[sh[i].sh_link].sh_offset;
        for (size_t k = 0; k < cnt; ++k) {
            int type = ELF64_ST_TYPE(st[k].st_info);
            if (st[k].st_shndx == SHN_UNDEF || st[k].st_value == 0) continue;
            if (type != STT_OBJECT && type != STT_FUNC) continue;
            Sym s;
            s.addr = g_bias + st[k].st_value;
            s.size = st[k].st_size ? st[k].st_size : 1;
            s.name = strs + st[k].st_name;
            s.func = type == STT_FUNC;
            (s.func ? g_funcs : g_objs).push_back(s);
        }
    }
    std::sort(g_objs.begin(), g_objs.end(), sym_less);
    std::sort(g_funcs.begin(), g_funcs.end(), sym_less);
}
static std::string demangle(const char* n) {
    int st = 0;
    char* d = abi::__cxa_demangle(n, 0, 0, &st);
    std::string r = (st == 0 && d) ? d : n;
    free(d);
    return r;
}
static const Sym* lookup(const std::vector<Sym>& v, uintptr_t a) {
    Sym key; key.addr = a;
    std::vector<Sym>::const_iterator it = std::upper_bound(v.begin(), v.end(), key, sym_less);
    while (it != v.begin()) {
        --it;
        if (a < it->addr + it->size) return &*it;
        if (a - it->addr > 0x100000) break;
    }
    return 0;
}
static std::string strip_args(const std::string& s) {  // "Tins::A<int>::f(int) const::tab" -> "Tins::A::f::tab"
    std::string r; int depth = 0, par = 0;
    for (size_t i = 0; i < s.size(); ++i) {
        char c = s[i];
        if (c == '<') depth++;
        else if (c == '>') depth--;
        else if (c == '(') par++;
        else if (c == ')') par--;
        else if (!depth && !par) r += c;
    }
    size_t p;
    while ((p = r.find(" const")) != std::string::npos) r.erase(p, 6);
    return r;
}
static std::string func_name(uintptr_t pc, bool with_off = false) {
    const Sym* s = lookup(g_funcs, pc);
    if (!s) {
        Dl_info di;
        if (dladdr(reinterpret_cast<void*>(pc), &di) && di.dli_sname) return strip_args(demangle(di.dli_sname));
        return "?";
    }
    std::string r = strip_args(demangle(s->name));
    if (with_off) { char b[32]; snprintf(b, sizeof b, "+0x%lx", (unsigned long)(pc - s->addr)); r += b; }
    return r;
}
static const char* nr_token_name(uintptr_t a);
// symbolic, ASLR-independent name of a data location
static std::string location_name(uintptr_t a, bool* writable = 0) {
    if (writable) *writable = true;
    if (const char* nr0 = nr_token_name(a)) return std::string("non-reentrant-call:") + nr0;
    for (size_t i = 0; i < g_segs.size(); ++i)
        if (a >= g_segs[i].lo && a < g_segs[i].hi) {
            if (writable) *writable = g_segs[i].writable;
            const Sym* s = lookup(g_objs, a);
            if (s) return strip_args(demangle(s->name));
            return g_segs[i].writable ? "binary:rw-data" : "binary:ro-data";
        }
    if (const char* nr = nr_token_name(a)) return std::string("non-reentrant-call:") + nr;
    {
        int fi = foreign_index(a);
        if (fi >= 0 && allowed_index(a) < 0) {
            char buf[96];
            snprintf(buf, sizeof buf, "foreign-static:%s+0x%lx", g_foreign[fi].lib, (unsigned long)(a - g_foreign[fi].base));
            return buf;
        }
        if (fi >= 0) return std::string("lib-allowlisted:") + g_allowed[allowed_index(a)].what;
    }
    uintptr_t lo; Block b;
    if (find_block(a, lo, b)) {
        if (b.run) return "heap:run-private";
        char buf[64];
        snprintf(buf, sizeof buf, "heap:%s", b.phase == 0 ? "static-init" : b.phase == 1 ? "allocator-registry-node" : b.phase == 3 ? "descendant-object" : "harness");
        return buf;
    }
    Dl_info di;
    if (dladdr(reinterpret_cast<void*>(a), &di) && di.dli_fname) {
        const char* base = strrchr(di.dli_fname, '/');
        std::string r = std::string("lib:") + (base ? base + 1 : di.dli_fname);
        size_t p = r.find(".so");
        if (p != std::string::npos) r = r.substr(0, p + 3);
        if (di.dli_sname) r += ":" + strip_args(demangle(di.dli_sname));
        if (writable) *writable = false;   // unknown; reported informationally only
        return r;
    }
    return "other";
}

// ====================================================================== 3. stage-1 footprint recorder
struct ByteInfo {
    uint8_t flags;         // 1 = read, 2 = written, 4 = foreign static (uninstrumented library's writable data: counted as written)
    uint8_t wstate;        // 0 none, 1 written outside any guard region, 2 written only inside region of guard `wg`, 3 mixed
    uint16_t wg;           // local guard index
    uint64_t checked;      // guards (bitmask over local indices) already checked by the thread at the FIRST access of the run(s)
    uintptr_t pc_r, pc_w;  // first reading / writing site
};
typedef std::map<uintptr_t, ByteInfo, std::less<uintptr_t>, LibcAlloc<std::pair<const uintptr_t, ByteInfo> > > ByteMap;

struct RunCounters { uint64_t priv_stack, priv_heap, shared_r, shared_w, range_ops, guard_ops, foreign, allowlisted, nr_calls; };

struct Recorder {
    uintptr_t stack_lo, stack_hi;
    ByteMap* bytes;                 // merged over the runs of this process
    ByteMap* run_bytes;             // current run
    RunCounters c;
    uintptr_t guards[64]; int nguards;
    uint64_t checked;               // guards checked so far in this run
    int region[8]; int nregion;     // stack of guard regions being initialised by this thread
    // one-entry block cache
    uintptr_t c_lo, c_hi; bool c_priv;
};
static Recorder REC;
static uintptr_t g_bin_lo = 0, g_bin_hi = 0;      // address range of the instrumented binary (libtins + harness)

NOSAN_INL static int guard_index(uintptr_t g, bool add) {
    for (int i = 0; i < REC.nguards; ++i) if (REC.guards[i] == g) return i;
    if (add && REC.nguards < 64) { REC.guards[REC.nguards] = g; return REC.nguards++; }
    return -1;
}
NOSAN_INL static int guard_containing(uintptr_t a) {
    for (int i = 0; i < REC.nguards; ++i) if (a >= REC.guards[i] && a < REC.guards[i] + 8) return i;
    return -1;
}

NOSAN static void rec_shared(uintptr_t a, size_t n, bool w, uintptr_t pc) {
    if (w) REC.c.shared_w++; else REC.c.shared_r++;
    for (size_t i = 0; i < n; ++i) {
        uintptr_t b = a + i;
        int gi = REC.nguards ? guard_containing(b) : -1;
        if (gi >= 0) { REC.checked |= 1ULL << gi; continue; }     // guard variable: synchronisation, not data
        ByteMap::iterator it = REC.run_bytes->find(b);
        if (it == REC.run_bytes->end()) {
            ByteInfo bi; memset(&bi, 0, sizeof bi);
            bi.checked = REC.checked;
            it = REC.run_bytes->insert(std::make_pair(b, bi)).first;
        }
        ByteInfo& bi = it->second;
        bool as_write = w;
        if (b >= g_foreign_min && b < g_foreign_max && foreign_index(b) >= 0 && pc >= g_bin_lo && pc < g_bin_hi) {
            if (allowed_index(b) < 0) { as_write = true; bi.flags |= 4; if (i == 0) REC.c.foreign++; }
            else if (i == 0) REC.c.allowlisted++;
        }
        if (!w && as_write) { if (!(bi.flags & 1)) bi.pc_r = pc; bi.flags |= 1; }
        if (as_write) {
            if (!(bi.flags & 2)) bi.pc_w = pc;
            bi.flags |= 2;
            if (REC.nregion) {
                int g = REC.region[REC.nregion - 1];
                if (bi.wstate == 0) { bi.wstate = 2; bi.wg = (uint16_t)g; }
                else if (bi.wstate == 1 || (bi.wstate == 2 && bi.wg != g)) bi.wstate = 3;
            } else {
                if (bi.wstate == 0) bi.wstate = 1;
                else if (bi.wstate == 2) bi.wstate = 3;
            }
        } else {
            if (!(bi.flags & 1)) bi.pc_r = pc;
            bi.flags |= 1;
        }
    }
}

NOSAN static void rec_access(uintptr_t a, size_t n, bool w, uintptr_t pc) {
    InGuard ig;     // the tracer's own (instrumented) container code must not be traced
    if (a >= REC.stack_lo && a < REC.stack_hi) { REC.c.priv_stack++; return; }
    if (a >= REC.c_lo && a < REC.c_hi) {
        if (REC.c_priv) { REC.c.priv_heap++; return; }
        rec_shared(a, n, w, pc);
        return;
    }
    uintptr_t lo; Block b;
    if (find_block(a, lo, b)) {
        REC.c_lo = lo; REC.c_hi = lo + b.size; REC.c_priv = (b.run != 0 && b.run == g_run);
        if (REC.c_priv) { REC.c.priv_heap++; return; }
    }
    rec_shared(a, n, w, pc);
}

// ====================================================================== 4. cooperative scheduler
enum { T_NEW = 0, T_READY, T_RUNNING, T_BLOCKED, T_DONE };
enum { K_NONE = 0, K_READ = 1, K_WRITE = 2, K_GUARD = 3 };
struct Pending { uintptr_t addr; uint32_t size; uint8_t kind; uintptr_t pc; uintptr_t bt[10]; int nbt; };
struct MT {
    pthread_t th; sem_t go; volatile int state; Pending pend; uint64_t digest; int wl; int id;
    uintptr_t blocked_on; uintptr_t stack_lo, stack_hi; uint64_t accesses; bool threw;
};
struct Dec { uint32_t step; uint8_t thr; };
struct DP { uint8_t cur_enabled; uint8_t chosen; uint16_t enabled; };
struct RaceRec { uintptr_t addr; Pending a, b; int ta, tb; uint32_t step; };
struct Range { uintptr_t lo, hi; };

struct Sched {
    int n; MT t[16]; volatile int cur; int scale;
    bool rr; int quantum; uint32_t rr_switches;
    std::vector<Range> conf; uintptr_t cmin, cmax;
    std::vector<Dec> forced; size_t fi;
    uint32_t step;
    std::vector<DP> dps;
    std::vector<RaceRec> races;
    uint64_t points;         // scheduling points executed
    bool deadlock, bad_replay; uint32_t guard_blocks, lock_blocks;
    sem_t all_done;
};
static Sched* S = 0;
static __thread MT* t_self = 0;

NOSAN_INL static bool in_conflict(uintptr_t a, size_t n) {
    if (a + n <= S->cmin || a >= S->cmax) return false;
    size_t lo = 0, hi = S->conf.size();
    while (lo < hi) {                     // first range with hi > a
        size_t mid = (lo + hi) / 2;
        if (S->conf[mid].hi > a) hi = mid; else lo = mid + 1;
    }
    return lo < S->conf.size() && S->conf[lo].lo < a + n;
}
NOSAN static int capture_bt(uintptr_t* out, int max, MT* me) {
    int n = 0;
    uintptr_t* fp = static_cast<uintptr_t*>(__builtin_frame_address(0));
    while (n < max && (uintptr_t)fp >= me->stack_lo && (uintptr_t)fp + 16 <= me->stack_hi) {
        uintptr_t ret = fp[1];
        uintptr_t* next = reinterpret_cast<uintptr_t*>(fp[0]);
        if (!ret) break;
        out[n++] = ret;
        if (next <= fp) break;
        fp = next;
    }
    return n;
}
NOSAN_INL static uint16_t enabled_mask() {
    uint16_t m = 0;
    for (int i = 0; i < S->n; ++i)
        if (S->t[i].state == T_NEW || S->t[i].state == T_READY || S->t[i].state == T_RUNNING) m |= uint16_t(1u << i);
    return m;
}
// Decide who runs next at a decision point.  `me` = index of the deciding thread (-1 = controller), `me_enabled` = it could continue.
NOSAN static int decide(int me, bool me_enabled) {
    uint16_t en = enabled_mask();
    if (me >= 0 && !me_enabled) en &= uint16_t(~(1u << me));
    int choice = -1;
    if (S->rr) {
        // round robin: next enabled thread after me
        for (int k = 1; k <= S->n; ++k) { int c = (me + k + S->n) % S->n; if (en & (1u << c)) { choice = c; break; } }
    } else {
        if (me >= 0 && me_enabled) choice = me;
        else for (int i = 0; i < S->n; ++i) if (en & (1u << i)) { choice = i; break; }
        if (S->fi < S->forced.size() && S->forced[S->fi].step == S->step) {
            int f = S->forced[S->fi].thr;
            S->fi++;
            if (en & (1u << f)) choice = f; else S->bad_replay = true;
        }
        DP dp; dp.cur_enabled = (me >= 0 && me_enabled) ? 1 : 0; dp.chosen = (uint8_t)(choice < 0 ? 255 : choice); dp.enabled = en;
        S->dps.push_back(dp);
        S->step++;
    }
    return choice;
}
NOSAN static void hand_over(MT* me, int next, int my_new_state) {
    // called by the running thread `me`; gives the token to `next` and sleeps until scheduled again
    me->state = my_new_state;
    S->cur = next;
    sem_post(&S->t[next].go);
    while (sem_wait(&me->go) != 0) {}
    me->state = T_RUNNING;
}
NOSAN static void check_race(MT* me) {
    for (int i = 0; i < S->n; ++i) {
        MT* o = &S->t[i];
        if (o == me || o->state != T_READY) continue;
        if (o->pend.kind != K_READ && o->pend.kind != K_WRITE) continue;
        if (me->pend.kind != K_WRITE && o->pend.kind != K_WRITE) continue;
        uintptr_t lo = std::max(me->pend.addr, o->pend.addr);
        uintptr_t hi = std::min(me->pend.addr + me->pend.size, o->pend.addr + o->pend.size);
        if (lo >= hi) continue;
        bool dup = false;
        for (size_t k = 0; k < S->races.size(); ++k)
            if (S->races[k].a.pc == me->pend.pc && S->races[k].b.pc == o->pend.pc) dup = true;
        if (dup || S->races.size() >= 16) continue;
        RaceRec r; r.addr = lo; r.a = me->pend; r.b = o->pend; r.ta = me->id; r.tb = o->id; r.step = S->step;
        S->races.push_back(r);
    }
}
// scheduling point in front of an access of the running managed thread
NOSAN static void sched_access(uintptr_t a, size_t n, bool w, uintptr_t pc) {
    MT* me = t_self;
    InGuard ig;
    if (S->rr) {
        if (++me->accesses % (uint64_t)S->quantum) return;
        int next = decide(me->id, true);
        S->points++;
        if (next >= 0 && next != me->id) { S->rr_switches++; hand_over(me, next, T_READY); }
        return;
    }
    if (!in_conflict(a, n)) return;
    S->points++;
    if (!w && foreign_static(a)) w = true;       // the library's own writers are invisible: count the touch as a write
    me->pend.addr = a; me->pend.size = (uint32_t)n; me->pend.kind = w ? K_WRITE : K_READ; me->pend.pc = pc;
    me->pend.nbt = capture_bt(me->pend.bt, 10, me);
    check_race(me);
    int next = decide(me->id, true);
    if (next >= 0 && next != me->id) hand_over(me, next, T_READY);
    me->pend.kind = K_NONE;
}
NOSAN static void sched_thread_end(MT* me) {
    InGuard ig;
    me->state = T_DONE;
    me->pend.kind = K_NONE;
    S->points++;
    int next = decide(me->id, false);
    if (next < 0) {
        for (int i = 0; i < S->n; ++i) if (S->t[i].state == T_BLOCKED) S->deadlock = true;
        sem_post(&S->all_done);
        return;
    }
    S->cur = next;
    sem_post(&S->t[next].go);
}
// guard operations under the scheduler
NOSAN static int sched_guard_acquire(uint8_t* g) {
    MT* me = t_self;
    InGuard ig;
    S->points++;
    me->pend.kind = K_GUARD; me->pend.addr = (uintptr_t)g; me->pend.size = 8;
    if (!S->rr) { int next = decide(me->id, true); if (next >= 0 && next != me->id) hand_over(me, next, T_READY); }
    for (;;) {
        if (g[0]) { me->pend.kind = K_NONE; return 0; }
        if (!g[1]) { g[1] = 1; me->pend.kind = K_NONE; return 1; }
        // initialisation in progress on a descheduled thread: block
        S->guard_blocks++;
        me->blocked_on = (uintptr_t)g;
        int next = decide(me->id, false);
        if (next < 0) { S->deadlock = true; sem_post(&S->all_done); for (;;) pause(); }
        hand_over(me, next, T_BLOCKED);
    }
}
NOSAN static void sched_guard_release(uint8_t* g, bool ok) {
    MT* me = t_self;
    InGuard ig;
    if (ok) g[0] = 1;
    g[1] = 0;
    for (int i = 0; i < S->n; ++i)
        if (S->t[i].state == T_BLOCKED && S->t[i].blocked_on == (uintptr_t)g) { S->t[i].state = T_READY; S->t[i].blocked_on = 0; }
    S->points++;
    if (!S->rr) {
        me->pend.kind = K_GUARD; me->pend.addr = (uintptr_t)g; me->pend.size = 8;
        int next = decide(me->id, true);
        if (next >= 0 && next != me->id) hand_over(me, next, T_READY);
        me->pend.kind = K_NONE;
    }
}

// pthread mutexes under the scheduler (a std::mutex added to libtins must not dead-lock the cooperative scheduler and
// makes the accesses it protects ordered): lock = scheduling point + try-lock, blocking hands the token over
__asm__(".symver __pthread_mutex_lock,__pthread_mutex_lock@GLIBC_2.2.5");       // glibc keeps these as compat symbols only
__asm__(".symver __pthread_mutex_trylock,__pthread_mutex_trylock@GLIBC_2.2.5");
__asm__(".symver __pthread_mutex_unlock,__pthread_mutex_unlock@GLIBC_2.2.5");
extern "C" {
int __pthread_mutex_lock(pthread_mutex_t*);
int __pthread_mutex_trylock(pthread_mutex_t*);
int __pthread_mutex_unlock(pthread_mutex_t*);
}
NOSAN static int sched_mutex_lock(pthread_mutex_t* m) {
    MT* me = t_self;
    InGuard ig;
    S->points++;
    me->pend.kind = K_GUARD; me->pend.addr = (uintptr_t)m; me->pend.size = sizeof *m;
    if (!S->rr) { int next = decide(me->id, true); if (next >= 0 && next != me->id) hand_over(me, next, T_READY); }
    for (;;) {
        int r = __pthread_mutex_trylock(m);
        if (r != EBUSY) { me->pend.kind = K_NONE; return r; }
        S->lock_blocks++;
        me->blocked_on = (uintptr_t)m;
        int next = decide(me->id, false);
        if (next < 0) { S->deadlock = true; sem_post(&S->all_done); for (;;) pause(); }
        hand_over(me, next, T_BLOCKED);
    }
}
NOSAN static int sched_mutex_unlock(pthread_mutex_t* m) {
    MT* me = t_self;
    InGuard ig;
    int r = __pthread_mutex_unlock(m);
    for (int i = 0; i < S->n; ++i)
        if (S->t[i].state == T_BLOCKED && S->t[i].blocked_on == (uintptr_t)m) { S->t[i].state = T_READY; S->t[i].blocked_on = 0; }
    S->points++;
    if (!S->rr) {
        me->pend.kind = K_GUARD; me->pend.addr = (uintptr_t)m; me->pend.size = sizeof *m;
        int next = decide(me->id, true);
        if (next >= 0 && next != me->id) hand_over(me, next, T_READY);
        me->pend.kind = K_NONE;
    }
    return r;
}
extern "C" {
NOSAN int pthread_mutex_lock(pthread_mutex_t* m) {
    if (g_mode == 2 && t_role == 2 && !t_in) return sched_mutex_lock(m);
    return __pthread_mutex_lock(m);
}
NOSAN int pthread_mutex_unlock(pthread_mutex_t* m) {
    if (g_mode == 2 && t_role == 2 && !t_in) return sched_mutex_unlock(m);
    return __pthread_mutex_unlock(m);
}
}

// ====================================================================== 5. instrumentation callbacks, libc range functions, guards
#define ON_ACCESS(addr, n, w)                                                                              \
    do {                                                                                                   \
        if (!g_mode || t_in || !t_role) return;                                                            \
        if (t_role == 1) { if (g_mode == 1) rec_access((uintptr_t)(addr), n, w, (uintptr_t)__builtin_return_address(0)); } \
        else if (g_mode == 2) sched_access((uintptr_t)(addr), n, w, (uintptr_t)__builtin_return_address(0)); \
    } while (0)

extern "C" {
NOSAN void __sanitizer_cov_load1(void* a) { ON_ACCESS(a, 1, false); }
NOSAN void __sanitizer_cov_load2(void* a) { ON_ACCESS(a, 2, false); }
NOSAN void __sanitizer_cov_load4(void* a) { ON_ACCESS(a, 4, false); }
NOSAN void __sanitizer_cov_load8(void* a) { ON_ACCESS(a, 8, false); }
NOSAN void __sanitizer_cov_load16(void* a) { ON_ACCESS(a, 16, false); }
NOSAN void __sanitizer_cov_store1(void* a) { ON_ACCESS(a, 1, true); }
NOSAN void __sanitizer_cov_store2(void* a) { ON_ACCESS(a, 2, true); }
NOSAN void __sanitizer_cov_store4(void* a) { ON_ACCESS(a, 4, true); }
NOSAN void __sanitizer_cov_store8(void* a) { ON_ACCESS(a, 8, true); }
NOSAN void __sanitizer_cov_store16(void* a) { ON_ACCESS(a, 16, true); }
}

NOSAN_INL static bool observing() { return g_mode && !t_in && t_role; }
NOSAN static void on_range(const void* p, size_t n, bool w, uintptr_t pc) {
    if (!n) return;
    if (t_role == 1) { if (g_mode == 1) { REC.c.range_ops++; rec_access((uintptr_t)p, n, w, pc); } }
    else if (g_mode == 2) {
        // memcpy & co. called from inside an uninstrumented library (libcrypto, libstdc++) are not scheduling points: the
        // library may hold one of its own locks there, and descheduling the holder would dead-lock the cooperative scheduler
        if (pc < g_bin_lo || pc >= g_bin_hi) return;
        sched_access((uintptr_t)p, n, w, pc);
    }
}

// Releasing a block conflicts with every access to it: free() of a block that existed before the run (an object handed to the
// thread, e.g. a copy made by the main thread) counts as a write of the whole block; under the scheduler it is a scheduling point
// when the block overlaps the conflict set.  (Blocks allocated during the run are private: nothing to record.)
NOSAN static void on_free(void* p, uintptr_t pc) {
    uintptr_t lo; Block b;
    bool found;
    { InGuard ig; found = find_block((uintptr_t)p, lo, b); }
    if (!found || lo != (uintptr_t)p) return;
    if (t_role == 1) { if (g_mode == 1 && !(b.run && b.run == g_run)) { InGuard ig; REC.c_lo = REC.c_hi = 0; } }
    on_range(p, b.size, true, pc);
}

extern "C" {
NOSAN void* memcpy(void* d, const void* s, size_t n) {
    if (observing()) { uintptr_t pc = (uintptr_t)__builtin_return_address(0); on_range(s, n, false, pc); on_range(d, n, true, pc); }
    void* r = d;
    asm volatile("rep movsb" : "+D"(d), "+S"(s), "+c"(n) : : "memory");
    return r;
}
NOSAN void* memmove(void* d, const void* s, size_t n) {
    if (observing()) { uintptr_t pc = (uintptr_t)__builtin_return_address(0); on_range(s, n, false, pc); on_range(d, n, true, pc); }
    void* r = d;
    if ((uintptr_t)d <= (uintptr_t)s || (uintptr_t)d >= (uintptr_t)s + n) {
        asm volatile("rep movsb" : "+D"(d), "+S"(s), "+c"(n) : : "memory");
    } else {
        volatile uint8_t* dd = static_cast<uint8_t*>(d);
        const volatile uint8_t* ss = static_cast<const uint8_t*>(s);
        while (n) { --n; dd[n] = ss[n]; }
    }
    return r;
}
NOSAN void* memset(void* d, int c, size_t n) {
    if (observing()) on_range(d, n, true, (uintptr_t)__builtin_return_address(0));
    void* r = d;
    asm volatile("rep stosb" : "+D"(d), "+c"(n) : "a"(c) : "memory");
    return r;
}
NOSAN size_t strlen(const char* s) {
    const volatile char* p = s;
    while (*p) ++p;
    size_t n = (size_t)(p - s);
    if (observing()) on_range(s, n + 1, false, (uintptr_t)__builtin_return_address(0));
    return n;
}
NOSAN int memcmp(const void* a, const void* b, size_t n) {
    if (observing()) { uintptr_t pc = (uintptr_t)__builtin_return_address(0); on_range(a, n, false, pc); on_range(b, n, false, pc); }
    const volatile uint8_t* x = static_cast<const uint8_t*>(a);
    const volatile uint8_t* y = static_cast<const uint8_t*>(b);
    for (size_t i = 0; i < n; ++i) { uint8_t u = x[i], v = y[i]; if (u != v) return u < v ? -1 : 1; }
    return 0;
}
NOSAN int bcmp(const void* a, const void* b, size_t n) {
    if (observing()) { uintptr_t pc = (uintptr_t)__builtin_return_address(0); on_range(a, n, false, pc); on_range(b, n, false, pc); }
    const volatile uint8_t* x = static_cast<const uint8_t*>(a);
    const volatile uint8_t* y = static_cast<const uint8_t*>(b);
    for (size_t i = 0; i < n; ++i) if (x[i] != y[i]) return 1;
    return 0;
}
// sprintf / snprintf: format into a private buffer first, then treat the copy into the destination as a written range
NOSAN int sprintf(char* out, const char* fmt, ...) {
    char tmp[2048];
    va_list ap;
    va_start(ap, fmt);
    int n = __vsnprintf_chk(tmp, sizeof tmp, 0, sizeof tmp, fmt, ap);
    va_end(ap);
    if (n >= 0 && (size_t)n < sizeof tmp) { memcpy(out, tmp, (size_t)n + 1); return n; }
    va_start(ap, fmt);
    n = __vsnprintf_chk(out, (size_t)-1 >> 1, 0, (size_t)-1, fmt, ap);
    va_end(ap);
    if (n >= 0 && observing()) on_range(out, (size_t)n + 1, true, (uintptr_t)__builtin_return_address(0));
    return n;
}
NOSAN int snprintf(char* out, size_t cap, const char* fmt, ...) {
    va_list ap;
    va_start(ap, fmt);
    int n = __vsnprintf_chk(out, cap, 0, (size_t)-1, fmt, ap);
    va_end(ap);
    if (n >= 0 && cap && observing()) on_range(out, std::min((size_t)n + 1, cap), true, (uintptr_t)__builtin_return_address(0));
    return n;
}

// Function-local static initialisation (Itanium ABI): byte 0 = initialised, byte 1 = initialisation in progress.
NOSAN int __cxa_guard_acquire(__cxxabiv1::__guard* gp) {
    uint8_t* g = reinterpret_cast<uint8_t*>(gp);
    if (g_mode == 2 && t_role == 2 && !t_in) return sched_guard_acquire(g);
    int r;
    for (;;) {
        if (__atomic_load_n(&g[0], __ATOMIC_ACQUIRE)) { r = 0; break; }
        uint8_t exp = 0;
        if (__atomic_compare_exchange_n(&g[1], &exp, 1, false, __ATOMIC_ACQ_REL, __ATOMIC_ACQUIRE)) {
            if (__atomic_load_n(&g[0], __ATOMIC_ACQUIRE)) { __atomic_store_n(&g[1], 0, __ATOMIC_RELEASE); r = 0; break; }
            r = 1;
            break;
        }
        sched_yield();
    }
    if (g_mode == 1 && t_role == 1 && !t_in) {
        InGuard ig;
        REC.c.guard_ops++;
        int gi = guard_index((uintptr_t)g, true);
        if (gi >= 0) {
            REC.checked |= 1ULL << gi;
            if (r && REC.nregion < 8) REC.region[REC.nregion++] = gi;
        }
    }
    return r;
}
NOSAN static void guard_done(__cxxabiv1::__guard* gp, bool ok) {
    uint8_t* g = reinterpret_cast<uint8_t*>(gp);
    if (g_mode == 2 && t_role == 2 && !t_in) { sched_guard_release(g, ok); return; }
    if (g_mode == 1 && t_role == 1 && !t_in) {
        int gi = guard_index((uintptr_t)g, false);
        if (REC.nregion && REC.region[REC.nregion - 1] == gi) REC.nregion--;
    }
    if (ok) __atomic_store_n(&g[0], 1, __ATOMIC_RELEASE);
    __atomic_store_n(&g[1], 0, __ATOMIC_RELEASE);
}
NOSAN void __cxa_guard_release(__cxxabiv1::__guard* gp) _GLIBCXX_NOTHROW { guard_done(gp, true); }
NOSAN void __cxa_guard_abort(__cxxabiv1::__guard* gp) _GLIBCXX_NOTHROW { guard_done(gp, false); }
}

// ====================================================================== 5b. documented non-reentrant entry points of uninstrumented libraries
// Link-time interposition (this binary defines the symbol, forwards with dlsym(RTLD_NEXT)).  A call from instrumented code is recorded
// as a WRITE of a per-function token byte: two workloads calling the same non-reentrant function are dependent, the call is a
// scheduling point of stage 2 and two threads standing in front of it are reported (race:non-reentrant-call:<function>:<frames>).
// The OpenSSL one-shot digests are non-reentrant only with a NULL output pointer (result in a process-wide static array).
enum { NR_HMAC_NULL = 0, NR_SHA1_NULL, NR_SHA224_NULL, NR_SHA256_NULL, NR_SHA384_NULL, NR_SHA512_NULL, NR_MD5_NULL, NR_MD4_NULL, NR_RIPEMD160_NULL,
       NR_INET_NTOA, NR_GETHOSTBYNAME, NR_STRTOK, NR_LOCALTIME, NR_GMTIME, NR_CTIME, NR_ASCTIME, NR_STRERROR, NR_ENVIRON, NR_RAND, NR_COUNT };
static const char* const kNrNames[NR_COUNT] = {"HMAC(md=NULL)", "SHA1(md=NULL)", "SHA224(md=NULL)", "SHA256(md=NULL)", "SHA384(md=NULL)", "SHA512(md=NULL)",
    "MD5(md=NULL)", "MD4(md=NULL)", "RIPEMD160(md=NULL)", "inet_ntoa", "gethostbyname", "strtok", "localtime", "gmtime", "ctime", "asctime", "strerror",
    "setenv/getenv", "rand/srand"};
static uint8_t g_nr_token[NR_COUNT];
static const char* nr_token_name(uintptr_t a) {
    uintptr_t lo = (uintptr_t)&g_nr_token[0];
    return (a >= lo && a < lo + NR_COUNT) ? kNrNames[a - lo] : 0;
}
NOSAN static void nr_call(int id, bool write, uintptr_t pc) {
    if (!observing() || pc < g_bin_lo || pc >= g_bin_hi) return;
    if (t_role == 1 && g_mode == 1) { InGuard ig; REC.c.nr_calls++; }
    on_range(&g_nr_token[id], 1, write, pc);
}
// The result of such a call lives in a static buffer of the library, which the library has just written: reported as a written range at
// the call site AFTER the call (a second scheduling point: "result valid, about to be consumed").  Needed because the consumer's
// reads are often invisible: a fixed-size compare/copy of the result is expanded inline by the backend without a trace callback.
NOSAN static void nr_result(const void* p, size_t n, uintptr_t pc) {
    if (!p || !n || !observing() || pc < g_bin_lo || pc >= g_bin_hi) return;
    on_range(p, n, true, pc);
}
NOSAN static void* nr_real(const char* name, void** slot) {
    if (!*slot) { InGuard ig; *slot = dlsym(RTLD_NEXT, name); }
    return *slot;
}
#define NR_PC ((uintptr_t)__builtin_return_address(0))
struct hostent; struct tm; struct pcap;
extern "C" {
NOSAN unsigned char* HMAC(const void* md, const void* key, int key_len, const unsigned char* d, size_t n, unsigned char* out, unsigned int* out_len) {
    typedef unsigned char* (*F)(const void*, const void*, int, const unsigned char*, size_t, unsigned char*, unsigned int*);
    static void* real = 0;
    if (!out) nr_call(NR_HMAC_NULL, true, NR_PC);
    unsigned int len = 0;
    unsigned char* r = ((F)nr_real("HMAC", &real))(md, key, key_len, d, n, out, out_len ? out_len : &len);
    if (!out) nr_result(r, out_len ? *out_len : len, NR_PC);
    return r;
}
#define NR_DIGEST(NAME, ID, LEN)                                                                        \
    NOSAN unsigned char* NAME(const unsigned char* d, size_t n, unsigned char* md) {               \
        typedef unsigned char* (*F)(const unsigned char*, size_t, unsigned char*);                 \
        static void* real = 0;                                                                     \
        if (!md) nr_call(ID, true, NR_PC);                                                         \
        unsigned char* r = ((F)nr_real(#NAME, &real))(d, n, md);                                   \
        if (!md) nr_result(r, LEN, NR_PC);                                                         \
        return r;                                                                                  \
    }
NR_DIGEST(SHA1, NR_SHA1_NULL, 20)
NR_DIGEST(SHA224, NR_SHA224_NULL, 28)
NR_DIGEST(SHA256, NR_SHA256_NULL, 32)
NR_DIGEST(SHA384, NR_SHA384_NULL, 48)
NR_DIGEST(SHA512, NR_SHA512_NULL, 64)
NR_DIGEST(MD5, NR_MD5_NULL, 16)
NR_DIGEST(MD4, NR_MD4_NULL, 16)
NR_DIGEST(RIPEMD160, NR_RIPEMD160_NULL, 20)
NOSAN char* inet_ntoa(struct in_addr in) {
    typedef char* (*F)(struct in_addr);
    static void* real = 0;
    nr_call(NR_INET_NTOA, true, NR_PC);
    char* r = ((F)nr_real("inet_ntoa", &real))(in);
    nr_result(r, 16, NR_PC);
    return r;
}
NOSAN struct hostent* gethostbyname(const char* name) {
    typedef struct hostent* (*F)(const char*);
    static void* real = 0;
    nr_call(NR_GETHOSTBYNAME, true, NR_PC);
    struct hostent* r = ((F)nr_real("gethostbyname", &real))(name);
    nr_result(r, 32, NR_PC);
    return r;
}
NOSAN char* strtok(char* str, const char* delim) {
    typedef char* (*F)(char*, const char*);
    static void* real = 0;
    nr_call(NR_STRTOK, true, NR_PC);
    return ((F)nr_real("strtok", &real))(str, delim);
}
NOSAN struct tm* localtime(const time_t* t) {
    typedef struct tm* (*F)(const time_t*);
    static void* real = 0;
    nr_call(NR_LOCALTIME, true, NR_PC);
    struct tm* r = ((F)nr_real("localtime", &real))(t);
    nr_result(r, 56, NR_PC);
    return r;
}
NOSAN struct tm* gmtime(const time_t* t) {
    typedef struct tm* (*F)(const time_t*);
    static void* real = 0;
    nr_call(NR_GMTIME, true, NR_PC);
    struct tm* r = ((F)nr_real("gmtime", &real))(t);
    nr_result(r, 56, NR_PC);
    return r;
}
NOSAN char* ctime(const time_t* t) {
    typedef char* (*F)(const time_t*);
    static void* real = 0;
    nr_call(NR_CTIME, true, NR_PC);
    char* r = ((F)nr_real("ctime", &real))(t);
    nr_result(r, 26, NR_PC);
    return r;
}
NOSAN char* asctime(const struct tm* t) {
    typedef char* (*F)(const struct tm*);
    static void* real = 0;
    nr_call(NR_ASCTIME, true, NR_PC);
    char* r = ((F)nr_real("asctime", &real))(t);
    nr_result(r, 26, NR_PC);
    return r;
}
NOSAN char* strerror(int e) {
    typedef char* (*F)(int);
    static void* real = 0;
    nr_call(NR_STRERROR, true, NR_PC);
    return ((F)nr_real("strerror", &real))(e);
}
// the environment: readers conflict only with a writer (getenv after setenv)
NOSAN char* getenv(const char* name) {
    typedef char* (*F)(const char*);
    static void* real = 0;
    nr_call(NR_ENVIRON, false, NR_PC);
    return ((F)nr_real("getenv", &real))(name);
}
NOSAN int setenv(const char* name, const char* value, int overwrite) {
    typedef int (*F)(const char*, const char*, int);
    static void* real = 0;
    nr_call(NR_ENVIRON, true, NR_PC);
    return ((F)nr_real("setenv", &real))(name, value, overwrite);
}
NOSAN int unsetenv(const char* name) {
    typedef int (*F)(const char*);
    static void* real = 0;
    nr_call(NR_ENVIRON, true, NR_PC);
    return ((F)nr_real("unsetenv", &real))(name);
}
NOSAN int putenv(char* string) {
    typedef int (*F)(char*);
    static void* real = 0;
    nr_call(NR_ENVIRON, true, NR_PC);
    return ((F)nr_real("putenv", &real))(string);
}
NOSAN int rand(void) {
    typedef int (*F)(void);
    static void* real = 0;
    nr_call(NR_RAND, true, NR_PC);
    return ((F)nr_real("rand", &real))();
}
NOSAN void srand(unsigned seed) {
    typedef void (*F)(unsigned);
    static void* real = 0;
    nr_call(NR_RAND, true, NR_PC);
    ((F)nr_real("srand", &real))(seed);
}
// pcap_geterr returns the handle's own error buffer: non-reentrant only when two threads use ONE handle (a handle libtins shares
// behind the user's back): the location is the handle itself
NOSAN char* pcap_geterr(struct pcap* handle) {
    typedef char* (*F)(struct pcap*);
    static void* real = 0;
    uintptr_t pc = NR_PC;
    if (handle && observing() && pc >= g_bin_lo && pc < g_bin_hi) on_range(handle, 1, true, pc);
    return ((F)nr_real("pcap_geterr", &real))(handle);
}
}

// ====================================================================== 6. (de)serialisation + fork
struct Out {
    std::string s;
    void u64(uint64_t v) { s.append(reinterpret_cast<const char*>(&v), 8); }
    void raw(const void* p, size_t n) { s.append(static_cast<const char*>(p), n); }
};
struct In {
    const char* p; const char* e; bool bad;
    In(const std::string& s) : p(s.data()), e(s.data() + s.size()), bad(false) {}
    uint64_t u64() { uint64_t v = 0; if (e - p < 8) { bad = true; return 0; } memcpy(&v, p, 8); p += 8; return v; }
    void raw(void* d, size_t n) { if ((size_t)(e - p) < n) { bad = true; memset(d, 0, n); return; } memcpy(d, p, n); p += n; }
};
static uint64_t g_forks = 0;
static int g_last_status = 0;           // wait status of the last child
static std::string death(int st) {      // how a child ended, for reports
    if (WIFSIGNALED(st)) return WTERMSIG(st) == SIGALRM ? "hang" : "crash";
    if (WIFEXITED(st) && WEXITSTATUS(st) == 1) return "crash";     // the sanitizer-coverage runtime turns SIGSEGV into exit(1)
    if (WIFEXITED(st) && WEXITSTATUS(st)) return "exit" + str(WEXITSTATUS(st));
    return "bad-output";
}
// run body in a forked child, return what it wrote; ok=false when the child died / timed out
static std::string in_child(const std::function<void(Out&)>& body, bool& ok, int timeout_s = 60) {
    int fd[2];
    ok = false;
    if (pipe(fd) != 0) return "";
    fflush(stdout); fflush(stderr);
    ++g_forks;
    pid_t pid = fork();
    if (pid < 0) { close(fd[0]); close(fd[1]); return ""; }
    if (pid == 0) {
        close(fd[0]);
        signal(SIGALRM, SIG_DFL);
        alarm(timeout_s);
        Out o;
        body(o);
        size_t off = 0;
        while (off < o.s.size()) {
            ssize_t w = write(fd[1], o.s.data() + off, o.s.size() - off);
            if (w <= 0) { if (errno == EINTR) continue; _exit(5); }
            off += (size_t)w;
        }
        _exit(0);
    }
    close(fd[1]);
    std::string r;
    char buf[65536];
    for (;;) {
        ssize_t n = read(fd[0], buf, sizeof buf);
        if (n < 0 && errno == EINTR) continue;
        if (n <= 0) break;
        r.append(buf, (size_t)n);
    }
    close(fd[0]);
    int st = 0;
    while (waitpid(pid, &st, 0) < 0 && errno == EINTR) {}
    g_last_status = st;
    ok = WIFEXITED(st) && WEXITSTATUS(st) == 0;
    return r;
}

// ====================================================================== 7. stage 1: footprints
static int g_scale = 0;
NOSAN static uint64_t run_workload(int w) {
    try { return c18::kWorkloads[w].fn(g_scale); }
    catch (std::exception& e) { return fnv(std::string("exception:") + e.what()); }
    catch (...) { return 0xdeadULL; }
}

struct PByte { uint8_t flags, wstate; uintptr_t wguard; uint64_t checked; uintptr_t pc_r, pc_w; };
struct Footprint {
    bool ok;
    uint64_t digest_cold, digest_warm;
    RunCounters cold, warm;
    uint64_t allocs, frees, cold_only_written;
    std::vector<uintptr_t> guards;
    std::map<uintptr_t, PByte> bytes;      // shared-capable bytes (guard variables removed)
    bool has_checked(const PByte& b, uintptr_t g) const {
        for (size_t i = 0; i < guards.size(); ++i) if (guards[i] == g) return (b.checked >> i) & 1;
        return false;
    }
};

struct TraceArg { int w; uint64_t digest[2]; RunCounters c[2]; ByteMap* maps[2]; uint64_t allocs, frees; };
NOSAN static void* trace_thread(void* p) {
    TraceArg* a = static_cast<TraceArg*>(p);
    pthread_attr_t at;
    void* sa = 0; size_t ss = 0;
    pthread_getattr_np(pthread_self(), &at);
    pthread_attr_getstack(&at, &sa, &ss);
    pthread_attr_destroy(&at);
    REC.stack_lo = (uintptr_t)sa; REC.stack_hi = (uintptr_t)sa + ss;
    REC.nguards = 0;
    // a DESCENDANT workload consumes the objects the main thread prepared for it: one (cold) run only
    bool single_shot = c18::kWorkloads[a->w].kind == c18::DESCENDANT;
    for (int run = 0; run < 2; ++run) {
        a->maps[run] = new (__libc_malloc(sizeof(ByteMap))) ByteMap();
        if (run == 1 && single_shot) { a->digest[1] = a->digest[0]; memset(&a->c[1], 0, sizeof a->c[1]); break; }
        REC.run_bytes = a->maps[run];
        memset(&REC.c, 0, sizeof REC.c);
        REC.checked = 0; REC.nregion = 0; REC.c_lo = REC.c_hi = 0;
        g_run = (uint32_t)(run + 1);
        g_run_allocs = g_run_frees = 0;
        t_role = 1;
        g_mode = 1;
        uint64_t dg = run_workload(a->w);
        g_mode = 0;
        t_role = 0;
        a->digest[run] = dg;
        a->c[run] = REC.c;
        if (run == 0) { a->allocs = g_run_allocs; a->frees = g_run_frees; }
    }
    return 0;
}

static void footprint_child(int w, Out& o) {
    TraceArg a;
    memset(&a, 0, sizeof a);
    a.w = w;
    pthread_t th;
    pthread_create(&th, 0, trace_thread, &a);
    pthread_join(th, 0);
    o.u64(a.digest[0]); o.u64(a.digest[1]);
    o.raw(&a.c[0], sizeof(RunCounters)); o.raw(&a.c[1], sizeof(RunCounters));
    o.u64(a.allocs); o.u64(a.frees);
    o.u64((uint64_t)REC.nguards);
    for (int i = 0; i < REC.nguards; ++i) o.u64(REC.guards[i]);
    // merge cold + warm; guard variable bytes are dropped (they are only known after the first acquire)
    std::map<uintptr_t, PByte> m;
    uint64_t cold_only_w = 0;
    for (int run = 0; run < 2; ++run)
        for (ByteMap::iterator it = a.maps[run]->begin(); it != a.maps[run]->end(); ++it) {
            if (guard_containing(it->first) >= 0) continue;
            const ByteInfo& bi = it->second;
            std::map<uintptr_t, PByte>::iterator f = m.find(it->first);
            if (f == m.end()) {
                PByte pb; memset(&pb, 0, sizeof pb);
                pb.checked = ~0ULL;
                f = m.insert(std::make_pair(it->first, pb)).first;
            }
            PByte& pb = f->second;
            if ((bi.flags & 1) && !pb.pc_r) pb.pc_r = bi.pc_r;
            if ((bi.flags & 2) && !pb.pc_w) pb.pc_w = bi.pc_w;
            pb.flags |= bi.flags;
            pb.checked &= bi.checked;
            if (bi.wstate) {
                uintptr_t g = bi.wstate == 2 ? REC.guards[bi.wg] : 0;
                if (pb.wstate == 0) { pb.wstate = bi.wstate; pb.wguard = g; }
                else if (pb.wstate != bi.wstate || pb.wguard != g) pb.wstate = 3;
            }
        }
    for (ByteMap::iterator it = a.maps[0]->begin(); it != a.maps[0]->end(); ++it)
        if ((it->second.flags & 2) && guard_containing(it->first) < 0) {
            ByteMap::iterator w2 = a.maps[1]->find(it->first);
            if (w2 == a.maps[1]->end() || !(w2->second.flags & 2)) ++cold_only_w;
        }
    o.u64(cold_only_w);
    o.u64(m.size());
    for (std::map<uintptr_t, PByte>::iterator it = m.begin(); it != m.end(); ++it) { o.u64(it->first); o.raw(&it->second, sizeof(PByte)); }
}

static Footprint take_footprint(int w) {
    Footprint f;
    f.ok = false;
    bool ok;
    std::string r = in_child([w](Out& o) { footprint_child(w, o); }, ok);
    if (!ok) return f;
    In in(r);
    f.digest_cold = in.u64(); f.digest_warm = in.u64();
    in.raw(&f.cold, sizeof(RunCounters)); in.raw(&f.warm, sizeof(RunCounters));
    f.allocs = in.u64(); f.frees = in.u64();
    uint64_t ng = in.u64();
    for (uint64_t i = 0; i < ng && !in.bad; ++i) f.guards.push_back((uintptr_t)in.u64());
    f.cold_only_written = in.u64();
    uint64_t nb = in.u64();
    for (uint64_t i = 0; i < nb && !in.bad; ++i) { uintptr_t a = (uintptr_t)in.u64(); PByte pb; in.raw(&pb, sizeof pb); f.bytes[a] = pb; }
    f.ok = !in.bad;
    return f;
}

// harness-owned shared state that every workload touches through the replaced operator new/delete of mc/common.hpp
// (a plain counter; a race of the check's own runtime, not of libtins): excluded from the dependence relation.
static std::set<uintptr_t> g_ignored_bytes;
static void compute_ignored() {
    uintptr_t a = (uintptr_t)&mc::g_live_allocs;
    for (size_t i = 0; i < sizeof(mc::g_live_allocs); ++i) g_ignored_bytes.insert(a + i);
}

// Audited allow-list of library objects that instrumented code may touch from several threads.
static void allow(const void* p, size_t n, const char* what) {
    if (g_nallowed < 16 && !getenv("C18_NO_ALLOWLIST")) { g_allowed[g_nallowed].lo = (uintptr_t)p; g_allowed[g_nallowed].hi = (uintptr_t)p + n; g_allowed[g_nallowed].what = what; ++g_nallowed; }
}
static void setup_allowlist() {
    // 1. libstdc++'s classic-locale std::ctype<char> facet object (static storage inside libstdc++.so): the inline
    //    std::ctype<char>::widen()/narrow() of <bits/locale_facets.h> read its _M_widen_ok/_M_widen[]/_M_narrow[] cache members from
    //    whatever code uses std::setfill / os.widen(); libstdc++ fills the cache with idempotent values and documents the classic
    //    locale's facets as usable from several threads.  (On the current tree no instrumented code touches it at all.)
    const std::ctype<char>& ct = std::use_facet<std::ctype<char> >(std::locale::classic());
    allow(&ct, sizeof ct, "libstdc++ classic std::ctype<char> facet (widen/narrow cache)");
}

struct Conflict {
    std::vector<uintptr_t> bytes;        // conflicting bytes that are NOT ordered by a guard
    std::vector<uintptr_t> ordered;      // conflicting bytes whose every write is inside one guard region and every access follows a check of it
};
static void one_direction(const Footprint& A, const Footprint& B, bool same, Conflict& c) {
    for (std::map<uintptr_t, PByte>::const_iterator it = A.bytes.begin(); it != A.bytes.end(); ++it) {
        if (!(it->second.flags & 2)) continue;
        if (g_ignored_bytes.count(it->first)) continue;
        std::map<uintptr_t, PByte>::const_iterator jt = B.bytes.find(it->first);
        if (jt == B.bytes.end()) continue;
        const PByte& x = it->second; const PByte& y = jt->second;
        bool ordered = x.wstate == 2 && (y.wstate == 0 || (y.wstate == 2 && y.wguard == x.wguard)) &&
                       A.has_checked(x, x.wguard) && B.has_checked(y, x.wguard);
        (ordered ? c.ordered : c.bytes).push_back(it->first);
        (void)same;
    }
}
static Conflict conflicts(const Footprint& A, const Footprint& B, bool same) {
    Conflict c;
    one_direction(A, B, same, c);
    if (!same) one_direction(B, A, same, c);
    std::sort(c.bytes.begin(), c.bytes.end()); c.bytes.erase(std::unique(c.bytes.begin(), c.bytes.end()), c.bytes.end());
    std::sort(c.ordered.begin(), c.ordered.end()); c.ordered.erase(std::unique(c.ordered.begin(), c.ordered.end()), c.ordered.end());
    // a byte that is unordered in one direction is unordered
    std::vector<uintptr_t> o2;
    for (size_t i = 0; i < c.ordered.size(); ++i) if (!std::binary_search(c.bytes.begin(), c.bytes.end(), c.ordered[i])) o2.push_back(c.ordered[i]);
    c.ordered.swap(o2);
    return c;
}

// ====================================================================== 8. running threads under the scheduler (in a child)
struct SchedResult {
    bool ok; std::vector<DP> dps; std::vector<RaceRec> races; std::vector<uint64_t> digests;
    uint64_t points; bool deadlock, bad_replay; uint32_t guard_blocks, lock_blocks, rr_switches; std::string how;
};
NOSAN static void* managed_thread(void* p) {
    MT* me = static_cast<MT*>(p);
    t_self = me;
    pthread_attr_t at;
    void* sa = 0; size_t ss = 0;
    pthread_getattr_np(pthread_self(), &at);
    pthread_attr_getstack(&at, &sa, &ss);
    pthread_attr_destroy(&at);
    me->stack_lo = (uintptr_t)sa; me->stack_hi = (uintptr_t)sa + ss;
    while (sem_wait(&me->go) != 0) {}
    me->state = T_RUNNING;
    t_role = 2;
    uint64_t d = run_workload(me->wl);
    t_role = 0;
    me->digest = d;
    sched_thread_end(me);
    return 0;
}
static void sched_child(const std::vector<int>& wls, const std::vector<uintptr_t>& conf_bytes, const std::vector<Dec>& forced,
                        bool rr, int quantum, Out& o) {
    g_track = 0;
    static Sched sched;
    S = &sched;
    S->n = (int)wls.size();
    S->rr = rr; S->quantum = quantum; S->rr_switches = 0;
    S->forced = forced; S->fi = 0; S->step = 0; S->points = 0; S->deadlock = S->bad_replay = false; S->guard_blocks = 0; S->lock_blocks = 0;
    S->cmin = ~(uintptr_t)0; S->cmax = 0;
    for (size_t i = 0; i < conf_bytes.size(); ++i) {      // sorted bytes -> ranges
        if (!S->conf.empty() && S->conf.back().hi == conf_bytes[i]) S->conf.back().hi++;
        else { Range r; r.lo = conf_bytes[i]; r.hi = conf_bytes[i] + 1; S->conf.push_back(r); }
    }
    if (!S->conf.empty()) { S->cmin = S->conf.front().lo; S->cmax = S->conf.back().hi; }
    S->dps.reserve(4096);
    sem_init(&S->all_done, 0, 0);
    for (int i = 0; i < S->n; ++i) {
        MT* t = &S->t[i];
        memset(&t->pend, 0, sizeof t->pend);
        t->state = T_NEW; t->wl = wls[i]; t->id = i; t->digest = 0; t->blocked_on = 0; t->accesses = 0;
        sem_init(&t->go, 0, 0);
        pthread_create(&t->th, 0, managed_thread, t);
    }
    g_mode = 2;
    int first;
    { InGuard ig; first = decide(-1, false); }
    S->cur = first;
    sem_post(&S->t[first].go);
    while (sem_wait(&S->all_done) != 0) {}
    g_mode = 0;
    if (!S->deadlock) for (int i = 0; i < S->n; ++i) pthread_join(S->t[i].th, 0);
    o.u64(S->points); o.u64(S->deadlock); o.u64(S->bad_replay || S->fi != S->forced.size()); o.u64(S->guard_blocks); o.u64(S->lock_blocks); o.u64(S->rr_switches);
    o.u64((uint64_t)S->n);
    for (int i = 0; i < S->n; ++i) o.u64(S->t[i].state == T_DONE ? S->t[i].digest : 0xb10c4edULL);
    o.u64(S->dps.size());
    if (!S->dps.empty()) o.raw(&S->dps[0], S->dps.size() * sizeof(DP));
    o.u64(S->races.size());
    for (size_t i = 0; i < S->races.size(); ++i) o.raw(&S->races[i], sizeof(RaceRec));
}
static SchedResult run_schedule(const std::vector<int>& wls, const std::vector<uintptr_t>& conf, const std::vector<Dec>& forced,
                                bool rr = false, int quantum = 0) {
    int timeout_s = rr ? 600 : 60;      // a round-robin run of 16 sweep workloads hands the token over about a million times
    SchedResult r;
    r.ok = false; r.points = 0; r.deadlock = r.bad_replay = false; r.guard_blocks = r.lock_blocks = r.rr_switches = 0;
    bool ok;
    std::string s = in_child([&](Out& o) { sched_child(wls, conf, forced, rr, quantum, o); }, ok, timeout_s);
    if (!ok) { r.how = death(g_last_status); return r; }
    In in(s);
    r.points = in.u64(); r.deadlock = in.u64() != 0; r.bad_replay = in.u64() != 0; r.guard_blocks = (uint32_t)in.u64(); r.lock_blocks = (uint32_t)in.u64(); r.rr_switches = (uint32_t)in.u64();
    uint64_t n = in.u64();
    for (uint64_t i = 0; i < n && !in.bad; ++i) r.digests.push_back(in.u64());
    uint64_t nd = in.u64();
    if (!in.bad && nd) { r.dps.resize(nd); in.raw(&r.dps[0], nd * sizeof(DP)); }
    uint64_t nr = in.u64();
    for (uint64_t i = 0; i < nr && !in.bad; ++i) { RaceRec rr2; in.raw(&rr2, sizeof rr2); r.races.push_back(rr2); }
    r.ok = !in.bad;
    return r;
}

// ====================================================================== 9. stage 2: exploration of all schedules with <= B preemptions
static std::string sched_str(const std::vector<Dec>& f) {
    std::string s;
    for (size_t i = 0; i < f.size(); ++i) s += (i ? "," : "") + str(f[i].step) + ":" + str((int)f[i].thr);
    return s.empty() ? "-" : s;
}
static std::vector<Dec> parse_sched(const std::string& s) {
    std::vector<Dec> f;
    if (s == "-" || s.empty()) return f;
    size_t p = 0;
    while (p < s.size()) {
        Dec d; d.step = (uint32_t)strtoul(s.c_str() + p, 0, 10);
        size_t c = s.find(':', p);
        if (c == std::string::npos) break;
        d.thr = (uint8_t)atoi(s.c_str() + c + 1);
        f.push_back(d);
        p = s.find(',', c);
        if (p == std::string::npos) break;
        ++p;
    }
    return f;
}
static std::string wl_names(const std::vector<int>& wls) {
    std::string s;
    for (size_t i = 0; i < wls.size(); ++i) s += (i ? "+" : "") + std::string(c18::kWorkloads[wls[i]].name);
    return s;
}
static std::string top_tins(const Pending& p, std::string* stack_out) {
    std::string top, all;
    std::vector<uintptr_t> pcs;
    pcs.push_back(p.pc);
    int from = 0;
    for (int i = 0; i < p.nbt; ++i) if (p.bt[i] == p.pc) from = i + 1;      // frames below are the tracer's own
    for (int i = from; i < p.nbt; ++i) pcs.push_back(p.bt[i]);
    for (size_t i = 0; i < pcs.size(); ++i) {
        std::string f = func_name(pcs[i] - 1, true);
        all += (all.empty() ? "" : " <- ") + f;
        std::string bare = f.substr(0, f.find('+'));
        if (top.empty() && (bare.compare(0, 6, "Tins::") == 0 || bare.find(" Tins::") != std::string::npos)) top = bare;
    }
    if (top.empty()) top = func_name(p.pc - 1);
    size_t sp = top.rfind(' ');
    if (sp != std::string::npos) top = top.substr(sp + 1);
    if (stack_out) *stack_out = all;
    return top;
}

struct ExploreStats {
    uint64_t schedules, points, races, divergences, failing, guard_blocks, lock_blocks, deadlocks;
    int completed_bound; bool exhaustive;
    std::string first_race_sig, first_div_sig;
    ExploreStats() : schedules(0), points(0), races(0), divergences(0), failing(0), guard_blocks(0), lock_blocks(0), deadlocks(0), completed_bound(-1), exhaustive(true) {}
};
static std::vector<Footprint> FP;

// report = false for the canaries (their findings are counted, not reported as violations)
static ExploreStats explore(const std::vector<int>& wls, const std::vector<uintptr_t>& conf, int bound, uint64_t cap, bool report,
                            bool stop_when_both) {
    ExploreStats st;
    std::vector<std::deque<std::vector<Dec> > > level(bound + 2);
    level[0].push_back(std::vector<Dec>());
    std::set<std::string> confirmed;      // signatures whose first failing schedule was replayed twice
    bool have_race = false, have_div = false;
    uint64_t since_first_failure = 0;
    double t_first_failure = 0;
    for (int b = 0; b <= bound; ++b) {
        while (!level[b].empty()) {
            if (deadline_reached() || st.schedules >= cap) { st.exhaustive = false; return st; }
            if (stop_when_both && have_race && have_div) { st.exhaustive = false; return st; }
            // a set that already failed is a violation: look a little further (for a divergence next to the race), then stop
            if (stop_when_both && st.failing) {
                if (!since_first_failure) t_first_failure = now();
                if (++since_first_failure > 100 || now() - t_first_failure > 15) { st.exhaustive = false; return st; }
            }
            std::vector<Dec> pre = level[b].front();
            level[b].pop_front();
            SchedResult r = run_schedule(wls, conf, pre);
            st.schedules++;
            if (!r.ok || r.bad_replay) {
                // the threads crashed or hung under this schedule (seen on racy trees: e.g. two threads resizing one static vector),
                // or (bad_replay) the execution did not offer the recorded decision: neither can happen on a race-free tree
                std::string how = r.ok ? "schedule-not-followed" : r.how;
                st.failing++;
                if (report) R.violation("sched:" + how + "-under-schedule", "the threads of " + wl_names(wls) + " did not complete under this schedule (" + how + ")",
                                        "stage=2 scale=" + str(g_scale) + " wl=" + wl_names(wls) + " sched=" + sched_str(pre));
                else R.count("canary_schedule_failures");
                st.exhaustive = false;
                continue;
            }
            st.points += r.points;
            st.guard_blocks += r.guard_blocks;
            st.lock_blocks += r.lock_blocks;
            std::string kase = "stage=2 scale=" + str(g_scale) + " wl=" + wl_names(wls) + " sched=" + sched_str(pre);
            std::vector<std::pair<std::string, std::string> > found;      // (signature, detail)
            if (r.deadlock) { st.deadlocks++; found.push_back(std::make_pair("sched:deadlock:" + wl_names(wls), "all remaining threads blocked")); }
            for (size_t i = 0; i < r.races.size(); ++i) {
                const RaceRec& rc = r.races[i];
                std::string sa, sb;
                std::string fa = top_tins(rc.a, &sa), fb = top_tins(rc.b, &sb);
                std::string loc = location_name(rc.addr);
                const char* kind = (rc.a.kind == K_WRITE && rc.b.kind == K_WRITE) ? "W/W" : "R/W";
                std::string x = fa, y = fb;
                if (y < x) std::swap(x, y);
                std::string sig = std::string("race:") + kind + ":" + loc + ":" + x + "|" + y;
                if (loc.compare(0, 15, "foreign-static:") == 0 || loc.compare(0, 19, "non-reentrant-call:") == 0) sig = "race:" + loc + ":" + x + "|" + y;
                std::string det = "thread " + str(rc.ta) + " (" + c18::kWorkloads[wls[rc.ta]].name + ") about to " +
                                  (rc.a.kind == K_WRITE ? "write " : "read ") + str(rc.a.size) + " byte(s) at " + loc + ": " + sa +
                                  "\nthread " + str(rc.tb) + " (" + c18::kWorkloads[wls[rc.tb]].name + ") suspended before " +
                                  (rc.b.kind == K_WRITE ? "writing " : "reading ") + str(rc.b.size) + " byte(s) there: " + sb +
                                  "\nschedule (decision step:thread): " + sched_str(pre) + ", " + str(b) + " preemption(s)";
                found.push_back(std::make_pair(sig, det));
                st.races++;
                have_race = true;
                if (st.first_race_sig.empty()) st.first_race_sig = sig;
            }
            for (size_t i = 0; i < r.digests.size(); ++i)
                if (r.digests[i] != FP[wls[i]].digest_cold) {
                    char d[160];
                    snprintf(d, sizeof d, "thread %zu digest %016llx, alone %016llx; schedule %s", i, (unsigned long long)r.digests[i],
                             (unsigned long long)FP[wls[i]].digest_cold, sched_str(pre).c_str());
                    std::string sig = std::string("divergence:") + c18::kWorkloads[wls[i]].name;
                    found.push_back(std::make_pair(sig, d));
                    st.divergences++;
                    have_div = true;
                    if (st.first_div_sig.empty()) st.first_div_sig = sig;
                }
            if (!found.empty()) st.failing++;
            for (size_t i = 0; i < found.size(); ++i) {
                if (!confirmed.count(found[i].first)) {
                    confirmed.insert(found[i].first);
                    // replay the failing schedule twice: observations must be identical
                    for (int k = 0; k < 2; ++k) {
                        SchedResult r2 = run_schedule(wls, conf, pre);
                        R.count("failing_schedule_replays");
                        bool same = r2.ok && r2.digests == r.digests && r2.races.size() == r.races.size() && r2.deadlock == r.deadlock;
                        for (size_t q = 0; same && q < r.races.size(); ++q)
                            same = r2.races[q].a.pc == r.races[q].a.pc && r2.races[q].b.pc == r.races[q].b.pc && r2.races[q].addr == r.races[q].addr;
                        if (!same) R.violation("harness:nondeterministic-replay", "a failing schedule did not reproduce identically: " + found[i].first, kase);
                        else R.count("failing_schedule_replays_identical");
                    }
                }
                if (report) R.violation(found[i].first, found[i].second, kase);
            }
            // children: one more forced decision strictly after the last one
            uint32_t from = pre.empty() ? 0 : pre.back().step + 1;
            int used = b;
            for (uint32_t s = from; s < r.dps.size(); ++s) {
                const DP& dp = r.dps[s];
                int cost = dp.cur_enabled ? 1 : 0;
                if (used + cost > bound) continue;
                for (int t = 0; t < (int)wls.size(); ++t) {
                    if (!(dp.enabled & (1u << t)) || t == dp.chosen) continue;
                    std::vector<Dec> nx = pre;
                    Dec d; d.step = s; d.thr = (uint8_t)t;
                    nx.push_back(d);
                    if (level[used + cost].size() > 4000000) { st.exhaustive = false; continue; }
                    level[used + cost].push_back(nx);
                }
            }
        }
        st.completed_bound = b;
    }
    return st;
}

// ====================================================================== 10. jobs
static std::string json_counts(const RunCounters& c) {
    return "{\"private_stack\":" + str(c.priv_stack) + ",\"private_heap\":" + str(c.priv_heap) + ",\"shared_read\":" + str(c.shared_r) +
           ",\"shared_write\":" + str(c.shared_w) + ",\"range_ops\":" + str(c.range_ops) + ",\"guard_ops\":" + str(c.guard_ops) + ",\"foreign_static_touches\":" + str(c.foreign) +
           ",\"allowlisted_library_touches\":" + str(c.allowlisted) + ",\"nonreentrant_calls\":" + str(c.nr_calls) + "}";
}

static bool all_footprints() {
    FP.clear();
    for (int w = 0; w < c18::kNumWorkloads; ++w) {
        FP.push_back(take_footprint(w));
        if (!FP.back().ok) {
            R.violation(std::string("harness:footprint-run-failed:") + c18::kWorkloads[w].name, "child died or timed out", "stage=1 wl=" + std::string(c18::kWorkloads[w].name));
            return false;
        }
    }
    return true;
}

struct Task { std::vector<int> wls; };      // a set of workloads to run concurrently

static int gcd_(int a, int b) { return b ? gcd_(b, a % b) : a; }
static std::vector<Task> make_tasks(bool thorough) {
    std::vector<Task> ts;
    int n = c18::kNumLibtins;
    for (int i = 0; i < n; ++i) for (int j = i; j < n; ++j) { Task t; t.wls.push_back(i); t.wls.push_back(j); ts.push_back(t); }
    // k threads, k = 3, 4, 8, 16: rotations over the workload list (with repetitions of the same workload)
    static const int ks[] = {3, 4, 8, 16};
    for (int q = 0; q < 4; ++q) {
        int k = ks[q];
        int rots = thorough ? n : 3;
        for (int r = 0; r < rots; ++r) {
            Task t;
            int stride = 1;
            if (r % 2 == 0) { stride = 4; while (gcd_(stride, n) != 1) ++stride; }      // coprime with n: k distinct workloads when k <= n
            for (int i = 0; i < k; ++i) t.wls.push_back((r * 4 + i * stride) % n);
            ts.push_back(t);
        }
    }
    // DESCENDANT workloads (objects derived from a common ancestor by the main thread): every pair of distinct ones — thread A / B of
    // one object set and across sets —, all of them together, and all of them next to ten ordinary workloads (16 threads).
    // Never i == j: the two threads would then share their objects, which is outside the property.
    int nd = c18::kNumDescendant;
    for (int i = 0; i < nd; ++i) for (int j = i + 1; j < nd; ++j) { Task t; t.wls.push_back(n + i); t.wls.push_back(n + j); ts.push_back(t); }
    if (nd) {
        Task all, mixed;
        for (int i = 0; i < nd; ++i) { all.wls.push_back(n + i); mixed.wls.push_back(n + i); }
        for (int i = 0; (int)mixed.wls.size() < 16 && i < n; ++i) mixed.wls.push_back(i);
        ts.push_back(all);
        ts.push_back(mixed);
    }
    return ts;
}

static std::vector<uintptr_t> union_conflicts(const std::vector<int>& wls, size_t* n_ordered) {
    std::vector<uintptr_t> all;
    size_t ord = 0;
    for (size_t i = 0; i < wls.size(); ++i)
        for (size_t j = i + 1; j < wls.size(); ++j) {
            Conflict c = conflicts(FP[wls[i]], FP[wls[j]], wls[i] == wls[j]);
            all.insert(all.end(), c.bytes.begin(), c.bytes.end());
            ord += c.ordered.size();
            if (!c.bytes.empty()) all.insert(all.end(), c.ordered.begin(), c.ordered.end());   // explored too once the pair is dependent
        }
    std::sort(all.begin(), all.end());
    all.erase(std::unique(all.begin(), all.end()), all.end());
    if (n_ordered) *n_ordered = ord;
    return all;
}

static void report_stage1() {
    // per-workload table, symbols of shared locations, non-vacuity flags
    std::string tab = "{";
    bool seen_crc = false, seen_private_ranges = false, seen_registry = false;
    uint64_t tot_shared_reads = 0;
    std::set<uintptr_t> foreign_bytes, allow_bytes;     // library statics touched by instrumented code: not allow-listed / allow-listed
    std::set<std::string> nr_seen;                      // non-reentrant entry points called from instrumented code
    for (int w = 0; w < c18::kNumWorkloads; ++w) {
        const Footprint& f = FP[w];
        std::map<std::string, std::pair<uint64_t, uint64_t> > syms;     // name -> (bytes read, bytes written)
        uint64_t rbytes = 0, wbytes = 0;
        for (std::map<uintptr_t, PByte>::const_iterator it = f.bytes.begin(); it != f.bytes.end(); ++it) {
            std::string nm = location_name(it->first);
            bool libtins_wl = c18::kWorkloads[w].kind == c18::LIBTINS || c18::kWorkloads[w].kind == c18::DESCENDANT;    // statistics: not the canaries
            if (nm.compare(0, 15, "foreign-static:") == 0) {
                // flag 4 = touched by instrumented code (counted as written); otherwise the library touched its own data through an
                // interposed memcpy/memcmp (e.g. libstdc++ filling its ctype cache): its business
                if (it->second.flags & 4) { nm = nm.substr(0, nm.find('+')); if (libtins_wl) foreign_bytes.insert(it->first); }
                else nm = "lib:" + nm.substr(15, nm.find('+') - 15) + " (own writable data, touched by the library itself)";
            }
            if (nm.compare(0, 16, "lib-allowlisted:") == 0 && foreign_index(it->first) >= 0 && libtins_wl) allow_bytes.insert(it->first);
            if (nm.compare(0, 19, "non-reentrant-call:") == 0 && libtins_wl) nr_seen.insert(nm.substr(19) + " <- " + func_name((it->second.pc_w ? it->second.pc_w : it->second.pc_r) - 1));
            if (it->second.flags & 1) { syms[nm].first++; rbytes++; }
            if (it->second.flags & 2) { syms[nm].second++; wbytes++; }
        }
        std::string sl = "{";
        bool first = true;
        for (std::map<std::string, std::pair<uint64_t, uint64_t> >::iterator it = syms.begin(); it != syms.end(); ++it) {
            sl += (first ? "" : ",") + jstr(it->first) + ":[" + str(it->second.first) + "," + str(it->second.second) + "]";
            first = false;
            if (c18::kWorkloads[w].kind == c18::LIBTINS) {
                if (it->first.find("crc_table") != std::string::npos && it->second.first) seen_crc = true;
                if (it->first.find("private_ranges") != std::string::npos && it->second.first) seen_private_ranges = true;
                if (it->first.find("allocator-registry-node") != std::string::npos && it->second.first) seen_registry = true;
            }
        }
        sl += "}";
        tab += (w ? "," : "") + jstr(c18::kWorkloads[w].name) + ":{\"cold\":" + json_counts(f.cold) + ",\"warm\":" + json_counts(f.warm) +
               ",\"shared_bytes_read\":" + str(rbytes) + ",\"shared_bytes_written\":" + str(wbytes) + ",\"written_only_in_first_run\":" +
               str(f.cold_only_written) + ",\"heap_blocks_allocated\":" + str(f.allocs) + ",\"heap_blocks_still_live\":" + str(f.allocs - f.frees) +
               ",\"guards\":" + str(f.guards.size()) + ",\"shared_symbols_bytes_read_written\":" + sl + "}";
        if (c18::kWorkloads[w].kind == c18::DESCENDANT) {
            uint64_t own = 0, other = 0;
            for (std::map<uintptr_t, PByte>::const_iterator it = f.bytes.begin(); it != f.bytes.end(); ++it)
                if ((it->second.flags & 2) && !g_ignored_bytes.count(it->first)) {
                    if (location_name(it->first) == "heap:descendant-object") ++own; else ++other;
                }
            R.count("descendant_private_accesses", f.cold.priv_stack + f.cold.priv_heap);
            R.count("descendant_shared_reads", f.cold.shared_r);
            R.count("descendant_bytes_written_in_own_objects", own);       // the thread's own copies: mutated and destroyed by design
            R.count("descendant_bytes_written_elsewhere", other);          // expected 0
            tot_shared_reads += f.cold.shared_r;
            if (f.cold.shared_r) R.dist("distinct_nontrivial", fnv(std::string(c18::kWorkloads[w].name)));
        }
        if (c18::kWorkloads[w].kind == c18::LIBTINS) {
            R.count("stage1_private_accesses", f.cold.priv_stack + f.cold.priv_heap);
            R.count("stage1_shared_reads", f.cold.shared_r);
            uint64_t wb = 0;
            for (std::map<uintptr_t, PByte>::const_iterator it = f.bytes.begin(); it != f.bytes.end(); ++it)
                if ((it->second.flags & 2) && !g_ignored_bytes.count(it->first)) ++wb;
            R.count("stage1_shared_bytes_written", wb);
            tot_shared_reads += f.cold.shared_r;
            if (f.cold.shared_r) R.dist("distinct_nontrivial", fnv(std::string(c18::kWorkloads[w].name)));
            R.dist("distinct_digests", f.digest_cold);
            if (f.digest_cold != f.digest_warm)
                R.violation(std::string("divergence:sequential-rerun:") + c18::kWorkloads[w].name,
                            "the second run of the workload in the same thread produced a different digest (hidden state survives the call)",
                            std::string("stage=1 wl=") + c18::kWorkloads[w].name);
        }
    }
    tab += "}";
    R.info["footprints"] = tab;
    R.info["nonvacuity"] = std::string("{\"crc_table_read\":") + (seen_crc ? "true" : "false") + ",\"private_ranges_read\":" +
                           (seen_private_ranges ? "true" : "false") + ",\"allocator_registry_nodes_read\":" + (seen_registry ? "true" : "false") + "}";
    // library statics touched by libtins / the workloads, as merged ranges
    for (int pass = 0; pass < 2; ++pass) {
        const std::set<uintptr_t>& bs = pass ? allow_bytes : foreign_bytes;
        std::string js = "[";
        uintptr_t lo = 0, prev = 0;
        for (std::set<uintptr_t>::const_iterator it = bs.begin();; ++it) {
            bool end = it == bs.end();
            if (lo && (end || *it != prev + 1 || foreign_index(*it) != foreign_index(prev))) {
                int fi = foreign_index(lo);
                char buf[200];
                Dl_info di;
                const char* near = (dladdr(reinterpret_cast<void*>(lo), &di) && di.dli_sname) ? di.dli_sname : "";
                snprintf(buf, sizeof buf, "%s+0x%lx..0x%lx (%lu bytes)%s%s%s%s", fi >= 0 ? g_foreign[fi].lib : "?", (unsigned long)(lo - (fi >= 0 ? g_foreign[fi].base : 0)),
                         (unsigned long)(prev + 1 - (fi >= 0 ? g_foreign[fi].base : 0)), (unsigned long)(prev + 1 - lo), *near ? " after " : "", near,
                         pass ? " = " : "", pass ? g_allowed[allowed_index(lo)].what : "");
                js += (js.size() > 1 ? "," : "") + jstr(buf);
                lo = 0;
            }
            if (end) break;
            if (!lo) lo = *it;
            prev = *it;
        }
        R.info[pass ? "library_statics_allowlisted_touched" : "foreign_statics_touched"] = js + "]";
    }
    std::string nrj = "[";
    for (std::set<std::string>::iterator it = nr_seen.begin(); it != nr_seen.end(); ++it) nrj += (nrj.size() > 1 ? "," : "") + jstr(*it);
    R.info["nonreentrant_calls_seen"] = nrj + "]";
    R.count("foreign_static_bytes_touched", foreign_bytes.size());
    R.count("allowlisted_library_bytes_touched", allow_bytes.size());
    R.count("nonreentrant_entry_points_called", nr_seen.size());
    R.count("tracer_alive", tot_shared_reads > 0 ? 1 : 0);
    R.count("nonvacuity_anchors_seen", (seen_crc ? 1 : 0) + (seen_private_ranges ? 1 : 0) + (seen_registry ? 1 : 0));
}

static const int kBound = 2;

static void job(int j) {
    int njobs = A.thorough() ? 16 : 8;
    g_scale = A.thorough() ? 1 : 0;
    if (!all_footprints()) { R.flags["exhaustive"] = false; return; }
    if (j == 0) report_stage1();
    uint64_t cap = A.thorough() ? 400000 : 40000;

    // ---- canaries (job 0): racy pair must be found dependent, explored, race + divergence detected
    if (j == 0) {
        int ca = -1, cb = -1, ga = -1, gb = -1, la = -1, lb = -1, sa = -1, sb = -1, fa_ = -1, fb_ = -1;
        for (int w = 0; w < c18::kNumWorkloads; ++w) {
            if (c18::kWorkloads[w].kind == c18::CANARY_RACY) { if (ca < 0) ca = w; else cb = w; }
            if (c18::kWorkloads[w].kind == c18::CANARY_GUARDED) { if (ga < 0) ga = w; else gb = w; }
            if (c18::kWorkloads[w].kind == c18::CANARY_LOCKED) { if (la < 0) la = w; else lb = w; }
            if (c18::kWorkloads[w].kind == c18::CANARY_COPYSHARE) { if (sa < 0) sa = w; else sb = w; }
            if (c18::kWorkloads[w].kind == c18::CANARY_FOREIGN) { if (fa_ < 0) fa_ = w; else fb_ = w; }
        }
        std::vector<int> pair; pair.push_back(ca); pair.push_back(cb);
        size_t ord = 0;
        std::vector<uintptr_t> conf = union_conflicts(pair, &ord);
        if (getenv("C18_SELFTEST_BLIND")) conf.clear();      // self-test of the broken-check path: pretend stage 1 saw nothing
        bool dependent = !conf.empty();
        ExploreStats st;
        if (dependent) st = explore(pair, conf, kBound, cap, false, false);
        bool detected = dependent && st.races > 0 && st.divergences > 0 && st.completed_bound == kBound;
        R.count("canary_schedules", st.schedules);
        R.count("canary_detected", detected ? 1 : 0);
        R.count("canary_conflict_bytes", conf.size());
        R.count("canary_races", st.races);
        R.count("canary_divergences", st.divergences);
        R.count("states", st.schedules);
        R.count("schedules", st.schedules);
        R.count("transitions", st.points);
        R.count("traces_validated_against_impl", st.schedules);
        R.sample("{\"canary\":" + jstr(wl_names(pair)) + ",\"dependent\":" + (dependent ? "true" : "false") + ",\"conflict_bytes\":" + str(conf.size()) +
                 ",\"location\":" + jstr(conf.empty() ? "" : location_name(conf[0])) + ",\"schedules\":" + str(st.schedules) + ",\"race\":" +
                 jstr(st.first_race_sig) + ",\"divergence\":" + jstr(st.first_div_sig) + "}");
        // guarded canary: conflicting bytes must all be guard-ordered; explored anyway: no race, no divergence, a thread really blocked
        std::vector<int> gp; gp.push_back(ga); gp.push_back(gb);
        Conflict gc = conflicts(FP[ga], FP[gb], false);
        ExploreStats gs = explore(gp, gc.ordered, kBound, cap, false, false);
        bool guard_ok = gc.bytes.empty() && !gc.ordered.empty() && gs.races == 0 && gs.divergences == 0 && gs.guard_blocks > 0 && gs.deadlocks == 0;
        R.count("guard_canary_schedules", gs.schedules);
        R.count("guard_canary_ordered_bytes", gc.ordered.size());
        R.count("guard_canary_unordered_bytes", gc.bytes.size());
        R.count("guard_canary_blocked", gs.guard_blocks);
        R.count("guard_canary_ok", guard_ok ? 1 : 0);
        R.count("states", gs.schedules);
        R.count("schedules", gs.schedules);
        R.count("transitions", gs.points);
        R.count("traces_validated_against_impl", gs.schedules);
        // locked canary: a static cache protected by a std::mutex: dependent by footprint, explored: no race, no divergence, no dead-lock,
        // and some schedule really blocked a thread at the lock
        std::vector<int> lp; lp.push_back(la); lp.push_back(lb);
        std::vector<uintptr_t> lconf = union_conflicts(lp, 0);
        ExploreStats ls;
        if (!lconf.empty()) ls = explore(lp, lconf, kBound, cap, false, false);
        bool lock_ok = !lconf.empty() && ls.races == 0 && ls.divergences == 0 && ls.deadlocks == 0 && ls.failing == 0 && ls.lock_blocks > 0 &&
                       ls.completed_bound == kBound;
        R.count("lock_canary_schedules", ls.schedules);
        R.count("lock_canary_blocked", ls.lock_blocks);
        R.count("lock_canary_ok", lock_ok ? 1 : 0);
        R.count("states", ls.schedules);
        R.count("schedules", ls.schedules);
        R.count("transitions", ls.points);
        R.count("traces_validated_against_impl", ls.schedules);
        if (!lock_ok) { fprintf(stderr, "C18 BROKEN CHECK: mutex model failed on the locked canary\n"); guard_ok = false; }
        // copy-sharing canary: two copies (made by the main thread) of one ancestor share a block through a plain use count; each thread
        // copies and destroys only ITS copy: must be dependent (a heap location that existed before the threads), race + divergence found
        std::vector<int> sp; sp.push_back(sa); sp.push_back(sb);
        std::vector<uintptr_t> sconf = union_conflicts(sp, 0);
        ExploreStats ss;
        if (!sconf.empty()) ss = explore(sp, sconf, kBound, cap, false, false);
        bool share_ok = !sconf.empty() && location_name(sconf[0]) == "heap:descendant-object" && ss.races > 0 && ss.divergences > 0 &&
                        ss.completed_bound == kBound;
        R.count("copyshare_canary_schedules", ss.schedules);
        R.count("copyshare_canary_conflict_bytes", sconf.size());
        R.count("copyshare_canary_races", ss.races);
        R.count("copyshare_canary_divergences", ss.divergences);
        R.count("copyshare_canary_detected", share_ok ? 1 : 0);
        R.count("states", ss.schedules);
        R.count("schedules", ss.schedules);
        R.count("transitions", ss.points);
        R.count("traces_validated_against_impl", ss.schedules);
        R.sample("{\"canary\":" + jstr(wl_names(sp)) + ",\"dependent\":" + (sconf.empty() ? "false" : "true") + ",\"location\":" +
                 jstr(sconf.empty() ? "" : location_name(sconf[0])) + ",\"schedules\":" + str(ss.schedules) + ",\"race\":" + jstr(ss.first_race_sig) + "}");
        // foreign-static canary: gmtime() — a documented non-reentrant entry point whose result lives in libc's writable data: the pair must
        // be dependent through the call token AND through the library's static buffer, race + divergence found
        std::vector<int> fp2; fp2.push_back(fa_); fp2.push_back(fb_);
        std::vector<uintptr_t> fconf = union_conflicts(fp2, 0);
        bool has_token = false, has_static = false;
        for (size_t i = 0; i < fconf.size(); ++i) {
            std::string nm = location_name(fconf[i]);
            if (nm == "non-reentrant-call:gmtime") has_token = true;
            if (nm.compare(0, 23, "foreign-static:libc.so+") == 0) has_static = true;
        }
        ExploreStats fs;
        if (!fconf.empty()) fs = explore(fp2, fconf, kBound, cap, false, false);
        bool foreign_ok = has_token && has_static && fs.races > 0 && fs.divergences > 0 && fs.completed_bound == kBound;
        R.count("foreign_canary_schedules", fs.schedules);
        R.count("foreign_canary_conflict_bytes", fconf.size());
        R.count("foreign_canary_races", fs.races);
        R.count("foreign_canary_divergences", fs.divergences);
        R.count("foreign_canary_detected", foreign_ok ? 1 : 0);
        R.count("states", fs.schedules);
        R.count("schedules", fs.schedules);
        R.count("transitions", fs.points);
        R.count("traces_validated_against_impl", fs.schedules);
        R.sample("{\"canary\":" + jstr(wl_names(fp2)) + ",\"token\":" + (has_token ? "true" : "false") + ",\"library_static\":" + (has_static ? "true" : "false") +
                 ",\"schedules\":" + str(fs.schedules) + ",\"race\":" + jstr(fs.first_race_sig) + ",\"divergence\":" + jstr(fs.first_div_sig) + "}");
        if (!foreign_ok) { fprintf(stderr, "C18 BROKEN CHECK: the foreign-static canary (gmtime: state inside libc) was not detected (token=%d static=%d races=%llu divergences=%llu)\n",
                                   (int)has_token, (int)has_static, (unsigned long long)fs.races, (unsigned long long)fs.divergences); guard_ok = false; }
        if (!share_ok) { fprintf(stderr, "C18 BROKEN CHECK: the copy-sharing canary (use count shared between copies) was not detected\n"); guard_ok = false; }
        if (!detected || !guard_ok) {
            fprintf(stderr, "C18 BROKEN CHECK: canary %s (racy canary: dependent=%d schedules=%llu races=%llu divergences=%llu; guarded canary: ordered=%zu "
                            "unordered=%zu races=%llu divergences=%llu blocked=%llu)\n",
                    !detected ? "race not detected" : "guard model failed", (int)dependent, (unsigned long long)st.schedules, (unsigned long long)st.races,
                    (unsigned long long)st.divergences, gc.ordered.size(), gc.bytes.size(), (unsigned long long)gs.races,
                    (unsigned long long)gs.divergences, (unsigned long long)gs.guard_blocks);
            R.flags["exhaustive"] = false;
            if (!A.out.empty()) R.write(A.out);
            _exit(4);
        }
    }

    // ---- libtins workload sets: pairs incl. i == j, plus k-thread sets
    std::vector<Task> ts = make_tasks(A.thorough());
    for (size_t k = 0; k < ts.size(); ++k) {
        if ((int)(k % njobs) != j) continue;
        if (deadline_reached()) { R.flags["exhaustive"] = false; break; }
        const std::vector<int>& wls = ts[k].wls;
        size_t ord = 0;
        std::vector<uintptr_t> conf = union_conflicts(wls, &ord);
        bool is_pair = wls.size() == 2;
        if (is_pair) {
            R.count("pairs_total");
            R.count(conf.empty() ? "pairs_independent" : "pairs_dependent");
            if (ord) R.count("pairs_with_guard_ordered_bytes");
            if (c18::kWorkloads[wls[0]].kind == c18::DESCENDANT) {
                R.count("descendant_pairs_total");
                R.count(conf.empty() ? "descendant_pairs_independent" : "descendant_pairs_dependent");
            }
        } else R.count("thread_sets_total");
        R.maxv("max_threads", wls.size());
        if (conf.empty()) {
            // independent: every interleaving equals the serial composition; execute ONE finely interleaved representative
            // (thorough: three, with different round-robin quanta)
            static const int quanta[3] = {61, 251, 1021};
            for (int qi = 0; qi < (A.thorough() ? 3 : 1); ++qi) {
                SchedResult r = run_schedule(wls, conf, std::vector<Dec>(), true, quanta[qi]);
                R.count("states"); R.count("schedules"); R.count("representative_schedules"); R.count("traces_validated_against_impl");
                R.count("transitions", r.points);
                R.count("representative_switches", r.rr_switches);
                std::string kase = "stage=1 scale=" + str(g_scale) + " wl=" + wl_names(wls);
                if (!r.ok) { R.violation("sched:" + r.how + ":representative", "representative schedule: the threads did not complete (" + r.how + ")", kase); continue; }
                if (r.deadlock) R.violation("sched:deadlock:" + wl_names(wls), "representative schedule deadlocked", kase);
                for (size_t i = 0; i < wls.size(); ++i)
                    if (r.digests[i] != FP[wls[i]].digest_cold)
                        R.violation(std::string("divergence:representative:") + c18::kWorkloads[wls[i]].name,
                                    "independent by footprint, but the interleaved run produced another digest than the run alone", kase);
                if (k < 3 && qi == 0) R.sample("{\"set\":" + jstr(wl_names(wls)) + ",\"independent\":true,\"representative_switches\":" + str(r.rr_switches) + "}");
            }
        } else {
            if (!is_pair && !A.thorough()) {
                // the dependent pairs inside this set are explored as pairs; sets of >2 threads only in the thorough tier
                R.count("dependent_sets_left_to_pairs");
                continue;
            }
            std::vector<int> e = wls;
            if (!is_pair) e.resize(3);
            std::vector<uintptr_t> c2 = is_pair ? conf : union_conflicts(e, 0);
            if (c2.empty()) continue;
            ExploreStats st = explore(e, c2, kBound, cap, true, true);
            R.count("states", st.schedules); R.count("schedules", st.schedules); R.count("explored_schedules", st.schedules);
            R.count("transitions", st.points); R.count("traces_validated_against_impl", st.schedules);
            R.count("stage2_races", st.races); R.count("stage2_divergences", st.divergences);
            if (!st.exhaustive) R.flags["exhaustive"] = false;
            R.sample("{\"set\":" + jstr(wl_names(e)) + ",\"independent\":false,\"conflict_bytes\":" + str(c2.size()) + ",\"first_location\":" +
                     jstr(location_name(c2[0])) + ",\"schedules\":" + str(st.schedules) + ",\"completed_bound\":" + str(st.completed_bound) + "}");
            if (A.thorough() && is_pair && !deadline_reached()) {
                // triples built from a dependent pair
                std::vector<int> t3 = wls; t3.push_back(wls[0]);
                ExploreStats s3 = explore(t3, union_conflicts(t3, 0), kBound, cap / 4, true, true);
                R.count("states", s3.schedules); R.count("schedules", s3.schedules); R.count("explored_schedules", s3.schedules);
                R.count("transitions", s3.points); R.count("traces_validated_against_impl", s3.schedules);
            }
        }
    }
    R.maxv("preemption_bound", kBound);
    R.count("forks", g_forks);
}

// ---------------------------------------------------------------- replay
static std::vector<int> parse_wls(const std::string& s) {
    std::vector<int> v;
    size_t p = 0;
    while (p <= s.size()) {
        size_t q = s.find('+', p);
        std::string nm = s.substr(p, q == std::string::npos ? std::string::npos : q - p);
        for (int w = 0; w < c18::kNumWorkloads; ++w) if (nm == c18::kWorkloads[w].name) v.push_back(w);
        if (q == std::string::npos) break;
        p = q + 1;
    }
    return v;
}
static int replay(const std::string& kase) {
    std::map<std::string, std::string> kv;
    std::istringstream is(kase);
    std::string tok;
    while (is >> tok) { size_t e = tok.find('='); if (e != std::string::npos) kv[tok.substr(0, e)] = tok.substr(e + 1); }
    g_scale = atoi(kv["scale"].c_str());
    if (!all_footprints()) { printf("footprint runs failed\n"); return 1; }
    std::vector<int> wls = parse_wls(kv["wl"]);
    int found = 0;
    if (kv["stage"] == "2" && wls.size() >= 2) {
        std::vector<uintptr_t> conf = union_conflicts(wls, 0);
        printf("replay: %s, %zu conflicting bytes%s%s, schedule %s\n", kv["wl"].c_str(), conf.size(), conf.empty() ? "" : " first at ",
               conf.empty() ? "" : location_name(conf[0]).c_str(), kv["sched"].c_str());
        SchedResult r = run_schedule(wls, conf, parse_sched(kv["sched"]));
        if (!r.ok) { printf("the threads did not complete under this schedule: %s\n", r.how.c_str()); return 1; }
        for (size_t i = 0; i < r.races.size(); ++i) {
            std::string sa, sb;
            top_tins(r.races[i].a, &sa); top_tins(r.races[i].b, &sb);
            printf("RACE on %s:\n  thread %d %s: %s\n  thread %d %s: %s\n", location_name(r.races[i].addr).c_str(), r.races[i].ta,
                   r.races[i].a.kind == K_WRITE ? "writes" : "reads", sa.c_str(), r.races[i].tb, r.races[i].b.kind == K_WRITE ? "writes" : "reads", sb.c_str());
            found = 1;
        }
        for (size_t i = 0; i < r.digests.size(); ++i)
            if (r.digests[i] != FP[wls[i]].digest_cold) {
                printf("DIVERGENCE: thread %zu (%s) digest %016llx, alone %016llx\n", i, c18::kWorkloads[wls[i]].name, (unsigned long long)r.digests[i],
                       (unsigned long long)FP[wls[i]].digest_cold);
                found = 1;
            }
        if (r.deadlock) { printf("DEADLOCK\n"); found = 1; }
        return found;
    }
    // stage 1 / stage 3 cases: confirm with stage 1 + 2 over the named workloads (all libtins workloads when none is named)
    if (wls.empty()) for (int w = 0; w < c18::kNumLibtins; ++w) wls.push_back(w);
    for (size_t i = 0; i < wls.size(); ++i)
        for (size_t j = i; j < wls.size(); ++j) {
            std::vector<int> p; p.push_back(wls[i]); p.push_back(wls[j]);
            if (wls.size() > 1 && i == j && kv["stage"] == "1") continue;
            if (i == j && c18::kWorkloads[wls[i]].kind == c18::DESCENDANT) continue;
            std::vector<uintptr_t> conf = union_conflicts(p, 0);
            if (conf.empty()) continue;
            printf("dependent: %s (%zu bytes, first %s)\n", wl_names(p).c_str(), conf.size(), location_name(conf[0]).c_str());
            ExploreStats st = explore(p, conf, kBound, 20000, true, true);
            if (st.races || st.divergences) found = 1;
        }
    for (std::map<std::string, Violation>::iterator it = R.violations.begin(); it != R.violations.end(); ++it)
        printf("%s\n  %s\n", it->first.c_str(), it->second.detail.c_str());
    return found;
}

int main(int argc, char** argv) {
    g_phase = 1;
    c18::setup_registry();
    g_phase = 3;
    c18::setup_descendants();       // ancestors + the objects derived from them, before anything is forked / any thread exists
    g_phase = 2;
    load_symbols();
    g_bin_lo = ~(uintptr_t)0;
    for (size_t i = 0; i < g_segs.size(); ++i) { g_bin_lo = std::min(g_bin_lo, g_segs[i].lo); g_bin_hi = std::max(g_bin_hi, g_segs[i].hi); }
    compute_ignored();
    setup_allowlist();
    if (getenv("C18_DEBUG"))
        for (int i = 0; i < g_nforeign; ++i) fprintf(stderr, "foreign writable data: %s %lx..%lx (base %lx)\n", g_foreign[i].lib, (unsigned long)g_foreign[i].lo, (unsigned long)g_foreign[i].hi, (unsigned long)g_foreign[i].base);
    return run_main(argc, argv, 8, 16, job, replay);
}
