// C17 — Capture files round-trip and the capture loop survives any frame.
//
// Shape B (exhaustive enumeration of frame sequences).  For every link type the sniffer dispatches on, EVERY sequence
// of length <= 3 (quick) / <= 4 (thorough) over a per-link-type alphabet of 9 frames x 3 timestamp rotations is written
// into a memfd capture file twice (harness' own pcap writer = arbitrary bytes; Tins::PacketWriter = libtins packets) and
// read back through every reader of the public API (next_packet, iterator pre/post increment, sniff_loop with PDU& /
// Packet& / Packet functors, a functor returning false at the k-th packet, functors throwing pdu_not_found /
// malformed_packet, max_packets, extract_raw_pdus) x sniffing method {pcap_loop, pcap_dispatch, a custom method that hands
// the handler an exact-size heap copy of the frame} x filter {none, every expression of the filter alphabet}.
// Oracle per file: frames out = [f in frames in | top-level parser accepts f and libpcap's own filter verdict(f)], in
// order, same PDU class, same bytes, same microsecond timestamp; clean end of file; no exception, no sanitizer report.
#include "common.hpp"
#include <tins/tins.h>
#include <tins/loopback.h>
#include <tins/ppi.h>
#include <tins/sll.h>
#include <tins/dot3.h>
#include <tins/detail/pdu_helpers.h>
#include <tins/offline_packet_filter.h>
#include <tins/packet_writer.h>
#include <tins/sniffer.h>
#include <pcap.h>
#include <cxxabi.h>
#include <deque>
#include <sys/stat.h>

using namespace Tins;
using namespace mc;

// DLT_NULL has no DataLinkType<> mapping in libtins (DataLinkType<Loopback> is DLT_LOOP, which the sniffer does not
// dispatch on); a user specialization is the documented extension point of the trait.
struct C17NullLink {};
namespace Tins {
template <> struct DataLinkType<C17NullLink> { int get_type() const { return DLT_NULL; } };
}

// ------------------------------------------------------------------------------------------------ helpers
static std::map<std::string, std::string> kvparse(const std::string& s) {
    std::map<std::string, std::string> m;
    std::istringstream in(s);
    std::string t;
    while (in >> t) { size_t e = t.find('='); if (e != std::string::npos) m[t.substr(0, e)] = t.substr(e + 1); }
    return m;
}
static std::string demangle(const char* n) {
    int st = 0;
    char* d = abi::__cxa_demangle(n, 0, 0, &st);
    std::string s = (st == 0 && d) ? d : n;
    free(d);
    return s;
}
static std::string exc_name(const std::exception& e) { return demangle(typeid(e).name()); }

// frame bytes placed so that they END exactly at the end of a heap block: one byte too many is an ASan report
struct EndBuf {
    uint8_t* base; uint8_t* p; size_t n;
    EndBuf(const uint8_t* d, size_t len) : n(len) { base = (uint8_t*)malloc(len + 16); p = base + 16; if (len) memcpy(p, d, len); }
    ~EndBuf() { free(base); }
};

struct MemFile {
    int fd; std::string path;
    MemFile() { fd = memfd_create("c17", 0); if (fd < 0) { perror("memfd_create"); _exit(2); } path = "/proc/self/fd/" + str(fd); }
    ~MemFile() { close(fd); }
    void set(const Bytes& b) {
        if (ftruncate(fd, 0) != 0) { perror("ftruncate"); _exit(2); }
        size_t off = 0;
        while (off < b.size()) { ssize_t k = pwrite(fd, b.data() + off, b.size() - off, off); if (k <= 0) { perror("pwrite"); _exit(2); } off += k; }
    }
    Bytes get() const {
        struct stat st; fstat(fd, &st);
        Bytes b(st.st_size);
        size_t off = 0;
        while (off < b.size()) { ssize_t k = pread(fd, b.data() + off, b.size() - off, off); if (k <= 0) break; off += k; }
        return b;
    }
};

// ------------------------------------------------------------------------------------------------ link types
struct Link { int dlt; uint32_t file_linktype; const char* name; };
static const Link LINKS[] = {
    {DLT_EN10MB, 1, "EN10MB"}, {DLT_RAW, 101, "RAW"}, {DLT_NULL, 0, "NULL"}, {DLT_LINUX_SLL, 113, "LINUX_SLL"},
    {DLT_IEEE802_11, 105, "IEEE802_11"}, {DLT_IEEE802_11_RADIO, 127, "IEEE802_11_RADIO"}, {DLT_PPI, 192, "PPI"},
};
static const int NLINKS = 7;

// The dispatch the sniffer documents (one top-level class per link type), restated: this is "parses(f)".
static PDU* top_parse(int dlt, const uint8_t* b, uint32_t n) {
    switch (dlt) {
        case DLT_EN10MB: return (n >= 13 && b[12] < 8) ? static_cast<PDU*>(new Dot3(b, n)) : static_cast<PDU*>(new EthernetII(b, n));
        case DLT_NULL: return new Loopback(b, n);
        case DLT_LINUX_SLL: return new SLL(b, n);
        case DLT_PPI: return new PPI(b, n);
        case DLT_RAW:
            if (n == 0) return 0;                       // nothing to dispatch on: not a packet
            if ((b[0] >> 4) == 4) return new IP(b, n);
            if ((b[0] >> 4) == 6) return new IPv6(b, n);
            return 0;
        case DLT_IEEE802_11_RADIO: return new RadioTap(b, n);
        case DLT_IEEE802_11: return Dot11::from_bytes(b, n);
    }
    return 0;
}

// "bytes" of a parsed packet: its serialization; PPI cannot be serialized, so header + options + inner serialization.
static std::string sig_of(PDU& p) {
    try {
        if (p.pdu_type() == PDU::PPI) {
            PPI& q = static_cast<PPI&>(p);
            std::string s = "P";
            s.append((const char*)&q.header_, sizeof(q.header_));
            s.append(q.data_.begin(), q.data_.end());
            if (q.inner_pdu()) { Bytes in = q.inner_pdu()->serialize(); s.append(in.begin(), in.end()); }
            return s;
        }
        Bytes b = p.serialize();
        return "B" + std::string(b.begin(), b.end());
    } catch (std::exception& e) { return "X" + exc_name(e); }
}
static std::string layers_of(const PDU& p) {
    std::string s;
    for (const PDU* q = &p; q; q = q->inner_pdu()) s += (s.empty() ? "" : "/") + str((int)q->pdu_type());
    return s;
}

struct Parsed {
    bool ok = false;              // the top-level parser produced a packet
    std::string how;              // ok | malformed | null | EXC:<type>
    int type = -1;
    std::string sig, layers;
    bool serializable = false;
    Bytes ser;
    uint32_t adv = 0;
    std::shared_ptr<PDU> obj;     // for PacketWriter
};
struct Frame {
    std::string name; Bytes b; uint32_t len; bool want_fixpoint;
    Parsed p;
};

static Parsed parse_info(int dlt, const Bytes& b) {
    Parsed r;
    EndBuf eb(b.data(), b.size());
    try {
        PDU* q = top_parse(dlt, eb.p, (uint32_t)b.size());
        if (!q) { r.how = "null"; return r; }
        r.obj.reset(q);
        r.ok = true; r.how = "ok"; r.type = q->pdu_type(); r.layers = layers_of(*q); r.sig = sig_of(*q);
        if (r.sig[0] == 'B') { r.serializable = true; r.ser.assign(r.sig.begin() + 1, r.sig.end()); r.adv = q->advertised_size(); }
    } catch (malformed_packet&) { r.how = "malformed"; }
    catch (std::exception& e) { r.how = "EXC:" + exc_name(e); }
    return r;
}

// ------------------------------------------------------------------------------------------------ alphabets
static Bytes pattern(size_t n, uint8_t seed) { Bytes b(n); for (size_t i = 0; i < n; ++i) b[i] = uint8_t(seed + i * 7); return b; }
static Bytes cat(Bytes a, const Bytes& b) { a.insert(a.end(), b.begin(), b.end()); return a; }
static Bytes head(const Bytes& a, size_t n) { return Bytes(a.begin(), a.begin() + (n < a.size() ? n : a.size())); }
static const HWAddress<6> M1("02:00:00:00:00:01"), M2("02:00:00:00:00:02"), M3("02:00:00:00:00:03");

static IP ip_tcp80() { return IP("10.0.0.2", "10.0.0.1") / TCP(80, 1000) / RawPDU(pattern(40, 1)); }       // 80 bytes
static IP ip_udp_short(size_t pay) { return IP("10.0.0.2", "10.0.0.3") / UDP(53, 1000) / RawPDU(pattern(pay, 9)); }
static Bytes bad_ip() { Bytes b = ip_tcp80().serialize(); b[0] = 0x42; return b; }                          // version 4, header length 2 words

static Bytes ppi_hdr(uint32_t dlt, const Bytes& fields) {
    uint16_t len = uint16_t(8 + fields.size());
    Bytes h = {0, 0, uint8_t(len & 0xff), uint8_t(len >> 8), uint8_t(dlt), uint8_t(dlt >> 8), uint8_t(dlt >> 16), uint8_t(dlt >> 24)};
    return cat(h, fields);
}

static std::vector<Frame> alphabet(int dlt) {
    std::vector<Frame> v;
    auto add = [&](const char* name, const Bytes& b, bool fix = false, uint32_t len = 0) {
        Frame f; f.name = name; f.b = b; f.len = len ? len : (uint32_t)b.size(); f.want_fixpoint = fix; v.push_back(f);
    };
    Bytes w1, w2, big;
    const size_t BIG = 65535;
    switch (dlt) {
    case DLT_EN10MB: {
        EthernetII a = EthernetII(M2, M1) / ip_tcp80();                                                      // 94 bytes
        EthernetII b = EthernetII(M2, M3) / Dot1Q(5) / ip_udp_short(40);                                      // 86 bytes, VLAN
        w1 = a.serialize(); w2 = b.serialize();
        add("W1", w1, true); add("W2", w2, true);
        add("T", head(w1, 9));                                                    // truncated Ethernet header
        add("Z", Bytes());
        add("Gip", cat(head(w1, 14), bad_ip()));                                  // inner IPv4 parser rejects
        { Bytes d = head(w1, 12); d.push_back(0); d.push_back(3); d.push_back(0x42); add("Gllc", d); }  // 802.3 length < 0x800, LLC cut after 1 byte
        { Bytes g = head(w1, 12); g.push_back(0x99); g.push_back(0x99); add("Gok", cat(g, pattern(11, 3))); }   // unknown EtherType: accepted, 25 bytes (padded on re-serialization)
        add("S", head(w1, 40), false, (uint32_t)w1.size());                       // snap-truncated capture (len > caplen)
        { Bytes g = head(w1, 12); g.push_back(0x99); g.push_back(0x98); big = cat(g, pattern(BIG - 14, 5)); add("B", big, true); }
        break; }
    case DLT_RAW: {
        IP a = ip_tcp80();
        IPv6 b = IPv6("fe80::2", "fe80::1") / UDP(53, 1000) / RawPDU(pattern(5, 9));                        // 53 bytes
        w1 = a.serialize(); w2 = b.serialize();
        add("W1", w1, true); add("W2", w2, true);
        add("T", head(w1, 7));
        add("Z", Bytes());
        add("Gver", cat(Bytes{0x15}, pattern(30, 2)));                            // version nibble neither 4 nor 6
        add("Gip", bad_ip());
        { Bytes g = head(w2, 40); g[6] = 0; g.push_back(17); g.push_back(9); add("Gv6", g); }   // hop-by-hop header longer than the frame
        add("S", head(w1, 40), false, (uint32_t)w1.size());
        { IP g = IP("10.0.0.2", "10.0.0.1") / UDP(53, 1000) / RawPDU(pattern(BIG - 28, 5)); big = g.serialize(); add("B", big, true); }
        break; }
    case DLT_NULL: {
        Loopback a = Loopback() / ip_tcp80();
        Loopback b = Loopback() / IPv6("fe80::2", "fe80::1") / UDP(53, 1000) / RawPDU(pattern(5, 9));
        w1 = a.serialize(); w2 = b.serialize();
        add("W1", w1, true); add("W2", w2, true);
        add("T", head(w1, 3));
        add("Z", Bytes());
        add("Gip", cat(head(w1, 4), bad_ip()));
        add("Ghdr", head(w1, 4));                                                 // family IPv4, no payload at all
        add("Gok", cat(Bytes{0x63, 0, 0, 0}, pattern(9, 3)));                     // unknown family: accepted as raw payload
        add("S", head(w1, 40), false, (uint32_t)w1.size());
        big = cat(Bytes{0x63, 0, 0, 0}, pattern(BIG - 4, 5)); add("B", big, true);
        break; }
    case DLT_LINUX_SLL: {
        SLL s; s.packet_type(0); s.lladdr_type(1); s.lladdr_len(6); s.address(HWAddress<8>("02:00:00:00:00:01:00:00"));
        SLL a = s / ip_tcp80();
        SLL b = s / ip_udp_short(5);
        w1 = a.serialize(); w2 = b.serialize();
        add("W1", w1, true); add("W2", w2, true);
        add("T", head(w1, 9));
        add("Z", Bytes());
        add("Gip", cat(head(w1, 16), bad_ip()));
        { Bytes g = head(w1, 16); g[14] = 0x08; g[15] = 0x06; add("Garp", cat(g, pattern(5, 1))); }        // ARP cut short
        { Bytes g = head(w1, 16); g[14] = 0x99; g[15] = 0x99; add("Gok", cat(g, pattern(7, 3))); }
        add("S", head(w1, 40), false, (uint32_t)w1.size());
        { SLL q = s / (IP("10.0.0.2", "10.0.0.1") / UDP(53, 1000) / RawPDU(pattern(BIG - 16 - 28, 5))); big = q.serialize(); add("B", big, true); }
        break; }
    case DLT_IEEE802_11: {
        Dot11Beacon a; a.addr1(Dot11::BROADCAST); a.addr2(M1); a.addr3(M1); a.ssid("c17"); a.ds_parameter_set(6); a.supported_rates({1.0f, 2.0f, 5.5f, 11.0f});
        Dot11Data d; d.addr1(M2); d.addr2(M3); d.addr3(M3);
        Dot11Data b = d / SNAP() / ip_tcp80();
        w1 = a.serialize(); w2 = b.serialize();
        add("W1", w1, true); add("W2", w2, true);
        add("T", head(w1, 1));                                                    // shorter than the frame-control field
        add("Z", Bytes());
        add("Ghdr", head(w1, 11));                                                // management header cut
        add("Gtag", cat(head(w1, 36), Bytes{0, 40, 'x'}));                        // tagged parameter longer than the frame
        add("Gip", cat(head(w2, w2.size() - 80), bad_ip()));                      // data frame, LLC/SNAP, IPv4 rejects
        { Bytes g = {0xc4, 0x00}; add("Gok", cat(g, pattern(8, 3))); }           // control frame without a class of its own (CTS): generic Dot11
        { Dot11Data q = d / SNAP() / (IP("10.0.0.2", "10.0.0.1") / UDP(53, 1000) / RawPDU(pattern(BIG - 24 - 8 - 28, 5))); big = q.serialize(); add("B", big, true); }
        break; }
    case DLT_IEEE802_11_RADIO: {
        Dot11Beacon a; a.addr1(Dot11::BROADCAST); a.addr2(M1); a.addr3(M1); a.ssid("c17"); a.ds_parameter_set(6); a.supported_rates({1.0f, 2.0f, 5.5f, 11.0f});
        Dot11Data d; d.addr1(M2); d.addr2(M3); d.addr3(M3);
        RadioTap ra = RadioTap() / a;
        RadioTap rb = RadioTap() / (d / SNAP() / ip_tcp80());
        w1 = ra.serialize(); w2 = rb.serialize();
        size_t rl = w1[2] | (w1[3] << 8);
        add("W1", w1, true); add("W2", w2, true);
        add("T", head(w1, 3));
        add("Z", Bytes());
        { Bytes g = w1; g[2] = 0xff; g[3] = 0x7f; add("Glen", g); }              // it_len beyond the frame
        { Bytes g = w1; g[2] = 9; g[3] = 0; add("Gshort", g); }                  // it_len shorter than header + present word
        add("Gfcs", head(w1, rl + 2));                                            // FCS flag set, fewer than 4 bytes follow
        add("Ghdr", head(w1, rl + 4 + 11 > w1.size() ? w1.size() : rl + 11));     // 802.11 management header cut
        { RadioTap q = RadioTap() / (d / SNAP() / (IP("10.0.0.2", "10.0.0.1") / UDP(53, 1000) / RawPDU(pattern(BIG - 24 - 8 - 28 - rl - 4, 5)))); big = q.serialize(); add("B", big, true); }
        break; }
    case DLT_PPI: {
        EthernetII e = EthernetII(M2, M1) / ip_tcp80();
        Dot11Data d; d.addr1(M2); d.addr2(M3); d.addr3(M3);
        Dot11Data dd = d / SNAP() / ip_udp_short(5);
        // 802.11-common field (type 2, 20 bytes): tsf(8) flags(2) rate(2) freq(2) chflags(2) hopset hoppat dbm-sig dbm-noise; flags bit0 = FCS at end
        Bytes common = {2, 0, 20, 0, 0, 0, 0, 0, 0, 0, 0, 0, 1, 0, 0x6c, 0x09, 0xa0, 0, 0, 0, 0, 0, 0xc4, 0xa0};
        w1 = cat(ppi_hdr(DLT_EN10MB, Bytes()), e.serialize());
        w2 = cat(cat(ppi_hdr(DLT_IEEE802_11, common), dd.serialize()), Bytes{1, 2, 3, 4});
        add("W1", w1, false); add("W2", w2, false);
        add("T", head(w1, 5));
        add("Z", Bytes());
        { Bytes g = w1; g[2] = 0xff; g[3] = 0x7f; add("Glen", g); }              // pph_len beyond the frame
        { Bytes g = w1; g[2] = 4; g[3] = 0; add("Gshort", g); }                  // pph_len shorter than the header
        add("Gip", cat(head(w1, 22), bad_ip()));                                  // Ethernet / IPv4 rejects
        add("Gok", cat(ppi_hdr(0x99, Bytes()), pattern(9, 3)));                   // unknown inner link type: accepted, payload not decoded
        { Bytes g = head(e.serialize(), 12); g.push_back(0x99); g.push_back(0x98);
          big = cat(ppi_hdr(DLT_EN10MB, Bytes()), cat(g, pattern(BIG - 8 - 14, 5))); add("B", big, false); }
        break; }
    }
    for (auto& f : v) f.p = parse_info(dlt, f.b);
    return v;
}

// A packet that was just BUILT and never serialized: its derived length fields (IP total length, UDP length, PPPoE / 802.3 /
// EAPOL lengths, RadioTap it_len ...) are still unset when PacketWriter::write gets it.  Same expressions as in alphabet() for
// W1 / W2 (setup_checks compares the serializations), plus per-link-type extras that are only used by the writer checks.
static PDU* build_fresh(int dlt, const std::string& name) {
    const bool a = name == "W1", b = name == "W2";
    if (!a && !b) return 0;
    switch (dlt) {
        case DLT_EN10MB: return a ? new EthernetII(EthernetII(M2, M1) / ip_tcp80()) : new EthernetII(EthernetII(M2, M3) / Dot1Q(5) / ip_udp_short(40));
        case DLT_RAW: return a ? static_cast<PDU*>(new IP(ip_tcp80())) : static_cast<PDU*>(new IPv6(IPv6("fe80::2", "fe80::1") / UDP(53, 1000) / RawPDU(pattern(5, 9))));
        case DLT_NULL: return a ? new Loopback(Loopback() / ip_tcp80()) : new Loopback(Loopback() / IPv6("fe80::2", "fe80::1") / UDP(53, 1000) / RawPDU(pattern(5, 9)));
        case DLT_LINUX_SLL: {
            SLL s; s.packet_type(0); s.lladdr_type(1); s.lladdr_len(6); s.address(HWAddress<8>("02:00:00:00:00:01:00:00"));
            return a ? new SLL(s / ip_tcp80()) : new SLL(s / ip_udp_short(5)); }
        case DLT_IEEE802_11: case DLT_IEEE802_11_RADIO: {
            Dot11Beacon be; be.addr1(Dot11::BROADCAST); be.addr2(M1); be.addr3(M1); be.ssid("c17"); be.ds_parameter_set(6); be.supported_rates({1.0f, 2.0f, 5.5f, 11.0f});
            Dot11Data d; d.addr1(M2); d.addr2(M3); d.addr3(M3);
            if (dlt == DLT_IEEE802_11) return a ? static_cast<PDU*>(new Dot11Beacon(be)) : static_cast<PDU*>(new Dot11Data(d / SNAP() / ip_tcp80()));
            return a ? new RadioTap(RadioTap() / be) : new RadioTap(RadioTap() / (d / SNAP() / ip_tcp80())); }
    }
    return 0;        // PPI cannot be serialized
}
struct Built { std::string name; std::function<PDU*()> make; };
static std::vector<Built> built_packets(int dlt) {
    std::vector<Built> v;
    v.push_back(Built{"W1", [dlt]() { return build_fresh(dlt, "W1"); }});
    v.push_back(Built{"W2", [dlt]() { return build_fresh(dlt, "W2"); }});
    auto ip_udp40 = []() { return IP("10.0.0.2", "10.0.0.1") / UDP(53, 1000) / RawPDU(pattern(40, 3)); };
    auto ip6_udp = []() { return IPv6("fe80::2", "fe80::1") / UDP(53, 1000) / RawPDU(pattern(33, 3)); };
    switch (dlt) {
        case DLT_EN10MB:
            v.push_back(Built{"Eth/IP/UDP/Raw(40)", [=]() { return new EthernetII(EthernetII(M2, M1) / ip_udp40()); }});
            v.push_back(Built{"Eth/IPv6/UDP", [=]() { return new EthernetII(EthernetII(M2, M1) / ip6_udp()); }});
            v.push_back(Built{"Eth/PPPoE/Raw", []() { PPPoE pp; pp.code(0); pp.session_id(7); return new EthernetII(EthernetII(M2, M1) / pp / RawPDU(pattern(60, 3))); }});
            v.push_back(Built{"Dot3/LLC/Raw", []() { return new Dot3(Dot3(M2, M1) / LLC(0x42, 0x42) / RawPDU(pattern(70, 3))); }});
            v.push_back(Built{"Eth/RSNEAPOL", []() { RSNEAPOL e; e.key_length(16); e.wpa_length(0); return new EthernetII(EthernetII(M2, M1) / e); }});
            v.push_back(Built{"Eth/IP/ICMP", []() { return new EthernetII(EthernetII(M2, M1) / IP("10.0.0.2", "10.0.0.1") / ICMP() / RawPDU(pattern(48, 3))); }});
            break;
        case DLT_RAW:
            v.push_back(Built{"IP/UDP/Raw(40)", [=]() { return new IP(ip_udp40()); }});
            v.push_back(Built{"IPv6/TCP", []() { return new IPv6(IPv6("fe80::2", "fe80::1") / TCP(80, 1000) / RawPDU(pattern(64, 3))); }});
            v.push_back(Built{"IP/IP/UDP", [=]() { return new IP(IP("10.0.0.2", "10.0.0.1") / ip_udp40()); }});
            break;
        case DLT_NULL:
            v.push_back(Built{"Loopback/IP/UDP", [=]() { return new Loopback(Loopback() / ip_udp40()); }});
            v.push_back(Built{"Loopback/IPv6/UDP", [=]() { return new Loopback(Loopback() / ip6_udp()); }});
            break;
        case DLT_LINUX_SLL:
            v.push_back(Built{"SLL/IP/UDP", [=]() { SLL s; s.lladdr_type(1); s.lladdr_len(6); return new SLL(s / ip_udp40()); }});
            v.push_back(Built{"SLL/IPv6/UDP", [=]() { SLL s; s.lladdr_type(1); s.lladdr_len(6); return new SLL(s / ip6_udp()); }});
            break;
        case DLT_IEEE802_11:
            v.push_back(Built{"Dot11Data/SNAP/IP/UDP", [=]() { Dot11Data d; d.addr1(M2); d.addr2(M3); d.addr3(M3); return new Dot11Data(d / SNAP() / ip_udp40()); }});
            v.push_back(Built{"Dot11QoSData/SNAP/IPv6/UDP", [=]() { Dot11QoSData d; d.addr1(M2); d.addr2(M3); d.addr3(M3); return new Dot11QoSData(d / SNAP() / ip6_udp()); }});
            break;
        case DLT_IEEE802_11_RADIO:
            v.push_back(Built{"RadioTap/Dot11Data/SNAP/IP/UDP", [=]() { Dot11Data d; d.addr1(M2); d.addr2(M3); d.addr3(M3); return new RadioTap(RadioTap() / (d / SNAP() / ip_udp40())); }});
            break;
        case DLT_PPI:
            v.clear();
            v.push_back(Built{"RawPDU(77)", []() { return new RawPDU(pattern(77, 3)); }});
            break;
    }
    return v;
}

// what PacketWriter is given for a frame, and what that puts into the file
static Frame second_generation(int dlt, const Frame& f) {
    Frame g;
    g.name = f.name; g.want_fixpoint = false;
    if (f.p.ok && f.p.serializable) { g.b = f.p.ser; g.len = f.p.adv; }
    else { g.b = f.b; g.len = (uint32_t)f.b.size(); }
    g.p = parse_info(dlt, g.b);
    return g;
}

// ------------------------------------------------------------------------------------------------ pcap file images
struct Ts { uint32_t sec, usec; };
static const Ts TS[3] = {{0, 0}, {1, 999999}, {2147483646u, 500000}};     // 0.000000, 1.999999, 2^31 - 1.5

static void put32(Bytes& o, uint32_t v) { for (int i = 0; i < 4; ++i) o.push_back(uint8_t(v >> (8 * i))); }
static void put16(Bytes& o, uint16_t v) { o.push_back(uint8_t(v)); o.push_back(uint8_t(v >> 8)); }
struct Rec { Ts ts; uint32_t caplen, len; Bytes data; };
static Bytes file_image(uint32_t linktype, const std::vector<Rec>& recs) {
    Bytes o;
    put32(o, 0xa1b2c3d4); put16(o, 2); put16(o, 4); put32(o, 0); put32(o, 0); put32(o, 65535); put32(o, linktype);
    for (auto& r : recs) { put32(o, r.ts.sec); put32(o, r.ts.usec); put32(o, r.caplen); put32(o, r.len); o.insert(o.end(), r.data.begin(), r.data.end()); }
    return o;
}
static uint32_t get32(const Bytes& b, size_t o) { return b[o] | (b[o + 1] << 8) | (b[o + 2] << 16) | ((uint32_t)b[o + 3] << 24); }
// returns "" or a problem description
static std::string parse_image(const Bytes& b, uint32_t& linktype, uint32_t& snaplen, std::vector<Rec>& recs) {
    if (b.size() < 24) return "file shorter than a pcap header (" + str(b.size()) + " bytes)";
    if (get32(b, 0) != 0xa1b2c3d4) return "bad magic";
    if ((b[4] | (b[5] << 8)) != 2 || (b[6] | (b[7] << 8)) != 4) return "bad version";
    snaplen = get32(b, 16); linktype = get32(b, 20);
    size_t o = 24;
    while (o < b.size()) {
        if (o + 16 > b.size()) return "record header cut";
        Rec r; r.ts.sec = get32(b, o); r.ts.usec = get32(b, o + 4); r.caplen = get32(b, o + 8); r.len = get32(b, o + 12);
        o += 16;
        if (o + r.caplen > b.size()) return "record data cut";
        r.data.assign(b.begin() + o, b.begin() + o + r.caplen);
        o += r.caplen;
        recs.push_back(r);
    }
    return "";
}

// ------------------------------------------------------------------------------------------------ filters (oracle = libpcap itself)
// the last one is the empty expression, which libpcap compiles to "accept every frame" (the harness does not assume that: it
// compiles it like the others and asks pcap_offline_filter)
// Entries 8..11 are length-based ("greater N" = len >= N, "less N" = len <= N, on the ORIGINAL length of the record, not on
// the captured length); N is set per link type to the size of its W1 frame by init_ctx (the default keeps them compilable).
static const int NBASE = 8, NFILTERS = 12;
static std::string FILTER_TEXT[NFILTERS] = {"ip", "tcp port 80", "udp", "vlan", "ether src 02:00:00:00:00:01", "len > 60", "wlan type mgt", "",
                                            "greater 80", "less 80", "len >= 81", "len < 80"};
static const char* FILTERS[NFILTERS] = {FILTER_TEXT[0].c_str(), FILTER_TEXT[1].c_str(), FILTER_TEXT[2].c_str(), FILTER_TEXT[3].c_str(), FILTER_TEXT[4].c_str(),
                                        FILTER_TEXT[5].c_str(), FILTER_TEXT[6].c_str(), FILTER_TEXT[7].c_str(), FILTER_TEXT[8].c_str(), FILTER_TEXT[9].c_str(),
                                        FILTER_TEXT[10].c_str(), FILTER_TEXT[11].c_str()};
static void set_length_filters(size_t n) {
    FILTER_TEXT[8] = "greater " + str(n); FILTER_TEXT[9] = "less " + str(n); FILTER_TEXT[10] = "len >= " + str(n + 1); FILTER_TEXT[11] = "len < " + str(n);
    for (int i = 8; i < NFILTERS; ++i) FILTERS[i] = FILTER_TEXT[i].c_str();
}
// libpcap generates link-type code that depends on whether the handle reads a savefile (e.g. DLT_NULL: the BSD AF_INET6
// values in a savefile, this host's AF_INET6 otherwise), so the reference program is compiled in the same libpcap context
// as the API under test: on a savefile handle of the harness' own for the sniffer, on a pcap_open_dead handle for
// OfflinePacketFilter (which documents exactly that).
struct Oracle {
    bool valid[NFILTERS], valid_file[NFILTERS]; bpf_program prog[NFILTERS], prog_file[NFILTERS];
    void init(int dlt, const std::string& empty_file_path) {
        char err[PCAP_ERRBUF_SIZE];
        for (int i = 0; i < NFILTERS; ++i) {
            pcap_t* dead = pcap_open_dead(dlt, 65535);
            valid[i] = pcap_compile(dead, &prog[i], FILTERS[i], 0, 0) == 0;
            pcap_close(dead);
            pcap_t* off = pcap_open_offline(empty_file_path.c_str(), err);
            if (!off) { fprintf(stderr, "harness: pcap_open_offline: %s\n", err); _exit(2); }
            valid_file[i] = pcap_compile(off, &prog_file[i], FILTERS[i], 0, 0) == 0;
            pcap_close(off);
        }
    }
    static bool run(const bpf_program* p, const Bytes& b, uint32_t len) {
        static const uint8_t none[4] = {0, 0, 0, 0};
        pcap_pkthdr h; memset(&h, 0, sizeof h); h.caplen = (bpf_u_int32)b.size(); h.len = len;
        return pcap_offline_filter(p, &h, b.empty() ? none : b.data()) != 0;
    }
    bool match(int fi, const Bytes& b, uint32_t len) const { return run(&prog[fi], b, len); }            // dead-handle context
    bool match_file(int fi, const Bytes& b, uint32_t len) const { return run(&prog_file[fi], b, len); }  // savefile context
};

// ------------------------------------------------------------------------------------------------ sniffing methods
struct Tramp { pcap_handler h; u_char* user; };
static void exact_trampoline(u_char* u, const struct pcap_pkthdr* hdr, const u_char* bytes) {
    Tramp* t = (Tramp*)u;
    EndBuf eb(bytes, hdr->caplen);                 // freed also when the handler throws
    t->h(t->user, hdr, eb.p);
}
// "a custom function with the same signature" (sniffer.h): hands the handler exactly caplen bytes, nothing after them
static int exact_method(pcap_t* p, int cnt, pcap_handler h, u_char* user) {
    Tramp t = {h, user};
    return pcap_loop(p, cnt, exact_trampoline, (u_char*)&t);
}
enum Method { M_LOOP, M_DISPATCH, M_EXACT, N_METHOD };
static const char* METHOD_NAME[] = {"pcap_loop", "pcap_dispatch", "exact_buffer"};
static BaseSniffer::PcapSniffingMethod method_fn(int m) { return m == M_LOOP ? pcap_loop : m == M_DISPATCH ? pcap_dispatch : exact_method; }

enum Ctor { C_PATH_CFG, C_FILE_CFG, C_PATH_STR, C_FILE_STR, C_SET_AFTER, N_CTOR };
static const char* CTOR_NAME[] = {"path+config", "FILE*+config", "path+filter-string", "FILE*+filter-string", "set_filter-after-open"};

static std::unique_ptr<FileSniffer> open_sniffer(const std::string& path, int ctor, int method, const char* filter, bool raw) {
    std::unique_ptr<FileSniffer> s;
    SnifferConfiguration cfg;
    if (filter && ctor != C_SET_AFTER) cfg.set_filter(filter);
    if (method != M_LOOP) cfg.set_pcap_sniffing_method(method_fn(method));
    switch (ctor) {
        case C_PATH_CFG: case C_SET_AFTER: {
            // value semantics of the configuration: a copy of a copy, assigned over a configuration that held other settings,
            // every source destroyed before the result is used
            std::unique_ptr<SnifferConfiguration> c0(new SnifferConfiguration(cfg));
            std::unique_ptr<SnifferConfiguration> c1(new SnifferConfiguration(*c0));
            c0.reset();
            SnifferConfiguration c2;
            c2.set_filter("len > 70000");
            c2.set_pcap_sniffing_method(pcap_dispatch);
            c2 = *c1;
            c1.reset();
            s.reset(new FileSniffer(path, c2));
            break;
        }
        case C_FILE_CFG: { FILE* fp = fopen(path.c_str(), "rb"); s.reset(new FileSniffer(fp, cfg)); break; }
        case C_PATH_STR: s.reset(new FileSniffer(path, std::string(filter ? filter : ""))); break;
        case C_FILE_STR: { FILE* fp = fopen(path.c_str(), "rb"); s.reset(new FileSniffer(fp, std::string(filter ? filter : ""))); break; }
    }
    if (ctor == C_SET_AFTER && filter) { if (!s->set_filter(filter)) throw std::runtime_error("set_filter returned false"); }
    if ((ctor == C_PATH_STR || ctor == C_FILE_STR) && method != M_LOOP) s->set_pcap_sniffing_method(method_fn(method));
    if (raw) s->set_extract_raw_pdus(true);
    return s;
}

// ------------------------------------------------------------------------------------------------ readers
struct Out { bool has_ts; uint64_t sec, usec; int type; std::string sig; };
static Out out_of(PDU& p, const Timestamp* ts) {
    Out o; o.has_ts = ts != 0; o.sec = ts ? (uint64_t)ts->seconds() : 0; o.usec = ts ? (uint64_t)ts->microseconds() : 0;
    o.type = p.pdu_type();
    if (o.type == PDU::RAW) { const RawPDU::payload_type& pl = static_cast<RawPDU&>(p).payload(); o.sig = "B" + std::string(pl.begin(), pl.end()); }   // raw bytes where available
    else o.sig = sig_of(p);
    return o;
}
struct Collector {
    std::vector<Out> out; int calls = 0; int stop_at = 0; int throw_kind = 0;   // throw_kind 1: pdu_not_found, 2: malformed_packet
    bool after(bool) {
        ++calls;
        if (throw_kind == 1) throw pdu_not_found();
        if (throw_kind == 2) throw malformed_packet();
        return !(stop_at && calls >= stop_at);
    }
};
struct FPdu { Collector* c; bool operator()(PDU& p) { c->out.push_back(out_of(p, 0)); return c->after(true); } };
struct FPktRef { Collector* c; bool operator()(Packet& p) { c->out.push_back(out_of(*p.pdu(), &p.timestamp())); return c->after(true); } };
struct FPktVal { Collector* c; bool operator()(Packet p) { c->out.push_back(out_of(*p.pdu(), &p.timestamp())); return c->after(true); } };
struct FConstPdu { Collector* c; bool operator()(const PDU& p) { c->out.push_back(out_of(const_cast<PDU&>(p), 0)); return c->after(true); } };

enum Reader { R_NEXT, R_ITER_PRE, R_ITER_POST, R_LOOP_PDU, R_LOOP_CPDU, R_LOOP_PKTREF, R_LOOP_PKTVAL, R_LOOP_STOP, R_LOOP_THROW_NF,
              R_LOOP_THROW_MF, R_LOOP_MAX, N_READER };
static const char* READER_NAME[] = {"next_packet", "iterator++pre", "iterator++post", "sniff_loop(PDU&)", "sniff_loop(const PDU&)",
                                    "sniff_loop(Packet&)", "sniff_loop(Packet)", "sniff_loop-stop", "sniff_loop-throw-pdu_not_found",
                                    "sniff_loop-throw-malformed_packet", "sniff_loop-max_packets"};

// Runs one reader over an opened sniffer. `k` parameterizes stop / max readers. Returns a problem string ("" = fine) for
// control-flow expectations that are not visible in the output list.
static std::string run_reader(FileSniffer& s, int reader, int k, std::vector<Out>& out) {
    Collector c;
    switch (reader) {
        case R_NEXT: {
            for (;;) { Packet p(s.next_packet()); if (!p) break; out.push_back(out_of(*p.pdu(), &p.timestamp())); }
            for (int i = 0; i < 2; ++i) { Packet p(s.next_packet()); if (p) return "end-of-file-not-stable|next_packet returned a packet after it had reported the end"; }
            return "";
        }
        case R_ITER_PRE: {
            for (BaseSniffer::iterator it = s.begin(); it != s.end(); ++it) {
                if (!it->pdu()) return "iterator-yields-empty-packet|an iterator different from end() holds no packet";
                out.push_back(out_of(*it->pdu(), &(*it).timestamp()));
            }
            if (s.begin() != s.end()) return "end-of-file-not-stable|begin() != end() on an exhausted sniffer";
            return "";
        }
        case R_ITER_POST: {
            for (BaseSniffer::iterator it = s.begin(); it != s.end();) {
                BaseSniffer::iterator cur = it++;
                if (!cur->pdu()) return "iterator-yields-empty-packet|it++ returned an iterator that holds no packet";
                out.push_back(out_of(*cur->pdu(), &cur->timestamp()));
            }
            return "";
        }
        case R_LOOP_PDU: s.sniff_loop(FPdu{&c}); out = c.out; return "";
        case R_LOOP_CPDU: s.sniff_loop(FConstPdu{&c}); out = c.out; return "";
        case R_LOOP_PKTREF: s.sniff_loop(FPktRef{&c}); out = c.out; return "";
        case R_LOOP_PKTVAL: s.sniff_loop(FPktVal{&c}); out = c.out; return "";
        case R_LOOP_THROW_NF: c.throw_kind = 1; s.sniff_loop(FPktRef{&c}); out = c.out; return "";
        case R_LOOP_THROW_MF: c.throw_kind = 2; s.sniff_loop(FPktVal{&c}); out = c.out; return "";
        case R_LOOP_STOP: {
            c.stop_at = k;
            s.sniff_loop(FPktRef{&c});
            size_t first = c.out.size();
            Collector d; s.sniff_loop(FPktRef{&d});          // documented: a second loop continues on the same handle
            out = c.out; out.insert(out.end(), d.out.begin(), d.out.end());
            if (first != (size_t)k && !(first < (size_t)k && d.out.empty()))
                return "functor-false-ignored|functor returned false at packet " + str(k) + ", loop delivered " + str(first);
            return "";
        }
        case R_LOOP_MAX: {
            s.sniff_loop(FPktRef{&c}, (uint32_t)k);
            size_t first = c.out.size();
            Collector d; s.sniff_loop(FPktRef{&d});
            out = c.out; out.insert(out.end(), d.out.begin(), d.out.end());
            if (first != (size_t)k && !(first < (size_t)k && d.out.empty()))
                return "max_packets-ignored|max_packets=" + str(k) + ", loop delivered " + str(first);
            return "";
        }
    }
    return "";
}

// ------------------------------------------------------------------------------------------------ one case = one sequence
struct Ctx {
    const Link* link; std::vector<Frame> alpha, gen2; Oracle orc;
    std::vector<std::shared_ptr<OfflinePacketFilter> > flt[NFILTERS];     // value-semantics generations of the filter for expression i
    std::vector<std::string> flt_label[NFILTERS];
};
struct Exp { Ts ts; const Frame* f; };

static std::string g_case;
static int g_violations_in_case;
static void viol(const std::string& sig, const std::string& detail, const std::string& where) {
    ++g_violations_in_case;
    R.violation(sig, detail + " [" + where + "]", g_case);
}

// compare one reader's output with the expectation
static void judge(const char* stage, const std::vector<Exp>& exp, const std::vector<Out>& out, const std::string& where, bool raw) {
    if (out.size() != exp.size()) {
        std::string names; for (auto& e : exp) names += e.f->name + " ";
        viol(std::string(stage) + ":" + (out.size() < exp.size() ? "frame-lost" : "frame-extra"),
             "expected " + str(exp.size()) + " packets (" + names + "), got " + str(out.size()), where);
        return;
    }
    for (size_t i = 0; i < exp.size(); ++i) {
        const Frame& f = *exp[i].f;
        if (out[i].has_ts && (out[i].sec != exp[i].ts.sec || out[i].usec != exp[i].ts.usec)) {
            viol(std::string(stage) + ":timestamp", "packet " + str(i) + " (" + f.name + "): expected " + str(exp[i].ts.sec) + "." + str(exp[i].ts.usec) +
                 " got " + str(out[i].sec) + "." + str(out[i].usec), where);
            return;
        }
        if (raw) {
            if (out[i].type != PDU::RAW || out[i].sig != "B" + std::string(f.b.begin(), f.b.end())) {
                viol(std::string(stage) + ":raw-bytes", "packet " + str(i) + " (" + f.name + "): extract_raw_pdus payload differs from the frame", where);
                return;
            }
            continue;
        }
        if (out[i].type != f.p.type) {
            viol(std::string(stage) + ":wrong-class", "packet " + str(i) + " (" + f.name + "): top-level class " + str(out[i].type) + ", the link type's parser gives " + str(f.p.type), where);
            return;
        }
        if (out[i].sig != f.p.sig) {
            viol(std::string(stage) + ":bytes", "packet " + str(i) + " (" + f.name + "): bytes differ from the packet parsed directly from the frame (" +
                 str(out[i].sig.size() - 1) + " vs " + str(f.p.sig.size() - 1) + " bytes)", where);
            return;
        }
    }
}

static uint64_t g_eval = 0;

// The shared `san` configuration switches UBSan's null check off (-fno-sanitize=null: `&v[0]` on an empty vector is reported
// as reference binding to null); harness TUs can still carry instrumented copies of inline std:: code, so such reports are
// counted, not judged.  Window = one file read / one packet write.
static bool mon_error() {
    if (!Mon::errors) return false;
    if (Mon::first.compare(0, 23, "ubsan:null-pointer-use:") == 0) { R.count("ubsan_null_reports_ignored_by_policy"); return false; }
    return true;
}

// open + read + judge, with exception and sanitizer monitoring
static void read_and_judge(const char* stage, const std::string& path, const std::vector<Exp>& exp, int reader, int k, int method, int ctor,
                           const char* filter, bool raw) {
    std::string where = std::string("reader=") + READER_NAME[reader] + (k ? "/" + str(k) : "") + " method=" + METHOD_NAME[method] + " ctor=" + CTOR_NAME[ctor] +
                        " filter=" + (filter ? filter : "-") + (raw ? " raw" : "");
    std::vector<Out> out;
    std::string problem;
    Mon::reset();
    try {
        std::unique_ptr<FileSniffer> s = open_sniffer(path, ctor, method, filter, raw);
        problem = run_reader(*s, reader, k, out);
    } catch (std::exception& e) {
        viol(std::string(stage) + ":exception-escaped:" + exc_name(e), std::string("what(): ") + e.what() + " after " + str(out.size()) + " packets", where);
        return;
    } catch (...) {
        viol(std::string(stage) + ":exception-escaped:unknown", "", where);
        return;
    }
    ++g_eval;
    R.count("evaluations");
    R.count("packets_delivered", out.size());
    if (mon_error()) { viol(Mon::first, Mon::first_detail + " while reading", where); if (Mon::wrote) return; }
    if (!problem.empty()) { size_t b = problem.find('|'); viol(std::string(stage) + ":" + problem.substr(0, b), problem.substr(b + 1), where); }
    judge(stage, exp, out, where, raw);
}

// Filter replaced on a live sniffer.  f1 is installed (through SnifferConfiguration::set_filter at construction, or through
// BaseSniffer::set_filter after opening), k packets are taken with next_packet, BaseSniffer::set_filter(f2) is called, the rest
// of the file is read with `tail`.  k = 0: both filters are installed before the first read.  The filter in force for a frame is
// the last one installed before libpcap read that frame; the verdict is libpcap's own for that expression.
static void switch_and_judge(Ctx& cx, const std::string& path, const std::vector<int>& seq, const std::vector<Ts>& ts,
                             int f1, int f2, int k, int inst, int method, int tail) {
    std::vector<Exp> exp;
    int cur = k == 0 ? f2 : f1, delivered = 0;
    for (size_t i = 0; i < seq.size(); ++i) {
        const Frame& f = cx.alpha[seq[i]];
        if (cx.orc.match_file(cur, f.b, f.len) && f.p.ok) { exp.push_back(Exp{ts[i], &f}); if (++delivered == k) cur = f2; }
    }
    const int reader = tail == 0 ? R_NEXT : tail == 1 ? R_ITER_PRE : R_LOOP_PKTREF;
    std::string where = std::string("first filter='") + FILTERS[f1] + "' via " + (inst == 0 ? "SnifferConfiguration::set_filter" : "BaseSniffer::set_filter") +
                        ", after " + str(k) + " packets set_filter('" + FILTERS[f2] + "'), then reader=" + READER_NAME[reader] + " method=" + METHOD_NAME[method];
    std::vector<Out> out, rest;
    std::string problem;
    Mon::reset();
    try {
        std::unique_ptr<FileSniffer> s = open_sniffer(path, inst == 0 ? C_PATH_CFG : C_SET_AFTER, method, FILTERS[f1], false);
        for (int j = 0; j < k; ++j) { Packet p(s->next_packet()); if (!p) break; out.push_back(out_of(*p.pdu(), &p.timestamp())); }
        if (!s->set_filter(FILTERS[f2])) {
            viol("sniffer-filter-switch:valid-expression-refused", "set_filter returned false for an expression libpcap compiles for this link type", where);
            return;
        }
        problem = run_reader(*s, reader, 0, rest);
        out.insert(out.end(), rest.begin(), rest.end());
    } catch (std::exception& e) {
        viol("sniffer-filter-switch:exception-escaped:" + exc_name(e), std::string("what(): ") + e.what(), where);
        return;
    } catch (...) { viol("sniffer-filter-switch:exception-escaped:unknown", "", where); return; }
    ++g_eval;
    R.count("evaluations");
    R.count("filter_switch_reads");
    R.count("packets_delivered", out.size());
    if (mon_error()) { viol(Mon::first, Mon::first_detail + " while reading", where); if (Mon::wrote) return; }
    if (!problem.empty()) { size_t b = problem.find('|'); viol("sniffer-filter-switch:" + problem.substr(0, b), problem.substr(b + 1), where); }
    judge("sniffer-filter-switch", exp, out, where, false);
}

static std::string seq_name(const std::vector<Frame>& alpha, const std::vector<int>& seq) {
    std::string s;
    for (size_t i = 0; i < seq.size(); ++i) s += (i ? "," : "") + alpha[seq[i]].name;
    return s.empty() ? "-" : s;
}

// PacketWriter constructed for the link type the way a user would
static PacketWriter* make_writer(const std::string& path, int dlt, bool by_enum) {
    if (by_enum) switch (dlt) {              // the LinkType enumeration names only these
        case DLT_EN10MB: return new PacketWriter(path, PacketWriter::ETH2);
        case DLT_LINUX_SLL: return new PacketWriter(path, PacketWriter::SLL);
        case DLT_IEEE802_11: return new PacketWriter(path, PacketWriter::DOT11);
        case DLT_IEEE802_11_RADIO: return new PacketWriter(path, PacketWriter::RADIOTAP);
    }
    switch (dlt) {
        case DLT_EN10MB: return new PacketWriter(path, DataLinkType<EthernetII>());
        case DLT_RAW: return new PacketWriter(path, DataLinkType<IP>());
        case DLT_NULL: return new PacketWriter(path, DataLinkType<C17NullLink>());
        case DLT_LINUX_SLL: return new PacketWriter(path, DataLinkType<SLL>());
        case DLT_IEEE802_11: return new PacketWriter(path, DataLinkType<Dot11>());
        case DLT_IEEE802_11_RADIO: return new PacketWriter(path, DataLinkType<RadioTap>());
        case DLT_PPI: return new PacketWriter(path, DataLinkType<PPI>());
    }
    return 0;
}

static void run_case(Ctx& cx, const std::vector<int>& seq, int rot, bool full) {
    const int dlt = cx.link->dlt;
    const size_t n = seq.size();
    std::vector<Rec> recs;
    std::vector<Ts> ts(n);
    for (size_t i = 0; i < n; ++i) {
        const Frame& f = cx.alpha[seq[i]];
        ts[i] = TS[(i + rot) % 3];
        recs.push_back(Rec{ts[i], (uint32_t)f.b.size(), f.len, f.b});
    }
    MemFile mf;
    mf.set(file_image(cx.link->file_linktype, recs));
    R.count("files_written");

    // ---- expectation without filter
    std::vector<Exp> exp, exp_raw;
    std::string pat;
    for (size_t i = 0; i < n; ++i) {
        const Frame& f = cx.alpha[seq[i]];
        exp_raw.push_back(Exp{ts[i], &f});
        if (f.p.ok) { exp.push_back(Exp{ts[i], &f}); pat += 'A'; }
        else { pat += f.p.how == "null" ? 'n' : 'm'; R.count("frames_expected_skipped"); }
    }
    R.dist("distinct_outcomes", fnv(std::string(cx.link->name) + "|-|" + pat));
    if (pat.find('A') != std::string::npos && pat.find_first_of("nm") != std::string::npos)
        R.dist("distinct_nontrivial", fnv(std::string(cx.link->name) + "|-|" + pat));

    // ---- A. harness-written file (arbitrary bytes), no filter
    const int ne = (int)exp.size();
    if (full) {
        for (int m = 0; m < N_METHOD; ++m) {
            for (int r = 0; r < N_READER; ++r) {
                if (r == R_LOOP_STOP || r == R_LOOP_MAX) {
                    if (m == M_DISPATCH) continue;
                    for (int k = 1; k <= ne + 1 && k <= 5; ++k) read_and_judge("sniffer", mf.path, exp, r, k, m, (r + k) % 2 ? C_PATH_CFG : C_FILE_CFG, 0, false);
                } else {
                    // constructors: full product on short sequences, rotated on longer ones
                    for (int c = 0; c < 4; ++c) {
                        if (n > 1 && c != (r + m + (int)n) % 4) continue;
                        read_and_judge("sniffer", mf.path, exp, r, 0, m, c, 0, false);
                    }
                }
            }
            // extract_raw_pdus: every frame comes back as a RawPDU with exactly its bytes
            read_and_judge("sniffer", mf.path, exp_raw, R_NEXT, 0, m, C_PATH_CFG, 0, true);
            read_and_judge("sniffer", mf.path, exp_raw, R_LOOP_PKTVAL, 0, m, C_FILE_CFG, 0, true);
        }
    } else {
        read_and_judge("sniffer", mf.path, exp, R_NEXT, 0, M_LOOP, C_PATH_CFG, 0, false);
        read_and_judge("sniffer", mf.path, exp, R_ITER_PRE, 0, M_EXACT, C_FILE_CFG, 0, false);
        read_and_judge("sniffer", mf.path, exp, R_LOOP_PKTREF, 0, M_DISPATCH, C_PATH_CFG, 0, false);
        read_and_judge("sniffer", mf.path, exp_raw, R_ITER_POST, 0, M_LOOP, C_PATH_CFG, 0, true);
    }

    // ---- B. filters: sniffer-side and OfflinePacketFilter, against libpcap's verdict from the harness' own program
    if (full) {
        for (int fi = 0; fi < NFILTERS; ++fi) {
            if (!cx.orc.valid[fi] || !cx.orc.valid_file[fi]) continue;
            std::vector<Exp> fexp, fexp_raw;
            std::string fpat;
            for (size_t i = 0; i < n; ++i) {
                const Frame& f = cx.alpha[seq[i]];
                bool m = cx.orc.match_file(fi, f.b, f.len);
                if (m) fexp_raw.push_back(Exp{ts[i], &f});
                if (m && f.p.ok) fexp.push_back(Exp{ts[i], &f});
                fpat += !m ? 'f' : f.p.ok ? 'A' : f.p.how == "null" ? 'n' : 'm';
                // offline filter object (shared by all cases of the job), its copy and an assigned-to object
                bool mo = cx.orc.match(fi, f.b, (uint32_t)f.b.size());     // the offline API has no separate wire length
                for (size_t o = 0; o < cx.flt[fi].size(); ++o) {
                    static const uint8_t none[4] = {0, 0, 0, 0};
                    Mon::reset();
                    bool got;
                    try { got = cx.flt[fi][o]->matches_filter(f.b.empty() ? none : f.b.data(), (uint32_t)f.b.size()); }
                    catch (std::exception& e) { viol("offline-filter:exception:" + exc_name(e), e.what(), std::string("filter=") + FILTERS[fi]); continue; }
                    R.count("offline_filter_verdicts");
                    if (mon_error()) viol(Mon::first, Mon::first_detail, std::string("matches_filter filter=") + FILTERS[fi]);
                    if (got != mo)
                        viol("offline-filter:verdict-differs-from-libpcap", "frame " + f.name + ": matches_filter=" + str(got) + ", pcap_offline_filter=" + str(mo) +
                             " (" + cx.flt_label[fi][o] + ")", std::string("filter=") + FILTERS[fi]);
                    if (o == 0 && f.p.ok && f.p.serializable) {
                        bool want = cx.orc.match(fi, f.p.ser, (uint32_t)f.p.ser.size());
                        bool g2;
                        try { g2 = cx.flt[fi][0]->matches_filter(*f.p.obj); }
                        catch (std::exception& e) { viol("offline-filter:exception:" + exc_name(e), e.what(), std::string("filter=") + FILTERS[fi]); continue; }
                        R.count("offline_filter_verdicts");
                        if (g2 != want) viol("offline-filter:pdu-verdict-differs-from-libpcap", "frame " + f.name + " (" + cx.flt_label[fi][0] + ")", std::string("filter=") + FILTERS[fi]);
                    }
                }
            }
            R.dist("distinct_outcomes", fnv(std::string(cx.link->name) + "|" + FILTERS[fi] + "|" + fpat));
            if (fpat.find('A') != std::string::npos && fpat.find_first_of("nmf") != std::string::npos)
                R.dist("distinct_nontrivial", fnv(std::string(cx.link->name) + "|" + FILTERS[fi] + "|" + fpat));
            int rr = (fi + (int)n) % 3;
            read_and_judge("sniffer-filter", mf.path, fexp, R_NEXT, 0, M_LOOP, (fi + (int)n) % N_CTOR, FILTERS[fi], false);
            read_and_judge("sniffer-filter", mf.path, fexp, rr == 0 ? R_ITER_PRE : rr == 1 ? R_LOOP_PKTREF : R_LOOP_PKTVAL, 0, M_EXACT,
                           (fi + (int)n + 2) % N_CTOR, FILTERS[fi], false);
            read_and_judge("sniffer-filter", mf.path, fexp_raw, R_NEXT, 0, M_DISPATCH, (fi + (int)n + 3) % N_CTOR, FILTERS[fi], true);
            if (n <= 1) for (int c = 0; c < N_CTOR; ++c) read_and_judge("sniffer-filter", mf.path, fexp, R_ITER_POST, 0, M_LOOP, c, FILTERS[fi], false);
        }
    }

    // ---- B2. a filter replaced by another one on the same sniffer: every ordered pair (f1, f2) of the expressions libpcap accepts
    // for the link type (the empty expression included) x switch point k in 0..min(2, n) x way of installing f1.
    // Full product for sequences of length <= 2; longer sequences take 4 combinations each, rotating through the product.
    if (full) {
        struct Combo { int f1, f2, k, inst; };
        std::vector<Combo> combos;
        const int kmax = n < 2 ? (int)n : 2;
        for (int f1 = 0; f1 < NBASE; ++f1) {          // the length-based expressions take part in B and D, not in the replacement product
            if (!cx.orc.valid[f1] || !cx.orc.valid_file[f1]) continue;
            for (int f2 = 0; f2 < NBASE; ++f2) {
                if (!cx.orc.valid[f2] || !cx.orc.valid_file[f2]) continue;
                for (int k = 0; k <= kmax; ++k) for (int inst = 0; inst < 2; ++inst) combos.push_back(Combo{f1, f2, k, inst});
            }
        }
        uint64_t ord = 0;
        for (size_t i = 0; i < n; ++i) ord = ord * cx.alpha.size() + seq[i];
        const size_t take = n <= 2 ? combos.size() : 4;
        for (size_t j = 0; j < take && !combos.empty(); ++j) {
            const size_t ci = n <= 2 ? j : (size_t)((ord * 4 + j) % combos.size());
            const Combo& c = combos[ci];
            switch_and_judge(cx, mf.path, seq, ts, c.f1, c.f2, c.k, c.inst, (int)((ci + ci / 3) % N_METHOD), (int)((ci / 2 + c.f1) % 3));
        }
    }

    // ---- C. file cut inside its last record: everything before it is delivered, then a clean end
    if (full && n >= 1) {
        Bytes img = mf.get();
        img.pop_back();
        MemFile cut; cut.set(img);
        std::vector<Exp> cexp;
        for (size_t i = 0; i + 1 < n; ++i) if (cx.alpha[seq[i]].p.ok) cexp.push_back(Exp{ts[i], &cx.alpha[seq[i]]});
        read_and_judge("sniffer-cut-file", cut.path, cexp, R_NEXT, 0, M_LOOP, C_PATH_CFG, 0, false);
        read_and_judge("sniffer-cut-file", cut.path, cexp, R_LOOP_PKTREF, 0, M_EXACT, C_FILE_CFG, 0, false);
    }

    // ---- D. PacketWriter: libtins packets in; the file is parsed by the harness (global header + every record header), read back.
    // wv 0: write(Packet&), exact timestamps, W1/W2 FRESHLY BUILT for this write (never serialized before);  1: write(PDU&), packets
    // obtained by parsing;  2: write(begin, end), freshly built;  3: write(PDU&) TWICE on the same freshly built object.
    for (int wv = 0; wv < (full ? 4 : 1); ++wv) {
        MemFile wf;
        struct WRec { const Frame* g; bool never_truncated; size_t src; };
        std::vector<std::unique_ptr<PDU> > pdus;
        std::vector<WRec> want;
        for (size_t i = 0; i < n; ++i) {
            const Frame& f = cx.alpha[seq[i]];
            PDU* fresh = wv != 1 ? build_fresh(dlt, f.name) : 0;
            bool strict = true;
            if (fresh) pdus.push_back(std::unique_ptr<PDU>(fresh));
            else if (f.p.ok && f.p.serializable) { pdus.push_back(std::unique_ptr<PDU>(f.p.obj->clone())); strict = f.len == f.b.size(); }
            else pdus.push_back(std::unique_ptr<PDU>(new RawPDU(f.b.data(), (uint32_t)f.b.size())));
            for (int rep = 0; rep < (wv == 3 ? 2 : 1); ++rep) want.push_back(WRec{&cx.gen2[seq[i]], strict, i});
        }
        std::string where = std::string("PacketWriter ") + (wv == 0 ? "write(Packet&) of freshly built packets" : wv == 1 ? "write(PDU&) of parsed packets" :
                                                            wv == 2 ? "write(begin,end) of freshly built packets" : "write(PDU&) twice per freshly built packet");
        Mon::reset();
        try {
            std::unique_ptr<PacketWriter> w(make_writer(wf.path, dlt, (n + wv + rot) % 2 == 1));
            for (size_t i = 0; i < n && wv != 2; ++i) {
                if (wv == 0) { Packet p(*pdus[i], Timestamp((uint64_t)ts[i].sec * 1000000u + ts[i].usec)); w->write(p); }
                else { w->write(*pdus[i]); if (wv == 3) w->write(*pdus[i]); }
                if (mon_error()) viol(Mon::first, Mon::first_detail + " while writing", where);
                Mon::reset();
            }
            if (wv == 2) w->write(pdus.begin(), pdus.end());
        } catch (std::exception& e) { viol("writer:exception:" + exc_name(e), e.what(), where); continue; }
        R.count("files_written_by_packetwriter");
        if (mon_error()) viol(Mon::first, Mon::first_detail + " while writing", where);
        Bytes img = wf.get();
        uint32_t lt = 0, snap = 0; std::vector<Rec> got;
        std::string prob = parse_image(img, lt, snap, got);
        if (!prob.empty()) { viol("writer:file-structure", prob, where); continue; }
        if (lt != cx.link->file_linktype) { viol("writer:link-type", "file says " + str(lt) + ", expected " + str(cx.link->file_linktype), where); continue; }
        if (got.size() != want.size()) { viol("writer:record-count", "wrote " + str(want.size()) + " packets, file has " + str(got.size()), where); continue; }
        bool bad = false;
        std::vector<Exp> wexp;
        std::vector<uint32_t> explen;
        for (size_t i = 0; i < want.size() && !bad; ++i) {
            const Frame& g = *want[i].g;
            const Ts& t = ts[want[i].src];
            const uint32_t cap = (uint32_t)g.b.size();
            const uint32_t len = want[i].never_truncated ? cap : (g.len > cap ? g.len : cap);     // a snap-truncated capture may advertise more, never less
            R.count("writer_record_headers_checked");
            if (got[i].data != g.b) { viol("writer:bytes", "record " + str(i) + " (" + g.name + "): " + str(got[i].data.size()) + " bytes in file, packet serializes to " + str(g.b.size()), where); bad = true; }
            else if (got[i].len < got[i].caplen) { viol("writer:original-length-below-captured-length", "record " + str(i) + " (" + g.name + "): len " + str(got[i].len) + " < caplen " + str(got[i].caplen), where); bad = true; }
            else if (got[i].len != len) { viol("writer:original-length", "record " + str(i) + " (" + g.name + "): len " + str(got[i].len) + ", expected " + str(len) + (want[i].never_truncated ? " (packet was never truncated)" : ""), where); bad = true; }
            else if (snap < got[i].caplen) { viol("writer:snaplen", "file snaplen " + str(snap) + " < record of " + str(got[i].caplen), where); bad = true; }
            else if (wv == 0 && (got[i].ts.sec != t.sec || got[i].ts.usec != t.usec)) {
                viol("writer:timestamp", "record " + str(i) + ": wrote " + str(t.sec) + "." + str(t.usec) + ", file has " + str(got[i].ts.sec) + "." + str(got[i].ts.usec), where); bad = true;
            } else if (got[i].ts.usec >= 1000000u) { viol("writer:timestamp", "microseconds field " + str(got[i].ts.usec), where); bad = true; }
            if (g.p.ok) wexp.push_back(Exp{got[i].ts, &g});
            explen.push_back(len);
        }
        if (bad) continue;
        read_and_judge("roundtrip", wf.path, wexp, R_NEXT, 0, M_LOOP, C_PATH_CFG, 0, false);
        if (wv == 0) {
            read_and_judge("roundtrip", wf.path, wexp, R_ITER_PRE, 0, M_EXACT, C_FILE_CFG, 0, false);
            // the length-based expressions on the file PacketWriter produced: they see the record's original length
            for (int fi = NBASE; fi < NFILTERS; ++fi) {
                if (!cx.orc.valid[fi] || !cx.orc.valid_file[fi]) continue;
                std::vector<Exp> fexp;
                for (size_t i = 0; i < want.size(); ++i)
                    if (want[i].g->p.ok && cx.orc.match_file(fi, want[i].g->b, explen[i])) fexp.push_back(Exp{got[i].ts, want[i].g});
                read_and_judge("roundtrip-filter", wf.path, fexp, (fi + (int)n) % 2 ? R_NEXT : R_LOOP_PKTREF, 0, M_LOOP, (fi + (int)n) % N_CTOR, FILTERS[fi], false);
            }
        }
    }
}

// Freshly built packets (the alphabet's W1/W2 and per-link-type extras with derived length fields) through every write overload:
// first write of an object that was never serialized, second write of the same object, Packet / PDU / range overloads.
// Reference bytes come from a DIFFERENT object built the same way and serialized by the harness.
static void built_packet_checks(Ctx& cx) {
    const int dlt = cx.link->dlt;
    std::vector<Built> bl = built_packets(dlt);
    for (size_t bi = 0; bi < bl.size(); ++bi) {
        std::unique_ptr<PDU> refobj(bl[bi].make());
        if (!refobj) continue;
        Frame g; g.name = bl[bi].name; g.b = refobj->serialize(); g.len = (uint32_t)g.b.size(); g.want_fixpoint = false; g.p = parse_info(dlt, g.b);
        for (int mode = 0; mode < 4; ++mode) {
            g_case = std::string("lt=") + cx.link->name + " built=" + str(bi) + " mode=" + str(mode);
            std::string where = "freshly built " + bl[bi].name + ", " + (mode == 0 ? "write(Packet&) once" : mode == 1 ? "write(PDU&) twice on the same object" :
                                                                          mode == 2 ? "write(begin,end) of two fresh objects" : "the same Packet written twice");
            MemFile wf;
            const Ts t = TS[(bi + mode) % 3];
            size_t nrec = mode == 0 ? 1 : 2;
            Mon::reset();
            try {
                std::unique_ptr<PacketWriter> w(make_writer(wf.path, dlt, (bi + mode) % 2 == 1));
                std::unique_ptr<PDU> a(bl[bi].make()), b(bl[bi].make());
                if (mode == 0) { Packet p(a.release(), Timestamp((uint64_t)t.sec * 1000000u + t.usec), Packet::own_pdu()); w->write(p); }
                else if (mode == 1) { w->write(*a); w->write(*a); }
                else if (mode == 2) { std::vector<PDU*> v; v.push_back(a.get()); v.push_back(b.get()); w->write(v.begin(), v.end()); }
                else { Packet p(a.release(), Timestamp((uint64_t)t.sec * 1000000u + t.usec), Packet::own_pdu()); w->write(p); w->write(p); }
            } catch (std::exception& e) { viol("writer:exception:" + exc_name(e), e.what(), where); continue; }
            R.count("files_written_by_packetwriter"); R.count("built_packet_files");
            if (mon_error()) viol(Mon::first, Mon::first_detail + " while writing", where);
            Bytes img = wf.get();
            uint32_t lt = 0, snap = 0; std::vector<Rec> got;
            std::string prob = parse_image(img, lt, snap, got);
            if (!prob.empty()) { viol("writer:file-structure", prob, where); continue; }
            if (lt != cx.link->file_linktype) { viol("writer:link-type", "file says " + str(lt) + ", expected " + str(cx.link->file_linktype), where); continue; }
            if (got.size() != nrec) { viol("writer:record-count", "wrote " + str(nrec) + " packets, file has " + str(got.size()), where); continue; }
            bool bad = false;
            std::vector<Exp> wexp;
            for (size_t i = 0; i < got.size() && !bad; ++i) {
                R.count("writer_record_headers_checked");
                if (got[i].data != g.b) { viol("writer:bytes", "record " + str(i) + ": " + str(got[i].data.size()) + " bytes in file, an identical packet serializes to " + str(g.b.size()), where); bad = true; }
                else if (got[i].len < got[i].caplen) { viol("writer:original-length-below-captured-length", "record " + str(i) + ": len " + str(got[i].len) + " < caplen " + str(got[i].caplen), where); bad = true; }
                else if (got[i].len != got[i].caplen) { viol("writer:original-length", "record " + str(i) + ": len " + str(got[i].len) + ", caplen " + str(got[i].caplen) + " for a packet that was never truncated", where); bad = true; }
                else if (snap < got[i].caplen) { viol("writer:snaplen", "file snaplen " + str(snap) + " < record of " + str(got[i].caplen), where); bad = true; }
                else if ((mode == 0 || mode == 3) && (got[i].ts.sec != t.sec || got[i].ts.usec != t.usec)) { viol("writer:timestamp", "record " + str(i), where); bad = true; }
                else if (got[i].ts.usec >= 1000000u) { viol("writer:timestamp", "microseconds field " + str(got[i].ts.usec), where); bad = true; }
                if (g.p.ok) wexp.push_back(Exp{got[i].ts, &g});
            }
            if (bad) continue;
            read_and_judge("roundtrip", wf.path, wexp, mode % 2 ? R_ITER_PRE : R_NEXT, 0, mode % 2 ? M_EXACT : M_LOOP, C_PATH_CFG, 0, false);
            for (int fi = NBASE; fi < NFILTERS && mode != 2; ++fi) {
                if (!cx.orc.valid[fi] || !cx.orc.valid_file[fi]) continue;
                std::vector<Exp> fexp;
                for (size_t i = 0; i < got.size(); ++i) if (g.p.ok && cx.orc.match_file(fi, g.b, (uint32_t)g.b.size())) fexp.push_back(Exp{got[i].ts, &g});
                read_and_judge("roundtrip-filter", wf.path, fexp, R_NEXT, 0, M_LOOP, (fi + mode) % N_CTOR, FILTERS[fi], false);
            }
        }
    }
}

// ------------------------------------------------------------------------------------------------ per-job setup checks
static void init_ctx(Ctx& cx, const Link* l) {
    cx.link = l;
    cx.alpha = alphabet(l->dlt);
    for (auto& f : cx.alpha) cx.gen2.push_back(second_generation(l->dlt, f));
    set_length_filters(cx.alpha[0].b.size());           // N = size of W1: S has that original length with 40 captured bytes
    MemFile empty;
    empty.set(file_image(l->file_linktype, std::vector<Rec>()));
    cx.orc.init(l->dlt, empty.path);
}

static std::shared_ptr<OfflinePacketFilter> make_offline(int dlt, const char* expr) {
    switch (dlt) {
        case DLT_EN10MB: return std::make_shared<OfflinePacketFilter>(expr, DataLinkType<EthernetII>());
        case DLT_RAW: return std::make_shared<OfflinePacketFilter>(expr, DataLinkType<IP>());
        case DLT_NULL: return std::make_shared<OfflinePacketFilter>(expr, DataLinkType<C17NullLink>());
        case DLT_LINUX_SLL: return std::make_shared<OfflinePacketFilter>(expr, DataLinkType<SLL>());
        case DLT_IEEE802_11: return std::make_shared<OfflinePacketFilter>(expr, DataLinkType<Dot11>());
        case DLT_IEEE802_11_RADIO: return std::make_shared<OfflinePacketFilter>(expr, DataLinkType<RadioTap>());
        case DLT_PPI: return std::make_shared<OfflinePacketFilter>(expr, DataLinkType<PPI>());
    }
    return std::shared_ptr<OfflinePacketFilter>();
}

// Value-semantics generations of OfflinePacketFilter for expression fi.  Every source object is destroyed before the derived
// object is used (a shared pcap handle / program would show under ASan); every generation must keep giving libpcap's verdict for
// ITS expression.  `alt` is another accepted expression, used for objects that are assigned over and as the vector's middle element.
// (Self-assignment is not exercised: operator= has no self check and nothing in the documentation promises it; see notes.)
static void build_generations(Ctx& cx, int fi, bool originals) {
    typedef OfflinePacketFilter F;
    typedef std::shared_ptr<F> P;
    const int dlt = cx.link->dlt;
    int alt = fi;
    for (int d = 1; d < NFILTERS; ++d) { int c = (fi + d) % NFILTERS; if (cx.orc.valid[c] && cx.orc.valid_file[c]) { alt = c; break; } }
    const char* e = FILTERS[fi]; const char* other = FILTERS[alt];
    auto add = [&](int idx, const char* label, P p) { cx.flt[idx].push_back(p); cx.flt_label[idx].push_back(label); };
    if (originals) { add(fi, "g0 original", make_offline(dlt, e)); return; }      // index 0 of every family is the original
    { P t = make_offline(dlt, e); P g1(new F(*t)); t.reset(); add(fi, "g1 copy, source destroyed", g1); }
    { P t = make_offline(dlt, e); P c1(new F(*t)); t.reset(); P g2(new F(*c1)); c1.reset(); add(fi, "g2 copy of a copy, sources destroyed", g2); }
    { P t = make_offline(dlt, e); P c1(new F(*t)); t.reset(); P c2(new F(*c1)); c1.reset();
      P g3 = make_offline(dlt, other); *g3 = *c2; c2.reset(); add(fi, "g3 assigned from a copy of a copy (held another expression), sources destroyed", g3); }
    { P t = make_offline(dlt, e); P g4 = make_offline(dlt, other); *g4 = *t; t.reset(); add(fi, "g4 original assigned over an object that held another expression, source destroyed", g4); }
    { P t = make_offline(dlt, e); P a1 = make_offline(dlt, other); *a1 = *t; t.reset(); P a2 = make_offline(dlt, other); *a2 = *a1; a1.reset();
      P g5(new F(*a2)); a2.reset(); add(fi, "g5 copy of an object assigned from an assigned object, sources destroyed", g5); }
    {   // std::vector with 3 push_backs (reallocation copies the elements again); the temporaries are gone when the elements are used
        std::shared_ptr<std::vector<F> > v(new std::vector<F>());
        { P t = make_offline(dlt, e); v->push_back(*t); }
        { P t = make_offline(dlt, other); v->push_back(*t); }
        { P t = make_offline(dlt, e); v->push_back(*t); }
        add(fi, "vector element 0 after 3 push_backs", P(v, &(*v)[0]));
        add(alt, "vector element 1 after 3 push_backs", P(v, &(*v)[1]));
        add(fi, "vector element 2 after 3 push_backs", P(v, &(*v)[2]));
        std::shared_ptr<std::vector<F> > w(new std::vector<F>(*v));        // copy of the whole vector, then element-wise assignment back
        add(fi, "element 0 of a copied vector", P(w, &(*w)[0]));
        std::shared_ptr<std::vector<F> > x(new std::vector<F>());
        { P t = make_offline(dlt, other); x->push_back(*t); x->push_back(*t); x->push_back(*t); }
        *x = *w;                                                               // vector assignment: element-wise operator=
        add(fi, "element 2 of a vector assigned from a copied vector", P(x, &(*x)[2]));
    }
}

// alphabet sanity (a failure here is a harness/alphabet problem or a changed serializer, reported loudly) + filter objects
static void setup_checks(Ctx& cx, bool report) {
    g_case = std::string("lt=") + cx.link->name + " setup=1";
    for (auto& f : cx.alpha) {
        if (f.p.how.compare(0, 4, "EXC:") == 0)
            viol("parser:non-malformed-exception:" + f.p.how.substr(4), "frame " + f.name + " makes the top-level parser throw something other than malformed_packet", "alphabet");
        if (f.want_fixpoint && !(f.p.ok && f.p.serializable && f.p.ser == f.b))
            viol("harness:alphabet-frame-not-a-serialization-fixpoint", "frame " + f.name + " (" + f.p.how + ", " + str(f.p.ser.size()) + " vs " + str(f.b.size()) + " bytes)", "alphabet");
        { std::unique_ptr<PDU> fr(build_fresh(cx.link->dlt, f.name));
          if (fr && fr->serialize() != f.b) viol("harness:builder-differs-from-alphabet-frame", "frame " + f.name, "alphabet"); }
        if ((f.name == "W1" || f.name == "W2" || f.name == "B") && !f.p.ok)
            viol("harness:well-formed-frame-rejected", "frame " + f.name + ": " + f.p.how, "alphabet");
    }
    for (size_t i = 0; i < cx.alpha.size(); ++i) {
        const Frame& f = cx.alpha[i]; const Frame& g = cx.gen2[i];
        // a packet that was written from its own serialization must read back as the same packet
        if (f.p.ok && f.p.serializable && !(g.p.ok && g.p.sig == f.p.sig) && f.want_fixpoint)
            viol("harness:second-generation-differs", "frame " + f.name, "alphabet");
    }
    for (int pass = 0; pass < 2; ++pass)
    for (int fi = 0; fi < NFILTERS; ++fi) {
        std::string where = std::string("filter=") + FILTERS[fi];
        if (cx.orc.valid[fi]) {
            Mon::reset();
            try { build_generations(cx, fi, pass == 0); R.maxv("offline_filter_generations_per_expression", (uint64_t)cx.flt[fi].size()); }
            catch (std::exception& e) { viol("offline-filter:valid-expression-rejected:" + exc_name(e), e.what(), where); }
            if (mon_error()) viol(Mon::first, Mon::first_detail + " constructing OfflinePacketFilter", where);
        }
    }
    if (report) {
        std::string s = std::string("{\"link\":") + jstr(cx.link->name) + ",\"alphabet\":[";
        for (size_t i = 0; i < cx.alpha.size(); ++i) {
            const Frame& f = cx.alpha[i];
            s += (i ? "," : "") + jstr(f.name + ":" + str(f.b.size()) + "B:" + f.p.how + (f.p.ok ? ":" + f.p.layers : "") + (f.len != f.b.size() ? ":len" + str(f.len) : ""));
        }
        s += "],\"filters_valid\":[";
        bool first = true;
        for (int fi = 0; fi < NFILTERS; ++fi) if (cx.orc.valid[fi]) { s += (first ? "" : ",") + jstr(FILTERS[fi]); first = false; }
        s += "]}";
        R.max_samples = 16;
        R.sample(s);
    }
}

// expressions libpcap refuses for this link type must be refused by libtins too (documented: invalid_pcap_filter / false)
static void invalid_filter_checks(Ctx& cx, int only = -1) {
    MemFile mf;
    mf.set(file_image(cx.link->file_linktype, std::vector<Rec>()));
    const char* extra_bad = "this is not a filter";
    for (int fi = 0; fi <= NFILTERS; ++fi) {
        const char* expr = fi < NFILTERS ? FILTERS[fi] : extra_bad;
        if (fi < NFILTERS && cx.orc.valid[fi] != cx.orc.valid_file[fi]) continue;      // libpcap itself is of two minds
        if (fi < NFILTERS && cx.orc.valid[fi]) continue;
        if (only >= 0 && only != fi) continue;
        std::string where = std::string("filter=") + expr;
        g_case = std::string("lt=") + cx.link->name + " invalidfilter=" + str(fi);
        set_case(1 + fi, "FileSniffer-invalid-filter-expression", g_case);
        for (int c = 0; c < N_CTOR && !skipped(1 + fi); ++c) {
            Mon::reset();
            std::string res;
            try { std::unique_ptr<FileSniffer> s = open_sniffer(mf.path, c, M_LOOP, expr, false); res = "accepted"; }
            catch (invalid_pcap_filter&) { res = "invalid_pcap_filter"; }
            catch (std::runtime_error& e) { res = std::string(e.what()) == "set_filter returned false" ? "false" : "EXC:" + exc_name(e); }
            catch (std::exception& e) { res = "EXC:" + exc_name(e); }
            R.count("invalid_filter_checks");
            if (mon_error()) viol(Mon::first, Mon::first_detail + " opening a sniffer with an expression libpcap rejects", where + " ctor=" + CTOR_NAME[c]);
            if (res == "accepted" || res.compare(0, 4, "EXC:") == 0)
                viol("sniffer-filter:invalid-expression-not-refused", "libpcap rejects the expression for this link type, sniffer: " + res, where + " ctor=" + CTOR_NAME[c]);
        }
        if (skipped(16 + fi)) { R.flags["exhaustive"] = false; continue; }     // crashed the process in an earlier attempt (reported by the driver)
        set_case(16 + fi, "OfflinePacketFilter-invalid-filter-expression", g_case);
        Mon::reset();
        std::string res;
        try { std::shared_ptr<OfflinePacketFilter> f = make_offline(cx.link->dlt, expr); res = "accepted"; }
        catch (invalid_pcap_filter&) { res = "invalid_pcap_filter"; }
        catch (std::exception& e) { res = "EXC:" + exc_name(e); }
        R.count("invalid_filter_checks");
        if (mon_error()) viol(Mon::first, Mon::first_detail + " constructing OfflinePacketFilter with an expression libpcap rejects", where);
        if (res != "invalid_pcap_filter") viol("offline-filter:invalid-expression-not-refused", "OfflinePacketFilter: " + res, where);
    }
}

// Informational, not judged (DLT_LOOP is not in the property's list of link types): DataLinkType<Loopback> maps to DLT_LOOP,
// which BaseSniffer::next_packet does not dispatch on, so a file written the documented way for Loopback packets cannot be read back.
static void loop_dlt_observation() {
    MemFile f;
    std::string res;
    try {
        { PacketWriter w(f.path, DataLinkType<Loopback>()); Loopback l = Loopback() / ip_tcp80(); w.write(l); }
        FileSniffer s(f.path);
        Packet p(s.next_packet());
        res = p ? "packet read back" : "no packet";
    } catch (std::exception& e) { res = "exception " + exc_name(e); }
    R.info["observation_PacketWriter_DataLinkType_Loopback_then_FileSniffer"] = jstr(res);
}

// ================================================================================================ pseudo-header sweeps
// Round 6: length / type fields of the pseudo-headers the handlers look into before dispatching, at EVERY value from 0 to
// frame size + 2 with the rest of the frame fixed (exact-fit values included): PPI pph_len for pph_dlt in {802.11, radiotap,
// Ethernet, unknown} x 4 field-area layouts, RadioTap it_len (also with a second present word behind the ext bit and an odd
// header length), LINUX_SLL halen x protocol, the NULL family word.  Every frame alone in a capture and in the middle of a
// three-frame capture, through next_packet / sniff_loop / iteration; the direct parse runs under the sanitizer monitor too.
struct SweepFrame { std::string name; Bytes b; };
static Bytes le16(Bytes b, size_t off, uint32_t v) { b[off] = uint8_t(v); b[off + 1] = uint8_t(v >> 8); return b; }
static Bytes be16(Bytes b, size_t off, uint32_t v) { b[off] = uint8_t(v >> 8); b[off + 1] = uint8_t(v); return b; }
static std::vector<SweepFrame> sweep_frames(int dlt) {
    std::vector<SweepFrame> v;
    Dot11Data d; d.addr1(M2); d.addr2(M3); d.addr3(M3);
    const Bytes dot11 = Dot11Data(d / SNAP() / ip_udp_short(5)).serialize();
    const Bytes eth = EthernetII(EthernetII(M2, M1) / ip_udp_short(18)).serialize();
    const Bytes ip = ip_udp_short(12).serialize();
    const Bytes ip6 = IPv6(IPv6("fe80::2", "fe80::1") / UDP(53, 1000) / RawPDU(pattern(5, 9))).serialize();
    auto sweep = [&](const std::string& base, const Bytes& frame, size_t off, bool little) {
        for (uint32_t x = 0; x <= frame.size() + 2; ++x) v.push_back(SweepFrame{base + "=" + str(x), little ? le16(frame, off, x) : be16(frame, off, x)});
    };
    switch (dlt) {
    case DLT_PPI: {
        const Bytes common = {2, 0, 20, 0, 0, 0, 0, 0, 0, 0, 0, 0, 1, 0, 0x6c, 0x09, 0xa0, 0, 0, 0, 0, 0, 0xc4, 0xa0};      // 802.11-common field, FCS-at-end flag set
        const Bytes radio = RadioTap(RadioTap() / (d / SNAP() / ip_udp_short(5))).serialize();
        const uint32_t dlts[4] = {105, 127, 1, 0x99};
        const size_t fields[4] = {0, 12, 13, 24};                 // bytes of field data in front of the inner frame (12 = exactly up to, 13 = including, the flags octet)
        for (int di = 0; di < 4; ++di)
            for (int fi = 0; fi < 4; ++fi) {
                Bytes inner = dlts[di] == 105 ? cat(dot11, Bytes{0xde, 0xad, 0xbe, 0xef}) : dlts[di] == 127 ? radio : dlts[di] == 1 ? eth : pattern(40, 3);
                Bytes f = cat(cat(ppi_hdr(dlts[di], Bytes()), head(common, fields[fi])), inner);
                sweep("pph_dlt=" + str(dlts[di]) + ",fields=" + str(fields[fi]) + ",pph_len", f, 2, true);
            }
        break; }
    case DLT_IEEE802_11_RADIO: {
        Dot11Beacon be; be.addr1(Dot11::BROADCAST); be.addr2(M1); be.addr3(M1); be.ssid("c17");
        sweep("default-header+beacon,it_len", RadioTap(RadioTap() / be).serialize(), 2, true);
        sweep("default-header+data,it_len", RadioTap(RadioTap() / (d / SNAP() / ip_udp_short(5))).serialize(), 2, true);
        {   // two present words (ext bit), only FLAGS present, value 0: 8 + 4 + 1 = 13 bytes of header, not a multiple of 4
            Bytes h = {0, 0, 13, 0, 0x02, 0, 0, 0x80, 0, 0, 0, 0, 0};
            sweep("ext-present-word+beacon,it_len", cat(h, Dot11Beacon(be).serialize()), 2, true);
        }
        {   // FLAGS = FCS: 9 bytes of header + frame + 4 bytes
            Bytes h = {0, 0, 9, 0, 0x02, 0, 0, 0, 0x10};
            sweep("flags-fcs+data,it_len", cat(cat(h, dot11), Bytes{1, 2, 3, 4}), 2, true);
        }
        break; }
    case DLT_LINUX_SLL: {
        const uint32_t protos[] = {0x0800, 0x86dd, 0x0806, 0x8100, 0x8864, 0x888e, 0x8847, 0x0001, 0x0004, 0x9999};
        for (uint32_t pr : protos) {
            Bytes h = {0, 0, 0, 1, 0, 6, 2, 0, 0, 0, 0, 1, 0, 0, uint8_t(pr >> 8), uint8_t(pr)};
            sweep("protocol=" + str(pr) + ",payload=ipv4,halen", cat(h, ip), 4, false);
        }
        { Bytes h = {0, 0, 0, 1, 0, 6, 2, 0, 0, 0, 0, 1, 0, 0, 0x86, 0xdd}; sweep("protocol=34525,payload=ipv6,halen", cat(h, ip6), 4, false); }
        break; }
    case DLT_NULL: {
        const Bytes llc = {0x42, 0x42, 0x03, 0, 0, 0, 0};
        const Bytes* pl[3] = {&ip, &ip6, &llc};
        const char* pn[3] = {"ipv4", "ipv6", "llc"};
        for (int p = 0; p < 3; ++p)
            for (uint32_t fam = 0; fam <= 40; ++fam) {
                v.push_back(SweepFrame{std::string("payload=") + pn[p] + ",family=" + str(fam), cat(Bytes{uint8_t(fam), 0, 0, 0}, *pl[p])});
                v.push_back(SweepFrame{std::string("payload=") + pn[p] + ",family(big-endian)=" + str(fam), cat(Bytes{0, 0, 0, uint8_t(fam)}, *pl[p])});
            }
        break; }
    }
    return v;
}
static const uint64_t SWEEP_INDEX_BASE = 1ull << 40;
static void run_sweep_frame(Ctx& cx, const SweepFrame& sf, size_t i) {
    const int dlt = cx.link->dlt;
    g_case = std::string("lt=") + cx.link->name + " sweep=" + str(i);
    Frame f; f.name = sf.name; f.b = sf.b; f.len = (uint32_t)sf.b.size(); f.want_fixpoint = false;
    Mon::reset();
    f.p = parse_info(dlt, f.b);
    if (mon_error()) viol("parser:" + Mon::first, Mon::first_detail + " in the link type's top-level parser called directly on the frame", "sweep frame " + sf.name);
    if (f.p.how.compare(0, 4, "EXC:") == 0) viol("parser:non-malformed-exception:" + f.p.how.substr(4), "the top-level parser throws something other than malformed_packet", "sweep frame " + sf.name);
    R.count("sweep_frames");
    R.dist("distinct_outcomes", fnv(std::string("S|") + cx.link->name + "|" + f.p.how + "|" + f.p.layers));
    if (f.p.ok) R.dist("distinct_nontrivial", fnv(std::string("S|") + cx.link->name + "|" + sf.name.substr(0, sf.name.rfind('=')) + "|" + f.p.layers + "|" + str(f.p.sig.size())));
    const Frame& w1 = cx.alpha[0]; const Frame& w2 = cx.alpha[1];
    for (int ctx3 = 0; ctx3 < 2; ++ctx3) {
        std::vector<Rec> recs; std::vector<Exp> exp;
        std::vector<const Frame*> fr;
        if (ctx3) fr.push_back(&w1);
        fr.push_back(&f);
        if (ctx3) fr.push_back(&w2);
        for (size_t j = 0; j < fr.size(); ++j) {
            const Ts t = TS[(j + i) % 3];
            recs.push_back(Rec{t, (uint32_t)fr[j]->b.size(), fr[j]->len, fr[j]->b});
            if (fr[j]->p.ok) exp.push_back(Exp{t, fr[j]});
        }
        MemFile mf; mf.set(file_image(cx.link->file_linktype, recs));
        read_and_judge("sweep", mf.path, exp, R_NEXT, 0, M_LOOP, C_PATH_CFG, 0, false);
        read_and_judge("sweep", mf.path, exp, R_LOOP_PKTREF, 0, M_EXACT, C_FILE_CFG, 0, false);
        read_and_judge("sweep", mf.path, exp, R_ITER_PRE, 0, M_DISPATCH, C_PATH_CFG, 0, false);
    }
}
static void pseudo_header_sweep(Ctx& cx, int shard, int nshards, long only = -1) {
    std::vector<SweepFrame> v = sweep_frames(cx.link->dlt);
    for (size_t i = 0; i < v.size(); ++i) {
        if (only >= 0 ? (long)i != only : (int)(i % nshards) != shard) continue;
        if (skipped(SWEEP_INDEX_BASE + i)) { R.flags["exhaustive"] = false; continue; }
        if (deadline_reached()) { R.flags["exhaustive"] = false; R.info["cut_at"] = jstr(std::string(cx.link->name) + " pseudo-header sweep"); return; }
        set_case(SWEEP_INDEX_BASE + i, std::string("pseudo-header sweep ") + cx.link->name, std::string("lt=") + cx.link->name + " sweep=" + str(i));
        arm_watchdog(120);
        run_sweep_frame(cx, v[i], i);
        disarm_watchdog();
    }
    if (only >= 0 && (size_t)only < v.size()) printf("sweep frame %ld: %s (%zu bytes)\n", only, v[only].name.c_str(), v[only].b.size());
}

// ---- histories over ONE SnifferConfiguration object: every sequence of setters up to a length, then FileSniffer(file, config).
// Only the filter and the sniffing method mean anything for a capture file; the result must be that of the LAST filter and the LAST
// method set, whatever other setters were called in between (independent setters do not disturb each other).
static int g_exact_calls = 0, g_dispatch_calls = 0;
static int counting_exact(pcap_t* p, int cnt, pcap_handler h, u_char* user) { ++g_exact_calls; return exact_method(p, cnt, h, user); }
static int counting_dispatch(pcap_t* p, int cnt, pcap_handler h, u_char* user) { ++g_dispatch_calls; return pcap_dispatch(p, cnt, h, user); }
static const char* CFG_OPS[] = {"filter(tcp port 80)", "filter(udp)", "filter()", "method(pcap_loop)", "method(dispatch)", "method(exact)", "promisc", "snap_len(40)",
                                "timeout(1)", "immediate", "direction(in)", "rfmon", "buffer_size(4096)", "timestamp_precision(nano)"};
static const int N_CFG_OPS = 14;
static const int CFG_FILTER_INDEX[3] = {1, 2, 7};
static void config_history(Ctx& cx, const std::string& path, const std::vector<int>& seq, const std::vector<Ts>& ts, const std::vector<int>& ops, int ctor) {
    SnifferConfiguration cfg;
    int flt = -1, method = 0;
    std::string hs;
    for (size_t i = 0; i < ops.size(); ++i) {
        hs += (i ? "," : "") + std::string(CFG_OPS[ops[i]]);
        switch (ops[i]) {
            case 0: case 1: case 2: cfg.set_filter(FILTERS[CFG_FILTER_INDEX[ops[i]]]); flt = CFG_FILTER_INDEX[ops[i]]; break;
            case 3: cfg.set_pcap_sniffing_method(pcap_loop); method = 0; break;
            case 4: cfg.set_pcap_sniffing_method(counting_dispatch); method = 1; break;
            case 5: cfg.set_pcap_sniffing_method(counting_exact); method = 2; break;
            case 6: cfg.set_promisc_mode(true); break;
            case 7: cfg.set_snap_len(40); break;
            case 8: cfg.set_timeout(1); break;
            case 9: cfg.set_immediate_mode(true); break;
            case 10: cfg.set_direction(PCAP_D_IN); break;
            case 11: cfg.set_rfmon(true); break;
            case 12: cfg.set_buffer_size(4096); break;
            case 13: cfg.set_timestamp_precision(1); break;
        }
    }
    std::vector<Exp> exp;
    for (size_t i = 0; i < seq.size(); ++i) {
        const Frame& f = cx.alpha[seq[i]];
        if (f.p.ok && (flt < 0 || cx.orc.match_file(flt, f.b, f.len))) exp.push_back(Exp{ts[i], &f});
    }
    std::string where = "SnifferConfiguration setters in this order: " + (hs.empty() ? std::string("(none)") : hs) + "; then FileSniffer(" + (ctor ? "FILE*" : "path") + ", config)";
    std::vector<Out> out;
    std::string problem;
    g_exact_calls = g_dispatch_calls = 0;
    Mon::reset();
    try {
        std::unique_ptr<FileSniffer> s;
        if (ctor) { FILE* fp = fopen(path.c_str(), "rb"); s.reset(new FileSniffer(fp, cfg)); } else s.reset(new FileSniffer(path, cfg));
        problem = run_reader(*s, (int)(ops.size() % 2) ? R_NEXT : R_LOOP_PKTREF, 0, out);
    } catch (std::exception& e) { viol("config-history:exception-escaped:" + exc_name(e), std::string("what(): ") + e.what(), where); return; }
    R.count("evaluations"); R.count("config_histories"); ++g_eval;
    if (mon_error()) viol(Mon::first, Mon::first_detail + " while reading", where);
    if (!problem.empty()) { size_t b = problem.find('|'); viol("config-history:" + problem.substr(0, b), problem.substr(b + 1), where); }
    if ((g_exact_calls > 0) != (method == 2) || (g_dispatch_calls > 0) != (method == 1))
        viol("config-history:sniffing-method-not-the-last-one-set", "calls: custom exact " + str(g_exact_calls) + ", custom dispatch " + str(g_dispatch_calls) +
             ", last method set: " + (method == 0 ? "pcap_loop/default" : method == 1 ? "dispatch" : "exact"), where);
    judge("config-history", exp, out, where, false);
}
static void config_history_job(int maxlen, long only_link, const std::string* only_ops) {
    const int links[2] = {0, 1};            // EN10MB, RAW
    uint64_t index = 0;
    for (int li = 0; li < 2; ++li) {
        if (only_link >= 0 && only_link != li) continue;
        Ctx cx;
        init_ctx(cx, &LINKS[links[li]]);
        std::vector<int> seq; std::vector<Ts> ts; std::vector<Rec> recs;
        for (size_t i = 0; i < cx.alpha.size() && i < 8; ++i) {          // every alphabet frame but the 65535-byte one
            seq.push_back((int)i); ts.push_back(TS[i % 3]);
            recs.push_back(Rec{ts.back(), (uint32_t)cx.alpha[i].b.size(), cx.alpha[i].len, cx.alpha[i].b});
        }
        MemFile mf; mf.set(file_image(cx.link->file_linktype, recs));
        if (only_ops) {            // replay of one history
            std::vector<int> ops;
            if (*only_ops != "-") { std::istringstream in(*only_ops); std::string t; while (std::getline(in, t, '.')) ops.push_back(atoi(t.c_str()) % N_CFG_OPS); }
            g_case = "cfghist=" + str(li) + " ops=" + *only_ops;
            config_history(cx, mf.path, seq, ts, ops, 0);
            config_history(cx, mf.path, seq, ts, ops, 1);
            continue;
        }
        for (int len = 0; len <= maxlen; ++len) {
            uint64_t total = 1; for (int i = 0; i < len; ++i) total *= N_CFG_OPS;
            for (uint64_t x = 0; x < total; ++x) {
                const uint64_t my = index++;
                std::vector<int> ops(len);
                uint64_t y = x;
                for (int i = len - 1; i >= 0; --i) { ops[i] = (int)(y % N_CFG_OPS); y /= N_CFG_OPS; }
                std::string os; for (int o : ops) os += (os.empty() ? "" : ".") + str(o);
                if (skipped(my)) { R.flags["exhaustive"] = false; continue; }
                if (deadline_reached()) { R.flags["exhaustive"] = false; R.info["cut_at"] = jstr("configuration histories"); return; }
                g_case = "cfghist=" + str(li) + " ops=" + (os.empty() ? "-" : os);
                set_case(my, "SnifferConfiguration history", g_case);
                config_history(cx, mf.path, seq, ts, ops, (int)(x % 2));
            }
        }
    }
}

// ================================================================================================ object histories
// Round 4: state a sniffer / writer OBJECT accumulates while it is used, and what move construction / move assignment carry.
// Explicit-state BFS over the reference-model states of 2 slots; every transition is executed by replaying its whole history
// on fresh real objects (they are not copyable), judged on every next()/drain, and followed by a PROBE that drains every live
// slot and compares with the model, so that hidden state (something cached in the object that a move forgets) shows even when
// the model state was reached before by a shorter history.
// Model of a sniffer slot: (capture k, cursor, end-of-file seen, filter, extract_raw); a move transfers exactly that; the source
// of a move is only destroyed or assigned to afterwards (a moved-from object is valid but unspecified).
struct HCap { const Link* link; std::vector<Frame> alpha; Oracle orc; std::vector<int> fr; std::vector<Ts> ts; std::shared_ptr<MemFile> file; };
struct HCfg { std::vector<HCap> caps; bool op_filter, op_raw; std::string desc; };
static const int H_FILTER = 1;                     // "tcp port 80": accepted by libpcap for all seven link types, discriminates in every capture
struct MSlot { int st, k, cur, eof, flt, raw; };   // st 0 empty, 1 moved-from, 2 live
struct HOp { char t; int s, x; };
static std::string hop_str(const HOp& o) { return std::string(1, o.t) + str(o.s) + (o.x >= 0 ? str(o.x) : ""); }
static std::string hops_str(const std::vector<HOp>& h) { std::string s; for (size_t i = 0; i < h.size(); ++i) s += (i ? "," : "") + hop_str(h[i]); return s.empty() ? "-" : s; }
static std::string mkey(const MSlot* m) {
    std::string s;
    for (int i = 0; i < 2; ++i) s += m[i].st != 2 ? (m[i].st ? "M|" : "E|") : str(m[i].k) + "." + str(m[i].cur) + "." + str(m[i].eof) + "." + str(m[i].flt) + "." + str(m[i].raw) + "|";
    return s;
}
static std::vector<HOp> hops_enabled(const HCfg& c, const MSlot* m) {
    std::vector<HOp> v;
    const int nk = (int)c.caps.size();
    for (int s = 0; s < 2; ++s) {
        const int t = 1 - s;
        if (m[s].st == 0) { for (int k = 0; k < nk; ++k) v.push_back(HOp{'o', s, k}); if (m[t].st == 2) v.push_back(HOp{'m', s, t}); }
        else {
            v.push_back(HOp{'c', s, -1});
            for (int k = 0; k < nk; ++k) v.push_back(HOp{'A', s, k});
            if (m[t].st == 2) v.push_back(HOp{'a', s, t});
        }
        if (m[s].st == 2) {
            v.push_back(HOp{'n', s, -1}); v.push_back(HOp{'d', s, -1});
            if (c.op_filter) { v.push_back(HOp{'f', s, 1}); v.push_back(HOp{'f', s, 0}); }
            if (c.op_raw && !m[s].raw) v.push_back(HOp{'r', s, -1});
        }
    }
    return v;
}
// the model's answer to next(): the next frame of the capture that the filter in force accepts and that parses (or any frame in raw mode)
static bool model_next(const HCfg& c, MSlot& m, Exp& e) {
    const HCap& cap = c.caps[m.k];
    while (m.cur < (int)cap.fr.size()) {
        const Frame& f = cap.alpha[cap.fr[m.cur]];
        const Ts ts = cap.ts[m.cur];
        ++m.cur;
        if ((m.flt == 0 || cap.orc.match_file(H_FILTER, f.b, f.len)) && (m.raw || f.p.ok)) { e = Exp{ts, &f}; return true; }
    }
    m.eof = 1;
    return false;
}
static uint64_t g_hist_next = 0;
// Replays a history on fresh objects.  judges every observation; probes every live slot at the end.
static void sniffer_history(const HCfg& c, const std::vector<HOp>& h, MSlot* m_out) {
    std::unique_ptr<FileSniffer> sl[2];
    MSlot m[2] = {{0, 0, 0, 0, 0, 0}, {0, 0, 0, 0, 0, 0}};
    std::string where;
    Mon::reset();
    try {
        for (size_t i = 0; i <= h.size(); ++i) {
            if (i == h.size()) {       // probe
                for (int s = 0; s < 2; ++s) {
                    if (m[s].st != 2) continue;
                    const int reader = (h.size() + s) % 3 == 0 ? R_NEXT : (h.size() + s) % 3 == 1 ? R_ITER_PRE : R_LOOP_PKTREF;
                    where = "probe: slot " + str(s) + " drained with " + READER_NAME[reader] + " after the history; model: capture " + c.caps[m[s].k].link->name + " at frame " + str(m[s].cur);
                    std::vector<Exp> exp; Exp e; MSlot mm = m[s];
                    while (model_next(c, mm, e)) exp.push_back(e);
                    std::vector<Out> out;
                    std::string problem = run_reader(*sl[s], reader, 0, out);
                    if (!problem.empty()) { size_t b = problem.find('|'); viol("history:" + problem.substr(0, b), problem.substr(b + 1), where); }
                    judge("history", exp, out, where, m[s].raw != 0);
                    R.count("evaluations"); ++g_eval;
                }
                break;
            }
            const HOp& o = h[i];
            where = "op " + str(i) + " (" + hop_str(o) + ")";
            switch (o.t) {
                case 'o': sl[o.s].reset(new FileSniffer(c.caps[o.x].file->path)); m[o.s] = MSlot{2, o.x, 0, 0, 0, 0}; break;
                case 'c': sl[o.s].reset(); m[o.s] = MSlot{0, 0, 0, 0, 0, 0}; break;
                case 'A': *sl[o.s] = FileSniffer(c.caps[o.x].file->path); m[o.s] = MSlot{2, o.x, 0, 0, 0, 0}; break;
                case 'a': *sl[o.s] = std::move(*sl[o.x]); m[o.s] = m[o.x]; m[o.x].st = 1; break;
                case 'm': sl[o.s].reset(new FileSniffer(std::move(*sl[o.x]))); m[o.s] = m[o.x]; m[o.x].st = 1; break;
                case 'f':
                    if (!sl[o.s]->set_filter(o.x ? FILTERS[H_FILTER] : "")) viol("history:valid-expression-refused", "set_filter returned false", where);
                    m[o.s].flt = o.x; break;
                case 'r': sl[o.s]->set_extract_raw_pdus(true); m[o.s].raw = 1; break;
                case 'n': {
                    std::vector<Exp> exp; Exp e; if (model_next(c, m[o.s], e)) exp.push_back(e);
                    std::vector<Out> out;
                    Packet p(sl[o.s]->next_packet());
                    if (p) out.push_back(out_of(*p.pdu(), &p.timestamp()));
                    judge("history", exp, out, where + ": next_packet on slot " + str(o.s) + ", model: capture " + c.caps[m[o.s].k].link->name, m[o.s].raw != 0);
                    ++g_hist_next;
                    break; }
                case 'd': {
                    std::vector<Exp> exp; Exp e; while (model_next(c, m[o.s], e)) exp.push_back(e);
                    Collector col; sl[o.s]->sniff_loop(FPktRef{&col});
                    judge("history", exp, col.out, where + ": sniff_loop to the end on slot " + str(o.s) + ", model: capture " + c.caps[m[o.s].k].link->name, m[o.s].raw != 0);
                    break; }
            }
            for (int s = 0; s < 2; ++s)
                if (m[s].st == 2 && sl[s]->link_type() != c.caps[m[s].k].link->dlt)
                    viol("history:link_type", "slot " + str(s) + " reports link type " + str(sl[s]->link_type()) + ", its capture is " + c.caps[m[s].k].link->name, where);
        }
        sl[0].reset(); sl[1].reset();
    } catch (std::exception& e) { viol("history:exception-escaped:" + exc_name(e), std::string("what(): ") + e.what(), where); }
    catch (...) { viol("history:exception-escaped:unknown", "", where); }
    if (mon_error()) viol(Mon::first, Mon::first_detail + " during a sniffer history", where);
    if (m_out) { m_out[0] = m[0]; m_out[1] = m[1]; }
}

static const Link* link_by_name(const std::string& n) { for (int i = 0; i < NLINKS; ++i) if (n == LINKS[i].name) return &LINKS[i]; return 0; }
static bool make_hcfg(HCfg& c, const std::string& caps, int nframes, bool op_filter, bool op_raw) {
    std::istringstream in(caps);
    std::string t;
    int k = 0;
    while (std::getline(in, t, ',')) {
        const Link* l = link_by_name(t);
        if (!l) return false;
        c.caps.push_back(HCap());
        HCap& cap = c.caps.back();
        cap.link = l; cap.alpha = alphabet(l->dlt);
        MemFile empty; empty.set(file_image(l->file_linktype, std::vector<Rec>()));
        cap.orc.init(l->dlt, empty.path);
        static const int ORDER[4] = {0, 2, 1, 3};          // W1, T (malformed), W2, Z (empty frame at the end)
        std::vector<Rec> recs;
        for (int i = 0; i < nframes && i < 4; ++i) {
            const Frame& f = cap.alpha[ORDER[i]];
            cap.fr.push_back(ORDER[i]); cap.ts.push_back(TS[(i + k) % 3]);
            recs.push_back(Rec{cap.ts.back(), (uint32_t)f.b.size(), f.len, f.b});
        }
        cap.file.reset(new MemFile()); cap.file->set(file_image(l->file_linktype, recs));
        ++k;
    }
    c.op_filter = op_filter; c.op_raw = op_raw;
    c.desc = "caps=" + caps + " nf=" + str(nframes) + " filter=" + str((int)op_filter) + " raw=" + str((int)op_raw);
    return true;
}
static bool parse_hops(const std::string& s, std::vector<HOp>& h) {
    if (s == "-" || s.empty()) return true;
    std::istringstream in(s);
    std::string t;
    while (std::getline(in, t, ',')) {
        if (t.size() < 2) return false;
        h.push_back(HOp{t[0], t[1] - '0', t.size() > 2 ? t[2] - '0' : -1});
    }
    return true;
}

static void sniffer_history_bfs(const HCfg& c, uint64_t& index) {
    struct Node { std::vector<HOp> h; MSlot m[2]; };
    std::deque<Node> q;
    std::set<std::string> seen;
    Node init; init.m[0] = init.m[1] = MSlot{0, 0, 0, 0, 0, 0};
    seen.insert(mkey(init.m)); q.push_back(init);
    bool cut = false;
    while (!q.empty() && !cut) {
        Node cur = q.front(); q.pop_front();
        for (const HOp& o : hops_enabled(c, cur.m)) {
            const uint64_t my = index++;
            if (skipped(my)) { R.flags["exhaustive"] = false; continue; }
            if (deadline_reached()) { R.flags["exhaustive"] = false; R.info["cut_at"] = jstr("sniffer histories " + c.desc); cut = true; break; }
            Node nx; nx.h = cur.h; nx.h.push_back(o);
            g_case = "hist=sniffer " + c.desc + " ops=" + hops_str(nx.h);
            set_case(my, "sniffer object history", g_case);
            arm_watchdog(120);
            sniffer_history(c, nx.h, nx.m);
            disarm_watchdog();
            R.count("history_transitions");
            R.maxv("history_max_depth", nx.h.size());
            if (seen.insert(mkey(nx.m)).second) {
                R.count("history_states");
                int live = (nx.m[0].st == 2) + (nx.m[1].st == 2);
                if (live == 2 || nx.m[0].st == 1 || nx.m[1].st == 1) R.dist("distinct_nontrivial", fnv("H|" + c.desc + "|" + mkey(nx.m)));
                q.push_back(nx);
            }
        }
    }
}

// ---- PacketWriter slots.  Model: a slot refers to a file (or is empty / moved-from); a file is unopened, open or closed and holds
// the records written through the slot that referred to it.  After every object is gone each file that was opened must be a complete
// capture of its own link type with exactly its records, each file that never was must be untouched.
struct WM { int sst[2], sfile[2]; int fst[3]; std::vector<int> rec[3]; };       // sst: 0 empty 1 moved 2 live; fst: 0 unopened 1 open 2 closed
static const int WLINK[3] = {0, 1, 3};                                           // indices into LINKS: EN10MB, RAW, LINUX_SLL
static std::string wkey(const WM& w) {
    std::string s;
    for (int i = 0; i < 2; ++i) s += w.sst[i] == 2 ? "f" + str(w.sfile[i]) : w.sst[i] ? "M" : "E";
    for (int k = 0; k < 3; ++k) s += "|" + str(w.fst[k]) + ":" + str(w.rec[k].size());
    return s;
}
static std::vector<HOp> wops_enabled(const WM& w, int maxrec) {
    std::vector<HOp> v;
    for (int s = 0; s < 2; ++s) {
        const int t = 1 - s;
        if (w.sst[s] == 0) { for (int k = 0; k < 3; ++k) if (w.fst[k] == 0) v.push_back(HOp{'o', s, k}); if (w.sst[t] == 2) v.push_back(HOp{'m', s, t}); }
        else {
            v.push_back(HOp{'c', s, -1});
            for (int k = 0; k < 3; ++k) if (w.fst[k] == 0) v.push_back(HOp{'A', s, k});
            if (w.sst[t] == 2) v.push_back(HOp{'a', s, t});
        }
        if (w.sst[s] == 2 && (int)w.rec[w.sfile[s]].size() < maxrec) v.push_back(HOp{'w', s, -1});
    }
    return v;
}
static Bytes wpayload(int k, int no) { Bytes b = pattern(20 + 3 * no, uint8_t(40 * k + no)); b[0] = uint8_t(k); b[1] = uint8_t(no); return b; }
static void writer_history(const std::vector<HOp>& h, WM* w_out) {
    MemFile files[3];
    std::unique_ptr<PacketWriter> sl[2];
    WM w; for (int i = 0; i < 2; ++i) { w.sst[i] = 0; w.sfile[i] = 0; } for (int k = 0; k < 3; ++k) w.fst[k] = 0;
    int serial = 0;
    std::string where;
    auto release = [&](int s) { if (w.sst[s] == 2) w.fst[w.sfile[s]] = 2; };      // the writer state a slot held is gone: its file is complete
    Mon::reset();
    try {
        for (size_t i = 0; i < h.size(); ++i) {
            const HOp& o = h[i];
            where = "op " + str(i) + " (" + hop_str(o) + ")";
            switch (o.t) {
                case 'o': sl[o.s].reset(make_writer(files[o.x].path, LINKS[WLINK[o.x]].dlt, (i + o.x) % 2 == 1)); w.sst[o.s] = 2; w.sfile[o.s] = o.x; w.fst[o.x] = 1; break;
                case 'c': release(o.s); sl[o.s].reset(); w.sst[o.s] = 0; break;
                case 'A': { release(o.s);
                    std::unique_ptr<PacketWriter> t(make_writer(files[o.x].path, LINKS[WLINK[o.x]].dlt, (i + o.x) % 2 == 1));
                    *sl[o.s] = std::move(*t); t.reset();
                    w.sst[o.s] = 2; w.sfile[o.s] = o.x; w.fst[o.x] = 1; break; }
                case 'a': release(o.s); *sl[o.s] = std::move(*sl[o.x]); w.sst[o.s] = 2; w.sfile[o.s] = w.sfile[o.x]; w.sst[o.x] = 1; break;
                case 'm': sl[o.s].reset(new PacketWriter(std::move(*sl[o.x]))); w.sst[o.s] = 2; w.sfile[o.s] = w.sfile[o.x]; w.sst[o.x] = 1; break;
                case 'w': {
                    const int k = w.sfile[o.s], no = serial++;
                    Bytes pl = wpayload(k, no);
                    RawPDU raw(pl.data(), (uint32_t)pl.size());
                    const Ts ts = TS[(no + k) % 3];
                    Packet p(raw, Timestamp((uint64_t)ts.sec * 1000000u + ts.usec));
                    sl[o.s]->write(p);
                    w.rec[k].push_back(no);
                    break; }
            }
        }
        sl[0].reset(); sl[1].reset();
    } catch (std::exception& e) { viol("history-writer:exception:" + exc_name(e), e.what(), where); }
    if (mon_error()) viol(Mon::first, Mon::first_detail + " during a writer history", where);
    for (int k = 0; k < 3; ++k) {
        Bytes img = files[k].get();
        std::string fw = std::string("file ") + str(k) + " (" + LINKS[WLINK[k]].name + ") after every writer object is gone";
        if (w.fst[k] == 0) { if (!img.empty()) viol("history-writer:unopened-file-touched", str(img.size()) + " bytes in a file no writer was opened on", fw); continue; }
        uint32_t lt = 0, snap = 0; std::vector<Rec> got;
        std::string prob = parse_image(img, lt, snap, got);
        if (!prob.empty()) { viol("history-writer:file-incomplete", prob + "; " + str(w.rec[k].size()) + " packets were written to it", fw); continue; }
        if (lt != LINKS[WLINK[k]].file_linktype) { viol("history-writer:link-type", "file says " + str(lt) + ", opened as " + str(LINKS[WLINK[k]].file_linktype), fw); continue; }
        if (got.size() != w.rec[k].size()) { viol("history-writer:record-count", str(w.rec[k].size()) + " packets written, file has " + str(got.size()), fw); continue; }
        for (size_t j = 0; j < got.size(); ++j) {
            const int no = w.rec[k][j];
            const Ts ts = TS[(no + k) % 3];
            if (got[j].len != got[j].caplen) { viol("history-writer:original-length", "record " + str(j) + ": len " + str(got[j].len) + ", caplen " + str(got[j].caplen), fw); break; }
            if (got[j].data != wpayload(k, no)) { viol("history-writer:bytes", "record " + str(j) + " is not packet #" + str(no) + " written to this file", fw); break; }
            if (got[j].ts.sec != ts.sec || got[j].ts.usec != ts.usec) { viol("history-writer:timestamp", "record " + str(j), fw); break; }
        }
    }
    R.count("evaluations"); ++g_eval;
    if (w_out) { for (int s = 0; s < 2; ++s) release(s); *w_out = w; }
}
// model state after a history WITHOUT the final release (the BFS continues from live objects)
static void writer_model(const std::vector<HOp>& h, WM& w) {
    for (int i = 0; i < 2; ++i) { w.sst[i] = 0; w.sfile[i] = 0; } for (int k = 0; k < 3; ++k) { w.fst[k] = 0; w.rec[k].clear(); }
    int serial = 0;
    auto release = [&](int s) { if (w.sst[s] == 2) w.fst[w.sfile[s]] = 2; };
    for (const HOp& o : h) switch (o.t) {
        case 'o': w.sst[o.s] = 2; w.sfile[o.s] = o.x; w.fst[o.x] = 1; break;
        case 'c': release(o.s); w.sst[o.s] = 0; break;
        case 'A': release(o.s); w.sst[o.s] = 2; w.sfile[o.s] = o.x; w.fst[o.x] = 1; break;
        case 'a': release(o.s); w.sst[o.s] = 2; w.sfile[o.s] = w.sfile[o.x]; w.sst[o.x] = 1; break;
        case 'm': w.sst[o.s] = 2; w.sfile[o.s] = w.sfile[o.x]; w.sst[o.x] = 1; break;
        case 'w': w.rec[w.sfile[o.s]].push_back(serial++); break;
    }
}
static void writer_history_bfs(int maxrec, uint64_t& index) {
    struct Node { std::vector<HOp> h; };
    std::deque<Node> q;
    std::set<std::string> seen;
    WM w0; writer_model(std::vector<HOp>(), w0);
    seen.insert(wkey(w0)); q.push_back(Node());
    bool cut = false;
    while (!q.empty() && !cut) {
        Node cur = q.front(); q.pop_front();
        WM wc; writer_model(cur.h, wc);
        for (const HOp& o : wops_enabled(wc, maxrec)) {
            const uint64_t my = index++;
            if (skipped(my)) { R.flags["exhaustive"] = false; continue; }
            if (deadline_reached()) { R.flags["exhaustive"] = false; R.info["cut_at"] = jstr("writer histories"); cut = true; break; }
            Node nx; nx.h = cur.h; nx.h.push_back(o);
            g_case = "hist=writer maxrec=" + str(maxrec) + " ops=" + hops_str(nx.h);
            set_case(my, "writer object history", g_case);
            arm_watchdog(120);
            writer_history(nx.h, 0);
            disarm_watchdog();
            R.count("writer_history_transitions");
            R.maxv("writer_history_max_depth", nx.h.size());
            WM wn; writer_model(nx.h, wn);
            if (seen.insert(wkey(wn)).second) {
                R.count("writer_history_states");
                if (wn.fst[0] + wn.fst[1] + wn.fst[2] >= 3) R.dist("distinct_nontrivial", fnv("W|" + wkey(wn)));
                q.push_back(nx);
            }
        }
    }
}

// history jobs: quick 4 sniffer configurations (3 frames per capture, filter op OR raw op) + 1 writer job; thorough 8 (4 frames, both ops) + 1
struct HJob { const char* caps; int nf; bool f, r; };
static const HJob HJOBS_QUICK[] = {
    {"EN10MB,RAW,LINUX_SLL", 3, true, false}, {"EN10MB,RAW,LINUX_SLL", 3, false, true},
    {"IEEE802_11_RADIO,IEEE802_11,PPI", 3, true, false}, {"RAW,IEEE802_11_RADIO,NULL", 3, false, true},
};
static const HJob HJOBS_THOROUGH[] = {
    {"EN10MB,RAW,LINUX_SLL", 4, true, true}, {"IEEE802_11_RADIO,IEEE802_11,PPI", 4, true, true}, {"RAW,IEEE802_11_RADIO,NULL", 4, true, true},
    {"NULL,EN10MB,IEEE802_11", 4, true, true}, {"PPI,LINUX_SLL,RAW", 4, true, true}, {"LINUX_SLL,NULL,IEEE802_11_RADIO", 4, true, true},
    {"IEEE802_11,PPI,EN10MB", 4, true, true}, {"EN10MB,IEEE802_11_RADIO,RAW", 4, true, true},
};
static int n_hist_jobs() { return (A.thorough() ? (int)(sizeof HJOBS_THOROUGH / sizeof HJOBS_THOROUGH[0]) : (int)(sizeof HJOBS_QUICK / sizeof HJOBS_QUICK[0])) + 2; }
static void run_history_job(int j) {
    uint64_t index = 0;
    const int ns = n_hist_jobs() - 2;
    if (j == ns + 1) {
        config_history_job(A.thorough() ? 4 : 3, -1, 0);
        R.sample(jstr("configuration history case, e.g. 'cfghist=0 ops=0.4.6' = set_filter(tcp port 80), set_pcap_sniffing_method(dispatch), set_promisc_mode on one SnifferConfiguration, then FileSniffer(file, config)"));
        return;
    }
    if (j == ns) {
        writer_history_bfs(A.thorough() ? 3 : 2, index);
        R.sample(jstr("writer history case, e.g. 'hist=writer maxrec=2 ops=o00,w0,A01,w0,c0' (o open, w write, A move-assign from a fresh writer, a move-assign slot<-slot, m move-construct, c destroy)"));
        return;
    }
    const HJob& hj = (A.thorough() ? HJOBS_THOROUGH : HJOBS_QUICK)[j];
    HCfg c;
    make_hcfg(c, hj.caps, hj.nf, hj.f, hj.r);
    sniffer_history_bfs(c, index);
    if (j == 0)
        R.sample(jstr("sniffer history case, e.g. 'hist=sniffer caps=EN10MB,RAW,LINUX_SLL nf=3 filter=1 raw=0 ops=o00,n0,A01,n0' (o open, n next_packet, d sniff_loop to end, "
                      "f set_filter, r extract_raw, A move-assign from a fresh sniffer on capture k, a move-assign slot<-slot, m move-construct, c destroy)"));
}

// ------------------------------------------------------------------------------------------------ enumeration
static int max_len() { return A.thorough() ? 4 : 3; }
static int shards() { return A.thorough() ? 16 : 4; }

static bool decode_seq(const std::vector<Frame>& alpha, const std::string& s, std::vector<int>& seq) {
    seq.clear();
    if (s == "-" || s.empty()) return true;
    std::istringstream in(s);
    std::string t;
    while (std::getline(in, t, ',')) {
        int k = -1;
        for (size_t i = 0; i < alpha.size(); ++i) if (alpha[i].name == t) k = (int)i;
        if (k < 0) return false;
        seq.push_back(k);
    }
    return true;
}

static void run_job(int job) {
    const int sh = shards();
    if (job < n_hist_jobs()) { run_history_job(job); return; }      // the history jobs are the longest single jobs: scheduled first
    job -= n_hist_jobs();
    const Link* l = &LINKS[job / sh];
    const int shard = job % sh;
    Ctx cx;
    init_ctx(cx, l);
    set_case(0, std::string("setup ") + l->name, std::string("lt=") + l->name + " setup=1");
    setup_checks(cx, shard == 0);
    if (shard == 0) invalid_filter_checks(cx);
    if (shard == 0 && !skipped(30)) { set_case(30, std::string("built packets ") + l->name, std::string("lt=") + l->name + " built=all"); built_packet_checks(cx); }
    if (shard == 0 && l->dlt == DLT_NULL) loop_dlt_observation();
    pseudo_header_sweep(cx, shard, sh);
    const int a = (int)cx.alpha.size();
    uint64_t index = 32;                      // 0: setup, 1..9 and 16..24: invalid-filter cases
    bool cut = false;
    for (int len = 0; len <= max_len() && !cut; ++len) {
        uint64_t total = 1; for (int i = 0; i < len; ++i) total *= a;
        for (uint64_t s = 0; s < total && !cut; ++s) {
            for (int rot = 0; rot < (len == 0 ? 1 : 3); ++rot) {
                ++index;
                if ((int)((index - 1) % sh) != shard) continue;
                if (skipped(index - 1)) { R.flags["exhaustive"] = false; continue; }   // crashed the process in an earlier attempt (reported by the driver)
                if (deadline_reached()) { R.flags["exhaustive"] = false; R.info["cut_at"] = jstr(std::string(l->name) + " length " + str(len)); cut = true; break; }
                std::vector<int> seq(len);
                uint64_t x = s;
                for (int i = len - 1; i >= 0; --i) { seq[i] = (int)(x % a); x /= a; }
                g_case = std::string("lt=") + l->name + " seq=" + seq_name(cx.alpha, seq) + " rot=" + str(rot);
                g_violations_in_case = 0;
                set_case(index - 1, std::string("sequence ") + l->name, g_case);
                arm_watchdog(300);
                run_case(cx, seq, rot, rot == 0);
                disarm_watchdog();
                R.count("sequences");
                R.maxv("max_sequence_length", (uint64_t)len);
            }
        }
        if (!cut) R.maxv("completed_length_" + std::string(l->name), (uint64_t)len);
    }
    if (shard == 0 && job == 0)
        R.sample(jstr("case = one frame sequence + timestamp rotation, e.g. 'lt=RAW seq=W1,Z,Gver rot=1'; rot=0 runs every reader x method x filter"));
}

static int replay_history(std::map<std::string, std::string>& kv, const std::string& kase) {
    std::vector<HOp> h;
    if (!parse_hops(kv["ops"], h)) { printf("bad ops in '%s'\n", kase.c_str()); return 2; }
    g_case = kase;
    if (kv["hist"] == "writer") writer_history(h, 0);
    else {
        HCfg c;
        if (!make_hcfg(c, kv["caps"], atoi(kv["nf"].c_str()), kv["filter"] == "1", kv["raw"] == "1")) { printf("bad caps in '%s'\n", kase.c_str()); return 2; }
        sniffer_history(c, h, 0);
    }
    for (auto& v : R.violations) printf("violation reproduced: %s (x%llu)\n   %s\n", v.first.c_str(), (unsigned long long)v.second.count, v.second.detail.c_str());
    if (R.violations.empty()) { printf("history replayed, no violation\n"); return 0; }
    return 1;
}

static int replay(const std::string& kase) {
    auto kv = kvparse(kase);
    if (kv.count("hist")) return replay_history(kv, kase);
    if (kv.count("cfghist")) {
        std::string ops = kv["ops"];
        config_history_job(6, atol(kv["cfghist"].c_str()), &ops);
        for (auto& v : R.violations) printf("violation reproduced: %s (x%llu)\n   %s\n", v.first.c_str(), (unsigned long long)v.second.count, v.second.detail.c_str());
        if (R.violations.empty()) { printf("configuration history replayed, no violation\n"); return 0; }
        return 1;
    }
    const Link* l = 0;
    for (int i = 0; i < NLINKS; ++i) if (kv["lt"] == LINKS[i].name) l = &LINKS[i];
    if (!l) { printf("unknown link type in case '%s'\n", kase.c_str()); return 2; }
    Ctx cx;
    init_ctx(cx, l);
    setup_checks(cx, false);
    if (kv.count("setup")) { /* setup checks only */ }
    else if (kv.count("invalidfilter")) invalid_filter_checks(cx, atoi(kv["invalidfilter"].c_str()));
    else if (kv.count("built")) built_packet_checks(cx);
    else if (kv.count("sweep")) pseudo_header_sweep(cx, 0, 1, atol(kv["sweep"].c_str()));
    else {
        std::vector<int> seq;
        if (!decode_seq(cx.alpha, kv["seq"], seq)) { printf("unknown frame name in '%s'\n", kv["seq"].c_str()); return 2; }
        int rot = atoi(kv["rot"].c_str());
        g_case = kase;
        run_case(cx, seq, rot, true);
    }
    if (kv.count("dump"))
        for (auto& f : cx.alpha)
            printf("  %-7s %6zu bytes len=%u  %-10s layers=%s  ser=%zu fix=%d  gen2=%s\n", f.name.c_str(), f.b.size(), f.len, f.p.how.c_str(), f.p.layers.c_str(),
                   f.p.ser.size(), (int)(f.p.ser == f.b), cx.gen2[&f - &cx.alpha[0]].p.how.c_str());
    for (auto& v : R.violations) printf("violation reproduced: %s (x%llu)\n   %s\n", v.first.c_str(), (unsigned long long)v.second.count, v.second.detail.c_str());
    if (R.violations.empty()) { printf("case replayed (%llu file reads), no violation\n", (unsigned long long)g_eval); return 0; }
    return 1;
}

int main(int argc, char** argv) {
    const int hq = (int)(sizeof HJOBS_QUICK / sizeof HJOBS_QUICK[0]) + 2, ht = (int)(sizeof HJOBS_THOROUGH / sizeof HJOBS_THOROUGH[0]) + 2;
    return run_main(argc, argv, NLINKS * 4 + hq, NLINKS * 16 + ht, run_job, replay);
}
