// C09 — WEP and WPA2 (CCMP/TKIP) decryption recovers exactly the plaintext, safely.
//
// Part 1 (jobs 0..NF-1, shape B): every frame of a finite family is ENCRYPTED BY THE REFERENCE SIDE
//   (mc/ref/c09_crypto.hpp: own RC4/CRC-32/TKIP mixing/Michael, OpenSSL CCM, validated against the published
//   vectors at start-up), laid out as an 802.11 MPDU in an exact-size heap buffer, parsed with
//   Dot11::from_bytes (buffer freed before decrypting) and handed to WEPDecrypter / WPA2Decrypter.
//   Positive oracle: true, Protected bit cleared, inner SNAP = plaintext.  Negative space: wrong key, only
//   another station's key, every single-byte corruption of the protected body (and, for CCMP, of the
//   AAD-covered addresses): not reported decrypted, still marked protected.  Hostile bodies of every length
//   0..64, 2399, 2400 (in a forked child per batch, so that a memory error costs one case, not the job): memory-safe.
// Part 2 (jobs NF.., shape A): BFS over handshake histories on the real WPA2Decrypter (copied per state) in
//   lock-step with a small validity model, to fixpoint; after every event the data frames of both stations (encrypted by
//   the reference side under the reference PTKs) are presented.
#include "explore.hpp"
#include "ref/c09_crypto.hpp"
#include <tins/tins.h>
#include <tins/crypto.h>
#include <sys/wait.h>
#include <cerrno>

using namespace Tins;
using namespace mc;

// ================================================================== frame construction
struct AddrSet { uint8_t sta[6], bssid[6], peer[6], fourth[6], other[6]; };
static const AddrSet ASETS[2] = {
    // station < BSSID
    {{0x00, 0x0c, 0xf1, 0x11, 0x22, 0x33}, {0x00, 0x1a, 0x2b, 0x3c, 0x4d, 0x5e}, {0x00, 0x21, 0x6a, 0xaa, 0xbb, 0xcc},
     {0x00, 0x30, 0xbd, 0x01, 0x02, 0x03}, {0x00, 0x0c, 0xf1, 0x11, 0x22, 0x34}},
    // station > BSSID, bytes with the top bit set, addresses differing in the last octet only
    {{0xfe, 0xdc, 0xba, 0x98, 0x76, 0x54}, {0x02, 0xff, 0x00, 0x80, 0x7f, 0x01}, {0x9c, 0x00, 0xff, 0xfe, 0x01, 0x80},
     {0x02, 0xff, 0x00, 0x80, 0x7f, 0x00}, {0xfe, 0xdc, 0xba, 0x98, 0x76, 0x55}},
};
static HWAddress<6> hw(const uint8_t* p) { return HWAddress<6>(p); }

struct Roles { const uint8_t *a1, *a2, *a3, *a4, *da, *sa; };
// ds: 0 = IBSS-style (ToDS=0,FromDS=0), 1 = ToDS, 2 = FromDS, 3 = both (4-address)
static Roles roles(int ds, const AddrSet& A) {
    Roles r;
    r.a4 = 0;
    switch (ds) {
        case 0: r.a1 = A.peer; r.a2 = A.sta; r.a3 = A.bssid; r.da = r.a1; r.sa = r.a2; break;
        case 1: r.a1 = A.bssid; r.a2 = A.sta; r.a3 = A.peer; r.da = r.a3; r.sa = r.a2; break;
        case 2: r.a1 = A.sta; r.a2 = A.bssid; r.a3 = A.peer; r.da = r.a1; r.sa = r.a3; break;
        default: r.a1 = A.bssid; r.a2 = A.sta; r.a3 = A.peer; r.a4 = A.fourth; r.da = r.a3; r.sa = r.a4; break;
    }
    return r;
}
// qos < 0: plain Data; else QoS Data with that TID (qos_hi = further QoS-control bits, masked by CCMP)
static Bytes mac_header(int ds, int qos, uint8_t qos_hi, const Roles& r, uint16_t seq, uint8_t frag, bool prot) {
    Bytes h;
    h.push_back(qos >= 0 ? 0x88 : 0x08);
    h.push_back(uint8_t(((ds == 1 || ds == 3) ? 1 : 0) | (ds >= 2 ? 2 : 0) | (prot ? 0x40 : 0)));   // retry, pwr mgt, order = 0
    h.push_back(0x2c); h.push_back(0x00);
    h.insert(h.end(), r.a1, r.a1 + 6); h.insert(h.end(), r.a2, r.a2 + 6); h.insert(h.end(), r.a3, r.a3 + 6);
    uint16_t sc = uint16_t((seq << 4) | (frag & 15));
    h.push_back(uint8_t(sc)); h.push_back(uint8_t(sc >> 8));
    if (r.a4) h.insert(h.end(), r.a4, r.a4 + 6);
    if (qos >= 0) { h.push_back(uint8_t((qos & 15) | (qos_hi & 0x70))); h.push_back(0); }
    return h;
}

// ---------------------------------------------------------------- patterns (keys, IV / packet number, header trivia, payload fill)
struct Pat {
    Bytes wep40, wep104, tk, mic;    // mic: 16 bytes = the two Michael keys
    uint8_t iv[3]; int wep_keyid; uint64_t pn; uint16_t seq; uint8_t frag, qos_hi;
};
static uint32_t lcg(uint32_t& s) { s = s * 1664525u + 1013904223u; return s >> 24; }
static Pat pattern(int p) {
    Pat t;
    uint32_t s = 0xC09C09u + (uint32_t)p;
    if (p == 0) {
        for (int i = 0; i < 5; ++i) t.wep40.push_back(uint8_t(i + 1));
        for (int i = 0; i < 13; ++i) t.wep104.push_back(uint8_t(0x10 + i));
        for (int i = 0; i < 16; ++i) t.tk.push_back(uint8_t(i));
        for (int i = 0; i < 16; ++i) t.mic.push_back(uint8_t(0xa0 + i));
        t.iv[0] = 0; t.iv[1] = 0; t.iv[2] = 1; t.wep_keyid = 0; t.pn = 1; t.seq = 1; t.frag = 0; t.qos_hi = 0;
    } else if (p == 1) {
        // keys containing NUL, 0xff and top-bit bytes; packet number with six different octets
        const uint8_t k[16] = {0x00, 0xff, 0x80, 0x7f, 0x00, 0x01, 0xfe, 0x00, 0xaa, 0x55, 0x00, 0xc3, 0x3c, 0x00, 0xff, 0x00};
        t.wep40.assign(k, k + 5); t.wep104.assign(k + 2, k + 15); t.tk.assign(k, k + 16);
        for (int i = 0; i < 16; ++i) t.mic.push_back(uint8_t(k[15 - i] ^ 0x5a));
        t.iv[0] = 0xa1; t.iv[1] = 0xb2; t.iv[2] = 0xc3; t.wep_keyid = 2; t.pn = 0x0a1b2c3d4e5fULL; t.seq = 0xabc; t.frag = 0; t.qos_hi = 0x20;
    } else {
        for (int i = 0; i < 5; ++i) t.wep40.push_back((uint8_t)lcg(s));
        for (int i = 0; i < 13; ++i) t.wep104.push_back((uint8_t)lcg(s));
        for (int i = 0; i < 16; ++i) t.tk.push_back((uint8_t)lcg(s));
        for (int i = 0; i < 16; ++i) t.mic.push_back((uint8_t)lcg(s));
        t.iv[0] = 0xff; t.iv[1] = 0xff; t.iv[2] = 0xff; t.wep_keyid = 3;
        t.pn = p == 2 ? 0xfffefdfc0100ULL : (0x800000000000ULL | (uint64_t)lcg(s) << 24 | (uint64_t)lcg(s) << 8 | lcg(s));
        t.seq = 0xfff; t.frag = 3; t.qos_hi = 0x50;
    }
    return t;
}
// LLC/SNAP payload of exactly `len` octets (a prefix of the 8-octet header when len < 8)
static Bytes plaintext(int len, int pat) {
    Bytes p;
    int kind = pat % 3;
    if (kind == 2 && len >= 8 + 28) {
        // a well-formed IPv4/UDP datagram: the decrypted SNAP has typed children
        Bytes data;
        for (int i = 0; i < len - 36; ++i) data.push_back(uint8_t(0x30 + i * 5));
        SNAP s;
        s.inner_pdu(IP("192.0.2.7", "198.51.100.9") / UDP(4242, 53) / RawPDU(data));
        if (data.empty()) { SNAP e; e.inner_pdu(IP("192.0.2.7", "198.51.100.9") / UDP(4242, 53)); p = e.serialize(); }
        else p = s.serialize();
        if ((int)p.size() == len) return p;
        p.clear();
    }
    const uint8_t snap[3][8] = {{0xaa, 0xaa, 0x03, 0x00, 0x00, 0x00, 0x88, 0xb5},     // local experimental ethertype: opaque payload
                                {0xaa, 0xaa, 0x03, 0x00, 0x00, 0x00, 0x00, 0x00},     // ethertype 0
                                {0xaa, 0xaa, 0x03, 0x00, 0x00, 0xf8, 0x88, 0xb6}};    // bridge-tunnel OUI
    uint32_t s = 77u + (uint32_t)pat * 131u + (uint32_t)len;
    for (int i = 0; i < len; ++i) {
        if (i < 8) p.push_back(snap[kind][i]);
        else p.push_back(kind == 0 ? uint8_t(i) : kind == 1 ? uint8_t(0xff - (i & 1)) : (uint8_t)lcg(s));
    }
    return p;
}

enum { WEP40 = 0, WEP104 = 1, TKIP = 2, CCMP = 3 };
static const char* CIPHER_NAME[] = {"wep40", "wep104", "tkip", "ccmp"};

static Bytes ptk_of(const Pat& t, uint8_t filler) {
    Bytes k(80, filler);
    for (int i = 0; i < 16; ++i) { k[32 + i] = t.tk[i]; k[48 + i] = t.mic[i]; }
    for (int i = 0; i < 32; ++i) k[i] = uint8_t(filler + i);
    return k;
}
static Bytes encrypt_body(int cipher, const Pat& t, const Bytes& hdr, int ds, int qos, const Roles& r, const Bytes& data) {
    if (cipher == WEP40 || cipher == WEP104) return c09::wep_encrypt(cipher == WEP40 ? t.wep40 : t.wep104, t.iv, t.wep_keyid, data);
    if (cipher == TKIP) return c09::tkip_encrypt(t.tk.data(), &t.mic[(ds == 2) ? 0 : 8], r.a2, r.da, r.sa, qos < 0 ? 0 : qos, t.pn, 0, data);
    return c09::ccmp_encrypt(t.tk.data(), hdr, t.pn, 0, data);
}

// ================================================================== running one frame through libtins
struct Out {
    int ret;            // 0 false, 1 true, 2 libtins exception from decrypt, 3 frame did not parse
    bool prot, snap, ser_same, has_body;
    Bytes rec;
    std::string exc;
};
template <class D>
static Out run_decrypt(D& dec, const Bytes& frame, const Bytes* expect_plain = 0) {
    Out o; o.ret = 3; o.prot = o.snap = o.ser_same = o.has_body = false;
    uint8_t* buf = (uint8_t*)malloc(frame.size() ? frame.size() : 1);       // exact size: any over-read of the input is visible
    memcpy(buf, frame.data(), frame.size());
    std::unique_ptr<Dot11> p;
    try { p.reset(Dot11::from_bytes(buf, (uint32_t)frame.size())); }
    catch (exception_base& e) { free(buf); o.exc = typeid(e).name(); return o; }
    free(buf);                                                              // libtins must own copies by now
    if (!p) return o;
    try { o.ret = dec.decrypt(*p) ? 1 : 0; }
    catch (exception_base& e) { o.ret = 2; o.exc = typeid(e).name(); }
    Dot11Data* d = p->find_pdu<Dot11Data>();
    if (!d) return o;
    o.prot = d->wep() != 0;
    PDU* in = d->inner_pdu();
    o.has_body = in != 0;
    if (in && in->pdu_type() == PDU::SNAP) {
        SNAP* s = static_cast<SNAP*>(in);
        o.snap = true;
        const uint8_t* raw = reinterpret_cast<const uint8_t*>(&s->snap_);
        o.rec.assign(raw, raw + sizeof(s->snap_));
        if (s->inner_pdu()) { Bytes t = s->inner_pdu()->serialize(); o.rec.insert(o.rec.end(), t.begin(), t.end()); }
        if (expect_plain) o.ser_same = s->serialize() == *expect_plain;
    }
    return o;
}

struct Case {
    std::string kind;   // pos wrongkey otherkey corrupt hdrcorrupt hostile
    int cipher, ds, qos, aset, len, pat, kenv, pos, flip, fill;
};
static std::string case_str(const Case& c) {
    return "mode=frame kind=" + c.kind + " cipher=" + str(c.cipher) + " ds=" + str(c.ds) + " qos=" + str(c.qos) + " aset=" + str(c.aset) +
           " len=" + str(c.len) + " pat=" + str(c.pat) + " kenv=" + str(c.kenv) + " pos=" + str(c.pos) + " flip=" + str(c.flip) + " fill=" + str(c.fill);
}
static Case case_from(std::map<std::string, std::string>& kv) {
    Case c;
    c.kind = kv["kind"];
    auto I = [&](const char* k) { return atoi(kv[k].c_str()); };
    c.cipher = I("cipher"); c.ds = I("ds"); c.qos = I("qos"); c.aset = I("aset"); c.len = I("len"); c.pat = I("pat");
    c.kenv = I("kenv"); c.pos = I("pos"); c.flip = I("flip"); c.fill = I("fill");
    return c;
}

// keys: 0 = the matching key, 1 = matching key + the peer station's own (different) key, 2 = wrong key under the right
// association, 3 = only another station's key
static void install_wpa(Crypto::WPA2Decrypter& d, int ds, const AddrSet& A, const Roles& r, const Pat& t, bool ccmp, int keys) {
    typedef Crypto::WPA2Decrypter::addr_pair AP;
    Bytes ptk = ptk_of(t, 0x11);
    if (keys == 2) ptk[32 + 5] ^= 0x01;
    if (keys == 3) { d.add_decryption_keys(AP(hw(A.other), hw(A.bssid)), Crypto::WPA2::SessionKeys(ptk, ccmp)); return; }
    Crypto::WPA2::SessionKeys sk(ptk, ccmp);
    if (ds == 1 || ds == 2) d.add_decryption_keys(AP(hw(A.sta), hw(A.bssid)), sk);      // (host, access point)
    else {
        // 802.11 names no BSSID/AP for these forms: register the key under every association a caller could mean
        d.add_decryption_keys(AP(hw(r.a1), hw(r.a2)), sk);
        d.add_decryption_keys(AP(hw(r.a2), hw(r.a3)), sk);
        d.add_decryption_keys(AP(hw(r.a1), hw(r.a3)), sk);
    }
    if (keys == 1) {
        Bytes other = ptk_of(t, 0x77);
        for (int i = 0; i < 16; ++i) other[32 + i] ^= 0xa5;
        d.add_decryption_keys(AP(hw(A.peer), hw(A.bssid)), Crypto::WPA2::SessionKeys(other, ccmp));
    }
}
static void install_wep(Crypto::WEPDecrypter& d, int ds, const AddrSet& A, const Roles& r, const Bytes& key, int keys) {
    std::string pw(key.begin(), key.end());
    if (keys == 2) pw[pw.size() / 2] = char(pw[pw.size() / 2] ^ 0x01);
    if (keys == 3) { d.add_password(hw(A.other), pw); return; }
    if (ds == 3) { d.add_password(hw(r.a1), pw); d.add_password(hw(r.a2), pw); d.add_password(hw(r.a3), pw); }
    else d.add_password(hw(A.bssid), pw);
}

static size_t cipher_overhead(int cipher) { return cipher == CCMP ? 16 : cipher == TKIP ? 20 : 8; }
static bool body_byte_is_covered(int cipher, size_t pos) {
    // octets of the cipher header that no receiver can authenticate: WEP key-id octet; TKIP WEPSeed + key-id octet;
    // CCMP reserved + key-id octet
    if (cipher == CCMP) return pos != 2 && pos != 3;
    if (cipher == TKIP) return pos != 1 && pos != 3;
    return pos != 3;
}

struct Built { Bytes hdr, body, plain; Roles r; Pat t; };
static Built build(const Case& c) {
    Built b;
    const AddrSet& A = ASETS[c.aset];
    b.r = roles(c.ds, A);
    b.t = pattern(c.pat);
    b.hdr = mac_header(c.ds, c.qos, b.t.qos_hi, b.r, b.t.seq, b.t.frag, true);
    b.plain = plaintext(c.len, c.pat);
    b.body = encrypt_body(c.cipher, b.t, b.hdr, c.ds, c.qos, b.r, b.plain);
    return b;
}
static Bytes hostile_body(const Case& c, const Built& big) {
    Bytes body;
    uint32_t s = 0xBADu + (uint32_t)c.len * 7u;
    for (int i = 0; i < c.len; ++i) {
        switch (c.fill) {
            case 0: body.push_back(0x00); break;
            case 1: body.push_back(0xff); break;
            case 2: body.push_back((uint8_t)lcg(s)); break;
            default: body.push_back(i < (int)big.body.size() ? big.body[i] : uint8_t(i)); break;   // truncation of a valid frame
        }
    }
    return body;
}

// Evaluate one case; returns "" or "signature|detail".  `b` = the valid frame of (cipher, ds, qos, aset, len, pat).
static std::string eval_case(const Case& c, const Built& b) {
    const AddrSet& A = ASETS[c.aset];
    bool wep = c.cipher == WEP40 || c.cipher == WEP104;
    std::string site = std::string("frames:") + CIPHER_NAME[c.cipher];
    Bytes hdr = b.hdr, body = b.body;
    int keys = 0;
    bool expect_ok = false, must_fail = false;
    if (c.kind == "pos") { keys = c.kenv; expect_ok = c.len >= 8; }
    else if (c.kind == "wrongkey") { keys = 2; must_fail = true; }
    else if (c.kind == "otherkey") { keys = 3; must_fail = true; }
    else if (c.kind == "corrupt") { body[c.pos] ^= (uint8_t)c.flip; must_fail = true; }
    else if (c.kind == "hdrcorrupt") { hdr[c.pos] ^= (uint8_t)c.flip; must_fail = true; }
    else if (c.kind == "hostile") { body = hostile_body(c, b); }
    Bytes frame = hdr;
    frame.insert(frame.end(), body.begin(), body.end());

    Mon::reset();
    Out o;
    if (wep) {
        Crypto::WEPDecrypter d;
        install_wep(d, c.ds, A, b.r, c.cipher == WEP40 ? b.t.wep40 : b.t.wep104, keys);
        o = run_decrypt(d, frame, &b.plain);
    } else {
        Crypto::WPA2Decrypter d;
        install_wpa(d, c.ds, A, b.r, b.t, c.cipher == CCMP, keys);
        o = run_decrypt(d, frame, &b.plain);
    }
    R.count("evaluations");
    R.count("frames_" + c.kind);
    if (Mon::errors) return Mon::first + "|" + Mon::first_detail + " body_len=" + str(body.size());
    R.dist("distinct_outcomes", fnv(c.kind + ":" + str(o.ret) + (o.prot ? "P" : "p") + (o.snap ? "S" : "s") + o.exc));
    if (c.kind == "hostile") {
        R.count(o.ret == 1 ? "hostile_returned_true" : o.ret == 2 ? "hostile_libtins_exception" : o.ret == 3 ? "hostile_unparsable" : "hostile_returned_false");
        return "";
    }
    if (o.ret == 3) return "harness:frame-did-not-parse|" + o.exc;
    if (must_fail) {
        if (o.ret == 1) return site + ":" + c.kind + "-reported-decrypted|decrypt() returned true for a frame that must not decrypt";
        if (!o.prot) return site + ":" + c.kind + "-protected-flag-cleared|decrypt() did not succeed but the frame is no longer marked protected";
        if (!o.has_body) R.count("failed_decrypt_dropped_body");
        if (o.ret == 2) R.count("failed_decrypt_libtins_exception");
        return "";
    }
    // positive
    if (o.ret == 1) {
        if (o.prot) return site + ":decrypted-but-still-protected|";
        if (!o.snap) return site + ":decrypted-without-snap|";
        if (o.rec != b.plain) return site + ":plaintext-differs|len=" + str(c.len) + " got " + hex(o.rec) + " want " + hex(b.plain);
        if (o.ser_same) R.count("snap_serialization_identical");
        R.dist("distinct_nontrivial", fnv(hex(o.rec) + str(c.cipher) + str(c.ds) + str(c.qos)));
        R.count("decrypted_ok");
        return "";
    }
    if (!expect_ok) { R.count(o.ret == 2 ? "sub_snap_payload_exception" : "sub_snap_payload_false"); return ""; }   // < 8 octets: not an LLC/SNAP payload
    return site + (c.kenv == 1 ? ":not-decrypted-when-peer-key-also-known" : ":not-decrypted-with-matching-key") + "|ret=" + str(o.ret) + " " + o.exc +
           " len=" + str(c.len) + " pn=" + str(b.t.pn);
}

// ---------------------------------------------------------------- enumeration
static const int QOS_VALUES[4] = {-1, 0, 5, 15};
static const int NF = 32;                          // frame jobs
struct Combo { int cipher, ds, qos, aset; };
static std::vector<Combo> combos() {
    std::vector<Combo> v;
    for (int cipher = 0; cipher < 4; ++cipher) for (int ds = 0; ds < 4; ++ds) for (int q = 0; q < 4; ++q) for (int a = 0; a < 2; ++a)
        v.push_back(Combo{cipher, ds, QOS_VALUES[q], a});
    return v;
}
static std::vector<int> lengths(bool thorough) {
    std::vector<int> v;
    for (int i = 0; i <= 48; ++i) v.push_back(i);
    if (thorough) { for (int i = 49; i <= 100; ++i) v.push_back(i); for (int x : {255, 256, 257, 1500, 2304}) v.push_back(x); }
    return v;
}
static uint64_t g_idx = 0;
static bool g_stop = false;
// The memory-safety family (hostile bodies) runs in a forked child, one child per batch: the first sanitizer report ends
// the child (a heap overflow inside a decryption loop would otherwise produce millions of reports and then fault); the
// parent records it and forks again behind the offending case.  Verdicts and counters travel through a shared page.
struct Shared { volatile int done, cur; char errs[49152]; char counters[12288]; };
static Shared* g_shared = 0;
static void child_flush(int done) {
    std::string cs;
    for (auto& kv : R.counters) cs += "c " + kv.first + " " + str(kv.second) + "\n";
    for (auto& kv : R.distinct) for (auto h : kv.second) cs += "d " + kv.first + " " + str(h) + "\n";
    snprintf(g_shared->counters, sizeof g_shared->counters, "%s", cs.c_str());
    g_shared->done = done;
}
static void child_err(int i, const std::string& err) {
    size_t n = strlen(g_shared->errs);
    std::string line = str(i) + "\t" + err + "\n";
    for (auto& ch : line) if (ch == '\n' && &ch != &line[line.size() - 1]) ch = ' ';
    if (n + line.size() + 1 < sizeof g_shared->errs) memcpy(g_shared->errs + n, line.c_str(), line.size() + 1);
}
#ifdef MC_ASAN
static void child_on_asan_report(const char*) {
    child_err(g_shared->cur, Mon::first + "|" + Mon::first_detail + " (child stopped at the first sanitizer report)");
    child_flush(2);
    _exit(78);
}
#endif
static std::string eval_any(const Case& c, const Built& b) {
    try { return eval_case(c, b); }
    catch (std::exception& e) { return std::string("exc:") + typeid(e).name() + ":frames:" + CIPHER_NAME[c.cipher] + "|" + e.what(); }
}
static void record(const std::string& err, const std::string& cs) {
    if (err.empty()) return;
    size_t bar = err.find('|');
    R.violation(err.substr(0, bar), bar == std::string::npos ? "" : err.substr(bar + 1), cs);
}
static bool admit(uint64_t idx) {
    if (g_stop) return false;
    if (skipped(idx)) { R.flags["exhaustive"] = false; return false; }   // crashed the process in an earlier attempt (reported by the driver)
    if ((idx & 1023) == 0 && deadline_reached()) { g_stop = true; R.flags["exhaustive"] = false; return false; }
    return true;
}
static std::string ctx_of(const Case& c) { return std::string("frames:") + CIPHER_NAME[c.cipher] + ":" + c.kind; }
static int run_isolated_batch(const std::vector<Case>& cases, const Built& b) {
    if (!g_shared) g_shared = (Shared*)mmap(0, sizeof(Shared), PROT_READ | PROT_WRITE, MAP_SHARED | MAP_ANONYMOUS, -1, 0);
    std::vector<uint64_t> ids;
    for (size_t i = 0; i < cases.size(); ++i) ids.push_back(g_idx++);
    size_t start = 0;
    int bad = 0;
    while (start < cases.size() && !g_stop) {
        memset((void*)g_shared, 0, sizeof(Shared));
        g_shared->cur = (int)start;
        fflush(stdout); fflush(stderr);
        pid_t pid = fork();
        if (pid < 0) { R.violation("harness:fork-failed", "", case_str(cases[start])); return 1; }
        if (pid == 0) {
#ifdef MC_ASAN
            __asan_set_error_report_callback(child_on_asan_report);
#endif
            R.counters.clear(); R.distinct.clear();
            for (size_t i = start; i < cases.size(); ++i) {
                if (!admit(ids[i])) continue;
                g_shared->cur = (int)i;
                set_case(ids[i], ctx_of(cases[i]), case_str(cases[i]));
                std::string err = eval_any(cases[i], b);
                if (!err.empty()) child_err((int)i, err);
            }
            child_flush(g_stop ? 3 : 1);
            _exit(0);
        }
        int status = 0;
        while (waitpid(pid, &status, 0) < 0 && errno == EINTR) {}
        {
            std::istringstream in(std::string(g_shared->counters));
            std::string t, name; uint64_t v;
            while (in >> t >> name >> v) { if (t == "c") R.count(name, v); else R.dist(name, v); }
        }
        {
            std::istringstream in(std::string(g_shared->errs));
            std::string line;
            while (std::getline(in, line)) {
                size_t tab = line.find('\t');
                if (tab == std::string::npos) continue;
                size_t i = (size_t)atoi(line.substr(0, tab).c_str());
                if (i < cases.size()) { record(line.substr(tab + 1), case_str(cases[i])); ++bad; }
            }
        }
        int done = g_shared->done;
        if (done == 1) break;
        if (done == 3) { g_stop = true; R.flags["exhaustive"] = false; break; }
        size_t cur = (size_t)g_shared->cur;
        if (done != 2) {
            std::string how = WIFSIGNALED(status) ? "signal" + str(WTERMSIG(status)) : "exit" + str(WEXITSTATUS(status));
            if (cur < cases.size()) record("crash:" + how + ":" + ctx_of(cases[cur]) + "|child process died without a verdict", case_str(cases[cur]));
            ++bad;
        }
        R.count("evaluations"); R.count("frames_" + cases[cur < cases.size() ? cur : 0].kind); R.count("isolated_child_restarts");
        start = cur + 1;
    }
    return bad;
}
static bool run_one(const Case& c, const Built& b) {
    uint64_t idx = g_idx++;
    if (!admit(idx)) return false;
    std::string cs = case_str(c);
    set_case(idx, ctx_of(c), cs);
    std::string err = eval_any(c, b);
    record(err, cs);
    return err.empty();
}
static void run_frames_job(int job) {
    bool th = A.thorough();
    auto cs = combos();
    std::vector<int> flips = th ? std::vector<int>{0x01, 0x80} : std::vector<int>{0x01};
    int npat = th ? 5 : 3;
    for (size_t ci = job; ci < cs.size(); ci += NF) {
        const Combo& k = cs[ci];
        bool wep = k.cipher < 2;
        for (int len : lengths(th))
            for (int pat = 0; pat < npat; ++pat) {
                Case c{"pos", k.cipher, k.ds, k.qos, k.aset, len, pat, 0, 0, 0, 0};
                Built b = build(c);
                if (b.body.size() != (size_t)len + cipher_overhead(k.cipher)) { R.violation("harness:reference-body-size", "", case_str(c)); continue; }
                bool ok = run_one(c, b);
                // the same frame when the peer station's own pairwise key is known as well (judged only where the plain case holds)
                if (ok && !wep && (k.ds == 1 || k.ds == 2)) { Case p = c; p.kenv = 1; run_one(p, b); }
                if (len >= 8) {
                    Case w = c; w.kind = "wrongkey"; run_one(w, b);
                    Case o = c; o.kind = "otherkey"; run_one(o, b);
                    size_t stride = len > 1000 ? 13 : 1;
                    for (size_t pos = 0; pos < b.body.size(); pos += (pos + 40 >= b.body.size() || pos < 40) ? 1 : stride) {
                        if (!body_byte_is_covered(k.cipher, pos)) continue;
                        for (int f : flips) { Case x = c; x.kind = "corrupt"; x.pos = (int)pos; x.flip = f; run_one(x, b); }
                    }
                    if (k.cipher == CCMP && len <= 48)
                        for (size_t pos = 4; pos < b.hdr.size() - (k.qos >= 0 ? 2 : 0); ++pos) {
                            if (pos == 22 || pos == 23) continue;            // sequence control: masked / tested through patterns
                            Case x = c; x.kind = "hdrcorrupt"; x.pos = (int)pos; x.flip = 0x04; run_one(x, b);
                        }
                }
            }
        // hostile bodies with the matching key installed
        Case big{"pos", k.cipher, k.ds, k.qos, k.aset, 2400, 0, 0, 0, 0, 0};
        Built bb = build(big);
        std::vector<int> hl;
        for (int i = 0; i <= 64; ++i) hl.push_back(i);
        hl.push_back(2399); hl.push_back(2400);
        if (th) for (int i = 65; i <= 130; ++i) hl.push_back(i);
        std::vector<Case> batch;
        for (int blen : hl)
            for (int fill = 0; fill < 4; ++fill) { Case h = big; h.kind = "hostile"; h.len = blen; h.fill = fill; batch.push_back(h); }
        run_isolated_batch(batch, bb);
        R.count("header_variants");
    }
    if (job == 0) {
        Case c{"pos", CCMP, 3, 5, 1, 17, 1, 0, 0, 0, 0};
        Built b = build(c);
        Bytes f = b.hdr; f.insert(f.end(), b.body.begin(), b.body.end());
        R.sample("{\"case\":" + jstr(case_str(c)) + ",\"frame\":" + jstr(hex(f)) + ",\"plaintext\":" + jstr(hex(b.plain)) + "}");
        // informational: libtins does not verify the Michael MIC of TKIP frames (only the ICV)
        Case t{"pos", TKIP, 1, -1, 0, 24, 0, 0, 0, 0, 0};
        Built tb = build(t);
        Pat bad = tb.t; for (auto& x : bad.mic) x ^= 0xff;
        Bytes body = encrypt_body(TKIP, bad, tb.hdr, 1, -1, tb.r, tb.plain);
        Bytes fr = tb.hdr; fr.insert(fr.end(), body.begin(), body.end());
        Crypto::WPA2Decrypter d; install_wpa(d, 1, ASETS[0], tb.r, tb.t, false, 0);
        Out o = run_decrypt(d, fr);
        R.info["tkip_frame_with_wrong_michael_mic_accepted"] = o.ret == 1 ? "true" : "false";
    }
}

// ================================================================== part 2: handshake histories
static const char* PSK = "correct horse battery staple";
static const char* SSID = "verif-C09";
// apreg 0 = passphrase+SSID only, 1 = +BSSID; gen2 bit k = station k has a second handshake generation (fresh nonces);
// bret = station B's retransmitted copies are events; extra = foreign beacon and SSID-less beacon are events
struct HsCfg { bool ccmp; int apreg; bool qos; int order; int gen2; bool bret, extra; };
struct Station { uint8_t mac[6]; uint8_t snonce[2][32]; Bytes ptk[2]; Bytes plain; int gens; };
struct Probe { Bytes frame; int sta, gen; bool from_ds; };      // gen 0 = protected under a PTK from a wrong passphrase
struct HsWorld {
    HsCfg cfg;
    uint8_t bssid[6], peer[6], anonce[2][32];
    Station st[2];
    Bytes foreign_ptk;
    std::vector<std::string> names;
    std::vector<Bytes> frames;          // one per event
    // station (-1 none), message number 1..4 (5 = beacon; 6 = foreign beacon; 7 = data; 8 = beacon without SSID), generation 1/2
    std::vector<int> ev_station, ev_msg, ev_gen;
    Crypto::WPA2Decrypter base;
    std::vector<Probe> probes;
};
static HsWorld* W = 0;
static const Bytes& pmk() { static Bytes p = c09::pbkdf2_sha1(PSK, SSID, 4096, 32); return p; }

static Bytes eapol_key(int ver, uint16_t info, uint16_t keylen, uint64_t rc, const uint8_t* nonce, const Bytes& kd, const uint8_t* kck) {
    Bytes b;
    b.push_back(2);                                    // descriptor type: RSN
    b.push_back(uint8_t(info >> 8)); b.push_back(uint8_t(info));
    b.push_back(uint8_t(keylen >> 8)); b.push_back(uint8_t(keylen));
    for (int i = 7; i >= 0; --i) b.push_back(uint8_t(rc >> (8 * i)));
    for (int i = 0; i < 32; ++i) b.push_back(nonce ? nonce[i] : 0);
    for (int i = 0; i < 16 + 8 + 8 + 16; ++i) b.push_back(0);   // IV, RSC, ID, MIC
    b.push_back(uint8_t(kd.size() >> 8)); b.push_back(uint8_t(kd.size()));
    b.insert(b.end(), kd.begin(), kd.end());
    Bytes f;
    f.push_back(2); f.push_back(3); f.push_back(uint8_t(b.size() >> 8)); f.push_back(uint8_t(b.size()));
    f.insert(f.end(), b.begin(), b.end());
    if (kck) { Bytes m = c09::eapol_mic(ver, kck, f); memcpy(&f[81], m.data(), 16); }
    return f;
}
static Bytes data_frame(const uint8_t* a1, const uint8_t* a2, const uint8_t* a3, bool to_ds, bool qos, const Bytes& payload, bool prot) {
    Roles r; r.a1 = a1; r.a2 = a2; r.a3 = a3; r.a4 = 0; r.da = r.sa = 0;
    Bytes f = mac_header(to_ds ? 1 : 2, qos ? 6 : -1, 0, r, 0x123, 0, prot);
    f.insert(f.end(), payload.begin(), payload.end());
    return f;
}
static Bytes beacon_frame(const uint8_t* bssid, const char* ssid, bool with_ssid) {
    Bytes f = {0x80, 0x00, 0x00, 0x00, 0xff, 0xff, 0xff, 0xff, 0xff, 0xff};
    f.insert(f.end(), bssid, bssid + 6); f.insert(f.end(), bssid, bssid + 6);
    f.push_back(0x10); f.push_back(0x00);
    for (int i = 0; i < 8; ++i) f.push_back(uint8_t(i));      // timestamp
    f.push_back(0x64); f.push_back(0x00); f.push_back(0x11); f.push_back(0x04);
    if (with_ssid) { f.push_back(0); f.push_back((uint8_t)strlen(ssid)); f.insert(f.end(), ssid, ssid + strlen(ssid)); }
    const uint8_t rest[] = {0x01, 0x08, 0x82, 0x84, 0x8b, 0x96, 0x0c, 0x12, 0x18, 0x24, 0x03, 0x01, 0x06,
                            0x30, 0x14, 0x01, 0x00, 0x00, 0x0f, 0xac, 0x04, 0x01, 0x00, 0x00, 0x0f, 0xac, 0x04, 0x01, 0x00, 0x00, 0x0f, 0xac, 0x02, 0x00, 0x00};
    f.insert(f.end(), rest, rest + sizeof rest);
    return f;
}
static Bytes protect(const HsWorld& w, int sta, bool to_ds, const Bytes& ptk, uint64_t pn) {
    const Station& s = w.st[sta];
    Roles r;
    r.a1 = to_ds ? w.bssid : s.mac; r.a2 = to_ds ? s.mac : w.bssid; r.a3 = w.peer; r.a4 = 0;
    r.da = to_ds ? r.a3 : r.a1; r.sa = to_ds ? r.a2 : r.a3;
    Bytes hdr = mac_header(to_ds ? 1 : 2, w.cfg.qos ? 3 : -1, 0, r, 0x222, 0, true);
    Bytes body = w.cfg.ccmp ? c09::ccmp_encrypt(&ptk[32], hdr, pn, 0, s.plain)
                            : c09::tkip_encrypt(&ptk[32], &ptk[to_ds ? 56 : 48], r.a2, r.da, r.sa, w.cfg.qos ? 3 : 0, pn, 0, s.plain);
    hdr.insert(hdr.end(), body.begin(), body.end());
    return hdr;
}

static int g_cb_hs = 0, g_cb_ap = 0;
static HsWorld* make_world(const HsCfg& cfg) {
    HsWorld* w = new HsWorld();
    w->cfg = cfg;
    // order 0: A < BSSID < B; order 1: mirrored
    const uint8_t lo[6] = {0x00, 0x0d, 0x93, 0x82, 0x36, 0x3a}, mid[6] = {0x00, 0x14, 0x6c, 0x7e, 0x40, 0x80}, hi[6] = {0xf4, 0xec, 0x38, 0xfe, 0x4d, 0x81};
    memcpy(w->bssid, mid, 6);
    memcpy(w->st[0].mac, cfg.order ? hi : lo, 6);
    memcpy(w->st[1].mac, cfg.order ? lo : hi, 6);
    const uint8_t peer[6] = {0x00, 0x21, 0x6a, 0x10, 0x20, 0x30};
    memcpy(w->peer, peer, 6);
    uint32_t s = 0x5EED;
    for (int i = 0; i < 32; ++i) { w->anonce[0][i] = (uint8_t)lcg(s); w->st[0].snonce[0][i] = (uint8_t)lcg(s); w->st[1].snonce[0][i] = (uint8_t)lcg(s); }
    // generation 1: SNonce_A and the ANonce differ in the first octet (order per configuration); SNonce_B shares its first octet
    // with the ANonce, the comparison has to look past it
    w->anonce[0][0] = 0x80; w->anonce[0][1] = 0x7f;
    w->st[0].snonce[0][0] = cfg.order ? 0x10 : 0xf0;
    w->st[1].snonce[0][0] = 0x80; w->st[1].snonce[0][1] = cfg.order ? 0xff : 0x00;
    // generation 2: fresh nonces, the ANonce/SNonce order of each station is the opposite of its generation 1
    for (int i = 0; i < 32; ++i) { w->anonce[1][i] = (uint8_t)lcg(s); w->st[0].snonce[1][i] = (uint8_t)lcg(s); w->st[1].snonce[1][i] = (uint8_t)lcg(s); }
    w->anonce[1][0] = 0x80; w->anonce[1][1] = 0x7f;
    w->st[0].snonce[1][0] = cfg.order ? 0xf0 : 0x10;
    w->st[1].snonce[1][0] = 0x80; w->st[1].snonce[1][1] = cfg.order ? 0x00 : 0xff;
    int ver = cfg.ccmp ? 2 : 1;
    uint16_t keylen = cfg.ccmp ? 16 : 32;
    const uint8_t rsnie[] = {0x30, 0x14, 0x01, 0x00, 0x00, 0x0f, 0xac, 0x04, 0x01, 0x00, 0x00, 0x0f, 0xac, 0x04, 0x01, 0x00, 0x00, 0x0f, 0xac, 0x02, 0x00, 0x00};
    Bytes ie(rsnie, rsnie + sizeof rsnie), wrapped;
    for (int i = 0; i < 56; ++i) wrapped.push_back((uint8_t)lcg(s));
    const uint8_t snap_eapol[8] = {0xaa, 0xaa, 0x03, 0x00, 0x00, 0x00, 0x88, 0x8e};
    for (int k = 0; k < 2; ++k) {
        Station& st = w->st[k];
        st.gens = (cfg.gen2 >> k & 1) ? 2 : 1;
        st.plain = plaintext(28 + 5 * k, k);
        for (int g = 0; g < st.gens; ++g) {
            st.ptk[g] = c09::ptk512(pmk(), w->bssid, st.mac, w->anonce[g], st.snonce[g]);
            // generation 1: the original messages and (station A always, B on request) retransmitted copies with the replay
            // counter bumped and the MIC recomputed; generation 2: fresh nonces, replay counter continuing
            int copies = g == 0 && (k == 0 || cfg.bret) ? 2 : 1;
            for (int copy = 0; copy < copies; ++copy) {
                uint64_t rc = (g ? 9 : 1) + (copy ? 4 : 0);
                Bytes m[4];
                m[0] = eapol_key(ver, uint16_t(0x0088 | ver), keylen, rc, w->anonce[g], Bytes(), 0);
                m[1] = eapol_key(ver, uint16_t(0x0108 | ver), keylen, rc, st.snonce[g], ie, &st.ptk[g][0]);
                m[2] = eapol_key(ver, uint16_t(0x13c8 | ver), keylen, rc + 1, w->anonce[g], wrapped, &st.ptk[g][0]);
                m[3] = eapol_key(ver, uint16_t(0x0308 | ver), keylen, rc + 1, 0, Bytes(), &st.ptk[g][0]);
                for (int i = 0; i < 4; ++i) {
                    Bytes pl(snap_eapol, snap_eapol + 8);
                    pl.insert(pl.end(), m[i].begin(), m[i].end());
                    bool to_ds = i == 1 || i == 3;
                    w->frames.push_back(data_frame(to_ds ? w->bssid : st.mac, to_ds ? st.mac : w->bssid, w->bssid, to_ds, cfg.qos, pl, false));
                    w->names.push_back(std::string(g ? "n" : copy ? "r" : "m") + str(i + 1) + (k ? "b" : "a"));
                    w->ev_station.push_back(k); w->ev_msg.push_back(i + 1); w->ev_gen.push_back(g + 1);
                }
            }
        }
    }
    auto add_event = [&](const Bytes& f, const std::string& n, int sta, int msg, int gen) {
        w->frames.push_back(f); w->names.push_back(n); w->ev_station.push_back(sta); w->ev_msg.push_back(msg); w->ev_gen.push_back(gen);
    };
    add_event(beacon_frame(w->bssid, SSID, true), "beacon", -1, 5, 0);
    for (int k = 0; k < 2; ++k)
        for (int g = 0; g < w->st[k].gens; ++g)
            add_event(protect(*w, k, true, w->st[k].ptk[g], 7 + k + 16 * g), std::string("data") + (g ? "2" : "") + (k ? "b" : "a"), k, 7, g + 1);
    if (cfg.extra) {
        const uint8_t foreign[6] = {0x00, 0x14, 0x6c, 0x7e, 0x40, 0x81};
        add_event(beacon_frame(foreign, "other-net", true), "beaconx", -1, 6, 0);
        add_event(beacon_frame(w->bssid, SSID, false), "beacon0", -1, 8, 0);
    }
    // probes: every station x generation x direction under the reference PTK, and one frame of A under a PTK from a wrong passphrase
    Bytes wrong_pmk = c09::pbkdf2_sha1("not the passphrase", SSID, 4096, 32);
    w->foreign_ptk = c09::ptk512(wrong_pmk, w->bssid, w->st[0].mac, w->anonce[0], w->st[0].snonce[0]);
    uint64_t pn = 0x21;
    for (int k = 0; k < 2; ++k)
        for (int g = 0; g < w->st[k].gens; ++g)
            for (int from = 0; from < 2; ++from)
                w->probes.push_back(Probe{protect(*w, k, !from, w->st[k].ptk[g], pn++), k, g + 1, from != 0});
    w->probes.push_back(Probe{protect(*w, 0, true, w->foreign_ptk, pn++), 0, 0, false});
    if (cfg.apreg == 0) w->base.add_ap_data(PSK, SSID);
    else w->base.add_ap_data(PSK, SSID, hw(w->bssid));
    w->base.handshake_captured_callback([](const std::string&, const HWAddress<6>&, const HWAddress<6>&) { ++g_cb_hs; });
    w->base.ap_found_callback([](const std::string&, const HWAddress<6>&) { ++g_cb_ap; });
    return w;
}

// Model.  Per station: the current handshake run (generation, last message number, spoilt flag) and which generation's PTK a
// conforming decrypter must hold: 0 = none required, 1 / 2 = that generation (the most recently COMPLETED valid handshake),
// 3 = undetermined (messages of different generations were mixed in an invalid order; nothing positive is required until a
// later run completes cleanly).
//  * message 1 starts a new run when there is none, when the current run is complete, or when it belongs to the other generation
//    (an unfinished handshake may be abandoned for a new one);
//  * inside a run the message numbers must be non-decreasing without gaps (duplicates allowed); anything else spoils the run;
//  * a message >= 2 of the other generation spoils the run;
//  * message 4 completing an unspoilt run while the AP is known makes that generation the required one;
//  * when a run is spoilt and a generation other than the required one is involved, the requirement becomes undetermined.
struct StaModel { int run_gen, last; bool bad; int expect; };
struct HsModel { StaModel st[2]; bool ap_known; };
struct HS { Crypto::WPA2Decrypter d; HsModel m; std::string obs, ck; };   // ck = canonical implementation state after the last step

static void model_taint(StaModel& sm, int gen) { if (gen != 0 && sm.expect != 0 && sm.expect != gen) sm.expect = 3; }
static void model_message(StaModel& sm, int g, int k, bool ap_known) {
    if (k == 1 && (sm.run_gen == 0 || g != sm.run_gen || sm.last == 4)) { sm.run_gen = g; sm.last = 1; sm.bad = false; return; }
    if (g != sm.run_gen) { sm.bad = true; model_taint(sm, g); model_taint(sm, sm.run_gen); return; }
    if (sm.bad) return;
    if (k == sm.last || k == sm.last + 1) {
        bool completes = k == 4 && sm.last == 3;
        sm.last = k;
        if (completes && ap_known) sm.expect = g;
    } else { sm.bad = true; model_taint(sm, g); }
}

static void put_addr(std::string& o, const HWAddress<6>& a) { o.append(hex(a.begin(), 6)); }
static std::string canon_impl(const Crypto::WPA2Decrypter& d) {
    std::string o = "H";
    o.reserve(256);
    for (auto& kv : d.capturer_.handshakes_) {
        put_addr(o, kv.first.first); o += '-'; put_addr(o, kv.first.second); o += '[';
        for (auto& e : kv.second) {
            o += std::to_string(e.replay_counter()); o += '.';
            o += char('0' + e.key_mic()); o += char('0' + e.secure()); o += char('0' + e.install()); o += char('0' + e.key_ack()); o += '.';
            o += std::to_string(fnv(e.nonce(), 32) & 0xffff); o += ',';
        }
        o += ']';
    }
    o += 'C'; o += std::to_string(d.capturer_.completed_handshakes_.size()); o += 'A';
    for (auto& kv : d.aps_) { put_addr(o, kv.first); o += '='; o += kv.second.ssid(); o += ';'; }
    o += 'P';
    for (auto& kv : d.pmks_) { o += kv.first; o += ';'; }
    o += 'K';
    for (auto& kv : d.keys_) {
        put_addr(o, kv.first.first); o += '-'; put_addr(o, kv.first.second); o += '=';
        o += std::to_string(fnv(kv.second.get_ptk().data(), kv.second.get_ptk().size())); o += kv.second.uses_ccmp() ? 'c' : 't'; o += ';';
    }
    return o;
}
static std::string canon_model(const HsModel& m) {
    std::string o;
    // a spoilt run never advances: only "was it complete" still matters of its last message number
    for (int k = 0; k < 2; ++k) { o += char('0' + m.st[k].run_gen); o += char('0' + (m.st[k].bad ? (m.st[k].last == 4 ? 4 : 0) : m.st[k].last)); o += m.st[k].bad ? 'B' : '-'; o += 'E'; o += char('0' + m.st[k].expect); }
    o += m.ap_known ? 'A' : '-';
    return o;
}

// hot-path counters (flushed into the report once per configuration)
static uint64_t n_probe_calls = 0, n_probe_verdicts = 0, n_probe_ok = 0, n_keys_required = 0, n_cb_hs = 0, n_cb_ap = 0;
static std::map<std::string, std::string> g_probe_cache;   // canonical implementation state -> probe outcome codes
static std::string hs_step(HS& s, const int& ev) {
    HsWorld& w = *W;
    // ---- model
    int k = w.ev_station[ev], msg = w.ev_msg[ev];
    if (msg >= 1 && msg <= 4) model_message(s.m.st[k], w.ev_gen[ev], msg, s.m.ap_known);
    else if (msg == 5 && w.cfg.apreg == 0) s.m.ap_known = true;
    // ---- implementation
    g_cb_hs = g_cb_ap = 0;
    Out o = run_decrypt(s.d, w.frames[ev], msg == 7 ? &w.st[k].plain : 0);
    if (o.ret == 3) return "harness:event-frame-did-not-parse|" + w.names[ev];
    if (o.ret == 2) return "handshake:libtins-exception-on-event|" + o.exc + " at " + w.names[ev];
    if (msg != 7 && o.ret == 1) return "handshake:unprotected-frame-reported-decrypted|" + w.names[ev];
    n_cb_hs += g_cb_hs; n_cb_ap += g_cb_ap;
    // ---- invariants, judged after every transition on every station's frames (each generation, both directions) and a frame
    // under a foreign key.  Decrypting a data frame does not change the decrypter, so the probe outcomes are a function of the
    // implementation state: they are computed once per distinct canonical implementation state and looked up afterwards
    // (the same equivalence the state merging relies on; the verdict below depends on the model state and is evaluated every time).
    s.ck = canon_impl(s.d);
    const std::string& ck = s.ck;
    std::map<std::string, std::string>::iterator hit = g_probe_cache.find(ck);
    if (hit == g_probe_cache.end()) {
        std::string codes;
        for (size_t pi = 0; pi < w.probes.size(); ++pi) {
            const Probe& pr = w.probes[pi];
            Out p = run_decrypt(s.d, pr.frame, &w.st[pr.sta].plain);
            ++n_probe_calls;
            bool same = p.snap && p.rec == w.st[pr.sta].plain;
            codes += char('0' + p.ret + (p.prot ? 4 : 0) + (same ? 8 : 0));
        }
        hit = g_probe_cache.insert(std::make_pair(ck, codes)).first;
    }
    std::string obs;
    for (size_t pi = 0; pi < w.probes.size(); ++pi) {
        const Probe& pr = w.probes[pi];
        int code = hit->second[pi] - '0', ret = code & 3;
        bool prot = (code & 4) != 0, same = (code & 8) != 0;
        ++n_probe_verdicts;
        obs += str(ret);
        if (ret == 3) return "harness:probe-did-not-parse|";
        if (pr.gen == 0) {
            if (ret == 1) return "handshake:frame-under-foreign-key-reported-decrypted|";
            continue;
        }
        if (ret == 1) {
            if (prot || !same) return "handshake:decrypted-output-differs-from-plaintext|station " + str(pr.sta) + " generation " + str(pr.gen);
            ++n_probe_ok;
        } else if (!prot) return "handshake:not-decrypted-but-protected-flag-cleared|";
        if (s.m.st[pr.sta].expect == pr.gen && ret != 1)
            return std::string("handshake:") + (pr.gen == 2 ? "frame-under-latest-handshake-keys-not-decrypted" : "valid-history-data-not-decrypted") + "|station " +
                   str(pr.sta) + " generation " + str(pr.gen) + (pr.from_ds ? " from-DS" : " to-DS") + " ret=" + str(ret) + " model=" + canon_model(s.m) + " impl=" + ck;
    }
    for (int t = 0; t < 2; ++t) {
        int e = s.m.st[t].expect;
        if (e == 1 || e == 2) {
            const Crypto::WPA2Decrypter::keys_map& km = s.d.get_keys();
            HWAddress<6> a = hw(w.st[t].mac), b = hw(w.bssid);
            Crypto::WPA2Decrypter::keys_map::const_iterator it = km.find(a < b ? std::make_pair(a, b) : std::make_pair(b, a));
            if (it == km.end()) return "handshake:valid-history-no-keys|station " + str(t);
            size_t n = w.cfg.ccmp ? 48 : 64;
            const Bytes& ref = w.st[t].ptk[e - 1];
            if (it->second.get_ptk().size() < n || !std::equal(ref.begin(), ref.begin() + n, it->second.get_ptk().begin()))
                return "handshake:stored-ptk-differs-from-reference|station " + str(t) + " generation " + str(e);
            if (it->second.uses_ccmp() != w.cfg.ccmp) return "handshake:stored-cipher-differs|station " + str(t);
            ++n_keys_required;
        }
    }
    s.obs = obs + (s.d.get_keys().empty() ? "k" : "K") + str(s.d.get_keys().size());
    return "";
}

static std::vector<HsCfg> hs_configs(bool thorough) {
    std::vector<HsCfg> v;
    for (int ccmp = 1; ccmp >= 0; --ccmp) for (int apreg = 0; apreg < 2; ++apreg) for (int qos = 0; qos < 2; ++qos) for (int order = 0; order < 2; ++order) {
        // quick: second generation for station A only; thorough: two runs per base configuration
        if (!thorough) v.push_back(HsCfg{ccmp != 0, apreg, qos != 0, order, 1, false, false});
        else {
            v.push_back(HsCfg{ccmp != 0, apreg, qos != 0, order, 1, true, true});     // A: 2 generations; B: retransmissions; extra beacons
            v.push_back(HsCfg{ccmp != 0, apreg, qos != 0, order, 3, false, false});   // both stations: 2 generations
        }
    }
    return v;
}

static void run_hs(int index, const std::string* rp = 0, std::string* rerr = 0) {
    auto cfgs = hs_configs(A.thorough());
    if (index >= (int)cfgs.size()) return;
    delete W;
    W = make_world(cfgs[index]);
    g_probe_cache.clear();
    Explorer<HS, int> ex;
    for (size_t i = 0; i < W->frames.size(); ++i) ex.alphabet.push_back((int)i);
    ex.context = "mode=hs tier=" + A.tier + " cfg=" + str(index);
    ex.op_str = [](const int& e) { return W->names[e]; };
    ex.init = []() {
        HS s{W->base, HsModel(), "", ""};
        for (int k = 0; k < 2; ++k) { s.m.st[k].run_gen = s.m.st[k].last = s.m.st[k].expect = 0; s.m.st[k].bad = false; }
        s.m.ap_known = W->cfg.apreg == 1;
        return s;
    };
    ex.canon = [](const HS& s) { return (s.ck.empty() ? canon_impl(s.d) : s.ck) + "|" + canon_model(s.m); };
    ex.step = hs_step;
    ex.nontrivial = [](const HS& s) { return !s.d.keys_.empty() || s.m.st[0].last >= 2 || s.m.st[1].last >= 2; };
    ex.observe = [](const HS& s) { return s.obs; };
    // max_depth stays unbounded: the product space is finite and is explored to fixpoint
    if (rp) { *rerr = ex.replay(*rp); return; }
    bool ok = ex.run();
    R.count("handshake_configurations");
    R.count("probe_decrypt_calls", n_probe_calls); R.count("probe_verdicts", n_probe_verdicts); R.count("probe_decrypted_ok", n_probe_ok);
    R.count("transitions_with_keys_required", n_keys_required); R.count("callback_handshake_captured", n_cb_hs); R.count("callback_ap_found", n_cb_ap);
    R.count("distinct_implementation_states", g_probe_cache.size());
    n_probe_calls = n_probe_verdicts = n_probe_ok = n_keys_required = n_cb_hs = n_cb_ap = 0;
    if (ok && !R.flags.count("depth_bounded")) R.count("handshake_configurations_to_fixpoint");
    if (index == 0) {
        std::string al;
        for (auto& n : W->names) al += n + " ";
        R.info["handshake_alphabet"] = jstr(al);
    }
}


// ================================================================== part 3: histories on ONE decrypter object
// The decrypters are stateful (registered keys, WEPDecrypter's scratch key buffer, learned networks): explicit-state BFS to
// fixpoint over the operations of one object x a last-write model of what is registered.  After every operation every frame of
// the family (each BSSID / station pair x each key it could be protected with x ToDS / FromDS) is presented: a frame decrypts to
// its plaintext IFF the key currently registered for its BSSID / pair is the one it was encrypted with.
static Bytes protected_data_frame(int cipher, bool qos, bool to_ds, const uint8_t* sta, const uint8_t* bssid, const uint8_t* peer,
                                  const Bytes& key_or_ptk, uint64_t pn, const Bytes& plain) {
    Roles r;
    r.a1 = to_ds ? bssid : sta; r.a2 = to_ds ? sta : bssid; r.a3 = peer; r.a4 = 0;
    r.da = to_ds ? r.a3 : r.a1; r.sa = to_ds ? r.a2 : r.a3;
    Bytes hdr = mac_header(to_ds ? 1 : 2, qos ? 4 : -1, 0, r, uint16_t(0x300 + pn), 0, true);
    Bytes body;
    if (cipher == CCMP) body = c09::ccmp_encrypt(&key_or_ptk[32], hdr, pn, 0, plain);
    else if (cipher == TKIP) body = c09::tkip_encrypt(&key_or_ptk[32], &key_or_ptk[to_ds ? 56 : 48], r.a2, r.da, r.sa, qos ? 4 : 0, pn, 0, plain);
    else { uint8_t iv[3] = {uint8_t(pn >> 16), uint8_t(pn >> 8), uint8_t(pn)}; body = c09::wep_encrypt(key_or_ptk, iv, int(pn & 3), plain); }
    hdr.insert(hdr.end(), body.begin(), body.end());
    return hdr;
}
// judge one presented frame; `want` = the model says the matching key is the registered one
static std::string judge_presented(const Out& o, bool want, const Bytes& plain, const std::string& site, const std::string& what) {
    if (o.ret == 3) return "harness:frame-did-not-parse|" + what;
    if (want) {
        if (o.ret != 1) return site + ":frame-under-registered-key-not-decrypted|" + what + " ret=" + str(o.ret) + " " + o.exc;
        if (o.prot || !o.snap || o.rec != plain) return site + ":decrypted-output-differs-from-plaintext|" + what;
        return "";
    }
    if (o.ret == 1) return site + ":decrypted-without-the-matching-key-registered|" + what;
    if (!o.prot) return site + ":not-decrypted-but-protected-flag-cleared|" + what;
    return "";
}
static uint64_t n_obj_presented = 0, n_obj_decrypted = 0;

// ---------------------------------------------------------------- WEPDecrypter
struct WepWorld {
    uint8_t bssid[2][6], sta[6], peer[6];
    Bytes key[3];                       // 5 octets, 13 octets, another 13 octets
    Bytes plain[2];
    Bytes frame[2][3][2];               // [bssid][key][0 = ToDS, 1 = FromDS]
    int event_form;                     // DS form of the decrypt EVENTS of this configuration
    std::vector<std::string> names;
};
static WepWorld* WW = 0;
struct WepS { Crypto::WEPDecrypter d; int reg[2]; std::string obs; };
static WepWorld* make_wep_world(int cfg) {
    WepWorld* w = new WepWorld();
    const uint8_t b0[6] = {0x00, 0x1a, 0x2b, 0x3c, 0x4d, 0x5e}, b1[6] = {0xf2, 0x1a, 0x2b, 0x3c, 0x4d, 0x5f};
    const uint8_t sta[6] = {0x00, 0x0c, 0xf1, 0x11, 0x22, 0x33}, peer[6] = {0x00, 0x21, 0x6a, 0xaa, 0xbb, 0xcc};
    memcpy(w->bssid[0], cfg & 2 ? b1 : b0, 6); memcpy(w->bssid[1], cfg & 2 ? b0 : b1, 6);
    memcpy(w->sta, sta, 6); memcpy(w->peer, peer, 6);
    uint32_t s = 0x3E9u;
    for (int i = 0; i < 5; ++i) w->key[0].push_back((uint8_t)lcg(s));
    for (int i = 0; i < 13; ++i) w->key[1].push_back((uint8_t)lcg(s));
    for (int i = 0; i < 13; ++i) w->key[2].push_back((uint8_t)lcg(s));
    w->event_form = cfg & 1;
    for (int b = 0; b < 2; ++b) {
        w->plain[b] = plaintext(24 + 9 * b, b);
        for (int k = 0; k < 3; ++k) for (int f = 0; f < 2; ++f)
            w->frame[b][k][f] = protected_data_frame(WEP40, false, f == 0, w->sta, w->bssid[b], w->peer, w->key[k], 0x010203 + 0x111 * (b * 6 + k * 2 + f), w->plain[b]);
    }
    const char* kn[3] = {"k5", "k13", "k13x"};
    for (int b = 0; b < 2; ++b) for (int k = 0; k < 3; ++k) w->names.push_back(std::string("add") + str(b) + kn[k]);
    for (int b = 0; b < 2; ++b) w->names.push_back("remove" + str(b));
    for (int b = 0; b < 2; ++b) for (int k = 0; k < 3; ++k) w->names.push_back(std::string("decrypt") + str(b) + kn[k]);
    return w;
}
static std::string wep_step(WepS& s, const int& op) {
    WepWorld& w = *WW;
    auto what = [&](int b, int k, int f) { return "frame for bssid " + str(b) + " under key " + str(k) + (f ? " FromDS" : " ToDS") + ", registered " + str(s.reg[b]); };
    if (op < 6) { int b = op / 3, k = op % 3; s.d.add_password(hw(w.bssid[b]), std::string(w.key[k].begin(), w.key[k].end())); s.reg[b] = k; }
    else if (op < 8) { int b = op - 6; s.d.remove_password(hw(w.bssid[b])); s.reg[b] = -1; }
    else {
        int b = (op - 8) / 3, k = (op - 8) % 3, f = w.event_form;
        Out o = run_decrypt(s.d, w.frame[b][k][f]);
        ++n_obj_presented; if (o.ret == 1) ++n_obj_decrypted;
        std::string e = judge_presented(o, s.reg[b] == k, w.plain[b], "objhist:wep", what(b, k, f));
        if (!e.empty()) return e;
    }
    // every frame of the family on a copy of the object, one after the other (the copy's scratch buffer evolves along the way)
    Crypto::WEPDecrypter c(s.d);
    std::string obs;
    for (int b = 0; b < 2; ++b) for (int k = 0; k < 3; ++k) for (int f = 0; f < 2; ++f) {
        Out o = run_decrypt(c, w.frame[b][k][f]);
        ++n_obj_presented; if (o.ret == 1) ++n_obj_decrypted;
        obs += char('0' + o.ret);
        std::string e = judge_presented(o, s.reg[b] == k, w.plain[b], "objhist:wep", what(b, k, f));
        if (!e.empty()) return e;
    }
    s.obs = obs;
    return "";
}
static std::string wep_canon(const WepS& s) {
    std::string o = "P";
    for (auto& kv : s.d.passwords_) { put_addr(o, kv.first); o += '='; o += hex((const uint8_t*)kv.second.data(), kv.second.size()); o += ';'; }
    o += "B" + hex(s.d.key_buffer_) + "|";
    for (int b = 0; b < 2; ++b) o += char('1' + s.reg[b]);
    return o;
}

// ---------------------------------------------------------------- WPA2Decrypter with directly supplied keys, two networks, handshakes
struct PairWorld { uint8_t sta[6], bssid[6]; std::string ssid, psk; Bytes ptk[4]; bool ccmp[4]; Bytes plain; std::vector<Bytes> handshake; Bytes beacon; };
struct ObjWorld {
    PairWorld p[2]; uint8_t peer[6]; bool qos;
    Bytes frame[2][4][2];               // [pair][key set: 0 CCMP, 1 TKIP, 2 CCMP (another), 3 the handshake's][ToDS / FromDS]
    std::vector<std::string> names;
};
static ObjWorld* OW = 0;
struct ObjS { Crypto::WPA2Decrypter d; int key[2]; bool ap_reg[2], ap_known[2]; std::string obs, ck; };
static ObjWorld* make_obj_world(int cfg) {
    ObjWorld* w = new ObjWorld();
    w->qos = (cfg & 1) != 0;
    const uint8_t peer[6] = {0x00, 0x21, 0x6a, 0xaa, 0xbb, 0xcc};
    memcpy(w->peer, peer, 6);
    const uint8_t sta[2][6] = {{0x00, 0x0d, 0x93, 0x82, 0x36, 0x3a}, {0xf4, 0xec, 0x38, 0xfe, 0x4d, 0x81}};
    const uint8_t ap[2][6] = {{0x00, 0x14, 0x6c, 0x7e, 0x40, 0x80}, {0x00, 0x14, 0x6c, 0x7e, 0x40, 0x90}};
    const uint8_t snap_eapol[8] = {0xaa, 0xaa, 0x03, 0x00, 0x00, 0x00, 0x88, 0x8e};
    uint32_t s = 0x0B7u + (uint32_t)cfg;
    for (int i = 0; i < 2; ++i) {
        PairWorld& p = w->p[i];
        int o = (cfg & 2) ? 1 - i : i;        // which station talks to which AP swaps with the configuration (address order)
        memcpy(p.sta, sta[o], 6); memcpy(p.bssid, ap[i], 6);
        p.ssid = i ? "verif-C09-two" : "verif-C09-one";
        p.psk = i ? "another passphrase, longer" : "first passphrase";
        p.plain = plaintext(20 + 13 * i, i);
        for (int j = 0; j < 3; ++j) { p.ptk[j].resize(80); for (auto& x : p.ptk[j]) x = (uint8_t)lcg(s); p.ccmp[j] = j != 1; }
        // the handshake of this pair: pair 0 CCMP, pair 1 TKIP
        p.ccmp[3] = i == 0;
        uint8_t an[32], sn[32];
        for (int k = 0; k < 32; ++k) { an[k] = (uint8_t)lcg(s); sn[k] = (uint8_t)lcg(s); }
        Bytes pmk_i = c09::pbkdf2_sha1(p.psk, p.ssid, 4096, 32);
        p.ptk[3] = c09::ptk512(pmk_i, p.bssid, p.sta, an, sn);
        p.ptk[3].resize(80, 0);
        int ver = p.ccmp[3] ? 2 : 1; uint16_t keylen = p.ccmp[3] ? 16 : 32;
        Bytes kd; for (int k = 0; k < 24; ++k) kd.push_back((uint8_t)lcg(s));
        Bytes m[4];
        m[0] = eapol_key(ver, uint16_t(0x0088 | ver), keylen, 1, an, Bytes(), 0);
        m[1] = eapol_key(ver, uint16_t(0x0108 | ver), keylen, 1, sn, kd, &p.ptk[3][0]);
        m[2] = eapol_key(ver, uint16_t(0x13c8 | ver), keylen, 2, an, kd, &p.ptk[3][0]);
        m[3] = eapol_key(ver, uint16_t(0x0308 | ver), keylen, 2, 0, Bytes(), &p.ptk[3][0]);
        for (int k = 0; k < 4; ++k) {
            Bytes pl(snap_eapol, snap_eapol + 8);
            pl.insert(pl.end(), m[k].begin(), m[k].end());
            bool to_ds = k == 1 || k == 3;
            p.handshake.push_back(data_frame(to_ds ? p.bssid : p.sta, to_ds ? p.sta : p.bssid, p.bssid, to_ds, w->qos, pl, false));
        }
        p.beacon = beacon_frame(p.bssid, p.ssid.c_str(), true);
        for (int j = 0; j < 4; ++j) for (int f = 0; f < 2; ++f)
            w->frame[i][j][f] = protected_data_frame(p.ccmp[j] ? CCMP : TKIP, w->qos, f == 0, p.sta, p.bssid, w->peer, p.ptk[j], 0x40 + i * 8 + j * 2 + f, p.plain);
    }
    const char* kn[3] = {"ccmp", "tkip", "ccmpx"};
    for (int i = 0; i < 2; ++i) for (int j = 0; j < 3; ++j) w->names.push_back(std::string("keys") + str(i) + kn[j]);
    w->names.push_back("apdata0");       // add_ap_data(psk, ssid): the BSSID is learned from a beacon
    w->names.push_back("apdata1bssid");  // add_ap_data(psk, ssid, bssid)
    w->names.push_back("beacon0"); w->names.push_back("beacon1");
    w->names.push_back("handshake0"); w->names.push_back("handshake1");
    return w;
}
static std::string obj_step(ObjS& s, const int& op) {
    ObjWorld& w = *OW;
    typedef Crypto::WPA2Decrypter::addr_pair AP;
    auto feed = [&](const Bytes& f) -> std::string {
        Out o = run_decrypt(s.d, f);
        if (o.ret == 3) return "harness:event-frame-did-not-parse|";
        if (o.ret != 0) return "objhist:wpa2:unprotected-frame-reported-decrypted-or-exception|ret=" + str(o.ret) + " " + o.exc;
        return "";
    };
    std::string e;
    if (op < 6) {
        int i = op / 3, j = op % 3;
        // the documented order does not matter: alternate it
        AP pr = j == 1 ? AP(hw(w.p[i].bssid), hw(w.p[i].sta)) : AP(hw(w.p[i].sta), hw(w.p[i].bssid));
        s.d.add_decryption_keys(pr, Crypto::WPA2::SessionKeys(w.p[i].ptk[j], w.p[i].ccmp[j]));
        s.key[i] = j;
    } else if (op == 6) { s.d.add_ap_data(w.p[0].psk, w.p[0].ssid); s.ap_reg[0] = true; }
    else if (op == 7) { s.d.add_ap_data(w.p[1].psk, w.p[1].ssid, hw(w.p[1].bssid)); s.ap_reg[1] = s.ap_known[1] = true; }
    else if (op == 8 || op == 9) { int i = op - 8; e = feed(w.p[i].beacon); if (s.ap_reg[i]) s.ap_known[i] = true; }
    else {
        int i = op - 10;
        for (size_t k = 0; k < 4 && e.empty(); ++k) e = feed(w.p[i].handshake[k]);
        if (s.ap_known[i]) s.key[i] = 3;           // a complete valid handshake of a known network: its keys are the pair's keys now
    }
    if (!e.empty()) return e;
    s.ck = canon_impl(s.d);
    std::string obs;
    for (int i = 0; i < 2; ++i) for (int j = 0; j < 4; ++j) for (int f = 0; f < 2; ++f) {
        Out o = run_decrypt(s.d, w.frame[i][j][f]);
        ++n_obj_presented; if (o.ret == 1) ++n_obj_decrypted;
        obs += char('0' + o.ret);
        e = judge_presented(o, s.key[i] == j, w.p[i].plain, "objhist:wpa2",
                            "frame of pair " + str(i) + " under key set " + str(j) + (f ? " FromDS" : " ToDS") + ", registered " + str(s.key[i]));
        if (!e.empty()) return e;
    }
    s.obs = obs;
    return "";
}
static std::string obj_canon(const ObjS& s) {
    std::string o = s.ck.empty() ? canon_impl(s.d) : s.ck;
    o += '|';
    for (int i = 0; i < 2; ++i) { o += char('1' + s.key[i]); o += s.ap_reg[i] ? 'R' : '-'; o += s.ap_known[i] ? 'K' : '-'; }
    return o;
}

static const int NOBJ = 8;     // configurations 0..3 WEP (event DS form x BSSID order), 4..7 WPA2 (Data/QoS x station order)
static void run_obj(int index, const std::string* rp = 0, std::string* rerr = 0) {
    if (index < 0 || index >= NOBJ) return;
    n_obj_presented = n_obj_decrypted = 0;
    bool ok = false;
    if (index < 4) {
        delete WW; WW = make_wep_world(index);
        Explorer<WepS, int> ex;
        for (size_t i = 0; i < WW->names.size(); ++i) ex.alphabet.push_back((int)i);
        ex.context = "mode=obj tier=" + A.tier + " cfg=" + str(index);
        ex.op_str = [](const int& e) { return WW->names[e]; };
        ex.init = []() { WepS s; s.reg[0] = s.reg[1] = -1; return s; };
        ex.canon = wep_canon;
        ex.step = wep_step;
        ex.nontrivial = [](const WepS& s) { return s.reg[0] >= 0 || s.reg[1] >= 0; };
        ex.observe = [](const WepS& s) { return s.obs; };
        if (rp) { *rerr = ex.replay(*rp); return; }
        ok = ex.run();
    } else {
        delete OW; OW = make_obj_world(index - 4);
        Explorer<ObjS, int> ex;
        for (size_t i = 0; i < OW->names.size(); ++i) ex.alphabet.push_back((int)i);
        ex.context = "mode=obj tier=" + A.tier + " cfg=" + str(index);
        ex.op_str = [](const int& e) { return OW->names[e]; };
        ex.init = []() { ObjS s; s.key[0] = s.key[1] = -1; s.ap_reg[0] = s.ap_reg[1] = s.ap_known[0] = s.ap_known[1] = false; return s; };
        ex.canon = obj_canon;
        ex.step = obj_step;
        ex.nontrivial = [](const ObjS& s) { return s.key[0] >= 0 || s.key[1] >= 0; };
        ex.observe = [](const ObjS& s) { return s.obs; };
        if (rp) { *rerr = ex.replay(*rp); return; }
        ok = ex.run();
    }
    R.count("object_history_configurations");
    if (ok && !R.flags.count("depth_bounded")) R.count("object_history_configurations_to_fixpoint");
    R.count("object_history_frames_presented", n_obj_presented);
    R.count("object_history_frames_decrypted", n_obj_decrypted);
    if (index == 0) { std::string al; for (auto& n : WW->names) al += n + " "; R.info["wep_object_alphabet"] = jstr(al); }
    if (index == 4) { std::string al; for (auto& n : OW->names) al += n + " "; R.info["wpa2_object_alphabet"] = jstr(al); }
}


// ================================================================== part 4: ordered pairs (value relations inside one handshake)
// The PTK derivation puts min(AA, SPA) | max(AA, SPA) | min(ANonce, SNonce) | max(ANonce, SNonce), by lexicographic comparison of
// all 6 resp. 32 octets as unsigned values.  Family: nonce pairs that are equal everywhere except at ONE octet position
// p in {0, 1, 15, 16, 17, 30, 31} (values across the sign boundary 7f/80 and at the extremes 00/ff, both orders), pairs differing at
// two positions with contradicting orders (the first difference decides), the equal pair; the same for the (BSSID, station)
// address pair over positions 0..5; full cross product x {CCMP, TKIP} x {Data, QoS Data}.  Per case, on a copy of a decrypter that
// knows passphrase + SSID: beacon of the case's BSSID, handshake generation 1 (the pair as given), data frames under PTK1 in both
// directions; then generation 2 (the relation at the same position REVERSED, fresh other octets) and data frames under PTK2.
struct NoncePair { uint8_t a[32], s[32]; std::string name; };
struct AddrPair { uint8_t aa[6], spa[6]; std::string name; };
static std::vector<NoncePair> nonce_pairs(uint32_t seed) {
    std::vector<NoncePair> v;
    uint8_t base[32];
    uint32_t s = seed;
    for (int i = 0; i < 32; ++i) base[i] = (uint8_t)lcg(s);
    auto mk = [&](const std::string& n) { NoncePair p; memcpy(p.a, base, 32); memcpy(p.s, base, 32); p.name = n; return p; };
    const int pos[] = {0, 1, 15, 16, 17, 30, 31};
    const uint8_t val[2][2] = {{0x7f, 0x80}, {0x00, 0xff}};
    for (int p : pos) for (int vi = 0; vi < 2; ++vi) for (int order = 0; order < 2; ++order) {
        NoncePair np = mk("p" + str(p) + (vi ? "_00ff" : "_7f80") + (order ? "_a>s" : "_a<s"));
        np.a[p] = val[vi][order]; np.s[p] = val[vi][1 - order];
        v.push_back(np);
    }
    // two differences with contradicting orders: the earlier position decides
    const int two[][2] = {{0, 31}, {15, 16}, {16, 31}, {1, 17}};
    for (auto& t : two) for (int order = 0; order < 2; ++order) {
        NoncePair np = mk("p" + str(t[0]) + "vs" + str(t[1]) + (order ? "_a>s" : "_a<s"));
        np.a[t[0]] = order ? 0x80 : 0x7f; np.s[t[0]] = order ? 0x7f : 0x80;
        np.a[t[1]] = order ? 0x00 : 0xff; np.s[t[1]] = order ? 0xff : 0x00;
        v.push_back(np);
    }
    v.push_back(mk("equal"));
    return v;
}
static std::vector<AddrPair> addr_pairs() {
    std::vector<AddrPair> v;
    const uint8_t base[6] = {0x02, 0x1a, 0x90, 0x3c, 0xe4, 0x5e};
    auto mk = [&](const std::string& n) { AddrPair p; memcpy(p.aa, base, 6); memcpy(p.spa, base, 6); p.name = n; return p; };
    for (int q = 0; q < 6; ++q) for (int vi = 0; vi < 2; ++vi) for (int order = 0; order < 2; ++order) {
        // octet 0 keeps the group bit clear (these are individual addresses)
        uint8_t lo = vi ? 0x00 : (q == 0 ? 0x7e : 0x7f), hi = vi ? (q == 0 ? 0xfe : 0xff) : 0x80;
        AddrPair ap = mk("q" + str(q) + (vi ? "_00ff" : "_7f80") + (order ? "_aa>spa" : "_aa<spa"));
        ap.aa[q] = order ? hi : lo; ap.spa[q] = order ? lo : hi;
        v.push_back(ap);
    }
    v.push_back(mk("equal"));
    return v;
}
static std::vector<Bytes> handshake_frames(bool ccmp, bool qos, const uint8_t* aa, const uint8_t* spa, const uint8_t* an, const uint8_t* sn,
                                           const Bytes& ptk, uint64_t rc) {
    const uint8_t snap_eapol[8] = {0xaa, 0xaa, 0x03, 0x00, 0x00, 0x00, 0x88, 0x8e};
    int ver = ccmp ? 2 : 1; uint16_t keylen = ccmp ? 16 : 32;
    Bytes kd; for (int k = 0; k < 24; ++k) kd.push_back(uint8_t(0x30 + k));
    Bytes m[4];
    m[0] = eapol_key(ver, uint16_t(0x0088 | ver), keylen, rc, an, Bytes(), 0);
    m[1] = eapol_key(ver, uint16_t(0x0108 | ver), keylen, rc, sn, kd, &ptk[0]);
    m[2] = eapol_key(ver, uint16_t(0x13c8 | ver), keylen, rc + 1, an, kd, &ptk[0]);
    m[3] = eapol_key(ver, uint16_t(0x0308 | ver), keylen, rc + 1, 0, Bytes(), &ptk[0]);
    std::vector<Bytes> out;
    for (int k = 0; k < 4; ++k) {
        Bytes pl(snap_eapol, snap_eapol + 8);
        pl.insert(pl.end(), m[k].begin(), m[k].end());
        bool to_ds = k == 1 || k == 3;
        out.push_back(data_frame(to_ds ? aa : spa, to_ds ? spa : aa, aa, to_ds, qos, pl, false));
    }
    return out;
}
static Crypto::WPA2Decrypter& pairs_base() {
    static Crypto::WPA2Decrypter* d = 0;
    if (!d) { d = new Crypto::WPA2Decrypter(); d->add_ap_data(PSK, SSID); }
    return *d;
}
static uint64_t n_pair_cases = 0, n_pair_frames = 0, n_pair_events = 0;
static std::string pairs_case_str(bool ccmp, bool qos, int ni, int ai) {
    return "mode=pairs ccmp=" + str((int)ccmp) + " qos=" + str((int)qos) + " npair=" + str(ni) + " apair=" + str(ai);
}
static std::string eval_pairs(bool ccmp, bool qos, int ni, int ai) {
    std::vector<NoncePair> g1 = nonce_pairs(0xA11CEu), g2 = nonce_pairs(0xB0Bu);
    std::vector<AddrPair> aps = addr_pairs();
    if (ni < 0 || ni >= (int)g1.size() || ai < 0 || ai >= (int)aps.size()) return "harness:no-such-pair|";
    const AddrPair& ap = aps[ai];
    const uint8_t peer[6] = {0x00, 0x21, 0x6a, 0x10, 0x20, 0x30};
    Crypto::WPA2Decrypter d(pairs_base());
    std::string site = "pairs:";
    Mon::reset();
    auto feed = [&](const Bytes& f) -> std::string {
        Out o = run_decrypt(d, f);
        ++n_pair_events;
        if (o.ret == 3) return "harness:event-frame-did-not-parse|";
        if (o.ret != 0) return site + "unprotected-frame-reported-decrypted-or-exception|ret=" + str(o.ret) + " " + o.exc;
        return "";
    };
    std::string e = feed(beacon_frame(ap.aa, SSID, true));
    if (!e.empty()) return e;
    Bytes plain = plaintext(30 + (ni % 7), ni);
    for (int gen = 0; gen < 2; ++gen) {
        // generation 2 reverses the relation of generation 1 at the same position (the a<s / a>s variants are neighbours in the list)
        const NoncePair& np = gen == 0 ? g1[ni] : g2[(ni ^ 1) < (int)g2.size() && g1[ni].name != "equal" ? (ni ^ 1) : ni];
        Bytes ptk = c09::ptk512(pmk(), ap.aa, ap.spa, np.a, np.s);
        std::vector<Bytes> hs = handshake_frames(ccmp, qos, ap.aa, ap.spa, np.a, np.s, ptk, gen ? 9 : 1);
        for (size_t k = 0; k < hs.size(); ++k) { e = feed(hs[k]); if (!e.empty()) return e; }
        std::string what = "generation " + str(gen + 1) + " nonces " + np.name + " addresses " + ap.name;
        const Crypto::WPA2Decrypter::keys_map& km = d.get_keys();
        HWAddress<6> a = hw(ap.aa), b = hw(ap.spa);
        Crypto::WPA2Decrypter::keys_map::const_iterator it = km.find(a < b ? std::make_pair(a, b) : std::make_pair(b, a));
        if (it == km.end()) return site + "no-keys-after-valid-handshake|" + what;
        size_t n = ccmp ? 48 : 64;
        if (it->second.get_ptk().size() < n || !std::equal(ptk.begin(), ptk.begin() + n, it->second.get_ptk().begin()))
            return site + "stored-ptk-differs-from-reference|" + what;
        for (int from = 0; from < 2; ++from) {
            Bytes f = protected_data_frame(ccmp ? CCMP : TKIP, qos, !from, ap.spa, ap.aa, peer, ptk, 0x10 + gen * 4 + from, plain);
            Out o = run_decrypt(d, f);
            ++n_pair_frames;
            if (o.ret != 1) return site + "data-frame-not-decrypted|" + what + (from ? " FromDS" : " ToDS") + " ret=" + str(o.ret) + " " + o.exc;
            if (o.prot || !o.snap || o.rec != plain) return site + "decrypted-output-differs-from-plaintext|" + what;
        }
        R.dist("distinct_nontrivial", fnv(ptk.data(), ptk.size()));
    }
    if (Mon::errors) return Mon::first + "|" + Mon::first_detail;
    ++n_pair_cases;
    return "";
}
static const int NPAIRJOBS = 4;    // {CCMP, TKIP} x {Data, QoS Data}
static void run_pairs_job(int k) {
    bool ccmp = (k & 1) == 0, qos = (k & 2) != 0;
    int nn = (int)nonce_pairs(1).size(), na = (int)addr_pairs().size();
    uint64_t idx = 0;
    for (int ni = 0; ni < nn; ++ni)
        for (int ai = 0; ai < na; ++ai) {
            uint64_t my = idx++;
            if (skipped(my)) { R.flags["exhaustive"] = false; continue; }
            if (deadline_reached()) { R.flags["exhaustive"] = false; return; }
            std::string cs = pairs_case_str(ccmp, qos, ni, ai);
            set_case(my, "pairs", cs);
            std::string err;
            try { err = eval_pairs(ccmp, qos, ni, ai); }
            catch (std::exception& e) { err = std::string("exc:") + typeid(e).name() + ":pairs|" + e.what(); }
            record(err, cs);
        }
    R.count("ordered_pair_cases", n_pair_cases); R.count("ordered_pair_data_frames_decrypted", n_pair_frames);
    R.count("ordered_pair_event_frames", n_pair_events);
    R.maxv("ordered_pair_nonce_pairs", nn); R.maxv("ordered_pair_address_pairs", na);
    n_pair_cases = n_pair_frames = n_pair_events = 0;
    if (k == 0) {
        std::string names;
        for (auto& p : nonce_pairs(1)) names += p.name + " ";
        R.info["ordered_nonce_pairs"] = jstr(names);
    }
}

int main(int argc, char** argv) {
    std::string st = c09::selftest();
    if (!st.empty()) { fprintf(stderr, "reference self-test failed: %s\n", st.c_str()); return 2; }
    return run_main(argc, argv, NF + 16 + NOBJ + NPAIRJOBS, NF + 32 + NOBJ + NPAIRJOBS,
        [](int job) {
            int nh = A.thorough() ? 32 : 16;
            if (job < NF) run_frames_job(job);
            else if (job < NF + nh) run_hs(job - NF);
            else if (job < NF + nh + NOBJ) run_obj(job - NF - nh);
            else run_pairs_job(job - NF - nh - NOBJ);
        },
        [](const std::string& kase) -> int {
            auto kv = parse_kv(kase);
            if (kv.count("tier")) A.tier = kv["tier"];
            if (kv["mode"] == "pairs") {
                std::string err;
                try { err = eval_pairs(atoi(kv["ccmp"].c_str()) != 0, atoi(kv["qos"].c_str()) != 0, atoi(kv["npair"].c_str()), atoi(kv["apair"].c_str())); }
                catch (std::exception& e) { err = std::string("exc:") + typeid(e).name() + ":pairs|" + e.what(); }
                if (!err.empty()) { printf("violation reproduced: %s\n", err.c_str()); return 1; }
                printf("case replayed, oracle holds\n");
                return 0;
            }
            if (kv["mode"] == "hs" || kv["mode"] == "obj") {
                std::string err, ops = kv["ops"];
                if (kv["mode"] == "hs") run_hs(atoi(kv["cfg"].c_str()), &ops, &err);
                else run_obj(atoi(kv["cfg"].c_str()), &ops, &err);
                if (!err.empty()) { printf("violation reproduced: %s\n", err.c_str()); return 1; }
                printf("history replayed, all invariants hold\n");
                return 0;
            }
            Case c = case_from(kv);
            Case base = c;
            base.kind = "pos";
            if (c.kind == "hostile") { base.len = 2400; base.pat = 0; }
            Built b = build(base);
            if (c.kind == "hostile") {
                int bad = run_isolated_batch(std::vector<Case>(1, c), b);
                for (auto& kv : R.violations) printf("violation reproduced: %s %s\n", kv.first.c_str(), kv.second.detail.c_str());
                if (bad || !R.violations.empty()) return 1;
                printf("case replayed, oracle holds\n");
                return 0;
            }
            std::string err = eval_any(c, b);
            if (!err.empty()) { printf("violation reproduced: %s\n", err.c_str()); return 1; }
            printf("case replayed, oracle holds\n");
            return 0;
        });
}
