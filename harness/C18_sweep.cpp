// C18 — class sweep workloads over the packet grammar (mc/grammar.hpp: hand-written stacks covering every class and layer
// adjacency + one generated variant per (class, setter) pair of the CURRENT headers, gen/api.inc): a class, field or option
// type added to libtins later is covered without editing this file.  Same instrumentation as libtins.
//   sweep_build_serialize : build every grammar packet through the public API, serialize it
//   sweep_parse_getters   : serialize every grammar packet, parse the bytes back through the root class' buffer constructor,
//                           call EVERY generated getter on every layer (exceptions of libtins are part of the digest), serialize again
// mc/show.hpp's view() is not used: its getter table / per-type cache are lazily filled statics of the harness itself.
// The generated tables expand into a few very large functions: optimising them costs minutes of compile time and buys nothing
// (the instrumentation passes run regardless), so this translation unit is compiled unoptimised.
#pragma clang optimize off
#define MC_NO_IMPL
#include "grammar.hpp"
#include "C18_iface.hpp"

using namespace Tins;

namespace {

struct Dig {
    uint64_t h;
    Dig() : h(1469598103934665603ULL) {}
    void raw(const void* p, size_t n) { const uint8_t* b = static_cast<const uint8_t*>(p); for (size_t i = 0; i < n; ++i) { h ^= b[i]; h *= 1099511628211ULL; } h ^= 0xfe; h *= 1099511628211ULL; }
    void str(const std::string& s) { raw(s.data(), s.size()); }
    void bytes(const mc::Bytes& b) { raw(b.data(), b.size()); }
    void num(uint64_t v) { raw(&v, sizeof v); }
};

bool skip(const mc::Built& b) {
    // RadioTap setter variants: the RadioTap writer has known ordering defects (C11) that are being repaired separately
    return b.own && *b.own == typeid(RadioTap);
}

void getters(const PDU& p, Dig& d) {
#define API_GETTER(Q, T, N, R)                                                                   \
    if (const Q* q = dynamic_cast<const Q*>(&p)) {                                               \
        try { d.str(mc::show(q->N())); }                                                         \
        catch (exception_base& e) { d.str(std::string("!") + typeid(e).name()); }                \
        catch (std::exception& e) { d.str(std::string("!!") + typeid(e).name()); }               \
    }
#include "api.inc"
#undef API_GETTER
}

}  // namespace

namespace c18 {

uint64_t sweep_build_serialize(int scale) {
    Dig d;
    std::vector<mc::Built> g = mc::grammar(scale ? 2 : 1);
    for (size_t i = 0; i < g.size(); ++i) {
        if (skip(g[i])) continue;
        try {
            mc::Bytes out = g[i].pdu->serialize();
            d.bytes(out);
            d.num(g[i].pdu->size());
        } catch (exception_base& e) { d.str(std::string("!") + typeid(e).name()); }
    }
    d.num(g.size());
    return d.h;
}

uint64_t sweep_parse_getters(int scale) {
    Dig d;
    std::vector<mc::Built> g = mc::grammar(scale ? 2 : 1);
    for (size_t i = 0; i < g.size(); ++i) {
        if (skip(g[i])) continue;
        try {
            mc::Bytes wire = g[i].pdu->serialize();
            std::unique_ptr<PDU> back(Internals::pdu_from_flag(g[i].pdu->pdu_type(), wire.data(), (uint32_t)wire.size()));
            if (!back) { d.str("no-entry"); continue; }
            for (const PDU* p = back.get(); p; p = p->inner_pdu()) { d.num((uint64_t)p->pdu_type()); getters(*p, d); }
            d.bytes(back->serialize());
            std::unique_ptr<PDU> copy(back->clone());
            d.num(copy->size());
        } catch (exception_base& e) { d.str(std::string("!") + typeid(e).name()); }
    }
    return d.h;
}

}  // namespace c18
