// C07 — Stream follower tracks connections, directions and lifetimes correctly.
//
// Depth-bounded breadth-first exploration with canonical dedup over the real
// Tins::TCPIP::StreamFollower, in lock-step with a reference connection table.
// A StreamFollower is not safely copyable (every Stream binds its own address into its
// flows' callbacks), so a state is an EVENT HISTORY: every transition re-creates a fresh
// follower and replays history + event through process_packet(Packet&) with explicit
// timestamps (the wall-clock overload process_packet(PDU&) is never used).
//
// One BFS per (configuration, pair of connection templates); plus linear runs at the real
// 512-chunk / 3 MiB limits.
#include "explore.hpp"   // parse_kv + common runtime (mc::Explorer itself is not used: it copies states)
#include <tins/tins.h>
#include <tins/tcp_ip/stream_follower.h>
#include <algorithm>
#include <chrono>
#include <memory>
#include <unordered_set>

using namespace Tins;
using namespace mc;
using Tins::TCPIP::Flow;
using Tins::TCPIP::Stream;
using Tins::TCPIP::StreamFollower;

// ------------------------------------------------------------------------------------------
// alphabet: per connection 13 packet kinds, each with one of 4 time increments
// ------------------------------------------------------------------------------------------
enum Kind { SYN, SYNACK, ACK, CD0, CD1, CD2, SD0, SD1, SD2, CFIN, SFIN, CRST, SRST, NKIND };
static const char* KNAME[NKIND] = {"SYN", "SA", "ACK", "C0", "C1", "C2", "S0", "S1", "S2", "CF", "SF", "CR", "SR"};
static const char DTNAME[4] = {'0', 'h', 'k', 'K'};   // +0, +keep-alive/2, +keep-alive, +keep-alive+1us
static const int NSEG = 3;
// real client's stream: 5 bytes in segments of 1,1,3; real server's stream: 4 bytes in 1,1,2.
// With the scaled limits (2 chunks / 4 bytes): {C2,S2} = 2 chunks, 5 bytes -> byte limit only;
// {C1,S1,S2} = 3 chunks, 4 bytes -> chunk limit only; {C1,C2} = 2 chunks, 4 bytes -> exactly at both limits.
static const int SEG_OFF[2][NSEG] = {{0, 1, 2}, {0, 1, 2}};
static const int SEG_LEN[2][NSEG] = {{1, 1, 3}, {1, 1, 2}};
static const int SLEN[2] = {5, 4};

static int kind_side(int k) { return (k == SYNACK || (k >= SD0 && k <= SD2) || k == SFIN || k == SRST) ? 1 : 0; }
static int kind_seg(int k) { return (k >= CD0 && k <= CD2) ? k - CD0 : (k >= SD0 && k <= SD2) ? k - SD0 : -1; }

// op byte = ((conn * NKIND) + kind) * 4 + dt
static inline int op_conn(uint8_t op) { return (op >> 2) / NKIND; }
static inline int op_kind(uint8_t op) { return (op >> 2) % NKIND; }
static inline int op_dt(uint8_t op) { return op & 3; }
static inline uint8_t mk_op(int conn, int kind, int dt) { return uint8_t(((conn * NKIND) + kind) * 4 + dt); }
// connection index 2 ("x") is the THIRD PARTY: a TCP 4-tuple that belongs to neither connection of the pair and never creates a
// stream (pure ACK; a data segment only while partial following is off).  Its packets only make time pass and drive the idle sweep.
static const int XCONN = 2;
static std::string op_str(uint8_t op) {
    return std::string(1, op_conn(op) == XCONN ? 'x' : char('a' + op_conn(op))) + "." + KNAME[op_kind(op)] + "." + DTNAME[op_dt(op)];
}
static int parse_op(const std::string& s) {
    if (s.size() < 5 || s[1] != '.') return -1;
    int conn = s[0] == 'x' ? XCONN : s[0] - 'a';
    size_t p = s.rfind('.');
    std::string k = s.substr(2, p - 2);
    int kind = -1, dt = -1;
    for (int i = 0; i < NKIND; ++i) if (k == KNAME[i]) kind = i;
    for (int i = 0; i < 4; ++i) if (p + 1 < s.size() && s[p + 1] == DTNAME[i]) dt = i;
    if (conn < 0 || conn > XCONN || kind < 0 || dt < 0) return -1;
    if (conn == XCONN && kind != ACK && kind != CD0) return -1;
    return mk_op(conn, kind, dt);
}
static std::string hist_str(const uint8_t* h, int n) {
    std::string s;
    for (int i = 0; i < n; ++i) { if (i) s += ","; s += op_str(h[i]); }
    return s;
}

// ------------------------------------------------------------------------------------------
// connection templates and configurations
// ------------------------------------------------------------------------------------------
struct Tmpl { bool v6; const char *ca, *sa; uint16_t cp, sp; uint32_t isn[2]; const char* name; };
static const Tmpl TM[] = {
    {false, "1.2.3.4", "2.2.2.2", 1000, 80, {1000u, 5000u}, "v4"},
    {false, "1.2.3.4", "2.2.2.2", 1001, 80, {70000u, 90000u}, "v4-other-client-port"},
    {false, "1.2.3.4", "2.2.2.2", 1000, 81, {0x7ffffffeu, 3u}, "v4-other-server-port"},
    {false, "2.2.2.2", "1.2.3.4", 1000, 80, {123456u, 0xfffffffdu}, "v4-swapped-hosts"},
    {true, "2001:db8::1", "2001:db8::2", 1000, 80, {0xfffffffeu, 777u}, "v6"},
    {true, "102:304::", "202:202::", 1000, 80, {31337u, 4242u}, "v6-zero-padded-v4-bytes"},
    {true, "::ffff:1.2.3.4", "::ffff:2.2.2.2", 1000, 80, {99u, 0x80000000u}, "v6-v4-mapped"},
    // direction can only be told by the ADDRESS (client port == server port) ...
    {false, "10.0.0.1", "10.0.0.2", 5060, 5060, {2000u, 6000u}, "v4-equal-ports"},
    {true, "2001:db8::b", "2001:db8::a", 5060, 5060, {0xffffffffu, 10u}, "v6-equal-ports"},
    // ... or only by the PORT (same host on both sides, loopback style)
    {false, "10.0.0.9", "10.0.0.9", 40000, 8080, {300u, 0xfffffffeu}, "v4-same-host"},
    {true, "2001:db8::9", "2001:db8::9", 1000, 8080, {555u, 8888u}, "v6-same-host"},
};
struct Pair { int a, b; int alias; };   // alias 1: b's addresses are a's v4 bytes zero-padded (known StreamIdentifier aliasing)
static std::vector<Pair> pairs() {
    std::vector<Pair> v;
    for (int a = 0; a < 6; ++a)
        for (int b = a + 1; b < 6; ++b) v.push_back(Pair{a, b, (a == 0 && b == 5) ? 1 : 0});
    v.push_back(Pair{0, 6, 0});
    // appended later (pair indices above are referenced by committed replay files): the base v4 template with each
    // "one-dimensional" template, and the two kinds together per family
    for (int b = 7; b <= 10; ++b) v.push_back(Pair{0, b, 0});
    v.push_back(Pair{7, 9, 0});
    v.push_back(Pair{8, 10, 0});
    return v;
}
static const int NMODE = 4;   // bit0: follow partial streams; bit1: scaled-down buffer limits + explicit 10 s keep-alive

// Flag styles.  The property talks about flags being PRESENT ("initial SYN" = SYN set and ACK clear, "sent FIN", "sent RST"), so the flag
// byte of every packet kind is a small domain, not a constant: each connection of a configuration is built in one of these styles.  The
// reference model never sees the style: its reaction depends on the SYN/ACK/FIN/RST bits only, and the follower must agree.
//   plain      the minimal flag bytes
//   ecn-setup  RFC 3168: SYN|ECE|CWR, SYN|ACK|ECE, ECE echoed on the pure ACK, CWR on data
//   ece, cwr, psh, urg: the opening SYN carries that one extra bit; the other kinds carry other harmless extras (PSH/URG/ECE on the
//              SYN|ACK, data with and without PSH / with URG, FIN|PSH|ACK, FIN|URG|ACK, a bare FIN, RST with ACK/PSH/URG on either side)
struct FlagStyle { const char* name; uint8_t syn, synack, ack, data, fin, crst, srst; };
static const FlagStyle STYLE[] = {
    {"plain", TCP::SYN, TCP::SYN | TCP::ACK, TCP::ACK, TCP::PSH | TCP::ACK, TCP::FIN | TCP::ACK, TCP::RST, TCP::RST | TCP::ACK},
    {"ecn-setup", TCP::SYN | TCP::ECE | TCP::CWR, TCP::SYN | TCP::ACK | TCP::ECE, TCP::ACK | TCP::ECE, TCP::PSH | TCP::ACK | TCP::CWR,
     TCP::FIN | TCP::ACK, TCP::RST, TCP::RST | TCP::ACK},
    {"ece", TCP::SYN | TCP::ECE, TCP::SYN | TCP::ACK | TCP::ECE, TCP::ACK, TCP::ACK | TCP::ECE, TCP::FIN | TCP::PSH | TCP::ACK,
     TCP::RST | TCP::ACK, TCP::RST},
    {"cwr", TCP::SYN | TCP::CWR, TCP::SYN | TCP::ACK | TCP::PSH, TCP::ACK | TCP::CWR, TCP::PSH | TCP::ACK | TCP::CWR, TCP::FIN | TCP::ACK | TCP::URG,
     TCP::RST | TCP::PSH, TCP::RST | TCP::ACK | TCP::URG},
    {"psh", TCP::SYN | TCP::PSH, TCP::SYN | TCP::ACK | TCP::ECE, TCP::ACK | TCP::PSH, TCP::ACK | TCP::URG, TCP::FIN | TCP::PSH | TCP::ACK,
     TCP::RST | TCP::ACK | TCP::PSH, TCP::RST | TCP::ACK},
    {"urg", TCP::SYN | TCP::URG, TCP::SYN | TCP::ACK | TCP::URG, TCP::ACK | TCP::URG, TCP::PSH | TCP::URG | TCP::ACK, TCP::FIN,
     TCP::RST | TCP::URG, TCP::RST | TCP::PSH | TCP::ACK},
};
static const int NSTYLE = 6;

struct Cfg {
    bool partial, scaled;
    int mode, pair, t[2], alias;
    int fl[2];           // flag style of connection a / b
    int64_t ka;          // keep-alive in microseconds
    size_t maxc;         // chunk limit
    uint32_t maxb;       // byte limit
    int64_t dt[4];
};

// resolved endpoints + prebuilt (serialized and re-parsed, as a sniffer would deliver them) packets
struct Conn {
    Tmpl t;
    IPv4Address c4, s4;
    IPv6Address c6, s6;
    std::unique_ptr<PDU> pk[NKIND];
};
static Cfg g_cfg;
static Conn g_conn[3];   // [2] = third party

static uint8_t data_byte(int conn, int side, int pos) { return uint8_t(0x20 + conn * 0x40 + side * 0x20 + pos); }

static PDU* make_packet(const Conn& c, int side, uint8_t flags, uint32_t seq, uint32_t ack, const Bytes& payload) {
    TCP tcp(side == 0 ? c.t.sp : c.t.cp, side == 0 ? c.t.cp : c.t.sp);
    tcp.flags(flags);
    tcp.seq(seq);
    tcp.ack_seq(ack);
    tcp.window(8192);
    EthernetII eth(side == 0 ? "02:00:00:00:00:02" : "02:00:00:00:00:01", side == 0 ? "02:00:00:00:00:01" : "02:00:00:00:00:02");
    if (c.t.v6) {
        IPv6 ip(side == 0 ? c.s6 : c.c6, side == 0 ? c.c6 : c.s6);
        ip.hop_limit(64);
        eth /= ip;
    } else {
        IP ip(side == 0 ? c.s4 : c.c4, side == 0 ? c.c4 : c.s4);
        ip.ttl(64);
        eth /= ip;
    }
    eth /= tcp;
    if (!payload.empty()) eth /= RawPDU(payload);
    Bytes wire = eth.serialize();
    return new EthernetII(wire.data(), (uint32_t)wire.size());
}

static PDU* build_kind(const Conn& c, int conn, int kind, int style = 0) {
    int side = kind_side(kind), seg = kind_seg(kind);
    const uint32_t* isn = c.t.isn;
    const FlagStyle& f = STYLE[style];
    Bytes pl;
    switch (kind) {
    case SYN: return make_packet(c, 0, f.syn, isn[0], 0, pl);
    case SYNACK: return make_packet(c, 1, f.synack, isn[1], isn[0] + 1, pl);
    case ACK: return make_packet(c, 0, f.ack, isn[0] + 1, isn[1] + 1, pl);
    case CFIN: case SFIN: return make_packet(c, side, f.fin, isn[side] + 1 + SLEN[side], isn[1 - side] + 1, pl);
    case CRST: return make_packet(c, 0, f.crst, isn[0] + 1, 0, pl);
    case SRST: return make_packet(c, 1, f.srst, isn[1] + 1, isn[0] + 1, pl);
    default:
        for (int i = 0; i < SEG_LEN[side][seg]; ++i) pl.push_back(data_byte(conn, side, SEG_OFF[side][seg] + i));
        return make_packet(c, side, f.data, isn[side] + 1 + SEG_OFF[side][seg], isn[1 - side] + 1, pl);
    }
}

static void resolve(Conn& c, const Tmpl& t) {
    c.t = t;
    if (t.v6) { c.c6 = IPv6Address(t.ca); c.s6 = IPv6Address(t.sa); }
    else { c.c4 = IPv4Address(t.ca); c.s4 = IPv4Address(t.sa); }
}

static void setup_cfg(int mode, int pair, int fa = 0, int fb = 0) {
    Cfg& c = g_cfg;
    c.mode = mode; c.pair = pair;
    c.fl[0] = fa; c.fl[1] = fb;
    c.partial = mode & 1; c.scaled = mode & 2;
    Pair p = pairs()[pair];
    c.t[0] = p.a; c.t[1] = p.b; c.alias = p.alias;
    if (c.scaled) { c.ka = 10LL * 1000 * 1000; c.maxc = 2; c.maxb = 4; }
    else {
        StreamFollower probe;                  // library defaults (5 min, 512 chunks, 3 MiB) read from the object itself
        c.ka = probe.stream_keep_alive_.count();
        c.maxc = probe.max_buffered_chunks_;
        c.maxb = probe.max_buffered_bytes_;
    }
    c.dt[0] = 0; c.dt[1] = c.ka / 2; c.dt[2] = c.ka; c.dt[3] = c.ka + 1;
    for (int i = 0; i < 2; ++i) {
        resolve(g_conn[i], TM[c.t[i]]);
        for (int k = 0; k < NKIND; ++k) g_conn[i].pk[k].reset(build_kind(g_conn[i], i, k, c.fl[i]));
        // the re-parsed frames must really carry the style's flag bytes (serializer and parser keep all eight bits)
        const FlagStyle& f = STYLE[c.fl[i]];
        const uint8_t want[NKIND] = {f.syn, f.synack, f.ack, f.data, f.data, f.data, f.data, f.data, f.data, f.fin, f.fin, f.crst, f.srst};
        for (int k = 0; k < NKIND; ++k)
            if ((unsigned)g_conn[i].pk[k]->rfind_pdu<TCP>().flags() != want[k])
                R.violation("harness:packet-flags", std::string("packet kind ") + KNAME[k] + " of style " + f.name + " parsed with flags " +
                            str((unsigned)g_conn[i].pk[k]->rfind_pdu<TCP>().flags()) + " instead of " + str((unsigned)want[k]), "");
    }
    static const Tmpl third = {false, "9.9.9.9", "8.8.8.8", 7777, 443, {424242u, 515151u}, "third-party"};
    resolve(g_conn[XCONN], third);
    g_conn[XCONN].pk[ACK].reset(build_kind(g_conn[XCONN], XCONN, ACK));
    g_conn[XCONN].pk[CD0].reset(build_kind(g_conn[XCONN], XCONN, CD0));
}
static std::string cfg_ctx() {
    return "mode=bfs cfgm=" + str(g_cfg.mode) + " pair=" + str(g_cfg.pair) + " fl=" + str(g_cfg.fl[0]) + str(g_cfg.fl[1]);
}
static std::string cfg_desc() {
    return std::string("partial=") + (g_cfg.partial ? "on" : "off") + " limits=" + (g_cfg.scaled ? "2chunks/4bytes ka=10s" : "default") +
           " a=" + TM[g_cfg.t[0]].name + "/" + STYLE[g_cfg.fl[0]].name + " b=" + TM[g_cfg.t[1]].name + "/" + STYLE[g_cfg.fl[1]].name;
}

// ------------------------------------------------------------------------------------------
// reference model: connection table
// ------------------------------------------------------------------------------------------
enum Phase { NONE, UNTRACKED, LIVE, CLOSED, TERMINATED };
struct MConn {
    uint8_t phase, sent_any, syn_started, synack, ack, partial, first_side, gone;
    uint8_t recv[2], base[2], fin[2];   // indexed by REAL side (0 = the template's client)
    int64_t last_seen;
    int prefix(int side) const { int k = base[side]; while (k < NSEG && (recv[side] >> k & 1)) ++k; return k; }
    void buffered(size_t& chunks, uint32_t& bytes) const {
        chunks = 0; bytes = 0;
        for (int s = 0; s < 2; ++s) {
            int k = prefix(s);
            for (int i = k + 1; i < NSEG; ++i) if (recv[s] >> i & 1) { ++chunks; bytes += SEG_LEN[s][i]; }
        }
    }
    std::string expected(int conn, int side) const {   // bytes the application must have been given so far
        std::string o;
        if (phase == NONE || phase == UNTRACKED) return o;
        int k = prefix(side);
        for (int i = base[side]; i < k; ++i)
            for (int j = 0; j < SEG_LEN[side][i]; ++j) o += (char)data_byte(conn, side, SEG_OFF[side][i] + j);
        return o;
    }
};
struct Model {
    MConn c[2];
    int64_t lc, now;
    Model() { memset(this, 0, sizeof *this); }
};

static inline bool partial_start(int kind) { return kind == CD0 || kind == CD1 || kind == SD1; }
static bool enabled(const Model& m, int conn, int kind) {
    // third party: a pure ACK never starts a stream; a data segment does not either while partial following is off (with it on it
    // would attach a third stream: not generated, two streams at a time)
    if (conn == XCONN) return kind == ACK || (kind == CD0 && !g_cfg.partial);
    const MConn& c = m.c[conn];
    int seg = kind_seg(kind);
    switch (c.phase) {
    case CLOSED: case TERMINATED: return false;   // traffic after the connection was forgotten is left open by the docs
    case NONE:
        if (kind == SYN || kind == SYNACK) return true;
        // first packet seen is a data segment: with partial following three representatives (in-order client start, mid-stream client
        // start, mid-stream server start = reversed roles); without it one representative of "missed the start" (must be ignored)
        if (seg >= 0) return g_cfg.partial ? partial_start(kind) : kind == CD0;
        return false;
    case UNTRACKED:
        if (c.gone) return false;
        if (g_cfg.partial) return (seg >= 0 && partial_start(kind)) || (kind == ACK && c.synack && !c.ack);
        return (kind == ACK && !c.ack) || kind == CD0 || kind == SRST;
    default: break;
    }
    if (c.partial) return seg >= 0 || (kind == CFIN && !c.fin[0]) || (kind == SFIN && !c.fin[1]) || kind == CRST || kind == SRST;
    switch (kind) {
    case SYN: return false;                       // a new SYN on a live 4-tuple is left open
    case SYNACK: return !c.synack;
    case ACK: return c.synack && !c.ack;
    case CD0: case CD1: case CD2: return true;    // client ISN is known from the SYN
    case SD0: case SD1: case SD2: return c.synack;
    case CFIN: return c.synack && !c.fin[0];
    case SFIN: return c.synack && !c.fin[1];
    default: return true;                          // RST from either side at any time (incl. refusing the SYN)
    }
}

// callbacks are recorded as one-byte codes: kind(0 new, 1 closed, 2 termination) << 4 | connection(0,1; 3 = unknown 4-tuple) << 2 | reason
static const char* REASON[] = {"TIMEOUT", "BUFFERED_DATA", "SACKED_SEGMENTS", "?"};
enum { CB_NEW = 0, CB_CLOSED = 1, CB_TERM = 2 };
static inline uint8_t cb_code(int kind, int conn, int reason = 0) { return uint8_t(kind << 4 | (conn & 3) << 2 | (reason & 3)); }
static std::string cb_str(uint8_t c) {
    int kind = c >> 4, conn = c >> 2 & 3;
    std::string who = conn == 3 ? "?" : std::string(1, char('a' + conn));
    return kind == CB_NEW ? "new:" + who : kind == CB_CLOSED ? "closed:" + who : "term:" + who + ":" + REASON[c & 3];
}
struct CbList {
    uint8_t v[12]; int n;
    CbList() : n(0) {}
    void clear() { n = 0; }
    void push(uint8_t c) { if (n < 12) v[n++] = c; }
    std::string to_string() const { std::string o; for (int i = 0; i < n; ++i) { if (i) o += ' '; o += cb_str(v[i]); } return o; }
};
struct Pred { CbList cbs; bool boundary; };

static void model_step(Model& m, int conn, int kind, int64_t ts, Pred& p) {
    const Cfg& g = g_cfg;
    p.cbs.clear(); p.boundary = false;
    m.now = ts;
    if (conn == XCONN) goto sweep;   // nobody's packet: nothing but the passage of time
    {
    MConn& c = m.c[conn];
    int side = kind_side(kind), seg = kind_seg(kind);
    bool was_live = c.phase == LIVE;
    if (c.phase == NONE || c.phase == UNTRACKED) {
        if (kind == SYN) { c.phase = LIVE; c.syn_started = 1; c.first_side = 0; p.cbs.push(cb_code(CB_NEW, conn)); }
        else if (g.partial && seg >= 0) {
            c.phase = LIVE; c.partial = 1; c.first_side = (uint8_t)side; c.base[side] = (uint8_t)seg; c.base[1 - side] = 0;
            p.cbs.push(cb_code(CB_NEW, conn));
        } else {
            c.phase = UNTRACKED;
            if (kind == SYNACK) c.synack = 1;
            if (kind == ACK) c.ack = 1;
            if (kind == SRST) c.gone = 1;
        }
    }
    c.sent_any = 1;
    if (c.phase == LIVE) {
        c.last_seen = ts;
        if (was_live) { if (kind == SYNACK) c.synack = 1; if (kind == ACK) c.ack = 1; }
        if (seg >= 0 && seg >= c.base[side]) c.recv[side] |= uint8_t(1 << seg);
        if (kind == CFIN) c.fin[0] = 1;
        if (kind == SFIN) c.fin[1] = 1;
        if (kind == CRST || kind == SRST || (c.fin[0] && c.fin[1])) { p.cbs.push(cb_code(CB_CLOSED, conn)); c.phase = CLOSED; }
        else {
            size_t ch; uint32_t by;
            c.buffered(ch, by);
            if (ch > g.maxc || by > g.maxb) { p.cbs.push(cb_code(CB_TERM, conn, 1)); c.phase = TERMINATED; }
        }
    }
    }
sweep:
    // idle sweep: runs on a processed packet once a keep-alive period has passed since the last sweep
    if (m.lc + g.ka <= ts) {
        if (m.lc + g.ka == ts) p.boundary = true;
        for (int i = 0; i < 2; ++i)
            if (m.c[i].phase == LIVE && m.c[i].last_seen + g.ka <= ts) {
                if (m.c[i].last_seen + g.ka == ts) p.boundary = true;
                p.cbs.push(cb_code(CB_TERM, i, 0));
                m.c[i].phase = TERMINATED;
            }
        m.lc = ts;
    }
}

// Relative times enter the canonical state as REGIONS.  Every timestamp is a sum of increments from {0, ka/2, ka, ka+1us}, so an
// age x = now - t has the form a*(ka/2) + c with 0 <= c <= history length (microseconds).  The follower looks at ages only through
// threshold tests  t + ka <= ts  (or, in a mutated build, <)  with ts = now + (a further sum of increments), i.e.  a + a' >= 2  resp.
// a + a' > 2 || (a + a' == 2 && c + c' > 0).  Ages with equal (min(a,2), c > 0), and all ages >= ka+1, therefore have equal futures.
static int age_region(int64_t x) {
    const int64_t h = g_cfg.ka / 2;
    static int raw = getenv("C07_RAWTIME") ? 1 : 0;
    if (raw) return (int)(x % 1000000007);
    if (x < 0) return 9;                 // cannot happen (time never runs backwards); kept distinct
    if (x >= g_cfg.ka + 1) return 5;
    return int(x / h) * 2 + (x % h ? 1 : 0);   // 0,1 | 2,3 | 4 (x == ka)
}
static void canon_model(const Model& m, std::string& o) {
    char b[160];
    for (int i = 0; i < 2; ++i) {
        const MConn& c = m.c[i];
        if (c.phase == CLOSED || c.phase == TERMINATED) { o += c.phase == CLOSED ? "[closed]" : "[term]"; continue; }
        snprintf(b, sizeof b, "[%d%d%d%d%d%d%d%d r%x.%x b%d.%d f%d%d ls%lld]", c.phase, c.sent_any, c.syn_started, c.synack, c.ack, c.partial,
                 c.first_side, c.gone, c.recv[0], c.recv[1], c.base[0], c.base[1], c.fin[0], c.fin[1],
                 c.phase == LIVE ? (long long)age_region(m.now - c.last_seen) : 0LL);
        o += b;
    }
    snprintf(b, sizeof b, "lc%d", age_region(m.now - m.lc));
    o += b;
}

// ------------------------------------------------------------------------------------------
// observation of the implementation
// ------------------------------------------------------------------------------------------
struct Obs {
    CbList cbs;                        // callbacks during the current event
    std::string delivered[2][2];       // [conn][real side] all bytes handed to the data callbacks
    std::string trace;                 // whole-history callback trace (for distinct-trace counting / replay printing)
    std::string problem;               // identity problems noticed inside callbacks
};
static Obs* g_obs = 0;

// which template connection, and in which orientation (0: template client is the stream's client), does this Stream claim to be?
static bool match_stream(const Stream& s, int& idx, int& orient) {
    for (int i = 0; i < 2; ++i) {
        const Conn& c = g_conn[i];
        if (s.is_v6() != c.t.v6) continue;
        bool fwd, rev;
        if (c.t.v6) {
            fwd = s.client_addr_v6() == c.c6 && s.server_addr_v6() == c.s6 && s.client_port() == c.t.cp && s.server_port() == c.t.sp;
            rev = s.client_addr_v6() == c.s6 && s.server_addr_v6() == c.c6 && s.client_port() == c.t.sp && s.server_port() == c.t.cp;
        } else {
            fwd = s.client_addr_v4() == c.c4 && s.server_addr_v4() == c.s4 && s.client_port() == c.t.cp && s.server_port() == c.t.sp;
            rev = s.client_addr_v4() == c.s4 && s.server_addr_v4() == c.c4 && s.client_port() == c.t.sp && s.server_port() == c.t.cp;
        }
        if (fwd || rev) { idx = i; orient = fwd ? 0 : 1; return true; }
    }
    return false;
}
static void check_identity(const Stream& s, int idx, int orient, const char* where) {
    int i2 = -1, o2 = -1;
    if (!match_stream(s, i2, o2) || i2 != idx || o2 != orient)
        if (g_obs->problem.empty()) g_obs->problem = std::string("follower:callback:stream-identity|") + where + " callback got a stream with another 4-tuple than the one announced";
}

static void on_new_stream(Stream& s) {
    int idx = -1, orient = 0;
    if (!match_stream(s, idx, orient)) { g_obs->cbs.push(cb_code(CB_NEW, 3)); return; }
    g_obs->cbs.push(cb_code(CB_NEW, idx));
    s.client_data_callback([idx, orient](Stream& st) {
        check_identity(st, idx, orient, "client-data");
        g_obs->delivered[idx][orient].append(st.client_payload().begin(), st.client_payload().end());
    });
    s.server_data_callback([idx, orient](Stream& st) {
        check_identity(st, idx, orient, "server-data");
        g_obs->delivered[idx][1 - orient].append(st.server_payload().begin(), st.server_payload().end());
    });
    s.stream_closed_callback([idx, orient](Stream& st) {
        check_identity(st, idx, orient, "stream-closed");
        g_obs->cbs.push(cb_code(CB_CLOSED, idx));
    });
}
static void on_termination(Stream& s, StreamFollower::TerminationReason r) {
    int idx = -1, orient = 0;
    int rs = (int)r >= 0 && (int)r < 3 ? (int)r : 3;
    if (!match_stream(s, idx, orient)) { g_obs->cbs.push(cb_code(CB_TERM, 3, rs)); return; }
    g_obs->cbs.push(cb_code(CB_TERM, idx, rs));
}

static void canon_impl(StreamFollower& f, int64_t now, std::string& o) {
    char b[256];
    for (auto& kv : f.streams_) {
        const TCPIP::StreamIdentifier& id = kv.first;
        Stream& s = kv.second;
        o += "{" + hex(id.min_address.data(), 16) + ":" + str(id.min_address_port) + "-" + hex(id.max_address.data(), 16) + ":" + str(id.max_address_port);
        snprintf(b, sizeof b, " p%d ls%lld", (int)s.is_partial_stream_, (long long)age_region(now - s.last_seen_.count()));
        o += b;
        Flow* fl[2] = {&s.client_flow_, &s.server_flow_};
        for (int i = 0; i < 2; ++i) {
            Flow& w = *fl[i];
            snprintf(b, sizeof b, " <st%d v%d dp%u seq%u tb%u pl%zu ig%d:", (int)w.state_, (int)w.flags_.is_v6, (unsigned)w.dest_port_,
                     (unsigned)w.data_tracker_.seq_number_, (unsigned)w.data_tracker_.total_buffered_bytes_, w.data_tracker_.payload_.size(),
                     (int)w.flags_.ignore_data_packets);
            o += b;
            o += hex(w.dest_address_.data(), w.flags_.is_v6 ? 16 : 4);   // a v4 flow leaves the other 12 bytes uninitialised (never read by libtins)
            for (auto& ch : w.data_tracker_.buffered_payload_) { snprintf(b, sizeof b, " %u+%zu", (unsigned)ch.first, ch.second.size()); o += b; }
            o += ">";
        }
        o += "}";
    }
    snprintf(b, sizeof b, "lc%d", age_region(now - f.last_cleanup_.count()));
    o += b;
}

// compare predicted and observed callback multisets of one event; "" when equal
static std::string diff_callbacks(CbList exp, CbList got, bool boundary) {
    std::sort(exp.v, exp.v + exp.n);
    std::sort(got.v, got.v + got.n);
    if (exp.n == got.n && memcmp(exp.v, got.v, exp.n) == 0) return "";
    std::string all = "expected [" + exp.to_string() + "] got [" + got.to_string() + "]";
    int ce[256] = {0}, cg[256] = {0};
    for (int i = 0; i < exp.n; ++i) ce[exp.v[i]]++;
    for (int i = 0; i < got.n; ++i) cg[got.v[i]]++;
    for (int code = 0; code < 256; ++code) {
        if (ce[code] == cg[code]) continue;
        int kind = code >> 4;
        std::string site = kind == CB_NEW ? "new-stream" : kind == CB_CLOSED ? "stream-closed" : "termination";
        std::string what = cg[code] < ce[code] ? "missing" : ce[code] == 0 ? "unexpected" : "duplicate";
        std::string sig = "follower:" + site + ":" + what;
        if ((code >> 2 & 3) == 3) sig = "follower:" + site + ":unknown-4-tuple";
        if (kind == CB_TERM) {
            sig += std::string(":") + REASON[code & 3];
            if (boundary && (code & 3) == 0) sig += ":idle-equals-keep-alive";
        }
        return sig + "|" + all;
    }
    return "follower:callbacks:differ|" + all;
}

static Stream* do_find(StreamFollower& f, int conn) {
    const Conn& c = g_conn[conn];
    try {
        if (c.t.v6) return &f.find_stream(c.c6, c.t.cp, c.s6, c.t.sp);
        return &f.find_stream(c.c4, c.t.cp, c.s4, c.t.sp);
    } catch (stream_not_found&) { return 0; }
}

// all state-based checks after one event
static std::string check_state(StreamFollower& f, const Model& m, const Obs& obs) {
    if (!obs.problem.empty()) return obs.problem;
    size_t live = 0;
    for (int i = 0; i < 2; ++i) {
        const MConn& c = m.c[i];
        if (c.phase == LIVE) ++live;
        for (int side = 0; side < 2; ++side) {
            std::string want = c.expected(i, side);
            const std::string& got = obs.delivered[i][side];
            if (got == want) continue;
            std::string who = std::string("connection ") + char('a' + i) + (side ? " server" : " client") + " bytes: delivered " + hex((const uint8_t*)got.data(), got.size()) +
                              " expected " + hex((const uint8_t*)want.data(), want.size());
            if (got.size() < want.size() && want.compare(0, got.size(), got) == 0) return "follower:data:delivery-late|" + who;
            if (got.size() > want.size() && got.compare(0, want.size(), want) == 0) {
                bool own = true;   // are the extra bytes this direction's own stream bytes (too early / duplicated) or foreign ones (misrouted)?
                for (size_t k = want.size(); k < got.size(); ++k) { uint8_t v = (uint8_t)got[k]; if (v < data_byte(i, side, 0) || v >= data_byte(i, side, 0) + SLEN[side]) own = false; }
                return std::string(own ? "follower:data:delivered-too-much|" : "follower:data:misrouted|") + who;
            }
            return "follower:data:wrong-bytes|" + who;
        }
        // (an empty table cannot answer: skip the throwing lookup for connections that are not live then)
        Stream* s = (c.phase == LIVE || !f.streams_.empty()) ? do_find(f, i) : 0;
        if (c.phase == LIVE) {
            if (!s) return std::string("follower:find-stream:not-found|connection ") + char('a' + i) + " is live but find_stream throws stream_not_found";
            int idx = -1, orient = -1;
            if (!match_stream(*s, idx, orient) || idx != i || orient != c.first_side)
                return std::string("follower:find-stream:wrong-stream|find_stream for connection ") + char('a' + i) + " returned a stream with another 4-tuple/orientation";
            if (s->is_partial_stream() != (bool)c.partial) return "follower:find-stream:partial-flag|is_partial_stream() wrong";
            size_t ch; uint32_t by;
            c.buffered(ch, by);
            size_t ich = s->client_flow().buffered_payload().size() + s->server_flow().buffered_payload().size();
            uint32_t iby = s->client_flow().total_buffered_bytes() + s->server_flow().total_buffered_bytes();
            if (ich > g_cfg.maxc || iby > g_cfg.maxb)
                return "follower:buffer:over-limit|live stream holds " + str(ich) + " chunks / " + str(iby) + " bytes, limits " + str(g_cfg.maxc) + " / " + str(g_cfg.maxb);
            if (ich != ch || iby != by)
                return "follower:buffer:count-mismatch|stream holds " + str(ich) + " chunks / " + str(iby) + " bytes, out-of-order segments received: " + str(ch) + " / " + str(by);
        } else if (s) {
            return std::string("follower:find-stream:found-") + (c.phase == NONE || c.phase == UNTRACKED ? "never-followed" : "forgotten") +
                   "|find_stream succeeds for connection " + char('a' + i) + " which the follower must not hold (phase " + str((int)c.phase) + ")";
        }
    }
    if (f.streams_.size() != live) return "follower:streams:count|follower holds " + str(f.streams_.size()) + " streams, " + str(live) + " connections are live";
    return "";
}

// ------------------------------------------------------------------------------------------
// replay of one history on a fresh follower (the only way a state is ever produced)
// ------------------------------------------------------------------------------------------
static std::string g_canon, g_err, g_trace;   // pre-reserved: filled without allocating (allocation ledger stays exact)
// "find_stream answers for a connection the follower does not hold" leaves follower and model in a consistent state: it is reported,
// but exploration continues behind it (so that e.g. the swallowed SYN of an aliased connection is reported as well)
static std::string g_soft;
static bool is_soft(const std::string& e) { return e.compare(0, 27, "follower:find-stream:found-") == 0; }
static Model g_model_after;
static bool g_verbose = false;

static void run_history_inner(const uint8_t* ops, int n, int check_from) {
    StreamFollower f;
    Obs obs;
    g_obs = &obs;
    f.new_stream_callback(&on_new_stream);
    f.stream_termination_callback(&on_termination);
    f.follow_partial_streams(g_cfg.partial);
    if (g_cfg.scaled) {
        f.max_buffered_chunks_ = g_cfg.maxc;      // no public setter exists
        f.max_buffered_bytes_ = g_cfg.maxb;
        f.stream_keep_alive(std::chrono::microseconds(g_cfg.ka));
    }
    Model m;
    Pred pred;
    int64_t now = 0;
    for (int i = 0; i < n; ++i) {
        int conn = op_conn(ops[i]), kind = op_kind(ops[i]);
        if (!enabled(m, conn, kind)) { g_err.assign("harness:disabled-op|op " + op_str(ops[i]) + " is not enabled at position " + str(i)); return; }
        now += g_cfg.dt[op_dt(ops[i])];
        obs.cbs.clear();
        std::string err;
        Mon::reset();
        try {
            Packet pkt(*g_conn[conn].pk[kind], Timestamp(std::chrono::microseconds(now)));
            f.process_packet(pkt);
        } catch (std::exception& e) { err = std::string("follower:exception:") + typeid(e).name() + "|" + e.what(); }
        catch (...) { err = "follower:exception:unknown|"; }
        model_step(m, conn, kind, now, pred);
        if (err.empty() && Mon::errors) err = Mon::first + "|" + Mon::first_detail;
        if (err.empty()) err = diff_callbacks(pred.cbs, obs.cbs, pred.boundary);
        if (g_verbose)
            printf("  %-9s t=%-12lld callbacks: [%s]   streams=%zu\n", op_str(ops[i]).c_str(), (long long)now, obs.cbs.to_string().c_str(), f.streams_.size());
        if (err.empty() && i >= check_from) {
            err = check_state(f, m, obs);
            if (is_soft(err)) {
                if (g_verbose) printf("  ^^ %s\n", err.c_str());
                if (g_soft.empty()) g_soft.assign(err + " [at " + op_str(ops[i]) + "]");
                err.clear();
            }
        }
        for (int k = 0; k < obs.cbs.n; ++k) obs.trace += char('A' + obs.cbs.v[k]);
        obs.trace += ';';
        if (!err.empty()) {
            if (i + 1 < n) err = "harness:replay-divergence|prefix event " + str(i) + " (" + op_str(ops[i]) + ") fails on replay: " + err;
            g_err.assign(err + " [at " + op_str(ops[i]) + "]");
            return;
        }
    }
    g_canon.clear();
    canon_impl(f, now, g_canon);
    g_canon += "#";
    canon_model(m, g_canon);
    g_trace.assign(obs.trace);
    g_model_after = m;
}

static bool g_ledger_warm = false;
// returns "" or "signature|detail"; on success g_canon / g_trace / g_model_after describe the reached state
static const std::string& run_history(const uint8_t* ops, int n, int check_from = 0) {
    g_err.clear(); g_soft.clear();
    long before = live_allocs();
    run_history_inner(ops, n, check_from);
    g_obs = 0;
    long after = live_allocs();
    if (g_err.empty() && after != before && g_ledger_warm)
        g_err.assign("follower:memory:blocks-left-after-destruction|" + str(after - before) + " heap blocks still live after the follower and all packets were destroyed");
    g_ledger_warm = true;
    return g_err;
}

// model-only replay (cheap) to learn which events are enabled in a stored state
static Model model_of(const uint8_t* ops, int n) {
    Model m; Pred p; int64_t now = 0;
    for (int i = 0; i < n; ++i) { now += g_cfg.dt[op_dt(ops[i])]; model_step(m, op_conn(ops[i]), op_kind(ops[i]), now, p); }
    return m;
}

// human-readable form of the per-event callback trace ("A;E;;" -> "[new:a] [new:b] [] []")
static std::string trace_str(const std::string& t) {
    std::string o = "[";
    for (char ch : t) {
        if (ch == ';') { o += "] ["; continue; }
        if (o[o.size() - 1] != '[') o += ' ';
        o += cb_str(uint8_t(ch - 'A'));
    }
    return o.size() >= 2 ? o.substr(0, o.size() - 2) : o;
}
struct Key { uint64_t a, b; bool operator==(const Key& o) const { return a == o.a && b == o.b; } };
struct KeyHash { size_t operator()(const Key& k) const { return (size_t)(k.a ^ (k.b * 0x9e3779b97f4a7c15ULL)); } };
static Key key_of(const std::string& s) { return Key{fnv(s), fnv(s, 0x84222325cbf29ce4ULL)}; }

static bool nontrivial(const Model& m) {
    if (m.c[0].phase == LIVE && m.c[1].phase == LIVE) return true;   // two streams to demultiplex
    for (int i = 0; i < 2; ++i) if (m.c[i].phase == LIVE) { size_t ch; uint32_t by; m.c[i].buffered(ch, by); if (ch) return true; }
    return false;
}

// Alphabet profiles.  The full product (13 packet kinds x 4 time increments per connection) grows too fast to reach the depths
// at which three out-of-order segments per direction, both FINs and a sweep fit into one history, so next to the FULL alphabet
// (explored to a smaller depth) two sub-alphabets are explored deeper: DATA (every packet kind, time stands still: no sweeps)
// and TIME (every time increment, one data segment per direction: no reordering).
struct Profile { const char* name; uint16_t kinds, xkinds; uint8_t dts; int depth[2][2][2]; /* [san|fast stage][quick|thorough][partial following off|on] */ };
static const uint16_t ALLK = (1u << NKIND) - 1;
static const uint16_t TIMEK = ALLK & ~(1u << CD1 | 1u << CD2 | 1u << SD1 | 1u << SD2);
// third-party kinds in the alphabets that have time increments: TIME has both, FULL the pure ACK only (without partial following
// the two take the same path through the follower; the data segment is the one that must not attach a stream there)
static const uint16_t XK = 1u << ACK | 1u << CD0;
// Depths are sized from measurements (transitions per level; the sanitizer build executes ~25 k, the plain -O2 build ~140 k transitions
// per second and core).  TIME reaches its fixpoint at depth 15 (13 before the third-party events existed), DATA without partial following at depth 21: bounds above those
// mean "to fixpoint".
static const Profile PROF[] = {
    {"full", ALLK, 1u << ACK, 0xF, {{{5, 4}, {6, 4}}, {{7, 5}, {8, 6}}}},
    {"data", ALLK, 0, 0x1, {{{7, 5}, {9, 6}}, {{10, 7}, {24, 9}}}},
    {"time", TIMEK, XK, 0xF, {{{6, 6}, {7, 7}}, {{20, 20}, {20, 20}}}},
};
static const int NPROF = 3;
static bool g_fast_stage = false;

static int target_depth(int prof, bool partial) {
    if (getenv("C07_DEPTH")) return atoi(getenv("C07_DEPTH"));
    return PROF[prof].depth[g_fast_stage ? 1 : 0][A.thorough() ? 1 : 0][partial ? 1 : 0];
}

static void run_bfs(int prof, int mode, int pair, int fa, int fb) {
    setup_cfg(mode, pair, fa, fb);
    const Profile& P = PROF[prof];
    const std::string ctx = cfg_ctx() + " prof=" + P.name;
    const std::string sfx = g_cfg.alias ? ":v4v6-zero-padded-alias" : "";
    const int D = target_depth(prof, g_cfg.partial);
    std::unordered_set<Key, KeyHash> seen;
    std::vector<uint8_t> cur, next;   // flat arrays of histories of equal length
    uint64_t idx = 0;
    // warm-up (lazy one-time allocations inside libraries must not count as leaks) + root state
    run_history(0, 0);
    run_history(0, 0);
    seen.insert(key_of(g_canon));
    R.count("states");
    size_t ncur = 1;
    int completed = 0;
    bool cut = false, violated = false;
    uint64_t dist_budget = 1500;   // the distinct-sets are samples (evidence size); the counters count everything
    for (int d = 0; d < D && ncur && !cut; ++d) {
        next.clear();
        std::vector<uint8_t> h(d + 1);
        for (size_t ni = 0; ni < ncur && !cut; ++ni) {
            if ((ni & 63) == 0 && deadline_reached()) { cut = true; break; }
            const uint8_t* base = d ? &cur[ni * d] : 0;
            if (d) memcpy(h.data(), base, d);
            Model m = model_of(base, d);
            for (int conn = 0; conn <= XCONN; ++conn)
                for (int kind = 0; kind < NKIND; ++kind) {
                    if (!((conn == XCONN ? P.xkinds : P.kinds) >> kind & 1) || !enabled(m, conn, kind)) continue;
                    for (int dt = 0; dt < 4; ++dt) {
                        if (!(P.dts >> dt & 1)) continue;
                        h[d] = mk_op(conn, kind, dt);
                        uint64_t my = idx++;
                        if (A.skip && my + 1 == A.skip) continue;   // the case that crashed the previous incarnation of this job
                        std::string kase = ctx + " ops=" + hist_str(h.data(), d + 1);
                        set_case(my, ctx, kase);
                        const std::string& err = run_history(h.data(), d + 1, d);   // the prefix was fully checked when it was the last event
                        R.count("transitions");
                        R.count("traces_validated_against_impl");
                        if (!g_soft.empty()) {
                            size_t bar = g_soft.find('|');
                            violated = true;
                            R.violation(g_soft.substr(0, bar) + sfx, g_soft.substr(bar + 1) + "  {" + cfg_desc() + "}", kase);
                        }
                        if (!err.empty()) {
                            size_t bar = err.find('|');
                            std::string sig = err.substr(0, bar);
                            if (sig.compare(0, 8, "harness:") != 0) sig += sfx;
                            violated = true;
                            R.violation(sig, (bar == std::string::npos ? "" : err.substr(bar + 1)) + "  {" + cfg_desc() + "}", kase);
                            continue;   // do not expand past a violating transition
                        }
                        if (getenv("C07_DUMP")) fprintf(stderr, "CANON %s || %s\n", kase.c_str(), g_canon.c_str());
                        if (seen.insert(key_of(g_canon)).second) {
                            R.count("states");
                            next.insert(next.end(), h.begin(), h.end());
                            bool nt = nontrivial(g_model_after);
                            if (nt) R.count("nontrivial_states");
                            if (dist_budget) {
                                --dist_budget;
                                if (nt) R.dist("distinct_nontrivial", fnv(ctx + g_canon));
                                R.dist("distinct_callback_traces", fnv(g_trace));
                            }
                            if (R.samples.size() < R.max_samples && (R.counters["states"] % 4099) == 7)
                                R.sample(jstr(kase + "  => " + trace_str(g_trace)));
                        }
                    }
                }
        }
        if (getenv("C07_DEBUG")) fprintf(stderr, "%s depth %d: new states %zu, total %zu, transitions %llu, t=%.1fs\n", ctx.c_str(), d + 1, next.size() / (d + 1), seen.size(), (unsigned long long)R.counters["transitions"], now() - g_t0);
        if (!cut) { completed = d + 1; cur.swap(next); ncur = cur.size() / (d + 1); R.maxv("max_depth", d + 1); }
    }
    int fix_depth = completed;
    if (ncur == 0 && !cut) { completed = D; if (!violated) R.count("configurations_to_fixpoint"); }
    if (violated) R.count("configurations_cut_by_violations");
    R.count("configurations");
    {
        std::string tag = std::string(P.name) + (g_cfg.partial ? "_partial" : "_nopartial") + (g_fast_stage ? "_plain" : "_san");
        R.maxv("depth_bound_" + tag, D);                 // a bound above the fixpoint depth means: explored to fixpoint
        R.maxv("max_depth_deficit", D - completed);      // 0 = every job completed its bound (or reached its fixpoint)
        if (ncur == 0 && !cut && !violated) R.maxv("fixpoint_depth_" + tag, (uint64_t)fix_depth);
    }
    R.flags["depth_bounded"] = true;
    if (completed < D) { R.flags["exhaustive"] = false; R.flags["target_depth_completed"] = false; }
    else R.flags["target_depth_completed"] = true;
}

// ------------------------------------------------------------------------------------------
// linear (non-branching) runs at the real limits: 512 chunks / 3 MiB
// ------------------------------------------------------------------------------------------
static const int NLINEAR = 6;
static std::string run_linear(int variant, bool verbose) {
    // variant 0: v4, 513 one-byte out-of-order client segments; 1: v6, 513 alternating client/server; 2: v4, byte limit with 65000-byte
    // segments; 3: partial stream, 513 out-of-order segments; 4: 512 chunks (exactly the limit) then the missing first byte: everything is
    // delivered, nothing is terminated, FIN/FIN closes; 5: as 0 but the 513 chunks arrive highest-first.
    setup_cfg(variant == 3 ? 1 : 0, 0);   // default limits; the connection used is set up below (g_conn[1] never matches)
    Conn c;
    resolve(c, variant == 1 ? TM[4] : TM[0]);
    g_conn[0].t = c.t; g_conn[0].c4 = c.c4; g_conn[0].s4 = c.s4; g_conn[0].c6 = c.c6; g_conn[0].s6 = c.s6;   // match_stream() looks at g_conn[0]
    const size_t maxc = g_cfg.maxc; const uint32_t maxb = g_cfg.maxb;
    if (maxc != 512 || maxb != 3u * 1024 * 1024) return "follower:limits:defaults-changed|default limits are " + str(maxc) + " chunks / " + str(maxb) + " bytes";
    std::string err;
    long before = live_allocs();
    uint64_t events = 0;
    {
        StreamFollower f;
        Obs obs; g_obs = &obs;
        f.new_stream_callback(&on_new_stream);
        f.stream_termination_callback(&on_termination);
        f.follow_partial_streams(variant == 3);
        int64_t now = 1700000000LL * 1000000;
        size_t chunks = 0; uint64_t bytes = 0;
        bool dead = false, announced = false;
        int nterm = 0;
        auto feed = [&](PDU* p, const CbList& expect, const std::string& what) {
            std::unique_ptr<PDU> own(p);
            now += 1000;
            obs.cbs.clear();
            Mon::reset();
            try { Packet pkt(*p, Timestamp(std::chrono::microseconds(now))); f.process_packet(pkt); }
            catch (std::exception& e) { if (err.empty()) err = std::string("follower:exception:") + typeid(e).name() + "|" + e.what(); }
            ++events;
            if (err.empty() && Mon::errors) err = Mon::first + "|" + Mon::first_detail;
            if (err.empty()) { err = diff_callbacks(expect, obs.cbs, false); if (!err.empty()) err += " at " + what; }
            if (verbose && obs.cbs.n) printf("  %s: [%s]\n", what.c_str(), obs.cbs.to_string().c_str());
        };
        const uint32_t* isn = c.t.isn;
        if (variant != 3) {
            CbList e1; e1.push(cb_code(CB_NEW, 0));
            feed(make_packet(c, 0, TCP::SYN, isn[0], 0, Bytes()), e1, "SYN");
            feed(make_packet(c, 1, TCP::SYN | TCP::ACK, isn[1], isn[0] + 1, Bytes()), CbList(), "SYN+ACK");
            announced = true;
        }
        int total = variant == 2 ? 60 : variant == 4 ? 512 : 513;
        uint32_t seglen = variant == 2 ? 65000 : 1;
        for (int j = 0; j < total && err.empty() && !dead; ++j) {
            int i = variant == 5 ? total - 1 - j : j;
            int side = variant == 1 ? (i & 1) : 0;
            uint32_t off = 1 + (uint32_t)i * seglen;      // offset 0 never arrives: everything is out of order
            Bytes pl(seglen, uint8_t(i));
            CbList expect;
            if (!announced) {   // partial: the first data packet announces the stream and is in order by definition; later ones skip a byte
                expect.push(cb_code(CB_NEW, 0)); announced = true;
                feed(make_packet(c, 0, TCP::PSH | TCP::ACK, isn[0] + 1, isn[1] + 1, Bytes(1, 0xAA)), expect, "first data (partial)");
                expect.clear();
                off += 1;
            } else if (variant == 3) off += 1;
            ++chunks; bytes += seglen;
            if (chunks > maxc || bytes > maxb) { expect.push(cb_code(CB_TERM, 0, 1)); dead = true; ++nterm; }
            feed(make_packet(c, side, TCP::PSH | TCP::ACK, isn[side] + 1 + off, isn[1 - side] + 1, pl), expect, "segment " + str(i));
            if (err.empty()) {
                Stream* s = 0;
                try { s = c.t.v6 ? &f.find_stream(c.c6, c.t.cp, c.s6, c.t.sp) : &f.find_stream(c.c4, c.t.cp, c.s4, c.t.sp); } catch (stream_not_found&) {}
                if (dead && s) err = "follower:find-stream:found-forgotten|stream still found after BUFFERED_DATA termination";
                if (!dead && !s) err = "follower:find-stream:not-found|stream lost after " + str(chunks) + " buffered chunks";
                if (s) {
                    size_t ich = s->client_flow().buffered_payload().size() + s->server_flow().buffered_payload().size();
                    uint64_t iby = (uint64_t)s->client_flow().total_buffered_bytes() + s->server_flow().total_buffered_bytes();
                    if (ich != chunks || iby != bytes) err = "follower:buffer:count-mismatch|holds " + str(ich) + "/" + str(iby) + " expected " + str(chunks) + "/" + str(bytes);
                }
            }
        }
        if (err.empty() && variant == 2 && !dead) err = "follower:termination:missing:BUFFERED_DATA|byte limit never triggered";
        if (err.empty() && variant == 4) {
            // the missing first byte arrives: all 513 bytes must be delivered in order, stream stays, then FIN/FIN closes it
            feed(make_packet(c, 0, TCP::PSH | TCP::ACK, isn[0] + 1, isn[1] + 1, Bytes(1, 0xEE)), CbList(), "gap filler");
            if (err.empty()) {
                const std::string& d = obs.delivered[0][0];
                bool ok = d.size() == 513 && (uint8_t)d[0] == 0xEE;
                for (size_t k = 1; ok && k < d.size(); ++k) ok = (uint8_t)d[k] == uint8_t(k - 1);
                if (!ok) err = "follower:data:wrong-bytes|after filling the gap below 512 buffered chunks, delivered " + str(d.size()) + " bytes (expected 513 in order)";
            }
            CbList ec; ec.push(cb_code(CB_CLOSED, 0));
            if (err.empty()) feed(make_packet(c, 0, TCP::FIN | TCP::ACK, isn[0] + 1 + 513, isn[1] + 1, Bytes()), CbList(), "client FIN");
            if (err.empty()) feed(make_packet(c, 1, TCP::FIN | TCP::ACK, isn[1] + 1, isn[0] + 1 + 513, Bytes()), ec, "server FIN");
            dead = true;
        }
        if (err.empty() && !obs.problem.empty()) err = obs.problem;
        if (err.empty() && variant != 4 && (!obs.delivered[0][0].empty() && variant != 3)) err = "follower:data:delivered-too-much|out-of-order bytes were delivered";
        if (err.empty() && dead && !f.streams_.empty()) err = "follower:streams:count|stream table not empty after termination";
        g_obs = 0;
    }
    R.count("linear_events", events);
    if (err.empty() && live_allocs() != before) err = "follower:memory:blocks-left-after-destruction|" + str(live_allocs() - before) + " blocks";
    return err;
}

// ------------------------------------------------------------------------------------------
int main(int argc, char** argv) {
    g_canon.reserve(1 << 16); g_err.reserve(1 << 14); g_trace.reserve(1 << 14); g_soft.reserve(1 << 14);
    for (int i = 1; i + 1 < argc; ++i) if (std::string(argv[i]) == "--stage") g_fast_stage = std::string(argv[i + 1]) == "fast";
    bool thorough = false;
    for (int i = 1; i + 1 < argc; ++i) if (std::string(argv[i]) == "--tier") thorough = std::string(argv[i + 1]) == "thorough";
    // pairs explored by this stage
    std::vector<int> jp;
    // (thorough: all 22 in both stages; quick: the 10 pairs containing the base template 0, in the sanitizer stage also one pair of every
    //  other relation: other-client-port/swapped-hosts, v6/v6, equal-ports/same-host per family)
    for (int i = 0; i < (int)pairs().size(); ++i) {
        Pair p = pairs()[i];
        bool extra = (p.a == 1 && p.b == 3) || (p.a == 4 && p.b == 5) || (p.a == 7 && p.b == 9) || (p.a == 8 && p.b == 10);
        if (thorough || p.a == 0 || (!g_fast_stage && extra)) jp.push_back(i);
    }
    // Jobs.  (1) every pair of this stage x configuration x profile: connection a in the plain flag style, connection b in style
    // (pair index mod 6), so that every style meets several pair relations at no extra cost.  (2) flag families: on the base pair
    // (v4, v4-other-client-port) - thorough also (v4, v6) - both connections in non-plain styles (s, s+1): quick s = ecn-setup and psh
    // (i.e. styles ecn-setup/ece and psh/urg; plain-build stage, FULL and DATA alphabets), thorough every s in both stages and all alphabets.
    struct Job { int prof, mode, pair, fa, fb; };
    std::vector<Job> jobs;
    static const int mode_order[NMODE] = {3, 1, 2, 0};   // heaviest first (partial-stream modes)
    for (int prof = 0; prof < NPROF; ++prof)
        for (int mi = 0; mi < NMODE; ++mi) {
            for (int pi : jp) jobs.push_back(Job{prof, mode_order[mi], pi, 0, pi % NSTYLE});
            for (int s = 1; s < NSTYLE; ++s) {
                // quick tier: two families, in the deep plain-build stage, FULL and DATA alphabets (TIME's packet kinds are a subset of FULL's)
                if (!thorough && ((s != 1 && s != 4) || !g_fast_stage || prof == 2)) continue;
                int s2 = s % (NSTYLE - 1) + 1;
                jobs.push_back(Job{prof, mode_order[mi], 0, s, s2});
                if (thorough) jobs.push_back(Job{prof, mode_order[mi], 3, s, s2});
            }
        }
    int nbfs = (int)jobs.size();
    return run_main(argc, argv, nbfs + 1, nbfs + 1,
        [nbfs, jobs](int job) {
            if (job < nbfs) {
                const Job& j = jobs[job];
                run_bfs(j.prof, j.mode, j.pair, j.fa, j.fb);
                return;
            }
            if (g_fast_stage) return;   // the linear runs belong to the sanitizer stage
            for (int v = 0; v < NLINEAR; ++v) {
                std::string kase = "mode=linear variant=" + str(v);
                set_case(v, "mode=linear", kase);
                run_linear(v, false);   // warm-up for the allocation ledger
                std::string err = run_linear(v, false);
                R.count("linear_runs");
                if (!err.empty()) { size_t bar = err.find('|'); R.violation(err.substr(0, bar), bar == std::string::npos ? "" : err.substr(bar + 1), kase); }
            }
        },
        [](const std::string& kase) -> int {
            auto kv = parse_kv(kase);
            std::string err;
            if (kv["mode"] == "linear") {
                int v = atoi(kv["variant"].c_str());
                run_linear(v, false);
                err = run_linear(v, true);
            } else {
                std::string fl = kv.count("fl") && kv["fl"].size() == 2 ? kv["fl"] : "00";   // cases recorded before flag styles existed: plain
                int fa = fl[0] - '0', fb = fl[1] - '0';
                if (fa < 0 || fa >= NSTYLE || fb < 0 || fb >= NSTYLE) { printf("bad fl\n"); return 2; }
                setup_cfg(atoi(kv["cfgm"].c_str()), atoi(kv["pair"].c_str()), fa, fb);
                printf("configuration: %s\n", cfg_desc().c_str());
                std::vector<uint8_t> ops;
                std::string s = kv["ops"];
                size_t p = 0;
                while (p < s.size()) {
                    size_t q = s.find(',', p);
                    if (q == std::string::npos) q = s.size();
                    int op = parse_op(s.substr(p, q - p));
                    if (op < 0) { printf("bad op '%s'\n", s.substr(p, q - p).c_str()); return 2; }
                    ops.push_back((uint8_t)op);
                    p = q + 1;
                }
                run_history(0, 0);
                g_verbose = true;
                err = run_history(ops.data(), (int)ops.size());     // every event fully checked; stops at the first hard violation
                if (err.empty()) err = g_soft;
            }
            if (!err.empty()) { printf("violation reproduced: %s\n", err.c_str()); return 1; }
            printf("history replayed, all invariants hold\n");
            return 0;
        });
}
