// C11 — RadioTap fields can be set in any order and read back.
// BFS to fixpoint over (real RadioTap object, copied per state) x (model: field -> last written value).
// Alphabet: the 14 field setters of the property with value v1 (and v2 for the fields in `v2mask`); flags, whose value
// steers serializer and parser (FCS trailer, FAILED_FCS), with one value per steering-bit combination in both tiers.
// Roots: default-constructed header, parsed header with an empty present word, parsed header with a
// mid-subset of fields; every root carries a 10-byte 802.11 ACK frame as inner PDU.
// Oracle on every transition: options_payload_ == canonical layout computed by the writer below (own
// size/alignment table from radiotap.org, offsets relative to the start of the RadioTap header; same size,
// present word and field bytes at the same offsets, gap content not judged), present() == set of written
// fields, every getter == last write | field_not_present, serialize(): it_len == header bytes, serialized
// header == options_payload_, inner frame behind it; RadioTap(serialize()) gives the same values and the
// same inner frame; no sanitizer report (checked by the explorer after every transition).
#include "explore.hpp"
#include <tins/tins.h>
#include <tins/radiotap.h>
#include <tins/dot11/dot11_control.h>

using namespace Tins;
using namespace mc;

// ---------------------------------------------------------------- field table (radiotap.org "defined fields")
struct FieldDef { const char* name; int bit; int size; int align; };
static const int NF = 14;
static const FieldDef F[NF] = {
    {"tsft", 0, 8, 8},        {"flags", 1, 1, 1},     {"rate", 2, 1, 1},       {"channel", 3, 4, 2},
    {"dbm_signal", 5, 1, 1},  {"dbm_noise", 6, 1, 1}, {"signal_quality", 7, 2, 2}, {"antenna", 11, 1, 1},
    {"db_signal", 12, 1, 1},  {"rx_flags", 14, 2, 2}, {"tx_flags", 15, 2, 2},  {"data_retries", 17, 1, 1},
    {"xchannel", 18, 8, 4},   {"mcs", 19, 3, 1}};
enum { K_TSFT, K_FLAGS, K_RATE, K_CHANNEL, K_DBM_SIGNAL, K_DBM_NOISE, K_SIGQ, K_ANTENNA, K_DB_SIGNAL, K_RX_FLAGS,
       K_TX_FLAGS, K_DATA_RETRIES, K_XCHANNEL, K_MCS };

// Raw little-endian images of the values (low `size` bytes are the wire bytes of the field).
//   [0] = value carried by parsed roots, [1] = v1, [2] = v2.  Bytes are pairwise different inside a value set so that
//   a shifted or swapped field cannot go unnoticed.
//   FLAGS is the one field whose VALUE steers serializer and parser (FCS 0x10: serialize() appends a 4-byte FCS trailer behind
//   the inner frame and RadioTap(buffer) strips it; FAILED_FCS 0x40 together with FCS: RadioTap(buffer) rejects the frame, which
//   is documented behaviour of the parser).  It therefore gets one value per steering-bit combination in BOTH tiers:
//   v1 = 0x12 (FCS), v2 = 0x0a (plain), v3 = 0x42 (FAILED_FCS without FCS: a legal value that must round-trip), thorough adds
//   v4 = 0xc5 (FAILED_FCS with other bits, no FCS).  FCS|FAILED_FCS stays out (documented rejection).
//   signal_quality: the setter's parameter is uint8_t, so only values <= 0xff can be requested.
static const int FLAGS_VALUES_QUICK = 3, FLAGS_VALUES_THOROUGH = 4;
static const uint64_t VAL[NF][5] = {
    {0xa1a2a3a4a5a6a7a8ULL, 0x0102030405060708ULL, 0xf1f2f3f4f5f6f7f8ULL},  // tsft
    {0x02, 0x12, 0x0a, 0x42, 0xc5},                                         // flags
    {0x6c, 0x16, 0x0b},                                                     // rate
    {0x04801388ULL, 0x00c00985ULL, 0x0140143cULL},                          // channel: freq | type << 16
    {0xb5, 0xd3, 0xc4},                                                     // dbm_signal (int8)
    {0xa0, 0x9b, 0x91},                                                     // dbm_noise  (int8)
    {0x31, 0x4e, 0x5f},                                                     // signal_quality (lock quality, 16 bit on the wire)
    {0x03, 0x21, 0x07},                                                     // antenna
    {0x2a, 0x37, 0x3d},                                                     // db_signal
    {0x0102, 0x7172, 0x8182},                                               // rx_flags
    {0x0304, 0x7374, 0x8384},                                               // tx_flags
    {0x09, 0x55, 0x66},                                                     // data_retries
    {0x0f24138800000140ULL, 0x1e951a2b3c4d5e6fULL, 0x2d9516a7b8c9dae0ULL},  // xchannel: flags | freq<<32 | chan<<48 | pwr<<56
    {0x070407, 0x0b1317, 0x0f1c27}};                                        // mcs: known | flags<<8 | mcs<<16

struct Model {
    uint32_t mask = 0;      // bit k: field F[k] was written (or was present in the parsed root)
    uint64_t val[NF];
    Model() { for (int k = 0; k < NF; ++k) val[k] = 0; }
};

// the harness' own writer: present word + fields in bit order, each at its naturally aligned offset counted from
// the start of the RadioTap header (8 bytes: version, pad, length, present), zero padding in the gaps
static Bytes layout(const Model& m, std::vector<bool>* is_pad = 0) {
    Bytes b(4, 0);
    if (is_pad) is_pad->assign(4, false);
    uint32_t present = 0;
    size_t pos = 8;
    for (int k = 0; k < NF; ++k) {
        if (!(m.mask >> k & 1)) continue;
        present |= 1u << F[k].bit;
        while (pos % F[k].align) { b.push_back(0); ++pos; if (is_pad) is_pad->push_back(true); }
        for (int j = 0; j < F[k].size; ++j) { b.push_back(uint8_t(m.val[k] >> (8 * j))); if (is_pad) is_pad->push_back(false); }
        pos += F[k].size;
    }
    for (int j = 0; j < 4; ++j) b[j] = uint8_t(present >> (8 * j));
    return b;
}
// same size, same present word, same field bytes at the same offsets; the content of alignment gaps is not judged
// (the statement fixes where fields are, not what the gaps hold; libtins and the canonical writer both use zeros)
static bool same_layout(const Bytes& got, const Bytes& want, const std::vector<bool>& is_pad) {
    if (got.size() != want.size()) return false;
    for (size_t i = 0; i < want.size(); ++i) if (!is_pad[i] && got[i] != want[i]) return false;
    return true;
}
static uint32_t present_of(const Model& m) {
    uint32_t p = 0;
    for (int k = 0; k < NF; ++k) if (m.mask >> k & 1) p |= 1u << F[k].bit;
    return p;
}

static const uint8_t ACK[10] = {0xd4, 0x00, 0x00, 0x00, 0x00, 0x1b, 0x2c, 0x3d, 0x4e, 0x5f};

// ---------------------------------------------------------------- typed access to the real object
static void set_field(RadioTap& r, int k, uint64_t v) {
    switch (k) {
        case K_TSFT: r.tsft(v); break;
        case K_FLAGS: r.flags((RadioTap::FrameFlags)(uint8_t)v); break;
        case K_RATE: r.rate((uint8_t)v); break;
        case K_CHANNEL: r.channel((uint16_t)v, (uint16_t)(v >> 16)); break;
        case K_DBM_SIGNAL: r.dbm_signal((int8_t)(uint8_t)v); break;
        case K_DBM_NOISE: r.dbm_noise((int8_t)(uint8_t)v); break;
        case K_SIGQ: r.signal_quality((uint8_t)v); break;
        case K_ANTENNA: r.antenna((uint8_t)v); break;
        case K_DB_SIGNAL: r.db_signal((uint8_t)v); break;
        case K_RX_FLAGS: r.rx_flags((uint16_t)v); break;
        case K_TX_FLAGS: r.tx_flags((uint16_t)v); break;
        case K_DATA_RETRIES: r.data_retries((uint8_t)v); break;
        case K_XCHANNEL: {
            RadioTap::xchannel_type x;
            x.flags = (uint32_t)v; x.frequency = (uint16_t)(v >> 32); x.channel = (uint8_t)(v >> 48); x.max_power = (uint8_t)(v >> 56);
            r.xchannel(x);
            break;
        }
        case K_MCS: {
            RadioTap::mcs_type x;
            x.known = (uint8_t)v; x.flags = (uint8_t)(v >> 8); x.mcs = (uint8_t)(v >> 16);
            r.mcs(x);
            break;
        }
    }
}
// false = the getter reported field_not_present; any other exception is recorded in g_getter_exc (and true is returned)
static std::string g_getter_exc;
static bool get_field(const RadioTap& r, int k, uint64_t& v) {
    g_getter_exc.clear();
    try {
        switch (k) {
            case K_TSFT: v = r.tsft(); break;
            case K_FLAGS: v = (uint8_t)r.flags(); break;
            case K_RATE: v = r.rate(); break;
            case K_CHANNEL: { uint64_t f = r.channel_freq(); uint64_t t = r.channel_type(); v = f | t << 16; break; }
            case K_DBM_SIGNAL: v = (uint8_t)r.dbm_signal(); break;
            case K_DBM_NOISE: v = (uint8_t)r.dbm_noise(); break;
            case K_SIGQ: v = r.signal_quality(); break;
            case K_ANTENNA: v = r.antenna(); break;
            case K_DB_SIGNAL: v = r.db_signal(); break;
            case K_RX_FLAGS: v = r.rx_flags(); break;
            case K_TX_FLAGS: v = r.tx_flags(); break;
            case K_DATA_RETRIES: v = r.data_retries(); break;
            case K_XCHANNEL: {
                RadioTap::xchannel_type x = r.xchannel();
                v = (uint64_t)x.flags | (uint64_t)x.frequency << 32 | (uint64_t)x.channel << 48 | (uint64_t)x.max_power << 56;
                break;
            }
            case K_MCS: { RadioTap::mcs_type x = r.mcs(); v = (uint64_t)x.known | (uint64_t)x.flags << 8 | (uint64_t)x.mcs << 16; break; }
        }
    } catch (field_not_present&) { return false; }
    catch (std::exception& e) { g_getter_exc = typeid(e).name(); v = ~0ULL; }
    return true;
}
static std::string hx(uint64_t v) { char b[24]; snprintf(b, sizeof b, "%llx", (unsigned long long)v); return b; }

// ---------------------------------------------------------------- state, ops
struct S { RadioTap rt; Model m; };
struct Op { int k; int vi; };
static std::string op_str(const Op& o) { return std::string(F[o.k].name) + ":" + str(o.vi); }

static uint64_t g_getter_comparisons = 0, g_reparses = 0, g_targeted_reads = 0;

// one read of one field, judged against the model at that moment ("" = agrees)
static std::string read_vs_model(const RadioTap& r, const Model& m, int k, const char* where, const char* suffix = "") {
    uint64_t v = 0;
    bool has = get_field(r, k, v);
    bool want = m.mask >> k & 1;
    if (g_getter_exc.empty() && has == want && (!want || v == m.val[k])) return "";
    std::string P = std::string("radiotap:") + where + ":" + F[k].name + suffix;
    if (!g_getter_exc.empty())
        return P + ":throws|getter threw " + g_getter_exc + (want ? ", last write " + hx(m.val[k]) : ", field never set (field_not_present expected)");
    if (want && !has) return P + ":set-but-not-present|getter threw field_not_present, model " + hx(m.val[k]);
    if (!want && has) return P + ":never-set-but-readable|getter returned " + hx(v) + " for a field that was never set";
    if (want && v != m.val[k]) return P + ":wrong-value|getter returned " + hx(v) + ", last write " + hx(m.val[k]);
    return "";
}
static std::string getters_vs_model(const RadioTap& r, const Model& m, const char* where) {
    for (int k = 0; k < NF; ++k) {
        std::string e = read_vs_model(r, m, k, where);
        if (!e.empty()) return e;
        ++g_getter_comparisons;
    }
    return "";
}

static uint64_t field_value(const Op& op);
static void apply_model(Model& m, const Op& op) { m.mask |= 1u << op.k; m.val[op.k] = field_value(op); }

// ---- getter calls are part of the history -------------------------------------------------------------------------
// (a) per state: on ONE copy of the state a walk of 210 reads in which every ordered pair (F1, F2) of the 14 fields, F1 == F2
//     included, occurs as two consecutive reads (i i j i j' i ... for every i and every j > i); every single read is judged
static std::string probe_read_pairs(const S& s) {
    RadioTap c(s.rt);
    int prev = -1;
    for (int i = 0; i < NF; ++i)
        for (int step = 0; step < 2 + 2 * (NF - 1 - i); ++step) {
            int f = step < 2 || step % 2 == 1 ? i : i + step / 2;
            std::string e = read_vs_model(c, s.m, f, "get-get");
            if (!e.empty()) return e + " [read after " + (prev < 0 ? "nothing" : F[prev].name) + "]";
            prev = f;
            ++g_targeted_reads;
        }
    return "";
}
// (b) per transition (state, set(G, v)): for every field F that is present afterwards (every F present before, and G itself):
//     on a fresh copy of the state   get(F); set(G, v); get(F)   with nothing in between, both reads judged against the model
//     of their moment (G absent = insertion in front of / behind F, G present = overwrite, F == G = read-own-write)
static std::string probe_get_set_get(const S& s, const Op& op) {
    Model after = s.m;
    apply_model(after, op);
    for (int f = 0; f < NF; ++f) {
        if (!(after.mask >> f & 1)) continue;
        RadioTap c(s.rt);
        std::string e = read_vs_model(c, s.m, f, "get-set-get", ":before");
        if (e.empty()) {
            set_field(c, op.k, field_value(op));
            e = read_vs_model(c, after, f, "get-set-get");
        }
        if (!e.empty()) return e + " [get(" + F[f].name + "); " + op_str(op) + "; get(" + F[f].name + ")]";
        g_targeted_reads += 2;
    }
    return "";
}

// ---- cheap part of the oracle, evaluated on EVERY transition of every job: canonical layout (private member, no library call)
static std::string check_layout(const S& s, const Op& op, Bytes& want) {
    std::vector<bool> is_pad;
    want = layout(s.m, &is_pad);
    if (!same_layout(s.rt.options_payload_, want, is_pad))
        return std::string("radiotap:layout:") + F[op.k].name + "|options_payload_ " + hex(s.rt.options_payload_) + " canonical " + hex(want);
    return "";
}

// ---- wire round trip of one packet shape:  0 = header + 802.11 ACK frame, 1 = the header alone (no inner PDU),
//      2 = header + zero-length RawPDU.  size() == serialization length == header + inner + trailer (4 iff flags has FCS).
static const char* SHAPES[] = {"ack", "bare", "empty-raw"};
static const bool HEADER_ONLY_MUST_PARSE = true;
static std::string flags_str(const Model& m) { return (m.mask >> K_FLAGS & 1) ? hx(m.val[K_FLAGS]) : std::string("absent"); }
static std::string wire_round_trip(const RadioTap& base, const Model& m, const Bytes& actual, int shape) {
    RadioTap p(base);
    if (shape == 0) p.inner_pdu(Dot11Ack(Dot11::address_type(ACK + 4)));
    else if (shape == 2) p.inner_pdu(RawPDU((const uint8_t*)"", 0));
    const size_t inner = shape == 0 ? sizeof ACK : 0;
    const size_t hdr = 4 + actual.size();
    const bool fcs = (m.mask >> K_FLAGS & 1) && (m.val[K_FLAGS] & 0x10);
    const size_t trailer = fcs ? 4 : 0;
    #define SH (std::string(" [shape ") + SHAPES[shape] + ", flags " + flags_str(m) + "]")
    Bytes w = p.serialize();
    if (w.size() != hdr + inner + trailer)
        return "radiotap:serialize:size|" + str(w.size()) + " bytes for a " + str(hdr) + "-byte header + " + str(inner) + "-byte frame + " + str(trailer) + "-byte FCS trailer" + SH;
    if (p.size() != w.size()) return "radiotap:serialize:size()|size()=" + str(p.size()) + " serialization " + str(w.size()) + " bytes" + SH;
    if (p.trailer_size() != trailer) return "radiotap:serialize:trailer_size|trailer_size()=" + str(p.trailer_size()) + " model " + str(trailer) + SH;
    size_t it_len = w[2] | w[3] << 8;
    if (it_len != hdr) return "radiotap:serialize:length-field|it_len=" + str(it_len) + " header bytes " + str(hdr) + SH;
    if (p.header_size() != hdr) return "radiotap:serialize:header_size|header_size()=" + str(p.header_size()) + " header bytes " + str(hdr) + SH;
    if (memcmp(&w[4], actual.data(), actual.size()) != 0)
        return "radiotap:serialize:header-image|" + hex(w.data(), hdr) + " options_payload_ " + hex(actual) + SH;
    if (inner && memcmp(&w[hdr], ACK, sizeof ACK) != 0) return "radiotap:serialize:inner-frame|" + hex(&w[hdr], sizeof ACK) + SH;
    // parsing the bytes gives the same values (and the same inner frame, where there is one)
    Bytes* exact = new Bytes(w);  // exactly-sized heap copy: one byte past the end is a redzone
    std::string err;
    try {
        RadioTap q(exact->data(), (uint32_t)exact->size());
        if (q.options_payload_ != actual) err = "radiotap:reparse:payload|" + hex(q.options_payload_) + " serialized " + hex(actual) + SH;
        if (err.empty() && (uint32_t)q.present() != present_of(m)) err = "radiotap:reparse:present|" + hx((uint32_t)q.present()) + SH;
        if (err.empty()) { err = getters_vs_model(q, m, "reparse"); if (!err.empty()) err += SH; }
        if (err.empty()) {
            const PDU* in = q.inner_pdu();
            if (shape == 0) {
                if (!in) err = "radiotap:reparse:inner-missing|no inner PDU after parsing " + hex(w) + SH;
                else if (in->pdu_type() != PDU::DOT11_ACK) err = "radiotap:reparse:inner-type|pdu_type " + str((int)in->pdu_type()) + SH;
                else {
                    Bytes ib = q.inner_pdu()->serialize();
                    if (ib.size() != sizeof ACK || memcmp(ib.data(), ACK, sizeof ACK) != 0) err = "radiotap:reparse:inner-bytes|" + hex(ib) + SH;
                }
            } else if (in && in->size() != 0) err = "radiotap:reparse:inner-invented|" + str(in->size()) + "-byte inner PDU after parsing a header without payload" + SH;
        }
    } catch (exception_base& ex) {
        // the header alone with nothing behind it (no inner PDU, no FCS trailer: exactly it_len bytes) gets its own signature:
        // notes/C11.md, finding H1.  HEADER_ONLY_MUST_PARSE = false turns exactly that case into "malformed_packet is acceptable".
        const bool header_only = inner == 0 && trailer == 0;
        const char* sig = header_only ? "radiotap:reparse:header-only-rejected" : "radiotap:reparse:rejected";
        if (HEADER_ONLY_MUST_PARSE || !header_only || !dynamic_cast<malformed_packet*>(&ex))
            err = std::string(sig) + "|RadioTap(serialize()) threw " + typeid(ex).name() + " on " + hex(w) + SH;
    }
    delete exact;
    ++g_reparses;
    return err;
    #undef SH
}

// ---- full oracle of a transition; every read happens on a copy, so the explored objects themselves only ever see setters
static std::string check_full(const S& s, const Bytes& want) {
    const Model& m = s.m;
    RadioTap t(s.rt);
    const Bytes actual = s.rt.options_payload_;
    if (t.options_payload() != actual) return "radiotap:layout:accessor|options_payload() differs from the member";
    uint32_t pres = (uint32_t)t.present();
    if (pres != present_of(m)) return "radiotap:present:mask|present()=" + hx(pres) + " written fields " + hx(present_of(m));
    std::string e = getters_vs_model(t, m, "getter");
    if (!e.empty()) return e;
    for (int shape = 0; shape < 3; ++shape) {
        e = wire_round_trip(s.rt, m, actual, shape);
        if (!e.empty()) return e;
    }
    (void)want;
    return "";
}

// ---------------------------------------------------------------- roots
static const char* ROOTS[] = {"default", "empty", "mid"};
static const int NROOTS = 3;
// fields present in the parsed mid-subset root (mixed alignments, two padding gaps): rate, channel, dbm_noise, db_signal, tx_flags, xchannel
static const uint32_t MID_MASK = 1u << K_RATE | 1u << K_CHANNEL | 1u << K_DBM_NOISE | 1u << K_DB_SIGNAL | 1u << K_TX_FLAGS | 1u << K_XCHANNEL;

static S parsed_root(uint32_t mask) {
    Model m;
    m.mask = mask;
    for (int k = 0; k < NF; ++k) if (mask >> k & 1) m.val[k] = VAL[k][0] & (F[k].size == 8 ? ~0ULL : ((1ULL << (8 * F[k].size)) - 1));
    Bytes pay = layout(m);
    Bytes* buf = new Bytes();
    size_t hdr = 4 + pay.size();
    buf->push_back(0); buf->push_back(0); buf->push_back(uint8_t(hdr)); buf->push_back(uint8_t(hdr >> 8));
    buf->insert(buf->end(), pay.begin(), pay.end());
    buf->insert(buf->end(), ACK, ACK + sizeof ACK);
    S s{RadioTap(buf->data(), (uint32_t)buf->size()), m};
    delete buf;
    s.rt.inner_pdu((PDU*)0);   // explored objects are bare headers; the wire round trip attaches the inner PDU of each shape to a copy
    return s;
}
static S make_root(int root) {
    if (root == 0) {
        // RadioTap::RadioTap() sets channel(2412, 0xa0), flags(FCS), tsft(0), dbm_signal(-50), rx_flags(0), antenna(0)
        Model m;
        m.mask = 1u << K_TSFT | 1u << K_FLAGS | 1u << K_CHANNEL | 1u << K_DBM_SIGNAL | 1u << K_ANTENNA | 1u << K_RX_FLAGS;
        m.val[K_TSFT] = 0; m.val[K_FLAGS] = 0x10; m.val[K_CHANNEL] = 2412u | 0xa0u << 16; m.val[K_DBM_SIGNAL] = (uint8_t)(int8_t)-50;
        m.val[K_ANTENNA] = 0; m.val[K_RX_FLAGS] = 0;
        return S{RadioTap(), m};
    }
    return parsed_root(root == 1 ? 0 : MID_MASK);
}

// ---------------------------------------------------------------- exploration
static bool g_stop = false, g_replay_mode = false;
static uint64_t g_last_idx = (uint64_t)-1, g_next_idx = 0;
static const size_t CRASH_CAP = 4;
// Work split: every job of a (root, value set) configuration runs the SAME BFS (setter + canonical-layout check on every
// transition, so all of them prune identically), but the expensive part of the oracle (read probes, getters, three wire round
// trips) is evaluated only for the source states the job owns: hash(state key) % g_slices == g_slice.  Every (state, setter)
// transition is therefore judged by the full oracle in exactly one job.
static int g_slices = 1, g_slice = 0;
static uint64_t g_owned_states = 0, g_owned_transitions = 0;
static uint64_t g_probed_src = 0; static bool g_have_probed_src = false;

static uint64_t field_value(const Op& op) { return VAL[op.k][op.vi] & (F[op.k].size == 8 ? ~0ULL : ((1ULL << (8 * F[op.k].size)) - 1)); }
static uint64_t state_hash(const S& s) {
    uint64_t h = fnv(s.rt.options_payload_.data(), s.rt.options_payload_.size());
    h = fnv(&s.m.mask, sizeof s.m.mask, h);
    return fnv(s.m.val, sizeof s.m.val, h);
}
static bool owns(const S& s) { return g_replay_mode || state_hash(s) % (uint64_t)g_slices == (uint64_t)g_slice; }

static void configure(Explorer<S, Op>& ex, int root, uint32_t v2mask, int flags_values) {
    for (int vi = 1; vi <= FLAGS_VALUES_THOROUGH; ++vi)
        for (int k = 0; k < NF; ++k) {
            int nv = k == K_FLAGS ? flags_values : 1 + (v2mask >> k & 1);
            if (vi <= nv) ex.alphabet.push_back(Op{k, vi});
        }
    ex.context = std::string("root=") + ROOTS[root] + " v2mask=" + hx(v2mask) + " nflags=" + str(flags_values) + " slice=" + str(g_slice) + "/" + str(g_slices);
    ex.op_str = op_str;
    ex.replay_check = g_slice == 0;   // the hidden-state re-play of every new state's history is the same in every slice: once is enough
    ex.init = [root]() { return make_root(root); };
    ex.canon = [](const S& s) {
        std::string c = hex(s.rt.options_payload_) + "|" + hx(s.m.mask);
        for (int k = 0; k < NF; ++k) if (s.m.mask >> k & 1) c += "," + hx(s.m.val[k]);
        return c;
    };
    // A transition that kills the process is attributed by the driver and skipped by the explorer on the next attempt
    // (--skip-list).  Every attempt repeats the whole prefix, so after CRASH_CAP crashes the job stops right behind the last
    // one and reports the explored prefix (exhaustive:false).
    ex.enabled = [](const S&, const Op&) {
        if (g_stop) return false;
        if (A.skip_list.size() >= CRASH_CAP && g_next_idx > *A.skip_list.rbegin()) {
            g_stop = true;
            R.flags["exhaustive"] = false;
            R.flags["stopped_after_crash_cap"] = true;
            return false;
        }
        ++g_next_idx;
        return true;
    };
    ex.step = [](S& s, const Op& op) -> std::string {
        bool bfs_step = g_case_index != g_last_idx;   // the explorer announces every BFS transition with a new index; re-plays reuse it
        g_last_idx = g_case_index;
        const bool judged = (bfs_step || g_replay_mode) && owns(s);
        if (judged) {
            // targeted reads first (on copies of the source state), the read-all of check_full comes afterwards and on a copy
            uint64_t h = state_hash(s);
            if (!g_have_probed_src || h != g_probed_src || g_replay_mode) {
                g_have_probed_src = true; g_probed_src = h;
                std::string e = probe_read_pairs(s);
                if (Mon::errors && e.empty()) e = Mon::first + "|" + Mon::first_detail;
                if (!e.empty()) return e;
            }
            std::string e;
            try { e = probe_get_set_get(s, op); }
            catch (std::exception& ex) { e = std::string("radiotap:setter-throws:") + F[op.k].name + "|" + typeid(ex).name() + ": " + ex.what(); }
            if (Mon::errors && e.empty()) e = Mon::first + "|" + Mon::first_detail;
            if (!e.empty()) return e;
        }
        try { set_field(s.rt, op.k, field_value(op)); }
        catch (std::exception& e) { return std::string("radiotap:setter-throws:") + F[op.k].name + "|" + typeid(e).name() + ": " + e.what(); }
        apply_model(s.m, op);
        if (Mon::errors) return Mon::first + "|" + Mon::first_detail;
        // the explorer's re-play of a new state's history on a fresh object only compares canonical keys:
        // the oracle was already evaluated on the BFS transition with the same (state, op)
        if (!bfs_step && !g_replay_mode) return "";
        Bytes want;
        std::string e = check_layout(s, op, want);
        if (!e.empty() || !judged) return e;
        ++g_owned_transitions;
        return check_full(s, want);
    };
    // non-trivial: at least one padding gap in the canonical layout (alignment matters in this state)
    ex.nontrivial = [](const S& s) {
        if (owns(s)) ++g_owned_states;    // called once per newly discovered state
        size_t raw = 4;
        for (int k = 0; k < NF; ++k) if (s.m.mask >> k & 1) raw += F[k].size;
        return s.rt.options_payload_.size() > raw;
    };
    ex.observe = [](const S& s) {
        RadioTap c(s.rt);                 // reads never touch the explored object
        std::string o;
        for (int k = 0; k < NF; ++k) { uint64_t v = 0; o += get_field(c, k, v) ? hx(v) + ";" : "-;"; }
        return o;
    };
}

// Configurations.  Quick: the three roots, v1 everywhere, flags with its 3 steering values.  The default and the mid root carry six
// fields each with root values != v1, so quick already overwrites 11 of the 14 fields with a different value in every context.
// Thorough: (a) the three roots with a second value for the three fields no root carries (signal_quality, data_retries, mcs) and
// flags with 4 values; (b) from the empty root a second value for the other ten fields, four/four/two at a time, flags with 3 values.
struct Config { int root; uint32_t v2; int nflags; };
static const uint32_t V2_NOROOT = 1u << K_SIGQ | 1u << K_DATA_RETRIES | 1u << K_MCS;
static const Config QUICK_CFG[] = {{0, 0, FLAGS_VALUES_QUICK}, {1, 0, FLAGS_VALUES_QUICK}, {2, 0, FLAGS_VALUES_QUICK}};
static const Config THOROUGH_CFG[] = {
    {0, V2_NOROOT, FLAGS_VALUES_THOROUGH}, {1, V2_NOROOT, FLAGS_VALUES_THOROUGH}, {2, V2_NOROOT, FLAGS_VALUES_THOROUGH},
    {1, 1u << K_TSFT | 1u << K_CHANNEL | 1u << K_RX_FLAGS | 1u << K_XCHANNEL, FLAGS_VALUES_QUICK},
    {1, 1u << K_RATE | 1u << K_DBM_SIGNAL | 1u << K_DBM_NOISE | 1u << K_TX_FLAGS, FLAGS_VALUES_QUICK},
    {1, 1u << K_ANTENNA | 1u << K_DB_SIGNAL, FLAGS_VALUES_QUICK}};
static const int NQUICK = sizeof QUICK_CFG / sizeof QUICK_CFG[0], NTHOROUGH = sizeof THOROUGH_CFG / sizeof THOROUGH_CFG[0];
static const int SLICES = 5;

int main(int argc, char** argv) {
    return run_main(argc, argv, NQUICK * SLICES, NTHOROUGH * SLICES,
        [](int job) {
            g_slices = SLICES;
            g_slice = job % g_slices;
            const Config& cfg = (A.thorough() ? THOROUGH_CFG : QUICK_CFG)[job / g_slices];
            int root = cfg.root;
            Explorer<S, Op> ex;
            configure(ex, root, cfg.v2, cfg.nflags);
            { S r0 = make_root(root); if (owns(r0)) ++g_owned_states; }
            bool ok = ex.run();
            // the explorer counted every state/transition of the shared BFS in every slice; report what THIS job judged with the
            // full oracle (each state and each transition is owned by exactly one slice) and keep the raw numbers separately
            R.counters["bfs_states_visited"] = R.counters["states"];
            R.counters["bfs_transitions_executed"] = R.counters["transitions"];
            R.counters["states"] = g_owned_states;
            R.counters["transitions"] = g_owned_transitions;
            R.counters["traces_validated_against_impl"] = g_owned_transitions;
            if (ok && !g_stop && A.skip_list.empty()) R.count("slices_to_fixpoint");
            R.count("slices");
            R.count("getter_comparisons", g_getter_comparisons);
            R.count("targeted_reads", g_targeted_reads);
            R.count("reparses", g_reparses);
        },
        [](const std::string& kase) -> int {
            auto kv = parse_kv(kase);
            int root = 0;
            for (int i = 0; i < NROOTS; ++i) if (kv["root"] == ROOTS[i]) root = i;
            g_replay_mode = true;
            Explorer<S, Op> ex;
            configure(ex, root, 0x3fff, FLAGS_VALUES_THOROUGH);   // every op of either tier is replayable
            std::string err = ex.replay(kv["ops"]);
            if (!err.empty()) { printf("violation reproduced: %s\n", err.c_str()); return 1; }
            printf("history replayed, all invariants hold\n");
            return 0;
        });
}
