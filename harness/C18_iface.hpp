// C18 — interface between the workload bodies (harness/C18_workloads.cpp, linked into both binaries)
// and the two drivers: harness/C18_threads.cpp (trace build: footprint + cooperative scheduler) and
// harness/C18_tsan.cpp (tsan build: free-running pass).  Keep this header tiny and stable: it is not part of
// the driver's dependency hash (touch the .cpp files when it changes).
#pragma once
#include <cstdint>

namespace c18 {

// A workload creates, uses and destroys only its own objects (inputs included) and returns a digest of
// everything it observed.  `scale` = 0 quick, 1 thorough (longer bodies).
typedef uint64_t (*WorkFn)(int scale);

// DESCENDANT: works on objects that the main thread derived (clone / copy / assignment / Packet copy / composition) from a common
// ancestor before the threads start (harness/C18_descend.cpp).  Such a workload consumes its objects: it can run once per
// setup_descendants() and never on two threads at a time.  CANARY_COPYSHARE: the racy canary of that class.
enum Kind { LIBTINS = 0, CANARY_RACY = 1, CANARY_GUARDED = 2, CANARY_LOCKED = 3, DESCENDANT = 4, CANARY_COPYSHARE = 5, CANARY_FOREIGN = 6 };
// CANARY_FOREIGN: state inside an uninstrumented library (gmtime()'s static result buffer in libc).

struct Workload {
    const char* name;
    WorkFn fn;
    int kind;
};

extern const Workload kWorkloads[];
extern const int kNumWorkloads;   // all entries; the LIBTINS ones come first
extern const int kNumLibtins;     // number of LIBTINS entries
extern const int kNumDescendant;  // number of DESCENDANT entries (they follow the LIBTINS ones; pairs are (2k, 2k+1) = threads A, B of one object set)

// Registers the user allocators (EtherType 0x88b5 -> UserPDU<0>, IP protocol 253 -> UserPDU<1>): the
// "user-registered allocator maps" of the property.  Called once from main() before any workload runs.
void setup_registry();

// (Re)builds the ancestors and every derived object of the DESCENDANT workloads and of the copy-sharing canary.  Main thread only,
// while no other thread exists.  The trace binary calls it once before it forks anything; the tsan binary before every round.
void setup_descendants();

}  // namespace c18
