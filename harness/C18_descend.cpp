// C18 — "descendant" workloads: independent objects that DESCEND FROM A COMMON ANCESTOR.
// A deep copy is by definition independent of its source.  The main thread builds one ancestor per class family and derives, for
// thread A and for thread B, one object per copy path — clone(), copy constructor, copy assignment into an existing object,
// Packet copy, `a / b` composition with the ancestor as common part — BEFORE any thread starts (c18::setup_descendants()).
// Three object sets differ in the ancestor's fate: kept alive / destroyed by the main thread before the threads start /
// destroyed by thread A while thread B runs.  A thread body takes ITS OWN derived objects and: copies them again (clone, copy
// assignment, Packet copy/move), reads them through getters, searches options, serializes, mutates its copy through setters
// (add / remove option), serializes again, destroys everything.  The objects exist before the threads do, so the tracer files
// them as shared-capable: the footprints of A and B must still be disjoint except for read-only data.  A copy path that secretly
// shares state (a use count in front of a shared option payload, a cached serialization, ...) makes both threads write one location.
// Families: TCP with SACK/timestamp options (> 8 bytes = beyond PDUOption's inline buffer), IP with options, DHCP with long options,
// DHCPv6, ICMPv6 with options, Dot11 beacon with tagged options, DNS with records, RadioTap, RawPDU, PDUCacher, a 5-layer Ethernet
// stack; Packet (with timestamp) is one of the copy paths of every family.
// Also here: the copy-sharing canary (harness-local class with a non-atomic use count shared between source and copies).
#include "C18_iface.hpp"
#include <tins/tins.h>
#include <tins/pdu_cacher.h>
#include <chrono>
#include <cstdio>
#include <cstdlib>
#include <cstring>
#include <typeinfo>
#include <string>
#include <vector>

using namespace Tins;

namespace {

typedef std::vector<uint8_t> Bytes;

struct Dig {
    uint64_t h;
    Dig() : h(1469598103934665603ULL) {}
    void raw(const void* p, size_t n) {
        const uint8_t* b = static_cast<const uint8_t*>(p);
        for (size_t i = 0; i < n; ++i) { h ^= b[i]; h *= 1099511628211ULL; }
        h ^= 0xfe; h *= 1099511628211ULL;
    }
    Dig& operator<<(const std::string& s) { raw(s.data(), s.size()); return *this; }
    Dig& operator<<(const char* s) { raw(s, strlen(s)); return *this; }
    Dig& operator<<(const Bytes& b) { raw(b.data(), b.size()); return *this; }
    Dig& operator<<(uint64_t v) { raw(&v, sizeof v); return *this; }
    Dig& operator<<(uint32_t v) { return *this << uint64_t(v); }
    Dig& operator<<(uint16_t v) { return *this << uint64_t(v); }
    Dig& operator<<(uint8_t v) { return *this << uint64_t(v); }
    Dig& operator<<(int v) { return *this << uint64_t(int64_t(v)); }
    Dig& operator<<(bool v) { return *this << uint64_t(v); }
};
template <class O> void dig_option(Dig& d, const O* o) {
    if (!o) { d << "no-option"; return; }
    d << uint64_t(o->data_size()) << uint64_t(o->length_field());
    d.raw(o->data_ptr(), o->data_size());
}
Bytes pattern(size_t n, uint8_t seed) {
    Bytes b(n);
    for (size_t i = 0; i < n; ++i) b[i] = uint8_t(seed + i * 11 + (i >> 2));
    return b;
}

// ---------------------------------------------------------------- families
// build(): the ancestor.  blank(): another object of the same class with different content (target of copy assignment).
// use(): getters + option search + mutation through setters, on the thread's own copy (root may be wrapped in an EthernetII).
struct Family {
    const char* name;
    PDU* (*build)();
    PDU* (*blank)();
    PDU* (*copyctor)(const PDU&);
    void (*assign)(PDU& dst, const PDU& src);
    PDU* (*compose)(const PDU&);                 // `a / b` with the ancestor as the common part
    const PDU* (*self)(const PDU& root);         // the family's own layer inside a derived object (the root, or below an added EthernetII)
    void (*use)(PDU& root, Dig& d);
};

template <class T> PDU* copyctor_of(const PDU& a) { return new T(static_cast<const T&>(a)); }
template <class T> void assign_of(PDU& dst, const PDU& src) { static_cast<T&>(dst) = static_cast<const T&>(src); }
template <class T> const PDU* self_of(const PDU& root) { return root.find_pdu<T>(); }
template <class T> PDU* under_ethernet(const PDU& a) {      // ancestor becomes the inner part
    return new EthernetII(EthernetII("02:00:00:00:00:0b", "02:00:00:00:00:0a") / static_cast<const T&>(a));
}
template <class T> PDU* over_raw(const PDU& a) {            // ancestor becomes the outer part
    return new T(static_cast<const T&>(a) / RawPDU(pattern(9, 0x70)));
}

// --- TCP with SACK (24 bytes), timestamp (8), MSS
PDU* build_tcp() {
    IP* p = new IP(IP("10.0.0.2", "10.0.0.1") / TCP(80, 40001) / RawPDU(pattern(21, 1)));
    TCP& t = p->rfind_pdu<TCP>();
    TCP::sack_type s;
    for (uint32_t i = 0; i < 6; ++i) s.push_back(1000 + i * 37);
    t.sack(s);
    t.timestamp(0x01020304, 0x0a0b0c0d);
    t.mss(1400);
    t.seq(7777);
    return p;
}
PDU* blank_tcp() {
    IP* p = new IP(IP("192.0.2.1", "192.0.2.2") / TCP(1, 2));
    TCP::sack_type s; s.push_back(5); s.push_back(9); s.push_back(11); s.push_back(12);
    p->rfind_pdu<TCP>().sack(s);
    return p;
}
void use_tcp(PDU& root, Dig& d) {
    TCP& t = root.rfind_pdu<TCP>();
    TCP::sack_type s = t.sack();
    for (size_t i = 0; i < s.size(); ++i) d << s[i];
    d << t.mss() << t.timestamp().first << t.seq() << t.dport();
    dig_option(d, t.search_option(TCP::SACK));
    dig_option(d, t.search_option(TCP::TSOPT));
    d << t.remove_option(TCP::SACK);
    TCP::sack_type s2; s2.push_back(1); s2.push_back(2); s2.push_back(3); s2.push_back(4);
    t.sack(s2);
    t.winscale(5);
    t.ack_seq(99);
    dig_option(d, t.search_option(TCP::SACK));
}

// --- IP with options (security 9 bytes, record route 13 bytes)
PDU* build_ipopt() {
    IP* p = new IP(IP("172.16.1.2", "172.16.1.1") / UDP(53, 5353) / RawPDU(pattern(17, 2)));
    p->security(IP::security_type(0x746a, 26554, 8818, 0x1));
    IP::record_route_type rr;
    rr.pointer = 4;
    rr.routes.push_back("10.1.1.1"); rr.routes.push_back("10.2.2.2"); rr.routes.push_back("10.3.3.3");
    p->record_route(rr);
    p->ttl(33);
    return p;
}
PDU* blank_ipopt() {
    IP* p = new IP("198.51.100.1", "198.51.100.2");
    p->stream_identifier(0x1234);
    p->security(IP::security_type(1, 2, 3, 4));
    return p;
}
void use_ipopt(PDU& root, Dig& d) {
    IP& ip = root.rfind_pdu<IP>();
    IP::security_type sec = ip.security();
    d << sec.security << sec.compartments << sec.handling_restrictions << uint32_t(sec.transmission_control);
    IP::record_route_type rr = ip.record_route();
    d << rr.pointer;
    for (size_t i = 0; i < rr.routes.size(); ++i) d << rr.routes[i].to_string();
    dig_option(d, ip.search_option(IP::option_identifier(IP::SEC, IP::CONTROL, 1)));
    d << ip.ttl() << uint8_t(ip.head_len());
    d << ip.remove_option(IP::option_identifier(IP::RR, IP::CONTROL, 0));
    ip.stream_identifier(0x4321);
    ip.ttl(9);
    d << uint64_t(ip.options().size());
}

// --- DHCP with long options
PDU* build_dhcp() {
    DHCP* p = new DHCP();
    p->type(DHCP::OFFER);
    p->xid(0xabcdef01);
    p->chaddr(HWAddress<6>("02:00:00:aa:bb:cc"));
    p->domain_name("a-rather-long-domain-name.example.org");
    std::vector<IPv4Address> r;
    r.push_back("10.0.0.1"); r.push_back("10.0.0.2"); r.push_back("10.0.0.3");
    p->routers(r);
    p->domain_name_servers(r);
    p->hostname("host-with-a-long-name");
    p->lease_time(86400);
    p->end();
    return p;
}
PDU* blank_dhcp() {
    DHCP* p = new DHCP();
    p->type(DHCP::DISCOVER);
    p->hostname("another-host-name-of-some-length");
    return p;
}
void use_dhcp(PDU& root, Dig& d) {
    DHCP& p = root.rfind_pdu<DHCP>();
    d << p.domain_name() << p.hostname() << p.lease_time() << uint8_t(p.type()) << p.xid();
    std::vector<IPv4Address> r = p.routers();
    for (size_t i = 0; i < r.size(); ++i) d << r[i].to_string();
    dig_option(d, p.search_option(DHCP::DOMAIN_NAME));
    dig_option(d, p.search_option(DHCP::DOMAIN_NAME_SERVERS));
    d << p.remove_option(DHCP::DOMAIN_NAME);
    d << p.remove_option(DHCP::END);
    p.renewal_time(1000);
    p.broadcast("10.0.0.255");
    p.domain_name("short.example");
    p.end();
    d << uint64_t(p.options().size());
}

// --- DHCPv6
PDU* build_dhcpv6() {
    DHCPv6* p = new DHCPv6();
    p->msg_type(DHCPv6::REQUEST);
    p->transaction_id(0x0a0b0c);
    DHCPv6::duid_ll::lladdress_type ll;
    for (int i = 0; i < 6; ++i) ll.push_back(uint8_t(0x30 + i));
    p->client_id(DHCPv6::duid_type(DHCPv6::duid_ll(1, ll)));
    DHCPv6::ia_na_type::options_type iaopts;
    for (int i = 0; i < 6; ++i) iaopts.push_back(uint8_t(i * 3));
    p->ia_na(DHCPv6::ia_na_type(0x55667788, 1800, 2700, iaopts));
    DHCPv6::option_request_type oro;
    oro.push_back(DHCPv6::DNS_SERVERS); oro.push_back(DHCPv6::DOMAIN_LIST); oro.push_back(DHCPv6::NTP_SERVER);
    oro.push_back(DHCPv6::SIP_SERVER_A); oro.push_back(DHCPv6::NIS_SERVERS);
    p->option_request(oro);
    p->status_code(DHCPv6::status_code_type(0, "everything is fine, thanks"));
    p->elapsed_time(250);
    return p;
}
PDU* blank_dhcpv6() {
    DHCPv6* p = new DHCPv6();
    p->msg_type(DHCPv6::SOLICIT);
    p->status_code(DHCPv6::status_code_type(3, "some other message text"));
    return p;
}
void use_dhcpv6(PDU& root, Dig& d) {
    DHCPv6& p = root.rfind_pdu<DHCPv6>();
    DHCPv6::duid_type du = p.client_id();
    d << du.id << Bytes(du.data.begin(), du.data.end());
    DHCPv6::ia_na_type ia = p.ia_na();
    d << ia.id << ia.t1 << ia.t2 << Bytes(ia.options.begin(), ia.options.end());
    d << p.status_code().message << p.elapsed_time() << uint32_t(p.transaction_id());
    DHCPv6::option_request_type o = p.option_request();
    for (size_t i = 0; i < o.size(); ++i) d << uint16_t(o[i]);
    dig_option(d, p.search_option(DHCPv6::CLIENTID));
    d << p.remove_option(DHCPv6::IA_NA);
    p.preference(7);
    p.server_unicast("2001:db8::99");
    d << (p.search_option(DHCPv6::OPTION_REQUEST) != 0) << (p.search_option(DHCPv6::IA_NA) != 0) << uint64_t(p.options().size());
}

// --- ICMPv6 with options
PDU* build_icmpv6() {
    ICMPv6 ra(ICMPv6::ROUTER_ADVERT);
    ra.router_lifetime(900);
    ra.source_link_layer_addr("02:00:5e:00:00:01");
    ra.prefix_info(ICMPv6::prefix_info_type(64, 1, 0, 7200, 3600, "2001:db8:77::"));
    ICMPv6::recursive_dns_type::servers_type sv;
    sv.push_back("2001:db8::a"); sv.push_back("2001:db8::b");
    ra.recursive_dns_servers(ICMPv6::recursive_dns_type(300, sv));
    ra.mtu(ICMPv6::mtu_type(0, 1400));
    return new IPv6(IPv6("ff02::1", "fe80::2") / ra);
}
PDU* blank_icmpv6() {
    ICMPv6 ns(ICMPv6::NEIGHBOUR_SOLICIT);
    ns.target_addr("fe80::77");
    ns.source_link_layer_addr("02:00:5e:00:00:77");
    ns.nonce(ICMPv6::nonce_type(12, 0x5a));
    return new IPv6(IPv6("fe80::77", "fe80::1") / ns);
}
void use_icmpv6(PDU& root, Dig& d) {
    ICMPv6& p = root.rfind_pdu<ICMPv6>();
    ICMPv6::prefix_info_type pi = p.prefix_info();
    d << pi.prefix_len << pi.valid_lifetime << pi.prefix.to_string();
    ICMPv6::recursive_dns_type rd = p.recursive_dns_servers();
    d << rd.lifetime;
    for (size_t i = 0; i < rd.servers.size(); ++i) d << rd.servers[i].to_string();
    d << p.source_link_layer_addr().to_string() << p.mtu().second << p.router_lifetime();
    dig_option(d, p.search_option(ICMPv6::PREFIX_INFO));
    d << p.remove_option(ICMPv6::PREFIX_INFO);
    ICMPv6::dns_search_list_type::domains_type doms;
    doms.push_back("example.net");
    p.dns_search_list(ICMPv6::dns_search_list_type(60, doms));
    p.hop_limit(3);
    d << p.has_options() << uint64_t(p.options().size());
}

// --- Dot11 beacon with tagged options
PDU* build_dot11() {
    Dot11Beacon* b = new Dot11Beacon("ff:ff:ff:ff:ff:ff", "02:00:00:11:22:33");
    b->addr3("02:00:00:11:22:33");
    b->ssid("libtins-c18-descendants");
    Dot11Beacon::rates_type rates;
    static const float rs[] = {1.0f, 2.0f, 5.5f, 11.0f, 6.0f, 9.0f, 12.0f, 18.0f, 24.0f, 36.0f};
    for (size_t i = 0; i < 10; ++i) rates.push_back(rs[i]);
    b->supported_rates(rates);
    b->rsn_information(RSNInformation::wpa2_psk());
    b->ds_parameter_set(6);
    b->interval(100);
    return b;
}
PDU* blank_dot11() {
    Dot11Beacon* b = new Dot11Beacon();
    b->ssid("some-other-network-name");
    return b;
}
void use_dot11(PDU& root, Dig& d) {
    Dot11Beacon& b = root.rfind_pdu<Dot11Beacon>();
    d << b.ssid() << b.ds_parameter_set() << b.interval() << b.addr2().to_string();
    Dot11Beacon::rates_type r = b.supported_rates();
    for (size_t i = 0; i < r.size(); ++i) d << uint32_t(r[i] * 2);
    RSNInformation rsn = b.rsn_information();
    d << rsn.version() << uint64_t(rsn.pairwise_cyphers().size()) << uint64_t(rsn.akm_cyphers().size());
    dig_option(d, b.search_option(Dot11::SSID));
    dig_option(d, b.search_option(Dot11::RSN));
    d << b.remove_option(Dot11::SUPPORTED_RATES);
    b.ssid("renamed-by-the-owner-thread");
    b.interval(200);
    Dot11Beacon::rates_type r2; r2.push_back(54.0f); r2.push_back(48.0f);
    b.extended_supported_rates(r2);
    d << uint64_t(b.options().size());
}

// --- DNS with records
PDU* build_dns() {
    DNS* p = new DNS();
    p->id(0x7788);
    p->type(DNS::RESPONSE);
    p->add_query(DNS::query("service.example.com", DNS::A, DNS::IN));
    p->add_answer(DNS::resource("service.example.com", "node1.example.com", DNS::CNAME, DNS::IN, 300));
    p->add_answer(DNS::resource("node1.example.com", "203.0.113.5", DNS::A, DNS::IN, 60));
    p->add_additional(DNS::resource("ns.example.com", "2001:db8::53", DNS::AAAA, DNS::IN, 600));
    return p;
}
PDU* blank_dns() {
    DNS* p = new DNS();
    p->add_query(DNS::query("other.example.org", DNS::MX, DNS::IN));
    p->add_answer(DNS::resource("other.example.org", "mail.example.org", DNS::MX, DNS::IN, 10, 5));
    return p;
}
void use_dns(PDU& root, Dig& d) {
    DNS& p = root.rfind_pdu<DNS>();
    DNS::resources_type an = p.answers(), ad = p.additional();
    for (DNS::resources_type::const_iterator it = an.begin(); it != an.end(); ++it) d << it->dname() << it->data() << it->ttl();
    for (DNS::resources_type::const_iterator it = ad.begin(); it != ad.end(); ++it) d << it->dname() << it->data();
    DNS::queries_type q = p.queries();
    for (DNS::queries_type::const_iterator it = q.begin(); it != q.end(); ++it) d << it->dname();
    d << p.id() << p.answers_count();
    p.add_answer(DNS::resource("node2.example.com", "203.0.113.6", DNS::A, DNS::IN, 61));
    p.id(0x1111);
    d << p.answers_count();
}

// --- RadioTap over a beacon
PDU* build_radiotap() {
    RadioTap* r = new RadioTap();
    Dot11Beacon b("ff:ff:ff:ff:ff:ff", "02:00:00:44:55:66");
    b.ssid("radiotap-family-ssid");
    r->inner_pdu(b);
    return r;
}
PDU* blank_radiotap() {
    RadioTap* r = new RadioTap();
    r->inner_pdu(Dot11Data("02:00:00:00:00:01", "02:00:00:00:00:02"));
    return r;
}
void use_radiotap(PDU& root, Dig& d) {
    RadioTap& r = root.rfind_pdu<RadioTap>();
    d << r.channel_freq() << r.channel_type() << uint8_t(r.dbm_signal()) << r.antenna() << uint32_t(r.present()) << r.header_size();
    d << root.rfind_pdu<Dot11Beacon>().ssid();
    r.antenna(3);                       // overwrites fields that are present: no re-layout
    r.dbm_signal(-42);
    r.channel(2437, 0x00a0);
    root.rfind_pdu<Dot11Beacon>().ssid("x");
    d << r.antenna() << uint8_t(r.dbm_signal());
}

// --- RawPDU
PDU* build_raw() { return new RawPDU(pattern(43, 9)); }
PDU* blank_raw() { return new RawPDU(pattern(12, 77)); }
void use_raw(PDU& root, Dig& d) {
    RawPDU& r = root.rfind_pdu<RawPDU>();
    d << r.payload() << r.payload_size();
    r.payload(pattern(15, 33));
    d << r.payload();
}

// --- PDUCacher (cached serialization is part of the object)
typedef PDUCacher<IP> CachedIP;
PDU* build_cacher() {
    PDU* ip = build_tcp();
    CachedIP* c = new CachedIP(static_cast<IP&>(*ip));
    delete ip;
    c->serialize();            // fills the cache of the ancestor
    return c;
}
PDU* blank_cacher() {
    PDU* ip = blank_tcp();
    CachedIP* c = new CachedIP(static_cast<IP&>(*ip));
    delete ip;
    return c;
}
void use_cacher(PDU& root, Dig& d) {
    d << root.size() << root.header_size() << int(root.pdu_type());
    d << root.serialize();     // second serialization comes from this object's own cache
}
PDU* compose_cacher(const PDU& a) { return new EthernetII(EthernetII("02:00:00:00:00:0b", "02:00:00:00:00:0a") / static_cast<const CachedIP&>(a)); }

// --- 5-layer stack (copy_inner_pdu recursion, parent links)
PDU* build_stack() {
    ICMP ic(ICMP::ECHO_REQUEST);
    ic.id(11); ic.sequence(12);
    return new EthernetII(EthernetII("02:00:00:00:00:02", "02:00:00:00:00:01") / Dot1Q(42) / IP("10.8.8.8", "10.9.9.9") / ic / RawPDU(pattern(31, 5)));
}
PDU* blank_stack() { return new EthernetII(EthernetII("02:00:00:00:00:04", "02:00:00:00:00:03") / ARP("10.0.0.1", "10.0.0.2")); }
void use_stack(PDU& root, Dig& d) {
    int layers = 0;
    for (PDU* p = &root; p; p = p->inner_pdu()) { d << int(p->pdu_type()) << p->header_size(); d << (p->inner_pdu() ? p->inner_pdu()->parent_pdu() == p : true); ++layers; }
    d << layers << root.rfind_pdu<Dot1Q>().id() << root.rfind_pdu<ICMP>().sequence();
    root.rfind_pdu<IP>().ttl(1);
    root.rfind_pdu<ICMP>().sequence(13);
    PDU* tail = root.rfind_pdu<ICMP>().release_inner_pdu();
    delete tail;
    root.rfind_pdu<ICMP>().inner_pdu(RawPDU(pattern(8, 6)));
}
PDU* compose_stack(const PDU& a) { return new EthernetII(static_cast<const EthernetII&>(a) / RawPDU(pattern(9, 0x70))); }

const Family kFamilies[] = {
    {"tcp_sack", build_tcp, blank_tcp, copyctor_of<IP>, assign_of<IP>, under_ethernet<IP>, self_of<IP>, use_tcp},
    {"ip_options", build_ipopt, blank_ipopt, copyctor_of<IP>, assign_of<IP>, under_ethernet<IP>, self_of<IP>, use_ipopt},
    {"dhcp", build_dhcp, blank_dhcp, copyctor_of<DHCP>, assign_of<DHCP>, over_raw<DHCP>, self_of<DHCP>, use_dhcp},
    {"dhcpv6", build_dhcpv6, blank_dhcpv6, copyctor_of<DHCPv6>, assign_of<DHCPv6>, over_raw<DHCPv6>, self_of<DHCPv6>, use_dhcpv6},
    {"icmpv6", build_icmpv6, blank_icmpv6, copyctor_of<IPv6>, assign_of<IPv6>, under_ethernet<IPv6>, self_of<IPv6>, use_icmpv6},
    {"dot11_beacon", build_dot11, blank_dot11, copyctor_of<Dot11Beacon>, assign_of<Dot11Beacon>, over_raw<Dot11Beacon>, self_of<Dot11Beacon>, use_dot11},
    {"dns", build_dns, blank_dns, copyctor_of<DNS>, assign_of<DNS>, over_raw<DNS>, self_of<DNS>, use_dns},
    {"radiotap", build_radiotap, blank_radiotap, copyctor_of<RadioTap>, assign_of<RadioTap>, over_raw<RadioTap>, self_of<RadioTap>, use_radiotap},
    {"rawpdu", build_raw, blank_raw, copyctor_of<RawPDU>, assign_of<RawPDU>, under_ethernet<RawPDU>, self_of<RawPDU>, use_raw},
    {"pdu_cacher", build_cacher, blank_cacher, copyctor_of<CachedIP>, assign_of<CachedIP>, compose_cacher, self_of<CachedIP>, use_cacher},
    {"eth_stack", build_stack, blank_stack, copyctor_of<EthernetII>, assign_of<EthernetII>, compose_stack, self_of<EthernetII>, use_stack},
};
const int kNumFamilies = sizeof(kFamilies) / sizeof(kFamilies[0]);

// ---------------------------------------------------------------- object sets
enum { M_CLONE = 0, M_COPYCTOR, M_ASSIGN, M_PACKET, M_COMPOSE, kNumMethods };
enum { SET_KEPT = 0, SET_GONE = 1, SET_BY_THREAD = 2, kNumSets };
struct Slot { PDU* pdu; Packet* pkt; };
Slot g_slots[kNumSets][2][16][kNumMethods];
PDU* g_ancestor[kNumSets][16];

Slot derive(const Family& f, const PDU& anc, int method, uint64_t ts_us) {
    Slot s; s.pdu = 0; s.pkt = 0;
    switch (method) {
        case M_CLONE: s.pdu = anc.clone(); break;
        case M_COPYCTOR: s.pdu = f.copyctor(anc); break;
        case M_ASSIGN: s.pdu = f.blank(); f.assign(*s.pdu, anc); break;
        case M_PACKET: {
            Packet first(anc, Timestamp(std::chrono::microseconds(ts_us)));       // clones the ancestor
            s.pkt = new Packet(first);                                              // Packet copy: clones again
            break;
        }
        default: s.pdu = f.compose(anc); break;
    }
    return s;
}

void drop_all() {
    for (int set = 0; set < kNumSets; ++set)
        for (int fam = 0; fam < kNumFamilies; ++fam) {
            for (int role = 0; role < 2; ++role)
                for (int m = 0; m < kNumMethods; ++m) {
                    Slot& s = g_slots[set][role][fam][m];
                    delete s.pdu; delete s.pkt;
                    s.pdu = 0; s.pkt = 0;
                }
            delete g_ancestor[set][fam];
            g_ancestor[set][fam] = 0;
        }
}

// the body of a thread for one of ITS objects
void run_slot(const Family& f, Slot& s, Dig& d) {
    PDU* p = s.pkt ? s.pkt->pdu() : s.pdu;
    if (s.pkt) {
        Packet again(*s.pkt);                               // Packet copy
        d << uint64_t(again.timestamp().seconds()) << uint64_t(again.timestamp().microseconds()) << again.pdu()->serialize();
        Packet moved(std::move(again));                     // Packet move
        d << moved.pdu()->size();
        Packet assigned;
        assigned = moved;                                   // Packet copy assignment
        d << assigned.pdu()->serialize();
    }
    PDU* again = p->clone();                                // copy again
    PDU* target = f.blank();
    f.assign(*target, *f.self(*p));                         // copy assignment into an existing object
    d << p->serialize() << again->serialize() << target->serialize() << p->size();
    f.use(*p, d);                                           // getters, option search, setters on the own copy
    d << p->serialize();
    d << again->serialize();                                // the second copy did not notice
    delete again;
    delete target;
    if (s.pkt) delete s.pkt; else delete s.pdu;
    s.pdu = 0; s.pkt = 0;
}

uint64_t descendant(int set, int role) {
    Dig d;
    for (int fam = 0; fam < kNumFamilies; ++fam) {
        for (int m = 0; m < kNumMethods; ++m) {
            Slot& s = g_slots[set][role][fam][m];
            if (!s.pdu && !s.pkt) { d << "consumed"; continue; }
            try { run_slot(kFamilies[fam], s, d); }
            catch (exception_base& e) {
                d << "!" << typeid(e).name();
                if (getenv("C18_DEBUG")) fprintf(stderr, "C18 descendant %s method %d: %s\n", kFamilies[fam].name, m, typeid(e).name());
            }
        }
        // third set: thread A destroys the ancestors while thread B is working on its copies
        if (set == SET_BY_THREAD && role == 0 && fam == kNumFamilies / 2)
            for (int k = 0; k < kNumFamilies; ++k) { delete g_ancestor[set][k]; g_ancestor[set][k] = 0; }
    }
    return d.h;
}

// ---------------------------------------------------------------- copy-sharing canary (harness-local, NOT libtins)
// "Options are immutable, avoid the copy": copies share one block through a plain use count stored in front of the data.
struct SharedBlock { uint32_t users; uint8_t data[12]; };
class CowValue {
public:
    explicit CowValue(uint8_t seed) : block_(new SharedBlock()) { block_->users = 1; for (int i = 0; i < 12; ++i) block_->data[i] = uint8_t(seed + i); }
    CowValue(const CowValue& o) : block_(o.block_) { ++block_->users; }
    ~CowValue() { --block_->users; }                       // the canary never frees: a lost update must not crash the process
    uint32_t users() const { return block_->users; }
    uint8_t at(int i) const { return block_->data[i]; }
private:
    CowValue& operator=(const CowValue&);
    SharedBlock* block_;
};
CowValue* g_cow_ancestor = 0;
CowValue* g_cow[2] = {0, 0};
uint64_t cow_body(int role) {
    uint64_t h = 0;
    const CowValue& mine = *g_cow[role];
    {
        CowValue again(mine);                               // "independent" copy of the own object: bumps the shared count
        h = h * 31 + again.users();
        h = h * 31 + again.at(3);
    }
    h = h * 31 + mine.users();
    return h;
}

}  // namespace

namespace c18 {

void setup_descendants() {
    drop_all();
    for (int set = 0; set < kNumSets; ++set)
        for (int fam = 0; fam < kNumFamilies; ++fam) {
            const Family& f = kFamilies[fam];
            PDU* anc = f.build();
            g_ancestor[set][fam] = anc;
            for (int role = 0; role < 2; ++role)
                for (int m = 0; m < kNumMethods; ++m)
                    g_slots[set][role][fam][m] = derive(f, *anc, m, 1700000000000000ULL + uint64_t(fam) * 1000 + uint64_t(m));
        }
    // second set: the ancestors are gone before any thread starts
    for (int fam = 0; fam < kNumFamilies; ++fam) { delete g_ancestor[SET_GONE][fam]; g_ancestor[SET_GONE][fam] = 0; }
    // canary objects (copies made by the main thread)
    delete g_cow[0]; delete g_cow[1]; delete g_cow_ancestor;
    g_cow_ancestor = new CowValue(0x40);
    g_cow[0] = new CowValue(*g_cow_ancestor);
    g_cow[1] = new CowValue(*g_cow_ancestor);
}

uint64_t desc_kept_a(int) { return descendant(SET_KEPT, 0); }
uint64_t desc_kept_b(int) { return descendant(SET_KEPT, 1); }
uint64_t desc_gone_a(int) { return descendant(SET_GONE, 0); }
uint64_t desc_gone_b(int) { return descendant(SET_GONE, 1); }
uint64_t desc_bythread_a(int) { return descendant(SET_BY_THREAD, 0); }
uint64_t desc_bythread_b(int) { return descendant(SET_BY_THREAD, 1); }
uint64_t canary_cow_a(int) { return cow_body(0); }
uint64_t canary_cow_b(int) { return cow_body(1); }

}  // namespace c18
