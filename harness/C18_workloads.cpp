// C18 — workload bodies (compiled with the SAME instrumentation as libtins: trace-loads/stores in the trace
// build, -fsanitize=thread in the tsan build).  Every workload creates, uses and destroys only its own objects
// (inputs are copied from constants into private buffers first) and returns a digest of everything observable.
// Also here: the two canaries (a racy static scratch buffer; a guard-protected function-local static).
#include "C18_iface.hpp"
#include <tins/tins.h>
#include <tins/ip_reassembler.h>
#include <tins/tcp_ip/stream_follower.h>
#include <tins/pdu_allocator.h>
#include <tins/utils/checksum_utils.h>
#include <chrono>
#include <ctime>
#include <cstring>
#include <mutex>
#include <sstream>
#include <string>
#include <vector>

using namespace Tins;

namespace {

typedef std::vector<uint8_t> Bytes;

// ---------------------------------------------------------------- digest
struct Dig {
    uint64_t h;
    Dig() : h(1469598103934665603ULL) {}
    void raw(const void* p, size_t n) {
        const uint8_t* b = static_cast<const uint8_t*>(p);
        for (size_t i = 0; i < n; ++i) { h ^= b[i]; h *= 1099511628211ULL; }
    }
    void sep() { uint8_t z = 0xfe; raw(&z, 1); }
    Dig& operator<<(const std::string& s) { raw(s.data(), s.size()); sep(); return *this; }
    Dig& operator<<(const char* s) { raw(s, strlen(s)); sep(); return *this; }
    Dig& operator<<(const Bytes& b) { raw(b.data(), b.size()); sep(); return *this; }
    Dig& operator<<(uint64_t v) { raw(&v, sizeof v); sep(); return *this; }
    Dig& operator<<(uint32_t v) { return *this << uint64_t(v); }
    Dig& operator<<(uint16_t v) { return *this << uint64_t(v); }
    Dig& operator<<(uint8_t v) { return *this << uint64_t(v); }
    Dig& operator<<(int v) { return *this << uint64_t(int64_t(v)); }
    Dig& operator<<(bool v) { return *this << uint64_t(v); }
    Dig& operator<<(const IPv4Address& a) { return *this << a.to_string(); }
    Dig& operator<<(const IPv6Address& a) { return *this << a.to_string(); }
    template <size_t n> Dig& operator<<(const HWAddress<n>& a) { return *this << a.to_string(); }
};

int hexval(char c) { return c >= '0' && c <= '9' ? c - '0' : (c | 32) >= 'a' && (c | 32) <= 'f' ? (c | 32) - 'a' + 10 : -1; }
Bytes unhex(const char* s) {      // ignores anything that is not a hex digit (spaces between fields)
    Bytes b;
    int hi = -1;
    for (; *s; ++s) {
        int v = hexval(*s);
        if (v < 0) continue;
        if (hi < 0) hi = v; else { b.push_back(uint8_t(hi << 4 | v)); hi = -1; }
    }
    return b;
}
Bytes pattern(size_t n, uint8_t seed) {
    Bytes b(n);
    for (size_t i = 0; i < n; ++i) b[i] = uint8_t(seed + i * 7 + (i >> 3));
    return b;
}

// ---------------------------------------------------------------- user PDU for the allocator registry
template <size_t n>
class UserPDU : public PDU {
public:
    static const PDU::PDUType pdu_flag;
    UserPDU(const uint8_t* data, uint32_t sz) : buffer(data, data + sz) {}
    UserPDU* clone() const { return new UserPDU<n>(*this); }
    uint32_t header_size() const { return (uint32_t)buffer.size(); }
    PDUType pdu_type() const { return pdu_flag; }
    void write_serialization(uint8_t* data, uint32_t) { std::copy(buffer.begin(), buffer.end(), data); }
    Bytes buffer;
};
template <size_t n>
const PDU::PDUType UserPDU<n>::pdu_flag = static_cast<PDU::PDUType>(PDU::USER_DEFINED_PDU + n);

// ---------------------------------------------------------------- constants (inputs are copied out of these)
const char* const kTcp1 =
    "02aabbccddee02112233445508004510006b424200003d06648d0a010203c0a80a02c82201bb1122334455667788a0180b68349b0000"
    "020405b40303070402080a010203040a0b0c0d00474554202f696e6465782e68746d6c20485454502f312e310d0a486f73743a206578"
    "616d706c652e6f72670d0a0d0a";
const char* const kTcp2 =
    "02aabbccddee0211223344558100004d080048000040000100000306541108080404ac10050901820b746a67ba22720000019c400050"
    "000000070000000080027fa6a03d0000050a00000064000000c80000";
const char* const kDns =
    "12348180000100040002000203777777076578616d706c6503636f6d0000010001c00c000500010000012c000603776562c010c02d00"
    "0100010000003c00045db8d822c010000f000100000e100009000a046d61696cc010c0100010000100000078000c0b763d7370663120"
    "2d616c6cc01000020001000151800006036e7331c010c01000060001000151800023c07c0a686f73746d6173746572c01078a3f17500"
    "001c2000000e10001275000000012cc07c001c000100000258001020010db8000000000000000000000053c07c000100010000025800"
    "04c0000235";
static const unsigned k_ccmp_packets_n = 7;
static const uint8_t k_ccmp_packets_0[168] = {
    0,0,24,0,142,88,0,0,16,2,108,9,160,0,96,0,0,42,0,0,71,123,147,9,128,0,0,0,255,255,255,255,
    255,255,0,12,65,130,178,85,0,12,65,130,178,85,128,252,134,225,42,28,1,0,0,0,100,0,17,4,0,7,67,111,
    104,101,114,101,114,1,8,130,132,139,150,36,48,72,108,3,1,1,5,4,0,1,0,0,42,1,2,47,1,2,48,24,
    1,0,0,15,172,2,2,0,0,15,172,4,0,15,172,2,1,0,0,15,172,2,0,0,50,4,12,18,24,96,221,6,
    0,16,24,2,0,4,221,28,0,80,242,1,1,0,0,80,242,2,2,0,0,80,242,4,0,80,242,2,1,0,0,80,
    242,2,0,0,71,123,147,9,
};
static const uint8_t k_ccmp_packets_1[181] = {
    0,0,24,0,142,88,0,0,16,108,108,9,192,0,100,0,0,39,0,0,183,8,75,112,8,2,44,0,0,13,147,130,
    54,58,0,12,65,130,178,85,0,12,65,130,178,85,176,252,170,170,3,0,0,0,136,142,2,3,0,117,2,0,138,0,
    16,0,0,0,0,0,0,0,0,62,142,150,125,172,217,96,50,76,172,91,106,167,33,35,91,245,123,148,151,113,200,103,
    152,159,73,208,78,212,124,105,51,0,0,0,0,0,0,0,0,0,0,0,0,0,0,0,0,0,0,0,0,0,0,0,
    0,0,0,0,0,0,0,0,0,0,0,0,0,0,0,0,0,0,0,0,0,0,0,0,0,0,22,221,20,0,15,172,
    4,89,45,168,128,150,196,97,218,36,108,105,0,30,135,127,61,183,8,75,112,
};
static const uint8_t k_ccmp_packets_2[181] = {
    0,0,24,0,142,88,0,0,16,108,108,9,192,0,100,0,0,56,0,0,138,11,46,247,8,1,44,0,0,12,65,130,
    178,85,0,13,147,130,54,58,0,12,65,130,178,85,144,1,170,170,3,0,0,0,136,142,2,3,0,117,2,1,10,0,
    16,0,0,0,0,0,0,0,0,205,244,5,206,185,216,137,239,61,236,66,96,152,40,250,229,70,183,173,215,186,236,187,
    26,57,78,172,82,20,177,211,134,0,0,0,0,0,0,0,0,0,0,0,0,0,0,0,0,0,0,0,0,0,0,0,
    0,0,0,0,0,0,0,0,0,164,98,167,2,154,213,186,48,182,175,13,243,145,152,142,69,0,22,48,20,1,0,0,
    15,172,2,1,0,0,15,172,4,1,0,0,15,172,2,0,0,138,11,46,247,
};
static const uint8_t k_ccmp_packets_3[239] = {
    0,0,24,0,142,88,0,0,16,108,108,9,192,0,100,0,0,40,0,0,108,57,145,12,8,2,44,0,0,13,147,130,
    54,58,0,12,65,130,178,85,0,12,65,130,178,85,192,252,170,170,3,0,0,0,136,142,2,3,0,175,2,19,202,0,
    16,0,0,0,0,0,0,0,1,62,142,150,125,172,217,96,50,76,172,91,106,167,33,35,91,245,123,148,151,113,200,103,
    152,159,73,208,78,212,124,105,51,245,123,148,151,113,200,103,152,159,73,208,78,212,124,105,52,207,2,0,0,0,0,0,
    0,0,0,0,0,0,0,0,0,125,10,246,223,81,233,156,222,122,24,116,83,240,249,53,55,0,80,207,167,44,222,53,
    178,193,226,49,146,85,128,106,179,100,23,159,217,103,48,65,185,165,147,159,161,162,1,13,42,199,148,226,81,104,5,95,
    121,77,220,31,223,174,53,33,244,68,107,253,17,218,152,52,95,84,61,246,206,25,157,248,254,72,248,205,209,122,220,168,
    123,244,87,17,24,60,73,109,65,170,12,108,57,145,12,
};
static const uint8_t k_ccmp_packets_4[159] = {
    0,0,24,0,142,88,0,0,16,108,108,9,192,0,100,0,0,56,0,0,239,69,111,112,8,1,44,0,0,12,65,130,
    178,85,0,13,147,130,54,58,0,12,65,130,178,85,160,1,170,170,3,0,0,0,136,142,2,3,0,95,2,3,10,0,
    16,0,0,0,0,0,0,0,1,0,0,0,0,0,0,0,0,0,0,0,0,0,0,0,0,0,0,0,0,0,0,0,
    0,0,0,0,0,0,0,0,0,0,0,0,0,0,0,0,0,0,0,0,0,0,0,0,0,0,0,0,0,0,0,0,
    0,0,0,0,0,0,0,0,0,16,187,163,189,251,207,222,43,197,55,80,157,113,242,236,209,0,0,239,69,111,112,
};
static const uint8_t k_ccmp_packets_5[404] = {
    0,0,24,0,142,88,0,0,16,108,108,9,192,0,100,0,0,57,0,0,44,168,148,39,8,65,44,0,0,12,65,130,
    178,85,0,13,147,130,54,58,255,255,255,255,255,255,176,1,1,0,0,32,0,0,0,0,126,204,246,10,193,221,255,176,
    71,150,195,11,161,156,146,198,18,30,128,3,144,245,239,74,121,190,64,178,90,240,84,27,111,77,28,231,39,8,194,149,
    207,88,25,69,140,24,213,31,100,86,122,124,197,255,133,231,166,139,35,138,51,94,68,68,247,222,12,94,239,114,29,159,
    219,13,81,68,3,209,201,6,70,21,35,62,252,226,75,65,109,83,140,136,132,94,70,13,41,99,14,218,114,151,253,219,
    181,102,172,10,5,249,33,31,191,36,57,154,21,169,21,17,4,57,189,12,12,81,10,8,74,136,144,80,1,252,100,204,
    154,79,202,210,81,214,224,241,85,0,183,19,251,66,194,68,96,88,42,104,208,165,185,156,128,142,1,44,32,10,197,39,
    176,235,50,15,117,125,96,234,1,250,121,246,92,47,195,85,102,144,98,217,37,227,228,76,2,145,193,167,54,213,15,11,
    140,108,104,222,158,83,110,217,127,235,67,147,130,128,75,115,146,58,97,127,204,239,55,96,207,101,152,247,126,57,185,144,
    166,209,103,171,92,166,169,87,118,56,254,168,52,44,151,171,213,84,245,111,234,72,235,72,190,82,223,200,39,102,123,28,
    9,8,120,88,185,150,154,116,16,45,83,227,125,53,46,228,98,68,132,61,2,245,27,4,67,100,203,38,51,253,46,140,
    22,10,33,49,36,86,229,116,116,137,51,224,216,73,91,232,35,151,216,156,183,57,247,171,160,232,68,194,184,220,58,61,
    87,209,167,176,126,169,255,151,163,215,23,255,2,131,11,88,44,168,148,39,
};
static const uint8_t k_ccmp_packets_6[652] = {
    0,0,24,0,142,88,0,0,16,108,108,9,192,0,100,0,0,41,0,0,190,202,53,174,8,66,44,0,0,13,147,130,
    54,58,0,12,65,130,178,85,0,12,65,130,178,83,240,252,1,0,0,32,0,0,0,0,119,49,71,116,105,136,85,205,
    132,196,180,119,142,132,254,142,107,185,34,64,127,182,129,59,98,183,207,159,167,27,149,169,74,170,255,149,57,187,223,19,
    162,165,18,63,50,153,100,9,247,29,231,199,141,125,148,9,183,62,244,101,50,254,146,237,122,204,152,151,197,153,31,122,
    219,59,230,26,123,231,100,31,201,119,175,228,12,189,233,235,65,148,46,143,49,144,44,76,79,143,126,163,219,81,122,250,
    102,252,179,97,116,151,128,138,29,29,171,64,93,233,245,44,35,244,249,140,160,198,188,44,120,38,104,52,107,70,115,34,
    239,117,195,195,20,193,85,224,22,142,205,27,155,34,62,19,32,199,200,3,59,253,188,180,177,41,150,247,98,199,127,43,
    239,236,116,51,19,185,188,97,156,151,64,144,20,103,61,23,210,236,235,23,216,116,121,14,191,150,210,255,195,230,167,53,
    254,207,35,28,18,209,240,112,156,181,151,30,81,215,6,225,106,153,48,91,102,171,115,62,46,70,255,39,183,219,199,73,
    97,127,92,18,153,206,150,200,7,153,82,151,34,170,177,94,178,149,202,164,210,176,112,106,73,213,101,14,195,115,168,153,
    217,52,76,130,116,159,226,247,234,238,6,250,141,149,133,208,40,106,172,130,187,114,216,250,124,47,4,227,198,97,125,69,
    2,219,87,123,79,150,116,187,239,120,236,199,185,96,30,112,233,237,179,28,46,149,102,253,150,133,179,71,7,119,201,39,
    196,106,251,100,195,201,47,109,227,158,27,70,207,241,222,179,225,220,189,224,97,134,11,150,127,235,224,222,110,141,224,0,
    167,126,72,155,185,162,128,141,120,39,165,5,211,222,20,11,129,222,142,149,130,136,106,105,118,135,9,220,180,196,117,66,
    82,215,186,107,252,85,41,131,238,85,233,197,228,157,49,42,57,52,40,235,240,208,248,180,26,153,227,223,33,247,236,162,
    226,253,63,144,199,157,164,56,185,19,8,197,210,129,90,177,16,119,165,208,244,247,253,121,10,51,15,215,140,231,51,198,
    168,11,54,126,135,145,13,161,192,119,16,184,30,235,23,133,20,247,139,30,235,110,211,13,39,76,4,153,83,236,215,52,
    107,75,188,73,74,60,203,80,194,127,7,65,225,195,139,166,176,22,151,54,204,159,5,254,82,145,230,163,254,191,206,29,
    198,78,198,232,238,247,104,245,100,67,108,90,88,177,136,32,28,76,108,195,172,251,121,158,23,52,33,118,205,239,50,163,
    118,65,150,69,109,152,70,31,235,102,126,254,209,228,148,203,137,34,20,69,141,180,177,154,155,35,101,1,78,207,67,117,
    29,104,9,244,3,220,131,61,190,202,53,174,
};
static const uint8_t* const k_ccmp_packets[] = {k_ccmp_packets_0, k_ccmp_packets_1, k_ccmp_packets_2, k_ccmp_packets_3, k_ccmp_packets_4, k_ccmp_packets_5, k_ccmp_packets_6};
static const unsigned k_ccmp_packets_size[] = {168, 181, 181, 239, 159, 404, 652};
static const unsigned k_tkip_packets_n = 7;
static const uint8_t k_tkip_packets_0[108] = {
    0,0,18,0,46,72,0,0,0,2,108,9,160,0,221,3,0,0,128,0,0,0,255,255,255,255,255,255,0,27,17,210,
    27,235,0,27,17,210,27,235,128,178,129,97,244,15,0,0,0,0,100,0,17,0,0,4,78,79,68,79,1,4,130,132,
    139,150,3,1,1,5,4,0,1,0,0,48,20,1,0,0,15,172,2,1,0,0,15,172,2,1,0,0,15,172,2,0,
    0,221,9,0,3,127,1,1,0,32,255,127,
};
static const uint8_t k_tkip_packets_1[149] = {
    0,0,18,0,46,72,0,0,0,22,108,9,160,0,220,3,0,0,8,2,212,0,148,12,109,143,147,136,0,27,17,210,
    27,235,0,27,17,210,27,235,208,178,170,170,3,0,0,0,136,142,1,3,0,95,2,0,137,0,32,0,0,0,0,0,
    0,0,1,22,241,158,216,151,86,157,129,160,33,116,210,24,191,213,40,130,92,75,22,151,22,95,91,248,168,188,129,250,
    161,255,151,0,0,0,0,0,0,0,0,0,0,0,0,0,0,0,0,0,0,0,0,0,0,0,0,0,0,0,0,0,
    0,0,0,0,0,0,0,0,0,0,0,0,0,0,0,0,0,0,0,0,0,
};
static const uint8_t k_tkip_packets_2[171] = {
    0,0,18,0,46,72,0,0,0,4,108,9,160,0,217,3,0,0,8,1,2,1,0,27,17,210,27,235,148,12,109,143,
    147,136,0,27,17,210,27,235,16,0,170,170,3,0,0,0,136,142,1,3,0,117,2,1,9,0,0,0,0,0,0,0,
    0,0,1,218,108,51,136,69,196,171,10,209,139,6,156,170,155,110,241,223,96,73,83,201,28,222,131,70,209,158,97,95,
    244,21,252,0,0,0,0,0,0,0,0,0,0,0,0,0,0,0,0,0,0,0,0,0,0,0,0,0,0,0,0,0,
    0,0,0,50,47,4,90,85,130,65,3,66,245,143,64,146,174,5,207,0,22,48,20,1,0,0,15,172,2,1,0,0,
    15,172,2,1,0,0,15,172,2,0,0,
};
static const uint8_t k_tkip_packets_3[211] = {
    0,0,18,0,46,72,0,0,0,11,108,9,160,0,221,3,0,0,8,2,222,0,148,12,109,143,147,136,0,27,17,210,
    27,235,0,27,17,210,27,235,224,178,170,170,3,0,0,0,136,142,1,3,0,157,2,19,201,0,32,0,0,0,0,0,
    0,0,2,22,241,158,216,151,86,157,129,160,33,116,210,24,191,213,40,130,92,75,22,151,22,95,91,248,168,188,129,250,
    161,255,151,130,92,75,22,151,22,95,91,248,168,188,129,250,161,255,152,153,0,0,0,0,0,0,0,0,0,0,0,0,
    0,0,0,200,127,245,65,126,225,15,125,92,194,78,120,25,55,127,161,0,62,177,70,196,230,213,190,41,84,138,229,131,
    21,227,143,239,152,60,170,35,101,197,230,223,109,20,24,167,6,69,155,148,212,94,203,228,45,8,69,76,47,148,124,147,
    146,141,231,60,11,189,254,170,106,73,190,229,99,202,247,41,133,130,175,
};
static const uint8_t k_tkip_packets_4[149] = {
    0,0,18,0,46,72,0,0,0,4,108,9,160,0,218,3,0,0,8,1,2,1,0,27,17,210,27,235,148,12,109,143,
    147,136,0,27,17,210,27,235,32,0,170,170,3,0,0,0,136,142,1,3,0,95,2,3,9,0,0,0,0,0,0,0,
    0,0,2,0,0,0,0,0,0,0,0,0,0,0,0,0,0,0,0,0,0,0,0,0,0,0,0,0,0,0,0,0,
    0,0,0,0,0,0,0,0,0,0,0,0,0,0,0,0,0,0,0,0,0,0,0,0,0,0,0,0,0,0,0,0,
    0,0,0,178,109,5,166,193,94,143,159,84,66,114,244,166,240,46,1,0,0,
};
static const uint8_t k_tkip_packets_5[134] = {
    0,0,18,0,46,72,0,0,0,22,108,9,160,0,217,3,0,0,8,65,213,0,0,27,17,210,27,235,148,12,109,143,
    147,136,0,27,17,210,27,235,176,50,3,35,41,32,0,0,0,0,119,117,235,153,200,251,227,211,149,31,231,139,36,2,
    146,81,132,63,193,42,220,53,70,104,119,139,60,76,204,96,218,54,101,218,192,111,144,148,97,141,252,180,201,214,206,191,
    242,102,114,76,237,61,190,167,5,132,128,149,38,88,155,242,191,244,202,206,175,80,15,124,44,108,39,224,72,217,38,175,
    70,187,224,215,21,143,
};
static const uint8_t k_tkip_packets_6[134] = {
    0,0,18,0,46,72,0,0,0,22,108,9,160,0,218,3,0,0,8,65,213,0,0,27,17,210,27,235,148,12,109,143,
    147,136,0,27,17,210,27,235,192,50,3,35,42,32,0,0,0,0,168,193,175,225,65,44,37,61,12,214,29,41,12,133,
    137,107,94,99,138,118,238,219,83,108,25,181,195,163,47,193,177,2,53,152,111,13,169,165,84,127,163,139,194,120,242,195,
    144,28,13,162,53,143,220,86,40,217,222,38,69,206,184,38,125,79,210,85,1,129,2,190,26,109,243,227,75,176,160,86,
    158,124,41,153,11,0,
};
static const uint8_t* const k_tkip_packets[] = {k_tkip_packets_0, k_tkip_packets_1, k_tkip_packets_2, k_tkip_packets_3, k_tkip_packets_4, k_tkip_packets_5, k_tkip_packets_6};
static const unsigned k_tkip_packets_size[] = {108, 149, 171, 211, 149, 134, 134};
static const uint8_t k_wep_packet[86] = {
    8,66,0,0,255,255,255,255,255,255,0,18,191,18,50,41,0,13,84,161,160,76,224,123,205,210,58,0,197,228,176,195,
    234,135,161,205,155,75,35,247,7,96,17,234,15,141,137,251,20,68,48,171,27,11,244,76,43,50,130,40,129,37,30,61,
    8,41,145,93,88,55,194,210,247,237,236,134,182,216,85,225,102,139,93,178,214,154,
};

// ================================================================ workloads

// ---- 0: parse Ethernet / [Dot1Q] / IP / TCP
void digest_tcp_packet(Dig& d, const Bytes& wire) {
    EthernetII eth(wire.data(), (uint32_t)wire.size());
    d << eth.src_addr() << eth.dst_addr() << eth.payload_type() << eth.size();
    if (const Dot1Q* q = eth.find_pdu<Dot1Q>()) d << uint16_t(q->id()) << q->payload_type();
    const IP& ip = eth.rfind_pdu<IP>();
    d << ip.src_addr() << ip.dst_addr() << ip.ttl() << ip.id() << ip.tos() << ip.tot_len() << ip.checksum()
      << uint8_t(ip.head_len()) << ip.protocol() << ip.is_fragmented();
    for (IP::options_type::const_iterator it = ip.options().begin(); it != ip.options().end(); ++it) {
        d << uint8_t(it->option().number) << uint64_t(it->data_size());
        d.raw(it->data_ptr(), it->data_size());
    }
    const TCP& tcp = eth.rfind_pdu<TCP>();
    d << tcp.sport() << tcp.dport() << tcp.seq() << tcp.ack_seq() << tcp.window() << tcp.checksum()
      << uint16_t(tcp.flags()) << uint8_t(tcp.data_offset());
    for (TCP::options_type::const_iterator it = tcp.options().begin(); it != tcp.options().end(); ++it) {
        d << uint8_t(it->option()) << uint64_t(it->data_size());
        d.raw(it->data_ptr(), it->data_size());
    }
    try { d << tcp.mss(); } catch (option_not_found&) { d << "no-mss"; }
    try { d << uint16_t(tcp.winscale()); } catch (option_not_found&) { d << "no-ws"; }
    try { std::pair<uint32_t, uint32_t> ts = tcp.timestamp(); d << ts.first << ts.second; } catch (option_not_found&) { d << "no-ts"; }
    try { TCP::sack_type s = tcp.sack(); for (size_t i = 0; i < s.size(); ++i) d << s[i]; } catch (option_not_found&) { d << "no-sack"; }
    d << tcp.has_sack_permitted();
    if (const RawPDU* raw = eth.find_pdu<RawPDU>()) d << raw->payload();
    d << eth.serialize();          // serialization of the parsed packet (recomputes checksums)
}
uint64_t w_parse_tcp(int scale) {
    Dig d;
    int rounds = scale ? 4 : 1;
    for (int r = 0; r < rounds; ++r) {
        Bytes a = unhex(kTcp1), b = unhex(kTcp2);
        digest_tcp_packet(d, a);
        digest_tcp_packet(d, b);
        // a truncated copy must be rejected the same way every time
        Bytes c(a.begin(), a.begin() + 30);
        try { EthernetII e(c.data(), (uint32_t)c.size()); d << e.size(); } catch (malformed_packet&) { d << "malformed"; }
    }
    return d.h;
}

// ---- 1: parse DNS + all section getters
void digest_resources(Dig& d, const DNS::resources_type& rs) {
    d << uint64_t(rs.size());
    for (DNS::resources_type::const_iterator it = rs.begin(); it != rs.end(); ++it)
        d << it->dname() << it->data() << it->query_type() << it->query_class() << it->ttl() << it->preference();
}
uint64_t w_parse_dns(int scale) {
    Dig d;
    int rounds = scale ? 4 : 1;
    for (int r = 0; r < rounds; ++r) {
        Bytes w = unhex(kDns);
        DNS dns(w.data(), (uint32_t)w.size());
        d << dns.id() << uint8_t(dns.type()) << uint8_t(dns.opcode()) << uint8_t(dns.rcode()) << dns.questions_count()
          << dns.answers_count() << dns.authority_count() << dns.additional_count();
        DNS::queries_type qs = dns.queries();
        for (DNS::queries_type::const_iterator it = qs.begin(); it != qs.end(); ++it)
            d << it->dname() << uint16_t(it->query_type()) << uint16_t(it->query_class());
        digest_resources(d, dns.answers());
        digest_resources(d, dns.authority());
        digest_resources(d, dns.additional());
        d << dns.serialize();
        d << DNS::encode_domain_name("www.example.com");
    }
    return d.h;
}

// ---- 2: build + serialize IP / UDP / DNS
uint64_t w_build_dns(int scale) {
    Dig d;
    int rounds = scale ? 4 : 1;
    for (int r = 0; r < rounds; ++r) {
        DNS dns;
        dns.id(uint16_t(0x4000 + r));
        dns.type(DNS::RESPONSE);
        dns.recursion_desired(1);
        dns.add_query(DNS::query("mail.example.net", DNS::MX, DNS::IN));
        dns.add_answer(DNS::resource("mail.example.net", "mx1.example.net", DNS::MX, DNS::IN, 1800, 5));
        dns.add_answer(DNS::resource("mx1.example.net", "198.51.100.7", DNS::A, DNS::IN, 60));
        dns.add_authority(DNS::resource("example.net", "ns.example.net", DNS::NS, DNS::IN, 7200));
        dns.add_additional(DNS::resource("ns.example.net", "2001:db8::35", DNS::AAAA, DNS::IN, 7200));
        IP pkt = IP("203.0.113.9", "198.51.100.1") / UDP(53, 40000 + r) / dns;
        pkt.ttl(64);
        pkt.id(uint16_t(77 + r));
        Bytes out = pkt.serialize();
        d << out << pkt.size();
        // and read it back
        IP back(out.data(), (uint32_t)out.size());
        const UDP& udp = back.rfind_pdu<UDP>();
        d << udp.sport() << udp.dport() << udp.length() << udp.checksum();
        DNS dns2 = back.rfind_pdu<RawPDU>().to<DNS>();
        digest_resources(d, dns2.answers());
        digest_resources(d, dns2.authority());
        digest_resources(d, dns2.additional());
    }
    return d.h;
}

// ---- 3: RadioTap set (ascending field order on an empty header) / serialize / parse
uint64_t w_radiotap(int scale) {
    Dig d;
    int rounds = scale ? 3 : 1;
    for (int r = 0; r < rounds; ++r) {
        // empty radiotap header (version 0, pad 0, length 8, present 0) + 10 byte 802.11 ACK
        Bytes root = unhex("0000080000000000" "d4000000021122334455");
        RadioTap rt(root.data(), (uint32_t)root.size());
        rt.tsft(0x0102030405060708ULL + r);
        rt.flags(RadioTap::FrameFlags(RadioTap::PREAMBLE));
        rt.rate(0x16);
        rt.channel(5180, 0x0140);
        rt.dbm_signal(-61);
        rt.dbm_noise(-93);
        rt.antenna(2);
        rt.db_signal(33);
        rt.rx_flags(0x0002);
        rt.tx_flags(0x0008);
        rt.data_retries(3);
        rt.mcs(RadioTap::mcs_type{0x07, 0x11, 0x0c});
        d << uint32_t(rt.present()) << rt.header_size();
        Bytes out = rt.serialize();
        d << out;
        RadioTap back(out.data(), (uint32_t)out.size());
        d << back.tsft() << uint16_t(back.flags()) << back.rate() << back.channel_freq() << back.channel_type()
          << uint8_t(back.dbm_signal()) << uint8_t(back.dbm_noise()) << back.antenna() << back.db_signal()
          << back.rx_flags() << back.tx_flags() << back.data_retries() << back.length() << uint32_t(back.present());
        RadioTap::mcs_type m = back.mcs();
        d << m.known << m.flags << m.mcs;
        try { d << back.xchannel().frequency; } catch (field_not_present&) { d << "no-xchannel"; }
        d << (back.find_pdu<Dot11>() ? back.rfind_pdu<Dot11>().addr1().to_string() : std::string("no-dot11"));
    }
    return d.h;
}

// ---- 4: IPv4 reassembly
uint16_t ip_csum(const uint8_t* p, size_t n) {
    uint32_t s = 0;
    for (size_t i = 0; i + 1 < n; i += 2) s += (p[i] << 8) | p[i + 1];
    while (s >> 16) s = (s & 0xffff) + (s >> 16);
    return (uint16_t)~s;
}
Bytes make_fragment(const Bytes& dgram, size_t from, size_t to, bool mf) {
    Bytes h(dgram.begin(), dgram.begin() + 20);
    uint16_t tot = uint16_t(20 + (to - from));
    h[2] = tot >> 8; h[3] = tot & 0xff;
    uint16_t fo = uint16_t((from / 8) | (mf ? 0x2000 : 0));
    h[6] = fo >> 8; h[7] = fo & 0xff;
    h[10] = h[11] = 0;
    uint16_t c = ip_csum(h.data(), 20);
    h[10] = c >> 8; h[11] = c & 0xff;
    h.insert(h.end(), dgram.begin() + 20 + from, dgram.begin() + 20 + to);
    return h;
}
uint64_t w_reassembly(int scale) {
    Dig d;
    int rounds = scale ? 3 : 1;
    for (int r = 0; r < rounds; ++r) {
        IP orig = IP("10.9.8.7", "10.1.1.1") / UDP(4000, 5000) / RawPDU(pattern(91, uint8_t(3 + r)));
        orig.id(uint16_t(0x7000 + r));
        orig.ttl(55);
        Bytes dg = orig.serialize();
        size_t plen = dg.size() - 20;
        size_t cuts[5] = {0, 24, 48, 72, plen};
        static const int order[4] = {2, 0, 3, 1};
        IPv4Reassembler reasm;
        for (int k = 0; k < 4; ++k) {
            int f = order[k];
            Bytes fb = make_fragment(dg, cuts[f], cuts[f + 1], f != 3);
            IP frag(fb.data(), (uint32_t)fb.size());
            IPv4Reassembler::PacketStatus st = reasm.process(frag);
            d << int(st);
            if (st == IPv4Reassembler::REASSEMBLED) {
                d << frag.serialize() << frag.rfind_pdu<UDP>().dport() << frag.rfind_pdu<RawPDU>().payload();
            }
        }
        // an unfragmented packet passes through
        IP plain(dg.data(), (uint32_t)dg.size());
        d << int(reasm.process(plain));
        reasm.clear_streams();
    }
    return d.h;
}

// ---- 5: StreamFollower with a short connection (explicit timestamps)
struct FollowLog {
    Dig* d;
    void on_new(TCPIP::Stream& s) {
        *d << "new" << s.client_addr_v4() << s.client_port() << s.server_addr_v4() << s.server_port();
        using namespace std::placeholders;
        s.client_data_callback(std::bind(&FollowLog::on_client, this, _1));
        s.server_data_callback(std::bind(&FollowLog::on_server, this, _1));
        s.stream_closed_callback(std::bind(&FollowLog::on_closed, this, _1));
    }
    void on_client(TCPIP::Stream& s) { *d << "c" << s.client_payload(); }
    void on_server(TCPIP::Stream& s) { *d << "s" << s.server_payload(); }
    void on_closed(TCPIP::Stream& s) { *d << "closed" << s.is_finished(); }
    void on_term(TCPIP::Stream&, TCPIP::StreamFollower::TerminationReason why) { *d << "term" << int(why); }
};
void feed(TCPIP::StreamFollower& f, bool from_client, uint16_t flags, uint32_t seq, uint32_t ack, const char* data, uint64_t us) {
    IP ip = from_client ? IP("192.0.2.80", "192.0.2.10") : IP("192.0.2.10", "192.0.2.80");
    TCP tcp(from_client ? 80 : 33000, from_client ? 33000 : 80);
    tcp.flags(flags);
    tcp.seq(seq);
    tcp.ack_seq(ack);
    EthernetII eth = EthernetII("02:00:00:00:00:02", "02:00:00:00:00:01") / ip / tcp;
    if (data && *data) eth /= RawPDU(std::string(data));
    Packet pkt(eth, Timestamp(std::chrono::microseconds(us)));
    f.process_packet(pkt);
}
uint64_t w_follower(int scale) {
    Dig d;
    int rounds = scale ? 3 : 1;
    for (int r = 0; r < rounds; ++r) {
        FollowLog log;
        log.d = &d;
        TCPIP::StreamFollower f;
        using namespace std::placeholders;
        f.new_stream_callback(std::bind(&FollowLog::on_new, &log, _1));
        f.stream_termination_callback(std::bind(&FollowLog::on_term, &log, _1, _2));
        uint32_t ci = 0xfffffff0u + r, si = 5000;   // client ISN near the wrap point
        uint64_t t = 1000000;
        feed(f, true, TCP::SYN, ci, 0, 0, t += 1000);
        feed(f, false, TCP::SYN | TCP::ACK, si, ci + 1, 0, t += 1000);
        feed(f, true, TCP::ACK, ci + 1, si + 1, 0, t += 1000);
        feed(f, true, TCP::PSH | TCP::ACK, ci + 1 + 14, si + 1, "Host: a\r\n\r\n", t += 1000);   // out of order
        feed(f, true, TCP::PSH | TCP::ACK, ci + 1, si + 1, "GET / HTTP/1.1", t += 1000);
        feed(f, false, TCP::PSH | TCP::ACK, si + 1, ci + 1 + 25, "HTTP/1.1 200 OK\r\n\r\nhello", t += 1000);
        feed(f, true, TCP::FIN | TCP::ACK, ci + 1 + 25, si + 1 + 24, 0, t += 1000);
        feed(f, false, TCP::FIN | TCP::ACK, si + 1 + 24, ci + 1 + 26, 0, t += 1000);
        feed(f, true, TCP::ACK, ci + 1 + 26, si + 1 + 25, 0, t += 1000);
    }
    return d.h;
}

// ---- 6: WEP decrypt
uint64_t w_wep(int scale) {
    Dig d;
    int rounds = scale ? 3 : 1;
    for (int r = 0; r < rounds; ++r) {
        Bytes w(k_wep_packet, k_wep_packet + sizeof(k_wep_packet));
        Dot11Data dot11(w.data(), (uint32_t)w.size());
        Crypto::WEPDecrypter dec;
        dec.add_password("00:12:bf:12:32:29", "\x1f\x1f\x1f\x1f\x1f");
        bool ok = dec.decrypt(dot11);
        d << ok;
        if (const ARP* arp = dot11.find_pdu<ARP>())
            d << arp->sender_hw_addr() << arp->target_hw_addr() << arp->sender_ip_addr() << arp->target_ip_addr() << arp->opcode();
        d << dot11.serialize();
        Dot11Data again(w.data(), (uint32_t)w.size());
        dec.add_password("00:12:bf:12:32:29", "\x1f\x1f\x1f\x1f\x1e");
        d << dec.decrypt(again);      // wrong key: ICV (crc32) mismatch
    }
    return d.h;
}

// ---- 7 / 7b: WPA2: beacon + 4-way handshake -> keys -> decrypt the data frames; CCMP and TKIP captures.
// Three thread-private decrypters per run: passphrase + SSID (keys must be learned from the handshake: PBKDF2, PRF, MIC check),
// a WRONG passphrase (the handshake must be rejected: no keys, nothing decrypts), and direct keys (the learned keys installed
// with add_decryption_keys).  The digest holds: which frames decrypted, the plaintext layers, the key material, the key count.
void wpa2_frames(Dig& d, Crypto::WPA2Decrypter& dec, const uint8_t* const* pk, const unsigned* sz, unsigned n, unsigned from) {
    for (unsigned i = from; i < n; ++i) {
        Bytes w(pk[i], pk[i] + sz[i]);
        RadioTap radio(w.data(), (uint32_t)w.size());
        bool ok = dec.decrypt(radio);
        d << ok;
        if (ok) {
            if (const UDP* u = radio.find_pdu<UDP>()) d << u->sport() << u->dport();
            if (const TCP* t = radio.find_pdu<TCP>()) d << t->sport() << t->dport() << t->window();
            d << radio.rfind_pdu<Dot11>().size();
            if (const IP* ip = radio.find_pdu<IP>()) d << ip->src_addr() << ip->dst_addr();
            if (const RawPDU* raw = radio.find_pdu<RawPDU>()) d << raw->payload();
            d << radio.serialize();
        }
    }
}
void wpa2_run(Dig& d, const char* psk, const char* ssid, const uint8_t* const* pk, const unsigned* sz, unsigned n) {
    Crypto::WPA2Decrypter dec;
    dec.add_ap_data(psk, ssid);
    wpa2_frames(d, dec, pk, sz, n, 0);
    const Crypto::WPA2Decrypter::keys_map& keys = dec.get_keys();
    d << uint64_t(keys.size());                              // 1 = handshake accepted, keys learned
    Crypto::WPA2Decrypter direct;                            // direct keys: no handshake needed, data frames only
    for (Crypto::WPA2Decrypter::keys_map::const_iterator it = keys.begin(); it != keys.end(); ++it) {
        d << it->first.first << it->first.second << it->second.uses_ccmp() << it->second.get_ptk();
        direct.add_decryption_keys(it->first, it->second);
    }
    wpa2_frames(d, direct, pk, sz, n, 5);
    Crypto::WPA2Decrypter wrong;                             // wrong passphrase: MIC check must fail
    wrong.add_ap_data(std::string(psk) + "x", ssid);
    wpa2_frames(d, wrong, pk, sz, n, 0);
    d << uint64_t(wrong.get_keys().size());                  // 0
}
uint64_t w_wpa2(int) {
    Dig d;
    wpa2_run(d, "Induction", "Coherer", k_ccmp_packets, k_ccmp_packets_size, k_ccmp_packets_n);
    return d.h;
}
uint64_t w_wpa2_tkip(int) {
    Dig d;
    wpa2_run(d, "libtinstest", "NODO", k_tkip_packets, k_tkip_packets_size, k_tkip_packets_n);
    return d.h;
}

// ---- 8: addresses: parse / format / ranges / predicates
uint64_t w_addresses(int scale) {
    Dig d;
    static const char* const v4[] = {"10.0.0.1", "172.16.254.3", "172.32.0.1", "192.168.1.77", "127.0.0.1", "224.0.0.251",
                                     "239.255.255.250", "255.255.255.255", "8.8.8.8", "169.254.1.1", "0.0.0.0", "192.169.0.1"};
    for (size_t i = 0; i < sizeof(v4) / sizeof(*v4); ++i) {
        std::string txt(v4[i]);                  // private copy of the text
        IPv4Address a(txt);
        d << a << a.is_private() << a.is_loopback() << a.is_multicast() << a.is_unicast() << a.is_broadcast()
          << uint32_t(a) << (a == IPv4Address::broadcast) << (a < IPv4Address("172.16.0.0"));
    }
    try { std::string t("300.1.2.3"); IPv4Address bad(t); d << bad; } catch (invalid_address&) { d << "invalid"; }
    IPv4Range r4 = IPv4Address("192.168.7.248") / 29;
    for (IPv4Range::const_iterator it = r4.begin(); it != r4.end(); ++it) d << *it;
    d << r4.contains("192.168.7.250") << r4.contains("192.168.8.1");
    IPv4Range m4 = IPv4Range::from_mask("10.20.0.0", "255.255.255.252");
    for (IPv4Range::const_iterator it = m4.begin(); it != m4.end(); ++it) d << *it;
    static const char* const v6[] = {"::1", "ff02::1", "fe80::1", "2001:db8::1", "fc00::5", "fd12:3456::1", "::", "::ffff:1.2.3.4",
                                     "2001:db8:0:0:1:0:0:1"};
    for (size_t i = 0; i < sizeof(v6) / sizeof(*v6); ++i) {
        std::string txt(v6[i]);
        IPv6Address a(txt);
        d << a << a.is_loopback() << a.is_multicast() << a.is_local_unicast();
        d.raw(a.begin(), 16);
    }
    try { std::string t("1::2::3"); IPv6Address bad(t); d << bad; } catch (invalid_address&) { d << "invalid6"; }
    IPv6Range r6 = IPv6Address("2001:db8::fff8") / 125;
    for (IPv6Range::const_iterator it = r6.begin(); it != r6.end(); ++it) d << *it;
    d << r6.contains("2001:db8::fffa") << r6.contains("2001:db8::1:0");
    static const char* const hw[] = {"00:11:22:33:44:55", "ff:ff:ff:ff:ff:ff", "01:00:5e:00:00:fb", "02:aa:bb:cc:dd:ee"};
    for (size_t i = 0; i < sizeof(hw) / sizeof(*hw); ++i) {
        std::string txt(hw[i]);
        HWAddress<6> a(txt);
        d << a << a.is_broadcast() << a.is_multicast() << a.is_unicast() << (a == HWAddress<6>::broadcast);
    }
    typedef AddressRange<HWAddress<6> > HWRange;
    HWRange rh = HWAddress<6>("00:11:22:33:44:f8") / 45;
    for (HWRange::const_iterator it = rh.begin(); it != rh.end(); ++it) d << *it;
    if (scale) {
        IPv4Range big = IPv4Address("10.77.0.0") / 22;
        uint64_t n = 0;
        for (IPv4Range::const_iterator it = big.begin(); it != big.end(); ++it) { n += uint32_t(*it) & 0xff; d << it->is_private(); }
        d << n;
    }
    return d.h;
}

// ---- 9: CRC-32 / checksums
uint64_t w_checksums(int scale) {
    Dig d;
    int rounds = scale ? 4 : 1;
    for (int r = 0; r < rounds; ++r) {
        Bytes data = pattern(61 + r, uint8_t(17 + r));
        d << Utils::crc32(data.data(), (uint32_t)data.size());
        d << Utils::do_checksum(data.data(), data.data() + data.size());
        d << Utils::sum_range(data.data(), data.data() + data.size());
        d << Utils::pseudoheader_checksum(IPv4Address("1.2.3.4"), IPv4Address("200.100.50.25"), 61, 6);
        d << Utils::pseudoheader_checksum(IPv6Address("2001:db8::1"), IPv6Address("2001:db8::2"), 61, 17);
        IP a = IP("200.100.50.25", "1.2.3.4") / TCP(22, 1022) / RawPDU(data);
        d << a.serialize();
        IPv6 b = IPv6("2001:db8::2", "2001:db8::1") / UDP(53, 5353) / RawPDU(data);
        d << b.serialize();
        ICMP echo(ICMP::ECHO_REQUEST);
        echo.id(9);
        echo.sequence(uint16_t(r));
        IP c = IP("200.100.50.25", "1.2.3.4") / echo / RawPDU(data);
        d << c.serialize();
        IPv6 e = IPv6("2001:db8::2", "2001:db8::1") / ICMPv6(ICMPv6::ECHO_REQUEST) / RawPDU(data);
        d << e.serialize();
    }
    return d.h;
}

// ---- 10: PDU copy / move / clone
uint64_t w_copy_move(int scale) {
    Dig d;
    int rounds = scale ? 4 : 1;
    for (int r = 0; r < rounds; ++r) {
        EthernetII a = EthernetII("02:00:00:00:00:09", "02:00:00:00:00:08") / IP("10.3.3.3", "10.4.4.4") / TCP(8080, 1234) /
                       RawPDU(pattern(33, uint8_t(r)));
        a.rfind_pdu<TCP>().mss(1400);
        EthernetII b(a);                          // copy constructor
        d << b.serialize();
        EthernetII c;
        c = a;                                    // copy assignment
        c.rfind_pdu<IP>().ttl(9);
        d << c.serialize() << a.serialize();
        PDU* p = a.clone();                       // clone
        d << p->serialize() << int(p->pdu_type()) << p->size();
        PDU* inner = p->release_inner_pdu();
        d << p->size() << inner->size() << int(inner->pdu_type());
        delete inner;
        delete p;
        EthernetII m(std::move(b));               // move constructor
        d << m.serialize() << b.size();
        EthernetII n;
        n = std::move(c);                         // move assignment
        d << n.serialize() << c.size();
        IP ip = a.rfind_pdu<IP>();                // copy of an inner layer (sub-tree)
        d << ip.serialize() << (ip.parent_pdu() == 0);
        Packet pk(a, Timestamp(std::chrono::microseconds(123456789)));
        Packet pk2(pk);
        Packet pk3(std::move(pk));
        d << pk2.pdu()->serialize() << pk3.pdu()->serialize() << uint64_t(pk2.timestamp().seconds()) << uint64_t(pk3.timestamp().microseconds());
    }
    return d.h;
}

// ---- 11: parsing through registered / unknown EtherTypes and IP protocols (allocator registry)
uint64_t w_registry(int scale) {
    Dig d;
    int rounds = scale ? 4 : 1;
    for (int r = 0; r < rounds; ++r) {
        static const uint16_t ethertypes[] = {0x88b5 /* registered */, 0x9999 /* unknown */, 0x0800, 0x0101};
        for (size_t i = 0; i < 4; ++i) {
            Bytes w = unhex("02aabbccddee021122334455");
            w.push_back(ethertypes[i] >> 8);
            w.push_back(ethertypes[i] & 0xff);
            Bytes body;
            if (ethertypes[i] == 0x0800) {
                static const uint8_t protos[] = {253 /* registered */, 254 /* unknown */, 99};
                for (size_t k = 0; k < 3; ++k) {
                    Bytes ipb = unhex("4500002000010000400000000a0000010a000002");
                    ipb[9] = protos[k];
                    uint16_t c = ip_csum(ipb.data(), 20);
                    ipb[10] = c >> 8; ipb[11] = c & 0xff;
                    Bytes pay = pattern(12, uint8_t(k));
                    ipb.insert(ipb.end(), pay.begin(), pay.end());
                    Bytes w2 = w;
                    w2.insert(w2.end(), ipb.begin(), ipb.end());
                    EthernetII e(w2.data(), (uint32_t)w2.size());
                    const IP& ip = e.rfind_pdu<IP>();
                    d << ip.protocol() << int(ip.inner_pdu() ? ip.inner_pdu()->pdu_type() : -1)
                      << (ip.find_pdu<UserPDU<1> >() != 0) << (ip.find_pdu<RawPDU>() != 0);
                    d << e.serialize();
                }
                continue;
            }
            body = pattern(20, uint8_t(i));
            w.insert(w.end(), body.begin(), body.end());
            EthernetII e(w.data(), (uint32_t)w.size());
            d << e.payload_type() << int(e.inner_pdu() ? e.inner_pdu()->pdu_type() : -1) << (e.find_pdu<UserPDU<0> >() != 0)
              << (e.find_pdu<RawPDU>() != 0);
            d << e.serialize();                    // pdu_type_registered / pdu_type_to_id on the way out
        }
        // IPv6 next header unknown, SLL / Dot1Q / SNAP lookups
        Bytes v6 = unhex("6000000000 08 fd 40" "20010db8000000000000000000000001" "20010db8000000000000000000000002" "0102030405060708");
        Bytes v6b;
        for (size_t i = 0; i < v6.size(); ++i) v6b.push_back(v6[i]);
        try {
            IPv6 p(v6b.data(), (uint32_t)v6b.size());
            d << p.next_header() << int(p.inner_pdu() ? p.inner_pdu()->pdu_type() : -1) << p.serialize();
        } catch (malformed_packet&) { d << "malformed6"; }
        Bytes q = unhex("02aabbccddee0211223344558100" "0005" "9999" "0011223344556677");
        Dot1Q* dq = 0;
        EthernetII e(q.data(), (uint32_t)q.size());
        dq = e.find_pdu<Dot1Q>();
        d << (dq ? dq->payload_type() : 0) << e.serialize();
        Bytes sn = unhex("aaaa03" "000000" "9999" "00112233");
        SNAP snap(sn.data(), (uint32_t)sn.size());
        d << snap.eth_type() << snap.serialize();
    }
    return d.h;
}

// ---- 12: ICMPv6 / DHCPv6 typed options
uint64_t w_options6(int scale) {
    Dig d;
    int rounds = scale ? 3 : 1;
    for (int r = 0; r < rounds; ++r) {
        ICMPv6 ra(ICMPv6::ROUTER_ADVERT);
        ra.hop_limit(64);
        ra.router_lifetime(1800);
        ra.source_link_layer_addr("02:00:5e:10:20:30");
        ra.prefix_info(ICMPv6::prefix_info_type(64, 1, 1, 86400, 14400, "2001:db8:1::"));
        ra.mtu(ICMPv6::mtu_type(0, 1480));
        ICMPv6::recursive_dns_type::servers_type servers;
        servers.push_back("2001:db8::53");
        servers.push_back("2001:db8::54");
        ra.recursive_dns_servers(ICMPv6::recursive_dns_type(600, servers));
        ICMPv6::dns_search_list_type::domains_type doms;
        doms.push_back("example.org");
        doms.push_back("lab.example.org");
        ra.dns_search_list(ICMPv6::dns_search_list_type(900, doms));
        IPv6 pkt = IPv6("ff02::1", "fe80::1") / ra;
        pkt.hop_limit(255);
        Bytes out = pkt.serialize();
        d << out;
        IPv6 back(out.data(), (uint32_t)out.size());
        const ICMPv6& i6 = back.rfind_pdu<ICMPv6>();
        d << uint8_t(i6.type()) << i6.checksum() << i6.source_link_layer_addr() << i6.mtu().second;
        ICMPv6::prefix_info_type pi = i6.prefix_info();
        d << pi.prefix_len << uint8_t(pi.A) << uint8_t(pi.L) << pi.valid_lifetime << pi.preferred_lifetime << pi.prefix;
        ICMPv6::recursive_dns_type rd = i6.recursive_dns_servers();
        d << rd.lifetime;
        for (size_t i = 0; i < rd.servers.size(); ++i) d << rd.servers[i];
        ICMPv6::dns_search_list_type sl = i6.dns_search_list();
        d << sl.lifetime;
        for (size_t i = 0; i < sl.domains.size(); ++i) d << sl.domains[i];
        try { d << i6.target_link_layer_addr(); } catch (option_not_found&) { d << "no-tlla"; }

        DHCPv6 sol;
        sol.msg_type(DHCPv6::SOLICIT);
        sol.transaction_id(0x0a0b0c + r);
        DHCPv6::duid_ll::lladdress_type ll;
        for (int i = 0; i < 6; ++i) ll.push_back(uint8_t(0x20 + i));
        sol.client_id(DHCPv6::duid_type(DHCPv6::duid_ll(1, ll)));
        DHCPv6::ia_na_type::options_type iaopts;
        for (int i = 0; i < 4; ++i) iaopts.push_back(uint8_t(i));
        sol.ia_na(DHCPv6::ia_na_type(0x11223344, 3600, 5400, iaopts));
        sol.elapsed_time(uint16_t(100 + r));
        DHCPv6::option_request_type oro;
        oro.push_back(DHCPv6::DNS_SERVERS);
        oro.push_back(DHCPv6::DOMAIN_LIST);
        sol.option_request(oro);
        sol.status_code(DHCPv6::status_code_type(2, "no addrs"));
        sol.preference(200);
        sol.rapid_commit();
        Bytes so = sol.serialize();
        d << so;
        DHCPv6 sb(so.data(), (uint32_t)so.size());
        d << uint8_t(sb.msg_type()) << uint32_t(sb.transaction_id()) << sb.elapsed_time() << sb.preference() << sb.has_rapid_commit();
        DHCPv6::ia_na_type ia = sb.ia_na();
        d << ia.id << ia.t1 << ia.t2 << ia.options;
        DHCPv6::duid_type du = sb.client_id();
        d << du.id << Bytes(du.data.begin(), du.data.end());
        DHCPv6::option_request_type o2 = sb.option_request();
        for (size_t i = 0; i < o2.size(); ++i) d << o2[i];
        DHCPv6::status_code_type sc = sb.status_code();
        d << sc.code << sc.message;
        try { d << sb.reconfigure_msg(); } catch (option_not_found&) { d << "no-reconf"; }
    }
    return d.h;
}

// ================================================================ canaries (harness-local; NOT libtins)
// Racy: a formatter with a function-local static scratch buffer, the classic "trade safety for speed" mistake.
__attribute__((noinline)) uint64_t canary_format(uint32_t v, int digits) {
    static char scratch[40];
    for (int i = 0; i < digits; ++i) scratch[i] = char('a' + ((v >> (i % 8 * 4)) & 15));   // write ...
    scratch[digits] = 0;
    uint64_t h = 1469598103934665603ULL;
    for (int i = 0; scratch[i]; ++i) { h ^= uint8_t(scratch[i]); h *= 1099511628211ULL; }  // ... then read back
    return h;
}
uint64_t w_canary_a(int) { return canary_format(0x13572468u, 6) ^ (canary_format(0x0badcafeu, 4) << 1); }
uint64_t w_canary_b(int) { return canary_format(0xfedcba98u, 6) ^ (canary_format(0x600dd00du, 4) << 1); }

// Guarded: a function-local static with a dynamic initialiser (compiler emits __cxa_guard_acquire/release).
// Concurrent first use is synchronised by the guard: must be classified as ordered, explored without a race.
std::vector<uint32_t> make_table() {
    std::vector<uint32_t> t;
    for (uint32_t i = 0; i < 16; ++i) t.push_back(i * 2654435761u);
    return t;
}
__attribute__((noinline)) uint32_t guarded_lookup(uint32_t i) {
    static const std::vector<uint32_t> table = make_table();
    return table[i & 15];
}
uint64_t w_guarded_a(int) { uint64_t h = 0; for (uint32_t i = 0; i < 6; ++i) h = h * 31 + guarded_lookup(i); return h; }
uint64_t w_guarded_b(int) { uint64_t h = 0; for (uint32_t i = 9; i < 15; ++i) h = h * 31 + guarded_lookup(i); return h; }


// Locked: a static cache protected by a std::mutex: shared and written, but every access is synchronised.
__attribute__((noinline)) uint64_t locked_cache(uint32_t v) {
    static std::mutex mtx;
    static uint32_t cache[4];
    std::lock_guard<std::mutex> hold(mtx);
    for (int i = 0; i < 4; ++i) cache[i] = v * (i + 1);
    uint64_t h = 0;
    for (int i = 0; i < 4; ++i) h = h * 1099511628211ULL + cache[i];
    return h;
}
uint64_t w_locked_a(int) { return locked_cache(0x1234567u) ^ (locked_cache(77) << 3); }
uint64_t w_locked_b(int) { return locked_cache(0x7654321u) ^ (locked_cache(99) << 3); }


// Foreign: the shared state lives in an UNINSTRUMENTED library: gmtime() returns a pointer to one static struct tm inside libc.
__attribute__((noinline)) uint64_t foreign_static_user(time_t when) {
    const struct tm* t = gmtime(&when);
    return uint64_t(t->tm_year) * 1000000 + uint64_t(t->tm_yday) * 1000 + uint64_t(t->tm_hour) * 10 + uint64_t(t->tm_min % 10);
}
uint64_t w_foreign_a(int) { return foreign_static_user(86400 * 365 + 3600 * 5 + 60); }
uint64_t w_foreign_b(int) { return foreign_static_user(86400 * 9000 + 3600 * 17 + 420); }

}  // namespace

namespace c18 {
uint64_t sweep_build_serialize(int scale);      // harness/C18_sweep.cpp
uint64_t sweep_parse_getters(int scale);
uint64_t desc_kept_a(int); uint64_t desc_kept_b(int);        // harness/C18_descend.cpp
uint64_t desc_gone_a(int); uint64_t desc_gone_b(int);
uint64_t desc_bythread_a(int); uint64_t desc_bythread_b(int);
uint64_t canary_cow_a(int); uint64_t canary_cow_b(int);
const Workload kWorkloads[] = {
    {"parse_eth_ip_tcp", w_parse_tcp, LIBTINS},
    {"parse_dns", w_parse_dns, LIBTINS},
    {"build_ip_udp_dns", w_build_dns, LIBTINS},
    {"radiotap", w_radiotap, LIBTINS},
    {"ip_reassembly", w_reassembly, LIBTINS},
    {"stream_follower", w_follower, LIBTINS},
    {"wep_decrypt", w_wep, LIBTINS},
    {"wpa2_decrypt", w_wpa2, LIBTINS},
    {"wpa2_tkip_decrypt", w_wpa2_tkip, LIBTINS},
    {"addresses", w_addresses, LIBTINS},
    {"checksums_crc", w_checksums, LIBTINS},
    {"pdu_copy_move_clone", w_copy_move, LIBTINS},
    {"allocator_registry", w_registry, LIBTINS},
    {"icmpv6_dhcpv6_options", w_options6, LIBTINS},
    {"sweep_build_serialize", sweep_build_serialize, LIBTINS},
    {"sweep_parse_getters", sweep_parse_getters, LIBTINS},
    {"desc_ancestor_kept_a", desc_kept_a, DESCENDANT},
    {"desc_ancestor_kept_b", desc_kept_b, DESCENDANT},
    {"desc_ancestor_gone_a", desc_gone_a, DESCENDANT},
    {"desc_ancestor_gone_b", desc_gone_b, DESCENDANT},
    {"desc_ancestor_freed_by_a", desc_bythread_a, DESCENDANT},
    {"desc_ancestor_freed_by_a_b", desc_bythread_b, DESCENDANT},
    {"canary_racy_a", w_canary_a, CANARY_RACY},
    {"canary_racy_b", w_canary_b, CANARY_RACY},
    {"canary_guarded_a", w_guarded_a, CANARY_GUARDED},
    {"canary_guarded_b", w_guarded_b, CANARY_GUARDED},
    {"canary_locked_a", w_locked_a, CANARY_LOCKED},
    {"canary_locked_b", w_locked_b, CANARY_LOCKED},
    {"canary_copyshare_a", canary_cow_a, CANARY_COPYSHARE},
    {"canary_copyshare_b", canary_cow_b, CANARY_COPYSHARE},
    {"canary_foreign_static_a", w_foreign_a, CANARY_FOREIGN},
    {"canary_foreign_static_b", w_foreign_b, CANARY_FOREIGN},
};
const int kNumWorkloads = sizeof(kWorkloads) / sizeof(kWorkloads[0]);
const int kNumLibtins = 16;
const int kNumDescendant = 6;

void setup_registry() {
    Allocators::register_allocator<EthernetII, UserPDU<0> >(0x88b5);
    Allocators::register_allocator<IP, UserPDU<1> >(253);
}
}  // namespace c18
