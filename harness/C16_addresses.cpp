// C16 — Address types: text round-trip, ordering and range arithmetic are exact.
// Shape B (exhaustive input enumeration).  Families: IPv4Address, IPv6Address, HWAddress<6> (+ HWAddress<2> for the
// exhaustive short-string sweep of the shared hardware-address parser).  Parts:
//   rt    text round trip of every address of a family (IPv4: all 2^32 in the thorough tier of the `fast` stage)
//   ord   <,>,<=,>=,==,!= and std::hash on all pairs of a boundary set closed under +-1
//   str   accept/reject + parsed value of EVERY string up to a length bound over a small alphabet, of every token
//         sequence of a near-valid grammar, and of every single/double edit of valid seeds, against reference acceptors
//   rng   prefix / mask / explicit ranges: ends, contains() on probe points, is_iterable(), iteration
// The work is cut into units; unit i runs in job i % njobs.  `--reduced` (stage "san") shrinks the bounds so that the
// same code also runs under ASan+UBSan.
#include "common.hpp"
#include <tins/tins.h>
#include <tins/address_range.h>
#include <sys/resource.h>
#include <sys/wait.h>
#include <arpa/inet.h>

using namespace Tins;
using namespace mc;

typedef unsigned __int128 u128;
typedef HWAddress<6> HW6;
typedef HWAddress<2> HW2;
typedef HWAddress<3> HW3;
typedef HWAddress<8> HW8;

static bool g_reduced = false;
static bool g_replaying = false;
static int g_replay_hits = 0;

// ---------------------------------------------------------------- helpers
static std::string hx(u128 v, int bits) {
    std::string s;
    for (int i = bits / 4 - 1; i >= 0; --i) s += "0123456789abcdef"[(int)((v >> (4 * i)) & 15)];
    return s;
}
static u128 unhx(const std::string& s) {
    u128 v = 0;
    for (char c : s) v = (v << 4) | (u128)(c <= '9' ? c - '0' : (c | 32) - 'a' + 10);
    return v;
}
static std::string shex(const std::string& s) { return hex((const uint8_t*)s.data(), s.size()); }
static std::string sunhex(const std::string& h) { Bytes b = unhex(h); return std::string(b.begin(), b.end()); }
static u128 maxv(int bits) { return bits == 128 ? ~(u128)0 : (((u128)1 << bits) - 1); }
static std::map<std::string, std::string> kvparse(const std::string& s) {
    std::map<std::string, std::string> m;
    std::istringstream in(s);
    std::string t;
    while (in >> t) { size_t e = t.find('='); if (e != std::string::npos) m[t.substr(0, e)] = t.substr(e + 1); }
    return m;
}
static void viol(const std::string& sig, const std::string& detail, const std::string& kase) {
    R.violation(sig, detail, kase);
    if (g_replaying) { printf("violation: %s\n  %s\n  case: %s\n", sig.c_str(), detail.c_str(), kase.c_str()); ++g_replay_hits; }
}
// sanitizer reports since the last call are attributed to `kase`
static inline void san_check(const std::function<std::string()>& kase) {
    if (Mon::errors) { viol(Mon::first, Mon::first_detail, kase()); Mon::reset(); }
}
static void dist_nontrivial(const std::string& key) {
    static size_t n = 0;
    if (n < 150000) { R.dist("distinct_nontrivial", fnv(key)); ++n; }
}

// ---------------------------------------------------------------- per-family traits (the only place that touches the address API)
template <class A> struct Tr;
template <> struct Tr<IPv4Address> {
    static const int bits = 32;
    static const char* name() { return "v4"; }
    static u128 num(const IPv4Address& a) {
        uint32_t be = a; uint8_t b[4]; memcpy(b, &be, 4);
        return ((u128)b[0] << 24) | ((u128)b[1] << 16) | ((u128)b[2] << 8) | b[3];
    }
    static IPv4Address mk(u128 n) {
        uint8_t b[4] = {(uint8_t)(n >> 24), (uint8_t)(n >> 16), (uint8_t)(n >> 8), (uint8_t)n};
        uint32_t be; memcpy(&be, b, 4);
        return IPv4Address(be);
    }
    static std::string text(u128 n) {
        char b[32]; snprintf(b, sizeof b, "%u.%u.%u.%u", (unsigned)(n >> 24) & 255, (unsigned)(n >> 16) & 255, (unsigned)(n >> 8) & 255, (unsigned)n & 255);
        return b;
    }
    static IPv4Address parse(const std::string& s) { return IPv4Address(s); }
    static AddressRange<IPv4Address> slash(const IPv4Address& a, int p) { return a / p; }
    static bool prefix_mask(int p, IPv4Address& m) { m = IPv4Address::from_prefix_length(p); return true; }
};
template <> struct Tr<IPv6Address> {
    static const int bits = 128;
    static const char* name() { return "v6"; }
    static u128 num(const IPv6Address& a) { u128 v = 0; for (IPv6Address::const_iterator i = a.begin(); i != a.end(); ++i) v = (v << 8) | *i; return v; }
    static IPv6Address mk(u128 n) { uint8_t b[16]; for (int i = 0; i < 16; ++i) b[i] = (uint8_t)(n >> (8 * (15 - i))); return IPv6Address(b); }
    static std::string text(u128 n) {
        std::string s; char b[8];
        for (int g = 0; g < 8; ++g) { snprintf(b, sizeof b, "%x", (unsigned)(n >> (16 * (7 - g))) & 0xffff); if (g) s += ':'; s += b; }
        return s;
    }
    static IPv6Address parse(const std::string& s) { return IPv6Address(s); }
    static AddressRange<IPv6Address> slash(const IPv6Address& a, int p) { return a / p; }
    static bool prefix_mask(int p, IPv6Address& m) { m = IPv6Address::from_prefix_length(p); return true; }
};
template <size_t N> struct TrHW {
    typedef HWAddress<N> A;
    static const int bits = 8 * N;
    static u128 num(const A& a) { u128 v = 0; for (typename A::const_iterator i = a.begin(); i != a.end(); ++i) v = (v << 8) | *i; return v; }
    static A mk(u128 n) { uint8_t b[N]; for (size_t i = 0; i < N; ++i) b[i] = (uint8_t)(n >> (8 * (N - 1 - i))); return A(b); }
    static std::string text(u128 n) {
        std::string s; char b[8];
        for (size_t i = 0; i < N; ++i) { snprintf(b, sizeof b, "%02x", (unsigned)(n >> (8 * (N - 1 - i))) & 255); if (i) s += ':'; s += b; }
        return s;
    }
    static A parse(const std::string& s) { return A(s); }
};
template <> struct Tr<HW6> : TrHW<6> {
    static const char* name() { return "hw"; }
    static AddressRange<HW6> slash(const HW6& a, int p) { return a / p; }
    static bool prefix_mask(int, HW6&) { return false; }   // no from_prefix_length for hardware addresses
};
template <> struct Tr<HW2> : TrHW<2> {
    static const char* name() { return "hw2"; }
};
template <> struct Tr<HW3> : TrHW<3> {
    static const char* name() { return "hw3"; }
};
template <> struct Tr<HW8> : TrHW<8> {
    static const char* name() { return "hw8"; }
};

// ---------------------------------------------------------------- reference acceptors
enum Cls { INVALID = 0, VALID = 1, UNSPEC = 2 };

// dotted decimal; strict = what every reading of the documentation accepts (1-3 digits, no leading zero, <= 255);
// lenient additionally tolerates leading zeros.  strict-valid => VALID, only lenient-valid => UNSPEC, else INVALID.
static bool ref4_mode(const std::string& s, bool strict, uint32_t& out) {
    size_t i = 0, n = s.size();
    uint32_t v = 0;
    for (int g = 0; g < 4; ++g) {
        size_t st = i; uint32_t x = 0; bool big = false;
        while (i < n && s[i] >= '0' && s[i] <= '9') { x = x * 10 + (uint32_t)(s[i] - '0'); if (x > 255) big = true; ++i; if (i - st > 40) return false; }
        if (i == st || big) return false;
        if (strict && (i - st > 3 || (i - st > 1 && s[st] == '0'))) return false;
        v = (v << 8) | x;
        if (g < 3) { if (i >= n || s[i] != '.') return false; ++i; }
    }
    if (i != n) return false;
    out = v;
    return true;
}
static Cls ref4(const std::string& s, u128& val, const char*& tag) {
    uint32_t v = 0;
    // the constructors hand c_str() to inet_pton: what happens behind an embedded NUL is not documented -> not compared
    if (s.find('\0') != std::string::npos) { tag = "embedded-nul"; return UNSPEC; }
    if (ref4_mode(s, true, v)) { val = v; tag = "dotted-quad"; return VALID; }
    if (ref4_mode(s, false, v)) { val = v; tag = "leading-zero"; return UNSPEC; }
    tag = "not-dotted-quad";
    return INVALID;
}
static bool ishex(char c) { return (c >= '0' && c <= '9') || (c >= 'a' && c <= 'f') || (c >= 'A' && c <= 'F'); }
static int hexv(char c) { return c <= '9' ? c - '0' : (c | 32) - 'a' + 10; }

// RFC 4291 section 2.2 text forms: x:x:x:x:x:x:x:x, one "::" standing for >= 1 zero group, optional d.d.d.d tail.
static bool ref6_side(const std::string& part, bool may_end_in_v4, bool strict4, std::vector<uint16_t>& out) {
    if (part.empty()) return true;
    size_t i = 0;
    while (true) {
        size_t j = part.find(':', i);
        std::string piece = part.substr(i, j == std::string::npos ? std::string::npos : j - i);
        if (piece.empty()) return false;
        if (piece.find('.') != std::string::npos) {
            if (j != std::string::npos || !may_end_in_v4) return false;
            uint32_t v;
            if (!ref4_mode(piece, strict4, v)) return false;
            out.push_back((uint16_t)(v >> 16)); out.push_back((uint16_t)v);
        } else {
            if (piece.size() > 4) return false;
            uint16_t g = 0;
            for (char c : piece) { if (!ishex(c)) return false; g = (uint16_t)(g << 4 | hexv(c)); }
            out.push_back(g);
        }
        if (j == std::string::npos) break;
        i = j + 1;
    }
    return true;
}
static bool ref6_mode(const std::string& s, bool strict4, u128& val) {
    if (s.empty()) return false;
    size_t dc = s.find("::");
    std::vector<uint16_t> L, Rr;
    if (dc != std::string::npos) {
        if (s.find("::", dc + 1) != std::string::npos) return false;
        std::string left = s.substr(0, dc), right = s.substr(dc + 2);
        if (!ref6_side(left, false, strict4, L)) return false;
        if (!ref6_side(right, true, strict4, Rr)) return false;
        if (L.size() + Rr.size() > 7) return false;
    } else {
        if (!ref6_side(s, true, strict4, L)) return false;
        if (L.size() != 8) return false;
    }
    uint16_t g[8] = {0, 0, 0, 0, 0, 0, 0, 0};
    for (size_t i = 0; i < L.size(); ++i) g[i] = L[i];
    for (size_t i = 0; i < Rr.size(); ++i) g[8 - Rr.size() + i] = Rr[i];
    val = 0;
    for (int i = 0; i < 8; ++i) val = (val << 16) | g[i];
    return true;
}
static Cls ref6(const std::string& s, u128& val, const char*& tag) {
    if (s.find('\0') != std::string::npos) { tag = "embedded-nul"; return UNSPEC; }
    if (ref6_mode(s, true, val)) { tag = "rfc4291"; return VALID; }
    if (ref6_mode(s, false, val)) { tag = "leading-zero-in-v4-tail"; return UNSPEC; }
    tag = "not-rfc4291";
    return INVALID;
}
// Hardware address of n bytes, "00:01:da:fa:..." (hw_address.h).  VALID: k <= n groups of exactly two hex digits
// separated by single colons (k < n: zero padded — fixed by the repository's own ShortStringConstructor test).
// INVALID: a character that is neither a hex digit nor ':', a group of three or more digits, more than n groups.
// UNSPEC (acceptance not compared): the empty string, groups of zero or one digit (the parser is lenient on purpose: it treats
// ':' as a group terminator), leading / trailing colon.  libtins' accepted language there is odd but consistent (a one-digit
// group must be followed by ':', so "1:2:3:4:5:6" is rejected while "1:2:3:4:5:06" and "1:2:3:4:5:6:" are accepted) and the
// statement does not forbid it, so accept/reject stays unjudged; but WHEN such a text is accepted its VALUE is judged against
// the reference parser: group k (0..2 hex digits, empty = 0) is byte k, missing groups are zero, one trailing ':' adds nothing.
static bool g_ref_value_known = false;     // set by the classifiers: `val` is the reference value of the text (VALID, or UNSPEC hw text)
static Cls refhw(const std::string& s, size_t n, u128& val, const char*& tag) {
    std::vector<std::string> g;
    size_t i = 0;
    while (true) {
        size_t j = s.find(':', i);
        g.push_back(s.substr(i, j == std::string::npos ? std::string::npos : j - i));
        if (j == std::string::npos) break;
        i = j + 1;
    }
    // does the text hold n groups of <= 2 hex digits and then go on?  (only used to split the signatures: whatever makes
    // such a string invalid sits behind a complete address)
    bool tail = g.size() > n;
    for (size_t k = 0; k < n && tail; ++k) { if (g[k].size() > 2) tail = false; for (char c : g[k]) if (!ishex(c)) tail = false; }
    bool foreign = false, longgroup = false, all2 = true;
    for (char c : s) if (!ishex(c) && c != ':') foreign = true;
    for (auto& x : g) { if (x.size() >= 3) longgroup = true; if (x.size() != 2) all2 = false; }
    if (foreign) { tag = tail ? "garbage-after-complete-address" : "foreign-character"; return INVALID; }
    if (longgroup) { tag = tail ? "garbage-after-complete-address" : "group-of-3-or-more-digits"; return INVALID; }
    if (!all2) {
        tag = "short-group";
        if (g.size() <= n || (g.size() == n + 1 && g[n].empty())) {
            val = 0;
            for (size_t k = 0; k < n; ++k) { u128 b = 0; if (k < g.size()) for (char c : g[k]) b = (b << 4) | (u128)hexv(c); val = (val << 8) | b; }
            g_ref_value_known = true;
        }
        return UNSPEC;
    }
    if (g.size() > n) { tag = "more-groups-than-address-size"; return INVALID; }
    val = 0;
    for (size_t k = 0; k < n; ++k) val = (val << 8) | (k < g.size() ? (u128)(hexv(g[k][0]) << 4 | hexv(g[k][1])) : 0);
    tag = g.size() == n ? "full" : "short-zero-padded";
    return VALID;
}
template <class A> Cls ref_classify(const std::string& s, u128& v, const char*& tag);
template <> Cls ref_classify<IPv4Address>(const std::string& s, u128& v, const char*& tag) { return ref4(s, v, tag); }
template <> Cls ref_classify<IPv6Address>(const std::string& s, u128& v, const char*& tag) { return ref6(s, v, tag); }
template <> Cls ref_classify<HW6>(const std::string& s, u128& v, const char*& tag) { return refhw(s, 6, v, tag); }
template <> Cls ref_classify<HW2>(const std::string& s, u128& v, const char*& tag) { return refhw(s, 2, v, tag); }
template <> Cls ref_classify<HW3>(const std::string& s, u128& v, const char*& tag) { return refhw(s, 3, v, tag); }
template <> Cls ref_classify<HW8>(const std::string& s, u128& v, const char*& tag) { return refhw(s, 8, v, tag); }

// ---------------------------------------------------------------- part str: one string against the reference acceptor
struct StrStats { uint64_t total = 0, acc = 0, rej = 0, unspec = 0, other_exc = 0, unspec_value = 0, valcmp = 0; };
template <class A> static void check_string(const std::string& s, StrStats& st) {
    typedef Tr<A> T;
    u128 want = 0; const char* tag = "";
    g_ref_value_known = false;
    Cls c = ref_classify<A>(s, want, tag);
    if (c == VALID) g_ref_value_known = true;
    bool acc = false; u128 got = 0; int exc = 0; int rt = 0; std::string own;
    try {
        A a = T::parse(s); acc = true; got = T::num(a);
        // the accepted value must survive its own text form
        try { own = a.to_string(); A b = T::parse(own); rt = (b == a && T::num(b) == got) ? 0 : 1; } catch (std::exception&) { rt = 2; }
    }
    catch (invalid_address&) { exc = 1; }
    catch (std::exception&) { exc = 2; }
    catch (...) { exc = 3; }
    ++st.total;
    if (acc) ++st.acc; else ++st.rej;
    if (exc == 2) ++st.other_exc;
    auto kase = [&]() { return std::string("part=str fam=") + T::name() + " s=" + shex(s); };
    if (Mon::errors) san_check(kase);
    if (exc == 3) viol(std::string("reject:") + T::name() + ":non-std-exception", "parsing threw something that is not a std::exception", kase());
    if (acc && rt) viol(std::string("text:") + T::name() + (rt == 1 ? ":accepted-value-own-text-parses-to-other-address" : ":accepted-value-own-text-rejected"),
                        "text " + jstr(s) + " parsed as " + hx(got, T::bits) + "; its to_string() " + jstr(own) + (rt == 1 ? " parses to another address" : " is rejected"), kase());
    if (c == UNSPEC) {
        ++st.unspec;
        if (acc && g_ref_value_known) {
            ++st.unspec_value; ++st.valcmp;
            if (got != want) viol(std::string("parse:") + T::name() + ":wrong-value:" + tag, "text " + jstr(s) + " parsed as " + hx(got, T::bits) + ", reference parser " + hx(want, T::bits), kase());
            else dist_nontrivial(std::string(T::name()) + "|" + s);
        }
        return;
    }
    if (c == VALID) {
        if (acc) ++st.valcmp;
        if (!acc) viol(std::string("parse:") + T::name() + ":rejects-valid:" + tag, "valid address text " + jstr(s) + " was rejected", kase());
        else if (got != want) viol(std::string("parse:") + T::name() + ":wrong-value:" + tag, "text " + jstr(s) + " parsed as " + hx(got, T::bits) + ", reference " + hx(want, T::bits), kase());
        else dist_nontrivial(std::string(T::name()) + "|" + s);
    } else if (acc) {
        viol(std::string("reject:") + T::name() + ":accepts-invalid:" + tag, "invalid address text " + jstr(s) + " was accepted as " + T::text(got), kase());
    }
}
static void flush_stats(const char* fam, const StrStats& st) {
    std::string f = fam;
    R.count("strings_" + f, st.total); R.count("strings_" + f + "_accepted", st.acc); R.count("strings_" + f + "_rejected", st.rej);
    R.count("strings_" + f + "_unspecified_not_compared", st.unspec);
    if (st.unspec_value) R.count("strings_" + f + "_unspecified_acceptance_but_value_compared", st.unspec_value);
    R.count("accepted_values_compared_with_reference_parser", st.valcmp);
    if (st.other_exc) R.count("strings_" + f + "_rejected_with_other_std_exception", st.other_exc);
    R.count("evaluations", st.total);
}

// every string over `alpha` of length 1..L whose first character is alpha[first] (+ the empty string when first == 0)
template <class A> static void enum_strings(const std::string& alpha, int L, int first, StrStats& st) {
    std::string s;
    if (first == 0) check_string<A>(s, st);
    std::vector<int> idx;
    s.push_back(alpha[first]); idx.push_back(first);
    while (true) {
        check_string<A>(s, st);
        if ((int)s.size() < L) { s.push_back(alpha[0]); idx.push_back(0); continue; }
        // advance
        while (idx.size() > 1 && idx.back() + 1 == (int)alpha.size()) { idx.pop_back(); s.erase(s.size() - 1); }
        if (idx.size() == 1) break;
        ++idx.back(); s[s.size() - 1] = alpha[idx.back()];
    }
}
// every sequence of 1..K tokens joined by `sep`, first token fixed
template <class A> static void enum_tokens(const std::vector<std::string>& tok, const std::string& sep, int K, int first, StrStats& st) {
    std::vector<int> idx(1, first);
    while (true) {
        std::string s;
        for (size_t i = 0; i < idx.size(); ++i) { if (i) s += sep; s += tok[idx[i]]; }
        check_string<A>(s, st);
        if ((int)idx.size() < K) { idx.push_back(0); continue; }
        while (idx.size() > 1 && idx.back() + 1 == (int)tok.size()) idx.pop_back();
        if (idx.size() == 1) break;
        ++idx.back();
    }
}
// all single edits of s (substitute / insert / delete) over alphabet
static void edits(const std::string& s, const std::string& alpha, std::vector<std::string>& out) {
    for (size_t i = 0; i < s.size(); ++i) { std::string t = s; t.erase(i, 1); out.push_back(t); }
    for (size_t i = 0; i < s.size(); ++i) for (char c : alpha) if (c != s[i]) { std::string t = s; t[i] = c; out.push_back(t); }
    for (size_t i = 0; i <= s.size(); ++i) for (char c : alpha) { std::string t = s; t.insert(i, 1, c); out.push_back(t); }
}
template <class A> static void enum_edits(const std::string& seed, const std::string& alpha, int depth, int slice, int nslices, StrStats& st) {
    std::vector<std::string> e1;
    edits(seed, alpha, e1);
    if (slice == 0) { check_string<A>(seed, st); for (auto& t : e1) check_string<A>(t, st); }
    if (depth < 2) return;
    for (size_t i = slice; i < e1.size(); i += nslices) {
        std::vector<std::string> e2;
        edits(e1[i], alpha, e2);
        for (auto& t : e2) check_string<A>(t, st);
    }
}

// "single foreign byte": every one of the 256 byte values substituted at / inserted before every position of a valid seed;
// mode 1: every pair of positions x a 27-value set of range-neighbour / control / high bytes; mode 2: all 65536 byte pairs in
// the first and in the last two-character group of the seed
static const uint8_t NEIGH[] = {0x01, 0x09, 0x0a, 0x10, 0x19, 0x1a, 0x20, 0x2f, 0x30, 0x39, 0x3a, 0x40, 0x41, 0x46, 0x47, 0x5b, 0x60,
                                0x61, 0x66, 0x67, 0x7f, 0x80, 0xb0, 0xb9, 0xc1, 0xe1, 0xff};
template <class A> static void enum_foreign_bytes(const std::string& seed, int mode, StrStats& st) {
    if (mode == 0) {
        check_string<A>(seed, st);
        for (size_t i = 0; i < seed.size(); ++i) for (int b = 0; b < 256; ++b) { if ((char)b == seed[i]) continue; std::string t = seed; t[i] = (char)b; check_string<A>(t, st); }
        for (size_t i = 0; i <= seed.size(); ++i) for (int b = 0; b < 256; ++b) { std::string t = seed; t.insert(i, 1, (char)b); check_string<A>(t, st); }
    } else if (mode == 1) {
        for (size_t i = 0; i < seed.size(); ++i) for (size_t j = i + 1; j < seed.size(); ++j)
            for (uint8_t x : NEIGH) for (uint8_t y : NEIGH) { std::string t = seed; t[i] = (char)x; t[j] = (char)y; check_string<A>(t, st); }
    } else {
        size_t at[2] = {0, seed.size() - 2};
        for (size_t p : at) for (int x = 0; x < 256; ++x) for (int y = 0; y < 256; ++y) { std::string t = seed; t[p] = (char)x; t[p + 1] = (char)y; check_string<A>(t, st); }
    }
}

// structured IPv6 texts: z zero groups hidden by "::" (z = 0: no "::") at EVERY position, the remaining 8 - z groups written with
// every assignment of tokens of 1..4 digits with / without leading zeros and mixed case; tail = 1: the last two groups as dotted quad.
// The first hex group's token is fixed (unit split).
static void v6s_tokens(bool thorough, std::vector<std::string>& t) {
    const char* all[] = {"b", "0c", "00d", "f0E1", "1a2", "000e"};
    size_t n = thorough ? 6 : 4;
    t.assign(all, all + n);
}
static void enum_v6_structured(int z, int tail, int first, const std::vector<std::string>& tok, StrStats& st) {
    int g = 8 - z - 2 * tail;                 // hex groups written
    if (g < 0 || (g == 0 && first != 0)) return;
    std::vector<int> idx((size_t)g, 0);
    if (g) idx[0] = first;
    const std::string quad = "1.22.133.4";
    while (true) {
        int np = z ? g + 1 : 1;
        for (int p = 0; p < np; ++p) {        // "::" stands before hex group p (p == g: behind the last hex group)
            std::string s;
            int written = 0;
            for (int k = 0; k < g; ++k) {
                if (z && k == p) { s += "::"; written = 0; }
                if (written) s += ':';
                s += tok[idx[k]]; written = 1;
            }
            if (z && p == g) { s += "::"; written = 0; }
            if (tail) { if (written) s += ':'; s += quad; }
            check_string<IPv6Address>(s, st);
        }
        int k = g - 1;
        while (k >= 1 && idx[k] + 1 == (int)tok.size()) { idx[k] = 0; --k; }
        if (k < 1) break;
        ++idx[k];
    }
}

// ---------------------------------------------------------------- part rt: text round trip of one address value
template <class A> static inline bool roundtrip_one(u128 n, bool upper) {
    typedef Tr<A> T;
    A a = T::mk(n);
    const char* bad = 0; std::string detail;
    if (T::num(a) != n) { bad = "bytes-roundtrip"; detail = "address built from bytes " + hx(n, T::bits) + " reads back as " + hx(T::num(a), T::bits); }
    else {
        std::string s = a.to_string();
        try {
            A b = T::parse(s);
            if (!(b == a) || T::num(b) != n) { bad = "own-text-parses-to-other-address"; detail = "to_string() = " + jstr(s) + " parses to " + hx(T::num(b), T::bits); }
            if (!bad && upper) {
                std::string u = s; for (char& c : u) if (c >= 'a' && c <= 'f') c = (char)(c - 32);
                A c2 = T::parse(u);
                if (!(c2 == a)) { bad = "uppercase-text-parses-to-other-address"; detail = jstr(u) + " parses to " + hx(T::num(c2), T::bits); }
            }
        } catch (std::exception&) { bad = "own-text-rejected"; detail = "to_string() = " + jstr(s) + " is rejected by the constructor"; }
        if (!bad) {
            std::string r = T::text(n);
            try { A c = T::parse(r); if (T::num(c) != n || !(c == a)) { bad = "standard-text-parses-to-other-address"; detail = jstr(r) + " parses to " + hx(T::num(c), T::bits); } }
            catch (std::exception&) { bad = "standard-text-rejected"; detail = jstr(r) + " is rejected"; }
        }
    }
    if (bad) { viol(std::string("text:") + T::name() + ":" + bad, detail, std::string("part=rt fam=") + T::name() + " addr=" + hx(n, T::bits)); return false; }
    return true;
}

// ---------------------------------------------------------------- boundary sets
static std::vector<u128> boundary(int bits, int level) {   // level 0 small, 1 medium, 2 full
    std::set<u128> seeds;
    u128 M = maxv(bits);
    seeds.insert(0); seeds.insert(M);
    seeds.insert(2); seeds.insert(3); seeds.insert(M - 2); seeds.insert(M - 3);
    for (int k = 0; k < bits; ++k) {
        bool take = level >= 2 || k % 8 == 0 || k % 8 == 7 || k < 3 || k >= bits - 3 || (level >= 1 && k % 4 == 0);
        if (!take) continue;
        seeds.insert((u128)1 << k);
        seeds.insert((M << k) & M);
        seeds.insert(M >> k);
    }
    static const uint8_t pat[] = {0x01, 0x7f, 0x80, 0xaa, 0x55, 0xfe, 0x0f, 0xf0};
    for (uint8_t p : pat) {
        u128 v = 0; for (int i = 0; i < bits / 8; ++i) v = (v << 8) | p;
        seeds.insert(v); seeds.insert(v & ~(u128)0xffff); seeds.insert(v | 0xffff);
        if (level >= 1) { seeds.insert(v & ~(u128)0xff); seeds.insert(v | 0xff); seeds.insert((v & ~(u128)0xffffff) & M); seeds.insert(v | 0xffffff); }
    }
    { u128 v = 0; for (int i = 0; i < bits / 8; ++i) v = (v << 8) | (u128)(i + 1); seeds.insert(v); }
    if (bits == 32) { seeds.insert(0xc0a80000u); seeds.insert(0x0a000000u); seeds.insert(0xac100000u); seeds.insert(0x7f000001u); seeds.insert(0xe0000000u); }
    if (bits == 128) { seeds.insert(((u128)0xffff) << 32 | 0x01020304u); seeds.insert(((u128)0xfe80) << 112); seeds.insert(((u128)0xff00) << 112); seeds.insert(((u128)0xdead) << 112); }
    std::set<u128> out;
    for (u128 s : seeds) { out.insert((s - 1) & M); out.insert(s); out.insert((s + 1) & M); }
    return std::vector<u128>(out.begin(), out.end());
}

// ---------------------------------------------------------------- part ord
template <class A> static void check_order_row(const std::vector<u128>& B, size_t i) {
    typedef Tr<A> T;
    u128 x = B[i];
    A a = T::mk(x);
    std::hash<A> H;
    size_t ha = H(a);
    uint64_t n = 0;
    for (size_t j = 0; j < B.size(); ++j) {
        u128 y = B[j];
        A b = T::mk(y);
        bool lt = a < b, gt = a > b, le = a <= b, ge = a >= b, eq = a == b, ne = a != b;
        const char* bad = 0;
        if (lt != (x < y)) bad = "less-than";
        else if (gt != (x > y)) bad = "greater-than";
        else if (le != (x <= y)) bad = "less-equal";
        else if (ge != (x >= y)) bad = "greater-equal";
        else if (eq != (x == y)) bad = "equal";
        else if (ne != (x != y)) bad = "not-equal";
        if (bad) viol(std::string("order:") + T::name() + ":" + bad, "operands " + T::text(x) + " , " + T::text(y) + ": lt=" + str(lt) + " gt=" + str(gt) + " le=" + str(le) + " ge=" + str(ge) + " eq=" + str(eq) + " ne=" + str(ne),
                      std::string("part=ord fam=") + T::name() + " x=" + hx(x, T::bits) + " y=" + hx(y, T::bits));
        if (eq && H(b) != ha) viol(std::string("hash:") + T::name() + ":equal-addresses-hash-differently", T::text(x), std::string("part=ord fam=") + T::name() + " x=" + hx(x, T::bits) + " y=" + hx(y, T::bits));
        ++n;
    }
    // an equal address obtained another way (from text) must hash equally
    try {
        A a2 = T::parse(T::text(x));
        if (a2 == a && H(a2) != ha) viol(std::string("hash:") + T::name() + ":equal-addresses-hash-differently", "built from bytes vs parsed from text: " + T::text(x),
                                         std::string("part=ord fam=") + T::name() + " x=" + hx(x, T::bits) + " y=" + hx(x, T::bits));
    } catch (std::exception&) {}
    R.dist(std::string("distinct_hash_values_") + T::name(), (uint64_t)ha * 0x9e3779b97f4a7c15ULL);
    R.count("order_pairs", n); R.count("evaluations", n);
    san_check([&]() { return std::string("part=ord fam=") + T::name() + " x=" + hx(x, T::bits) + " y=all"; });
}

// ---------------------------------------------------------------- part rng
static const uint64_t FULL_ITER = 65536 + 2;   // ranges up to this many visited addresses are iterated completely
static uint64_t g_prefix_steps = 300;          // larger ranges: the first g_prefix_steps visited addresses are checked

struct RangeCase { int kind; int plen; u128 a, b; bool hosts; uint64_t limit; };   // kind 0 a/plen, 1 from_mask(a, prefix mask), 2 from_mask(a,b), 3 explicit [a,b] hosts
template <class A> static std::string range_case(const RangeCase& c) {
    typedef Tr<A> T;
    return std::string("part=rng fam=") + T::name() + " kind=" + str(c.kind) + " plen=" + str(c.plen) + " a=" + hx(c.a, T::bits) + " b=" + hx(c.b, T::bits) +
           " hosts=" + str((int)c.hosts) + " limit=" + str(c.limit);
}
template <class A> static std::string range_desc(const RangeCase& c) {
    typedef Tr<A> T;
    if (c.kind == 0) return T::text(c.a) + "/" + str(c.plen);
    if (c.kind == 1) return "from_mask(" + T::text(c.a) + ", from_prefix_length(" + str(c.plen) + "))";
    if (c.kind == 2) return "from_mask(" + T::text(c.a) + ", " + T::text(c.b) + ")";
    return "AddressRange(" + T::text(c.a) + ", " + T::text(c.b) + (c.hosts ? ", only_hosts)" : ")");
}
static u128 ref_prefix_mask(int bits, int p) { return p == 0 ? 0 : (maxv(bits) << (bits - p)) & maxv(bits); }

// iteration of r, whose ends are [first,last] (already verified), against the reference list
template <class A> static void check_iteration(const AddressRange<A>& r, const RangeCase& c, u128 first, u128 last, bool hosts, bool prefix_derived, std::set<std::string>* seen) {
    typedef Tr<A> T;
    const std::string fam = T::name();
    u128 span = last - first;                         // size - 1
    bool itb = r.is_iterable();
    if (!hosts && !itb) { viol("range:" + fam + ":is_iterable:false-for-plain-range", range_desc<A>(c) + ": is_iterable() = false", range_case<A>(c)); return; }
    if (hosts && prefix_derived && span >= 3 && !itb) {
        viol("range:" + fam + ":is_iterable:false-for-range-with-host-addresses", range_desc<A>(c) + " = [" + T::text(first) + ", " + T::text(last) + "]: is_iterable() = false", range_case<A>(c));
        return;
    }
    if (!itb) { R.count("ranges_not_iterable"); return; }          // iterating is documented as undefined
    // is_iterable() = true: iterating must visit exactly the expected addresses.  A hosts-only range of one or two
    // addresses has no host address: the expected list is empty.
    if (hosts && span <= 1) {
        R.count("hostless_ranges_reported_iterable");
        typename AddressRange<A>::const_iterator it = r.begin(), e = r.end();
        const char* how = c.kind <= 1 ? "prefix" : c.kind == 2 ? "mask" : "explicit-only-hosts";
        if (it != e) viol("range:" + fam + ":iteration:hostless-" + how + "-range-iterable-and-not-empty", range_desc<A>(c) + " = [" + T::text(first) + ", " + T::text(last) + "] has no host address, yet is_iterable() = true and begin() != end(): iteration starts at " +
                          T::text(T::num(*it)) + " outside the range", range_case<A>(c));
        return;
    }
    u128 lo = hosts ? first + 1 : first, hi = hosts ? last - 1 : last;
    if (seen) {
        std::string key = hx(first, T::bits) + hx(last, T::bits) + (hosts ? "h" : "p");
        if (!seen->insert(key).second) { R.count("ranges_iteration_deduplicated"); return; }
    }
    u128 nexp1 = hi - lo;                                            // expected count - 1
    uint64_t limit = c.limit ? c.limit : FULL_ITER;
    bool complete = nexp1 < (u128)limit;
    uint64_t todo = complete ? (uint64_t)nexp1 + 1 : (c.limit ? c.limit : g_prefix_steps);
    typename AddressRange<A>::const_iterator it = r.begin(), e = r.end();
    u128 expect = lo;
    uint64_t steps = 0;
    const char* bad = 0; std::string detail;
    while (steps < todo) {
        if (it == e || !(it != e)) { bad = "ends-early"; detail = "end() reached after " + str(steps) + " addresses, next expected " + T::text(expect); break; }
        u128 got = T::num(*it);
        if (got != expect) { bad = "wrong-address"; detail = "address #" + str(steps) + " is " + T::text(got) + ", expected " + T::text(expect); break; }
        if (T::num(A(*(it.operator->()))) != got) { bad = "arrow-differs-from-star"; break; }
        ++it; ++expect; ++steps;
    }
    if (!bad && complete && (it != e || !(it == e))) { bad = "does-not-stop-after-last"; detail = "after " + str(steps) + " addresses (last expected " + T::text(hi) + ") the iterator is not end(); it holds " + T::text(T::num(*it)); }
    R.count("iteration_steps", steps); R.count("evaluations", steps);
    R.count(complete ? "ranges_iterated_completely" : "ranges_iterated_prefix_only");
    R.maxv("longest_iteration", steps);
    if (complete) dist_nontrivial("range|" + fam + hx(first, T::bits) + hx(last, T::bits) + (hosts ? "h" : "p"));
    if (bad) viol("range:" + fam + ":iteration:" + bad, range_desc<A>(c) + " = [" + T::text(first) + ", " + T::text(last) + "]" + (hosts ? " (hosts only)" : "") + ": " + detail, range_case<A>(c));
}

template <class A> static void check_range(const RangeCase& c, std::set<std::string>* seen = 0) {
    typedef Tr<A> T;
    const std::string fam = T::name();
    const int bits = T::bits;
    const u128 M = maxv(bits);
    A a = T::mk(c.a);
    u128 first, last; bool hosts, prefix_derived = false;
    R.count("ranges_" + fam); R.count("evaluations");
    try {
        if (c.kind == 3) {
            bool threw = false;
            if (c.b < c.a) {
                try { AddressRange<A> r(a, T::mk(c.b), c.hosts); (void)r; } catch (std::runtime_error&) { threw = true; }
                if (!threw) viol("range:" + fam + ":ctor:inverted-range-accepted", range_desc<A>(c) + " did not throw", range_case<A>(c));
                R.count("ranges_inverted_rejected");
                return;
            }
        }
        u128 mask = 0;
        if (c.kind == 0 || c.kind == 1) { mask = ref_prefix_mask(bits, c.plen); prefix_derived = true; }
        else if (c.kind == 2) mask = c.b;
        A mk_mask = T::mk(mask);
        if (c.kind == 1) {
            if (!T::prefix_mask(c.plen, mk_mask)) return;
            if (T::num(mk_mask) != mask) { viol("range:" + fam + ":from_prefix_length:wrong-mask", "from_prefix_length(" + str(c.plen) + ") = " + T::text(T::num(mk_mask)) + ", expected " + T::text(mask), range_case<A>(c)); return; }
        }
        AddressRange<A> r = c.kind == 0 ? T::slash(a, c.plen)
                          : c.kind == 3 ? AddressRange<A>(a, T::mk(c.b), c.hosts)
                          : AddressRange<A>::from_mask(a, mk_mask);
        if (c.kind == 3) { first = c.a; last = c.b; hosts = c.hosts; }
        else { first = c.a & mask; last = (c.a | ~mask) & M; hosts = true; }
        // ends (private members, readable because the harness is compiled with -fno-access-control)
        if (T::num(r.first_) != first) viol("range:" + fam + ":first-is-not-address-and-mask", range_desc<A>(c) + ": first = " + T::text(T::num(r.first_)) + ", expected " + T::text(first), range_case<A>(c));
        if (T::num(r.last_) != last) viol("range:" + fam + ":last-is-not-address-or-not-mask", range_desc<A>(c) + ": last = " + T::text(T::num(r.last_)) + ", expected " + T::text(last), range_case<A>(c));
        // contains() on probe points
        u128 probes[] = {(first - 1) & M, first, (first + 1) & M, first + (last - first) / 2, (last - 1) & M, last, (last + 1) & M, 0, M, c.a, (first - 256) & M, (last + 256) & M,
                         first ^ ((u128)1 << (bits - 1)), last ^ ((u128)1 << (bits - 1))};
        for (u128 x : probes) {
            bool want = first <= x && x <= last;
            bool got = r.contains(T::mk(x));
            if (got != want) {
                const char* where = x == first ? "first" : x == last ? "last" : (x < first ? "below-first" : x > last ? "above-last" : "inside");
                viol("range:" + fam + ":contains:wrong-at-" + where, range_desc<A>(c) + " = [" + T::text(first) + ", " + T::text(last) + "]: contains(" + T::text(x) + ") = " + str(got), range_case<A>(c));
            }
        }
        R.count("contains_probes", sizeof probes / sizeof probes[0]); R.count("evaluations", sizeof probes / sizeof probes[0]);
        if (T::num(r.first_) == first && T::num(r.last_) == last) check_iteration<A>(r, c, first, last, hosts, prefix_derived, seen);
    } catch (std::exception& e) {
        viol("range:" + fam + ":unexpected-exception", range_desc<A>(c) + " threw " + e.what(), range_case<A>(c));
    }
    if (Mon::errors) san_check([&]() { return range_case<A>(c); });
}

// prefix length beyond the family's width must be refused (address_range.cpp / address_range.h: logic_error)
template <class A> static void check_overlong_prefix(u128 n, int p) {
    typedef Tr<A> T;
    bool threw = false;
    try { AddressRange<A> r = T::slash(T::mk(n), p); (void)r; } catch (std::logic_error&) { threw = true; } catch (std::exception&) { threw = true; }
    R.count("evaluations");
    std::string kase = std::string("part=overlong fam=") + T::name() + " a=" + hx(n, T::bits) + " plen=" + str(p);
    if (!threw) viol(std::string("range:") + T::name() + ":prefix-longer-than-address-accepted", T::text(n) + "/" + str(p) + " did not throw", kase);
    san_check([&]() { return kase; });
}

// it++ (AddressRangeIterator is declared a forward iterator).  Run in a forked child with a small stack and an alarm,
// so that a non-returning operator costs one case, not the job.
template <class A> static void check_postincrement(u128 first, u128 last) {
    typedef Tr<A> T;
    std::string kase = std::string("part=postinc fam=") + T::name() + " a=" + hx(first, T::bits) + " b=" + hx(last, T::bits);
    R.count("evaluations"); R.count("postincrement_cases");
    fflush(stdout); fflush(stderr);
    pid_t pid = fork();
    if (pid < 0) return;
    if (pid == 0) {
        struct rlimit rl; rl.rlim_cur = rl.rlim_max = 512 * 1024; setrlimit(RLIMIT_STACK, &rl);
        rl.rlim_cur = rl.rlim_max = 0; setrlimit(RLIMIT_CORE, &rl);
        signal(SIGALRM, SIG_DFL); alarm(20);
        close(2);
        AddressRange<A> r(T::mk(first), T::mk(last));
        typename AddressRange<A>::const_iterator it = r.begin();
        typename AddressRange<A>::const_iterator old = it++;
        bool ok = T::num(*old) == first && T::num(*it) == first + 1;
        _exit(ok ? 42 : 43);
    }
    int status = 0;
    waitpid(pid, &status, 0);
    if (WIFEXITED(status) && WEXITSTATUS(status) == 42) return;
    if (WIFEXITED(status) && WEXITSTATUS(status) == 43)
        viol(std::string("range:") + T::name() + ":iterator:post-increment-wrong-value", "old = it++ on [" + T::text(first) + ", " + T::text(last) + "] does not yield (first, first+1)", kase);
    else
        viol(std::string("range:") + T::name() + ":iterator:post-increment-does-not-return",
             "it++ on begin() of [" + T::text(first) + ", " + T::text(last) + "] never returns (child " +
                 (WIFSIGNALED(status) ? "killed by signal " + str(WTERMSIG(status)) : "exit status " + str(WEXITSTATUS(status))) + "; stack exhaustion or 20 s alarm)", kase);
}

// ---------------------------------------------------------------- units
enum Part { P_RT4 = 0, P_RT6, P_RTHW, P_ORD, P_STR_ENUM, P_STR_TOK, P_STR_EDIT, P_RNG_PREFIX, P_RNG_MASK, P_RNG_EXPLICIT, P_RNG_MISC, P_RNG_FULL, P_STR_BYTE, P_STR_V6S };
enum Fam { F_V4 = 0, F_V6, F_HW, F_HW2, F_HW3, F_HW8 };
struct Unit { int part, fam; int i0, i1, i2; uint64_t lo, hi; std::string s0, s1; };

static const char* fam_name(int f) { return f == F_V4 ? "v4" : f == F_V6 ? "v6" : f == F_HW ? "hw" : f == F_HW2 ? "hw2" : f == F_HW3 ? "hw3" : "hw8"; }
static const char* part_name(int p) {
    static const char* n[] = {"rt4", "rt6", "rthw", "ord", "str-enum", "str-tok", "str-edit", "rng-prefix", "rng-mask", "rng-explicit", "rng-misc", "rng-full", "str-byte", "str-v6-structured"};
    return n[p];
}

static const uint8_t SET12[] = {0, 1, 2, 9, 10, 99, 100, 127, 128, 199, 200, 255};
static const uint8_t SET16[] = {0, 1, 2, 9, 10, 19, 20, 99, 100, 127, 128, 199, 200, 249, 250, 255};

struct TokCfg { int fam; std::vector<std::string> tok; std::string sep; int K; };
struct EnumCfg { int fam; std::string alpha; int L; };
struct EditCfg { int fam; std::string seed, alpha; int depth, slices; };

static int bnd_level(bool thorough) { return thorough ? 2 : (g_reduced ? 0 : 1); }

static void str_configs(bool thorough, std::vector<EnumCfg>& en, std::vector<TokCfg>& tk, std::vector<EditCfg>& ed) {
    // ---- exhaustive short strings
    const std::string a4 = "0125.69 a-:", a6 = "01:fF9.g a-", ah = "09afF:g- .G";
    int L = thorough ? 7 : 6;
    if (g_reduced && !thorough) L -= 1;
    en.push_back(EnumCfg{F_V4, a4, L});
    en.push_back(EnumCfg{F_V6, a6, L});
    en.push_back(EnumCfg{F_HW, ah, L});
    en.push_back(EnumCfg{F_HW2, ah, L});
    // longer strings over the characters valid addresses are made of (this is where accepted strings live)
    int d = (g_reduced && !thorough) ? 1 : 0;
    en.push_back(EnumCfg{F_V4, "015.", (thorough ? 11 : 10) - d});         // 4^11 = 4.2M; "10.0.0.1", "0.0.0.255" ...
    en.push_back(EnumCfg{F_V4, "25.", (thorough ? 13 : 11) - d});          // 3^13 = 1.6M; three-digit octets 222 / 225 / 252 / 255 / 522 ...
    en.push_back(EnumCfg{F_V6, "0f:.", (thorough ? 11 : 10) - d});         // "::0.0.0.0", "f::f:0.0.0.0"
    en.push_back(EnumCfg{F_V6, "1:", (thorough ? 19 : 16) - 2 * d});       // 2^19: all colon / group structures up to "1:1:1:1:1:1:1:1" and beyond
    en.push_back(EnumCfg{F_HW2, "0aF:", (thorough ? 10 : 9) - d});         // full 2-byte addresses + everything that can follow them
    en.push_back(EnumCfg{F_HW2, "0:gG/@`", (thorough ? 8 : 7) - d});       // the neighbours of the digit / letter ranges
    en.push_back(EnumCfg{F_HW, "0f:", (thorough ? 14 : 12) - d});
    // ---- near-valid grammar: token sequences
    {
        TokCfg c; c.fam = F_V4; c.sep = "."; c.K = 5;
        const char* t[] = {"", "0", "1", "9", "10", "99", "100", "199", "200", "249", "250", "255", "256", "260", "300", "999", "00", "01", "001", "0255", "1000", " 1", "1 ", "a", "-1", "+1", "0x1", "1e1"};
        size_t n = thorough ? sizeof t / sizeof t[0] : (g_reduced ? 14 : 20);
        for (size_t i = 0; i < n; ++i) c.tok.push_back(t[i]);
        // order so that the reduced sets still hold the interesting tokens
        tk.push_back(c);
    }
    {
        TokCfg c; c.fam = F_V6; c.sep = ":"; c.K = 9;
        const char* t[] = {"", "1", "ffff", "1.2.3.4", "00001", "g", "0"};
        size_t n = thorough ? 6 : (g_reduced ? 4 : 5);
        for (size_t i = 0; i < n; ++i) c.tok.push_back(t[i]);
        tk.push_back(c);
    }
    {
        TokCfg c; c.fam = F_V6; c.sep = ":"; c.K = 4;       // short sequences with a wide token set
        const char* t[] = {"", "0", "1", "Ab", "ffff", "0001", "00001", "fffff", "g", "1.2.3.4", "01.2.3.4", "1.2.3", "1.2.3.4.5", "255.255.255.255", "256.0.0.1", " ", "-1", "1 "};
        for (size_t i = 0; i < sizeof t / sizeof t[0]; ++i) c.tok.push_back(t[i]);
        tk.push_back(c);
    }
    {
        TokCfg c; c.fam = F_HW; c.sep = ":"; c.K = 8;
        const char* t[] = {"00", "fF", "", "0", "000", "g0", "0g", "a-"};
        size_t n = thorough ? 8 : (g_reduced ? 4 : 6);
        for (size_t i = 0; i < n; ++i) c.tok.push_back(t[i]);
        tk.push_back(c);
    }
    {
        TokCfg c; c.fam = F_HW; c.sep = "-"; c.K = 6; c.tok.push_back("00"); c.tok.push_back("ff"); c.tok.push_back("0");   // dash-separated notation is not the documented form
        tk.push_back(c);
    }
    // ---- non-canonical but accepted texts: groups of different widths next to each other, digits chosen so that neighbouring
    //      groups carry different non-zero nibbles, mixed case; the VALUE is compared with the reference parser
    {
        TokCfg c; c.fam = F_HW; c.sep = ":"; c.K = 7;            // every width combination (0,1,2 digits) over up to 7 groups
        const char* t[] = {"", "a", "1", "1e", "F0", "0b", "C", "d7"};
        size_t n = thorough ? 8 : (g_reduced ? 5 : 6);
        for (size_t i = 0; i < n; ++i) c.tok.push_back(t[i]);
        tk.push_back(c);
    }
    {
        TokCfg c; c.fam = F_HW3; c.sep = ":"; c.K = 4;           // HWAddress<3>: full product: every group is "", one or two digits from {0,1,a,F}
        const char* dg = "01aF";
        c.tok.push_back("");
        for (int i = 0; i < 4; ++i) c.tok.push_back(std::string(1, dg[i]));
        for (int i = 0; i < 4; ++i) for (int j = 0; j < 4; ++j) { std::string x; x += dg[i]; x += dg[j]; c.tok.push_back(x); }
        tk.push_back(c);
    }
    {
        TokCfg c; c.fam = F_HW8; c.sep = ":"; c.K = 9;           // HWAddress<8>
        const char* t[] = {"", "a", "1e", "C", "07"};
        size_t n = thorough ? 5 : 4;
        for (size_t i = 0; i < n; ++i) c.tok.push_back(t[i]);
        tk.push_back(c);
    }
    {
        TokCfg c; c.fam = F_V4; c.sep = "."; c.K = 4;            // every combination of octet widths 1..3, with leading zeros (not compared unless accepted)
        const char* t[] = {"7", "42", "199", "255", "03", "007", "042", "0"};
        for (size_t i = 0; i < sizeof t / sizeof t[0]; ++i) c.tok.push_back(t[i]);
        tk.push_back(c);
    }
    // ---- edits of valid seeds
    const std::string ea = "09afAFgG:-. /@`z%";
    int depth = (g_reduced && !thorough) ? 1 : 2;
    int slices = 8;
    const char* s4[] = {"192.168.10.255", "10.0.0.1", "255.255.255.255"};
    const char* s6[] = {"fe80::1:2", "1:2:3:4:5:6:7:8", "::ffff:1.2.3.4", "2001:db8::ff00:42:8329"};
    const char* sh[] = {"00:1a:2B:ff:9c:f0", "ff:ff:ff:ff:ff:ff"};
    for (auto s : s4) ed.push_back(EditCfg{F_V4, s, ea, depth, slices});
    for (auto s : s6) ed.push_back(EditCfg{F_V6, s, ea, depth, slices});
    for (auto s : sh) ed.push_back(EditCfg{F_HW, s, ea, depth, slices});
    ed.push_back(EditCfg{F_HW2, "0a:F1", ea, 2, 1});
}

struct ByteCfg { int fam; const char* seed; };
static const ByteCfg BYTE_SEEDS[] = {
    {F_V4, "192.168.10.255"}, {F_V4, "10.0.0.1"}, {F_V4, "255.255.255.255"}, {F_V4, "0.0.0.0"}, {F_V4, "1.22.133.4"},
    {F_V6, "fe80::1:2"}, {F_V6, "1:2:3:4:5:6:7:8"}, {F_V6, "::ffff:1.2.3.4"}, {F_V6, "2001:db8::ff00:42:8329"}, {F_V6, "::"}, {F_V6, "ABCD:ef01::9"},
    {F_HW, "00:1a:2B:ff:9c:f0"}, {F_HW, "ff:ff:ff:ff:ff:ff"}, {F_HW, "09:af:AF:90:a0:0f"}, {F_HW, "01:23:45"},
    {F_HW2, "0a:F1"}, {F_HW2, "9f:A0"}, {F_HW2, "00"},
};
static const size_t N_BYTE_SEEDS = sizeof BYTE_SEEDS / sizeof BYTE_SEEDS[0];

static std::vector<u128> explicit_set(int bits) {
    u128 M = maxv(bits), mid = (u128)1 << (bits - 1);
    std::set<u128> s;
    for (u128 k = 0; k <= 5; ++k) { s.insert(k); s.insert(M - k); }
    u128 v[] = {0xfe, 0xff, 0x100, 0x101, 0xffff, 0x10000, 0x10001, M - 0x10000, M - 0xffff, M - 0x100, M - 0xff, mid - 1, mid, mid + 1, mid + 0xffff, mid - 0x10000};
    for (u128 x : v) s.insert(x & M);
    return std::vector<u128>(s.begin(), s.end());
}
static std::vector<u128> mask_bases(int bits) {
    u128 M = maxv(bits);
    u128 pat = 0; for (int i = 0; i < bits / 8; ++i) pat = (pat << 8) | (u128)(0xa5 ^ (i * 0x11));
    u128 v[] = {0, 1, M, M - 1, pat & M, (~pat) & M, (u128)1 << (bits - 1), ((u128)1 << (bits - 1)) - 1, M << 8 & M, 0xff, M - 0xff, M << 16 & M};
    return std::vector<u128>(v, v + sizeof v / sizeof v[0]);
}

static std::vector<Unit> build_units(bool thorough) {
    std::vector<Unit> u;
    auto add = [&](int part, int fam, int i0, int i1, int i2, uint64_t lo, uint64_t hi) { u.push_back(Unit{part, fam, i0, i1, i2, lo, hi, "", ""}); };
    // rt4
    if (thorough && !g_reduced) for (uint64_t c = 0; c < 256; ++c) add(P_RT4, F_V4, 0, 0, 0, c << 24, ((c + 1) << 24) - 1);
    else add(P_RT4, F_V4, thorough ? 16 : 12, 0, 0, 0, 0);        // all addresses with bytes from the 12 / 16 value set
    if (thorough && g_reduced) {   // four dense 2^18 windows under the sanitizers
        static const uint64_t base[] = {0x00000000ull, 0x7ffe0000ull, 0xc0a70000ull, 0xfffc0000ull};
        for (uint64_t b : base) add(P_RT4, F_V4, 0, 1, 0, b, b + 0x3ffff);
    }
    if (!thorough && !g_reduced) for (uint64_t c = 0; c < 16; ++c) add(P_RT4, F_V4, 0, 1, 0, (c * 0x11111111ull) & 0xfff00000ull, ((c * 0x11111111ull) & 0xfff00000ull) + 0xfffff); // quick/fast: 16 dense 2^20 windows
    // rt6 / rthw
    for (int s = 0; s < 4; ++s) add(P_RT6, F_V6, s, 4, 0, 0, 0);
    for (int s = 0; s < 4; ++s) add(P_RTHW, F_HW, s, 4, 0, 0, 0);
    // ord: one unit per family and slice of rows
    for (int f = F_V4; f <= F_HW; ++f) for (int s = 0; s < 4; ++s) add(P_ORD, f, s, 4, 0, 0, 0);
    // strings
    std::vector<EnumCfg> en; std::vector<TokCfg> tk; std::vector<EditCfg> ed;
    str_configs(thorough, en, tk, ed);
    for (size_t c = 0; c < en.size(); ++c) for (size_t f = 0; f < en[c].alpha.size(); ++f) add(P_STR_ENUM, en[c].fam, (int)c, (int)f, 0, 0, 0);
    for (size_t c = 0; c < tk.size(); ++c) for (size_t f = 0; f < tk[c].tok.size(); ++f) add(P_STR_TOK, tk[c].fam, (int)c, (int)f, 0, 0, 0);
    for (size_t c = 0; c < ed.size(); ++c) for (int s = 0; s < ed[c].slices; ++s) add(P_STR_EDIT, ed[c].fam, (int)c, s, 0, 0, 0);
    // single foreign byte (same in both tiers and stages); pairs over the neighbour set in the thorough tier; all byte pairs of one group for the hw parser
    for (size_t c = 0; c < N_BYTE_SEEDS; ++c) {
        add(P_STR_BYTE, BYTE_SEEDS[c].fam, (int)c, 0, 0, 0, 0);
        if (thorough) add(P_STR_BYTE, BYTE_SEEDS[c].fam, (int)c, 1, 0, 0, 0);
        if ((BYTE_SEEDS[c].fam == F_HW || BYTE_SEEDS[c].fam == F_HW2) && strlen(BYTE_SEEDS[c].seed) >= 5 && (c == 11 || c == 15)) add(P_STR_BYTE, BYTE_SEEDS[c].fam, (int)c, 2, 0, 0, 0);
    }
    // structured IPv6 texts: one unit per ("::" width, tail, first token)
    {
        std::vector<std::string> tok; v6s_tokens(thorough, tok);
        for (int tail = 0; tail < 2; ++tail) for (int z = 0; z <= 8 - 2 * tail; ++z) {
            int g = 8 - z - 2 * tail;
            for (size_t f = 0; f < (g ? tok.size() : 1); ++f) add(P_STR_V6S, F_V6, z, tail, (int)f, 0, 0);
        }
    }
    // ranges: one unit per (family, prefix length)
    for (int p = 0; p <= 32; ++p) add(P_RNG_PREFIX, F_V4, p, 0, 0, 0, 0);
    for (int p = 0; p <= 128; ++p) add(P_RNG_PREFIX, F_V6, p, 0, 0, 0, 0);
    for (int p = 0; p <= 48; ++p) add(P_RNG_PREFIX, F_HW, p, 0, 0, 0, 0);
    for (int f = F_V4; f <= F_HW; ++f) for (int s = 0; s < 4; ++s) add(P_RNG_MASK, f, s, 4, 0, 0, 0);
    for (int f = F_V4; f <= F_HW; ++f) for (int s = 0; s < 4; ++s) add(P_RNG_EXPLICIT, f, s, 4, 0, 0, 0);
    for (int f = F_V4; f <= F_HW; ++f) add(P_RNG_MISC, f, 0, 0, 0, 0, 0);
    // the complete 2^32 iteration of the whole IPv4 space (fast stage, thorough tier only)
    if (thorough && !g_reduced) { add(P_RNG_FULL, F_V4, 0, 0, 0, 0, 0); add(P_RNG_FULL, F_V4, 1, 0, 0, 0, 0); }
    return u;
}

// ---- unit bodies
static void run_rt4(const Unit& un) {
    typedef Tr<IPv4Address> T;
    uint64_t n = 0, bad = 0;
    if (un.i0) {
        const uint8_t* set = un.i0 == 16 ? SET16 : SET12; int k = un.i0;
        for (int a = 0; a < k; ++a) for (int b = 0; b < k; ++b) for (int c = 0; c < k; ++c) for (int d = 0; d < k; ++d) {
            u128 v = ((u128)set[a] << 24) | ((u128)set[b] << 16) | ((u128)set[c] << 8) | set[d];
            if (!roundtrip_one<IPv4Address>(v, false)) ++bad;
            ++n;
        }
    } else {
        // dense sweep; the body is roundtrip_one's logic without string building on the success path
        IPv4Address prev = T::mk(un.lo);
        for (uint64_t v = un.lo; v <= un.hi; ++v) {
            if ((v & 0xfffff) == 0 && deadline_reached()) { R.flags["exhaustive"] = false; R.count("rt4_cut_by_deadline"); break; }
            uint32_t be = htonl((uint32_t)v);
            IPv4Address a(be);
            bool ok = (uint32_t)a == be;
            if (ok) {
                try {
                    IPv4Address b(a.to_string());
                    char ref[20];
                    snprintf(ref, sizeof ref, "%u.%u.%u.%u", (unsigned)(v >> 24) & 255, (unsigned)(v >> 16) & 255, (unsigned)(v >> 8) & 255, (unsigned)v & 255);
                    IPv4Address c(ref);
                    ok = b == a && (uint32_t)b == be && c == a;
                    if (ok && v != un.lo) ok = prev < a && !(a < prev) && !(a == prev);
                } catch (std::exception&) { ok = false; }
            }
            if (!ok && bad < 50) { ++bad; if (roundtrip_one<IPv4Address>(v, false)) viol("order:v4:successor-not-greater", T::text(v - 1) + " < " + T::text(v) + " does not hold", "part=ord fam=v4 x=" + hx(v - 1, 32) + " y=" + hx(v, 32)); }
            prev = a;
            ++n;
        }
    }
    R.count("rt_addresses_v4", n); R.count("evaluations", n);
    dist_nontrivial("rt4|" + str(un.lo) + "|" + str(un.i0));
}
static void run_rt6(const Unit& un, bool thorough) {
    // every address with <= 3 (thorough: 4) non-zero 16-bit groups from a small value set at any position; every zero/non-zero
    // group pattern (all 256: this is what decides where to_string() puts "::"); v4-mapped / compatible; the boundary set
    std::vector<u128> v;
    std::vector<uint16_t> vals = {1, 0xff, 0x100, 0xffff};
    if (thorough) { vals.push_back(0x8000); vals.push_back(0xfffe); }
    int maxnz = thorough ? 4 : 3;
    for (unsigned m = 0; m < 256; ++m) {
        int nz = __builtin_popcount(m);
        if (nz <= maxnz) {
            // all assignments of vals to the nz positions
            std::vector<int> pos; for (int g = 0; g < 8; ++g) if (m >> g & 1) pos.push_back(g);
            uint64_t combos = 1; for (int i = 0; i < nz; ++i) combos *= vals.size();
            for (uint64_t c = 0; c < combos; ++c) {
                u128 x = 0; uint64_t cc = c;
                for (int i = 0; i < nz; ++i) { x |= (u128)vals[cc % vals.size()] << (16 * (7 - pos[i])); cc /= vals.size(); }
                v.push_back(x);
            }
        }
        static const uint16_t fill[] = {1, 0xffff, 0xabcd, 0x10};
        for (uint16_t f : fill) { u128 x = 0; for (int g = 0; g < 8; ++g) if (m >> g & 1) x |= (u128)f << (16 * (7 - g)); v.push_back(x); }
    }
    for (int i = 0; i < 12; ++i) for (int j = 0; j < 12; ++j) {
        u128 low = ((u128)SET12[i] << 24) | ((u128)SET12[j] << 16) | ((u128)SET12[(i + j) % 12] << 8) | SET12[(i * 7 + j) % 12];
        v.push_back(low); v.push_back(((u128)0xffff << 32) | low); v.push_back(((u128)0x64ff9b) << 96 | low); v.push_back(((u128)1 << 32) | low);
    }
    for (u128 b : boundary(128, bnd_level(thorough))) v.push_back(b);
    uint64_t n = 0;
    for (size_t i = un.i0; i < v.size(); i += un.i1) {
        roundtrip_one<IPv6Address>(v[i], true); ++n;
        if (Mon::errors) san_check([&]() { return "part=rt fam=v6 addr=" + hx(v[i], 128); });
    }
    R.count("rt_addresses_v6", n); R.count("evaluations", n);
    dist_nontrivial("rt6|" + str(un.i0));
}
static void run_rthw(const Unit& un, bool thorough) {
    static const uint8_t s6[] = {0x00, 0x01, 0x0a, 0x7f, 0xa0, 0xff}, s10[] = {0x00, 0x01, 0x09, 0x0a, 0x0f, 0x10, 0x7f, 0x9a, 0xf0, 0xff};
    const uint8_t* set = thorough ? s10 : s6; int k = thorough ? 10 : 6;
    if (g_reduced && !thorough) k = 5;
    uint64_t n = 0, idx = 0;
    uint64_t total = 1; for (int i = 0; i < 6; ++i) total *= k;
    for (uint64_t c = un.i0; c < total; c += un.i1) {
        u128 x = 0; uint64_t cc = c;
        for (int i = 0; i < 6; ++i) { x = (x << 8) | set[cc % k]; cc /= k; }
        roundtrip_one<HW6>(x, true); ++n; ++idx;
        if (Mon::errors) san_check([&]() { return "part=rt fam=hw addr=" + hx(x, 48); });
    }
    auto B = boundary(48, bnd_level(thorough));
    for (size_t i = un.i0; i < B.size(); i += un.i1) { roundtrip_one<HW6>(B[i], true); ++n; }
    // every byte value in every position (the hex formatter / parser tables)
    if (un.i0 == 0) for (int pos = 0; pos < 6; ++pos) for (int b = 0; b < 256; ++b) { roundtrip_one<HW6>((u128)b << (8 * pos), true); roundtrip_one<HW6>(maxv(48) ^ ((u128)b << (8 * pos)), true); n += 2; }
    R.count("rt_addresses_hw", n); R.count("evaluations", n);
    dist_nontrivial("rthw|" + str(un.i0));
}
template <class A> static void run_ord(const Unit& un, bool thorough) {
    auto B = boundary(Tr<A>::bits, bnd_level(thorough));
    R.maxv(std::string("boundary_set_size_") + Tr<A>::name(), B.size());
    for (size_t i = un.i0; i < B.size(); i += un.i1) check_order_row<A>(B, i);
}
template <class A> static void run_rng_prefix(const Unit& un, bool thorough) {
    auto B = boundary(Tr<A>::bits, bnd_level(thorough));
    std::set<std::string> seen;
    int p = un.i0;
    for (u128 b : B) {
        if (deadline_reached()) { R.flags["exhaustive"] = false; break; }
        check_range<A>(RangeCase{0, p, b, 0, true, 0}, &seen);
        check_range<A>(RangeCase{1, p, b, 0, true, 0}, &seen);
    }
}
template <class A> static void run_rng_mask(const Unit& un, bool thorough) {
    auto masks = boundary(Tr<A>::bits, bnd_level(thorough));
    auto bases = mask_bases(Tr<A>::bits);
    std::set<std::string> seen;
    size_t k = 0;
    for (u128 a : bases) for (u128 m : masks) { if (k++ % un.i1 != (size_t)un.i0) continue; check_range<A>(RangeCase{2, -1, a, m, true, 0}, &seen); }
}
template <class A> static void run_rng_explicit(const Unit& un) {
    auto E = explicit_set(Tr<A>::bits);
    size_t k = 0;
    for (u128 a : E) for (u128 b : E) for (int h = 0; h < 2; ++h) { if (k++ % un.i1 != (size_t)un.i0) continue; check_range<A>(RangeCase{3, -1, a, b, h == 1, 0}, 0); }
}
template <class A> static void run_rng_misc() {
    typedef Tr<A> T;
    u128 M = maxv(T::bits);
    int over[] = {T::bits + 1, T::bits + 2, T::bits + 8, 255, 256, 1000, 0x7fffffff};
    u128 bases[] = {0, 1, M, M >> 1};
    for (u128 b : bases) for (int p : over) check_overlong_prefix<A>(b, p);
    check_postincrement<A>(0x0a000000 & M, (0x0a000000 & M) + 3);
    check_postincrement<A>(M - 3, M);
    check_postincrement<A>(0, 1);
}
static void run_rng_full(const Unit& un) {
    // the whole IPv4 space: 0.0.0.0/0 (hosts: 2^32 - 2 addresses) and [0.0.0.0, 255.255.255.255] (2^32 addresses)
    RangeCase c = un.i0 == 0 ? RangeCase{0, 0, 0, 0, true, ((uint64_t)1 << 32) + 2} : RangeCase{3, -1, 0, 0xffffffffu, false, ((uint64_t)1 << 32) + 2};
    check_range<IPv4Address>(c, 0);
}

static void run_unit(const Unit& un, bool thorough) {
    switch (un.part) {
    case P_RT4: run_rt4(un); break;
    case P_RT6: run_rt6(un, thorough); break;
    case P_RTHW: run_rthw(un, thorough); break;
    case P_ORD:
        if (un.fam == F_V4) run_ord<IPv4Address>(un, thorough); else if (un.fam == F_V6) run_ord<IPv6Address>(un, thorough); else run_ord<HW6>(un, thorough);
        break;
    case P_STR_ENUM: case P_STR_TOK: case P_STR_EDIT: {
        std::vector<EnumCfg> en; std::vector<TokCfg> tk; std::vector<EditCfg> ed;
        str_configs(thorough, en, tk, ed);
        StrStats st;
        if (un.part == P_STR_ENUM) {
            const EnumCfg& c = en[un.i0];
            if (c.fam == F_V4) enum_strings<IPv4Address>(c.alpha, c.L, un.i1, st); else if (c.fam == F_V6) enum_strings<IPv6Address>(c.alpha, c.L, un.i1, st);
            else if (c.fam == F_HW) enum_strings<HW6>(c.alpha, c.L, un.i1, st); else enum_strings<HW2>(c.alpha, c.L, un.i1, st);
            R.maxv(std::string("max_string_length_exhaustive_") + fam_name(c.fam), c.L);
        } else if (un.part == P_STR_TOK) {
            const TokCfg& c = tk[un.i0];
            if (c.fam == F_V4) enum_tokens<IPv4Address>(c.tok, c.sep, c.K, un.i1, st); else if (c.fam == F_V6) enum_tokens<IPv6Address>(c.tok, c.sep, c.K, un.i1, st);
            else if (c.fam == F_HW) enum_tokens<HW6>(c.tok, c.sep, c.K, un.i1, st);
            else if (c.fam == F_HW3) enum_tokens<HW3>(c.tok, c.sep, c.K, un.i1, st); else enum_tokens<HW8>(c.tok, c.sep, c.K, un.i1, st);
        } else {
            const EditCfg& c = ed[un.i0];
            if (c.fam == F_V4) enum_edits<IPv4Address>(c.seed, c.alpha, c.depth, un.i1, c.slices, st); else if (c.fam == F_V6) enum_edits<IPv6Address>(c.seed, c.alpha, c.depth, un.i1, c.slices, st);
            else if (c.fam == F_HW) enum_edits<HW6>(c.seed, c.alpha, c.depth, un.i1, c.slices, st); else enum_edits<HW2>(c.seed, c.alpha, c.depth, un.i1, c.slices, st);
        }
        flush_stats(fam_name(un.fam), st);
        break;
    }
    case P_STR_V6S: {
        std::vector<std::string> tok; v6s_tokens(thorough, tok);
        StrStats st;
        enum_v6_structured(un.i0, un.i1, un.i2, tok, st);
        flush_stats("v6", st);
        R.count("structured_v6_strings", st.total); R.count("structured_v6_strings_accepted", st.acc);
        break;
    }
    case P_STR_BYTE: {
        const ByteCfg& c = BYTE_SEEDS[un.i0];
        StrStats st;
        if (c.fam == F_V4) enum_foreign_bytes<IPv4Address>(c.seed, un.i1, st); else if (c.fam == F_V6) enum_foreign_bytes<IPv6Address>(c.seed, un.i1, st);
        else if (c.fam == F_HW) enum_foreign_bytes<HW6>(c.seed, un.i1, st); else enum_foreign_bytes<HW2>(c.seed, un.i1, st);
        flush_stats(fam_name(un.fam), st);
        std::string f = fam_name(un.fam);
        R.count("foreign_byte_strings_" + f, st.total); R.count("foreign_byte_strings_" + f + "_accepted", st.acc);
        R.count("foreign_byte_strings_" + f + "_rejected", st.rej); R.count("foreign_byte_strings_" + f + "_unspecified_not_compared", st.unspec);
        break;
    }
    case P_RNG_PREFIX:
        if (un.fam == F_V4) run_rng_prefix<IPv4Address>(un, thorough); else if (un.fam == F_V6) run_rng_prefix<IPv6Address>(un, thorough); else run_rng_prefix<HW6>(un, thorough);
        break;
    case P_RNG_MASK:
        if (un.fam == F_V4) run_rng_mask<IPv4Address>(un, thorough); else if (un.fam == F_V6) run_rng_mask<IPv6Address>(un, thorough); else run_rng_mask<HW6>(un, thorough);
        break;
    case P_RNG_EXPLICIT:
        if (un.fam == F_V4) run_rng_explicit<IPv4Address>(un); else if (un.fam == F_V6) run_rng_explicit<IPv6Address>(un); else run_rng_explicit<HW6>(un);
        break;
    case P_RNG_MISC:
        if (un.fam == F_V4) run_rng_misc<IPv4Address>(); else if (un.fam == F_V6) run_rng_misc<IPv6Address>(); else run_rng_misc<HW6>();
        break;
    case P_RNG_FULL: run_rng_full(un); break;
    }
}

// ---------------------------------------------------------------- replay of one case string
template <class A> static void replay_family(std::map<std::string, std::string>& kv) {
    typedef Tr<A> T;
    const std::string part = kv["part"];
    if (part == "str") { StrStats st; check_string<A>(sunhex(kv["s"]), st); }
    else if (part == "rt") roundtrip_one<A>(unhx(kv["addr"]), true);
    else if (part == "ord") {
        std::vector<u128> B; B.push_back(unhx(kv["x"]));
        if (kv["y"] == "all") { B = boundary(T::bits, 2); B.insert(B.begin(), unhx(kv["x"])); } else B.push_back(unhx(kv["y"]));
        check_order_row<A>(B, 0);
    }
}
template <class A> static void replay_range(std::map<std::string, std::string>& kv) {
    const std::string part = kv["part"];
    if (part == "rng") {
        RangeCase c{atoi(kv["kind"].c_str()), atoi(kv["plen"].c_str()), unhx(kv["a"]), unhx(kv["b"]), kv["hosts"] == "1", strtoull(kv["limit"].c_str(), 0, 10)};
        check_range<A>(c, 0);
    } else if (part == "postinc") check_postincrement<A>(unhx(kv["a"]), unhx(kv["b"]));
    else if (part == "overlong") check_overlong_prefix<A>(unhx(kv["a"]), atoi(kv["plen"].c_str()));
    else replay_family<A>(kv);
}
static int replay(const std::string& kase) {
    g_replaying = true;
    auto kv = kvparse(kase);
    Mon::reset();
    std::string fam = kv["fam"], part = kv["part"];
    printf("replaying: %s\n", kase.c_str());
    if (part == "unit") {
        A.tier = kv["tier"]; g_reduced = kv["reduced"] == "1";
        auto U = build_units(A.thorough());
        size_t i = (size_t)atoi(kv["idx"].c_str());
        if (i >= U.size()) { printf("no such unit\n"); return 2; }
        run_unit(U[i], A.thorough());
    } else if (fam == "v4") replay_range<IPv4Address>(kv);
    else if (fam == "v6") replay_range<IPv6Address>(kv);
    else if (fam == "hw") replay_range<HW6>(kv);
    else if (fam == "hw2") replay_family<HW2>(kv);
    else if (fam == "hw3") replay_family<HW3>(kv);
    else if (fam == "hw8") replay_family<HW8>(kv);
    else { printf("cannot parse case\n"); return 2; }
    if (Mon::errors) { printf("sanitizer report: %s (%s)\n", Mon::first.c_str(), Mon::first_detail.c_str()); ++g_replay_hits; }
    if (g_replay_hits) { printf("violation reproduced (%d)\n", g_replay_hits); return 1; }
    printf("case replayed, property holds on it\n");
    return 0;
}

int main(int argc, char** argv) {
    for (int i = 1; i < argc; ++i) if (std::string(argv[i]) == "--reduced") g_reduced = true;
    return run_main(argc, argv, 48, 96,
        [](int job) {
            bool th = A.thorough();
            int nj = th ? 96 : 48;
            auto U = build_units(th);
            uint64_t idx = 0;
            for (size_t i = job; i < U.size(); i += nj, ++idx) {
                if (idx < A.skip) continue;
                if (deadline_reached()) { R.flags["exhaustive"] = false; R.count("units_not_run_deadline"); continue; }
                const Unit& un = U[i];
                std::string ctx = std::string(part_name(un.part)) + ":" + fam_name(un.fam);
                set_case(idx, ctx, "part=unit idx=" + str(i) + " tier=" + A.tier + " reduced=" + str((int)g_reduced));
                Mon::reset();
                run_unit(un, th);
                if (Mon::errors) san_check([&]() { return "part=unit idx=" + str(i) + " tier=" + A.tier + " reduced=" + str((int)g_reduced); });
                R.count("units");
            }
            if (job == 0 && g_reduced) R.sample(jstr("stage san (ASan+UBSan; quick: reduced bounds, thorough: everything but the 2^32 sweeps): " + str(U.size()) + " units over " + str(nj) + " jobs"));
            if (job == 0 && !g_reduced) {
                R.sample(jstr("str case: IPv6Address(\"1::1:1.2.3.4\") -> reference RFC 4291 acceptor says VALID 0001:0:0:0:0:1:0102:0304; the constructor must accept and yield those bytes"));
                R.sample(jstr("rng case: 255.255.255.252/30 -> first 255.255.255.252, last 255.255.255.255, contains() on 14 probe points, is_iterable() = true, iteration = [255.255.255.253, 255.255.255.254] then end()"));
                R.sample(jstr("stage fast (-O2): " + str(U.size()) + " units over " + str(nj) + " jobs"));
            }
        },
        replay);
}
